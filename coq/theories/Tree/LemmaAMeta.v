(** Lemma A (tables) with an ARBITRARY metadata provider (property C13: supplying table metadata never
    changes table-level lineage).

    SUMMARY
    - [lemma_A_tables_any_provider]: the conclusion of [lemma_A_tables_restricted] (Tree/LemmaAProofs.v) under the
      guard [env_ok_md], which is [env_ok] WITHOUT the conjunct "the provider holds nothing".  No condition on what
      the provider answers ([p_cols]) is needed: column names may be empty, "*", duplicated, quoted ...
    - [metadata_never_changes_tables]: two environments that differ only in the provider report the same tables.
    - [analysis_succeeds_any_provider]: on the fragment the analysis returns a (well-formed) holder whatever the provider.
    - [lemma_A_md_tests]: the executable form of the statement on 18 statements x 14 providers x 3 trivia lists.

    HOW
    The provider is consulted at two places of the tree model only (Tree/Holder.v [expand_wildcard], KTable branch;
    Tree/Extract.v XCreateInsert, the target of an INSERT).  Both only add column nodes and has_column / lineage
    edges, i.e. they are [cstep]s (same tagged datasets, invariant [gok] kept):
      [expand_wildcard_any] generalises [expand_wildcard_ok], [ci_tref_md] / [WF_target] the INSERT target.
    The navigation lemmas of LemmaAProofs.v do not mention the provider; those that were proved under [env_ok]
    are transported through [strip e] (the same environment with a falsy provider) and the congruences of Part T.
    Only the lemmas whose conclusion contains a whole extraction are re-proved (same scripts, weaker hypothesis):
    select_tail, select_core, union_core, body_main, delegate_body, xcte_ok, ci_source .. create_ok. *)
From Coq Require Import Permutation.
From SV Require Import Tree.Render Tree.LemmaA Ident.Escape Ident.EscapeProofs Holder.PathProofs Holder.SortProofs.
From SV Require TriviaProofs.
From SV Require Import Tree.LemmaAProofs.

(* ================================================================== *)
(** * The guard, and the statement in executable form *)
Definition env_ok_md (e : env) : bool :=
  negb (e_vertica e) && (String.eqb (e_cfg e) "" || id_ok (e_cfg e)) && String.eqb (e_icfg e) (e_cfg e).

Definition lemma_A_md_check (noise : list seg) (e : env) (s : stmt) : string :=
  if negb (noise_ok noise && env_ok_md e && stmt_ok s && sshape s) then "outside"
  else if list_eqb (stmt_reads (analyze e false (r_stmt noise s))) (sort_strings (spec_reads (e_cfg e) s))
          && list_eqb (stmt_writes (analyze e false (r_stmt noise s))) (sort_strings (spec_writes (e_cfg e) s))
       then "holds" else "FAILS".

Module MdTests.
  Definition T (n : string) := RTable (None, n) None.
  Definition TA (n a : string) := RTable (None, n) (Some a).
  Definition col (c : string) := IExpr (EColRef None c) None.
  Definition qcol (q c : string) := IExpr (EColRef (Some q) c) None.
  Definition acol (c a : string) := IExpr (EColRef None c) (Some a).
  Definition star := IStar None.
  Definition sel items from := QSelect items from false None.
  Definition stmts : list stmt := [
    SInsert (None, "tgt") None (sel [star] [T "t"]);
    SInsert (None, "tgt") (Some ["x"; "y"]) (sel [star] [T "t"]);
    SInsert (None, "tgt") (Some ["x"]) (sel [col "a"; col "b"] [T "t"; T "u"]);
    SInsert (None, "tgt") None (sel [col "a"; col "zz"; qcol "u" "b"] [T "t"; T "u"]);
    SInsert (None, "tgt") None (sel [star] [RDerived (sel [star] [T "t"]) "d"]);
    SInsert (None, "tgt") None (sel [IStar (Some "d"); col "a"] [RDerived (sel [star; acol "a" "k"] [T "t"; TA "u" "v"]) "d"; T "u"]);
    SInsert (None, "tgt") None (QUnion (sel [star] [T "t"]) (sel [col "a"] [T "u"]));
    SInsert (Some "s", "tgt") None (QWith "c" (sel [star] [T "t"]) (sel [star] [T "c"; T "u"]));
    SInsert (None, "t") None (sel [star] [T "t"]);
    SInsert (None, "tgt") None (QSelect [star] [T "t"] false (Some ("a", sel [star] [T "u"])));
    SCtas (None, "tgt") (sel [star] [T "t"; T "u"]);
    SView (None, "tgt") (sel [star; col "a"] [RDerived (sel [star] [T "t"]) "d"]);
    SQuery (sel [star] [T "t"; RDerived (sel [star] [T "u"]) "d"]);
    SQuery (QUnion (sel [star] [T "t"]) (sel [star] [T "u"]));
    SQuery (QWith "c" (sel [star] [T "t"]) (sel [star] [T "c"; T "u"]));
    SInsert (None, "tgt") None (QSelect [star] [T "t"; T "u"] true None);
    SInsert (None, "tgt") None (sel [star; star] [T "t"; T "t"]);
    SInsert (None, "tgt") None (sel [IStar (Some "t"); IStar (Some "x")] [T "t"; TA "u" "x"])
  ].
  (** what the provider knows: nothing / the source / the target / everything / odd column names / other tables *)
  Definition provs : list (list (string * list string)) := [
    [];
    [("<default>.t", ["a"; "b"])];
    [("<default>.tgt", ["a"; "b"])];
    [("<default>.tgt", ["a"; "b"; "c"]); ("<default>.t", ["a"; "b"]); ("<default>.u", ["a"; "c"])];
    [("<default>.tgt", ["*"; ""; "a"; "a"]); ("<default>.t", ["*"; ""; "a"; "a"; "A"; """a"""]); ("<default>.u", [])];
    [("s.tgt", ["a"]); ("<default>.t", ["*"]); ("<default>.u", ["a"; "*"]); ("<default>.c", ["q"])];
    [("<default>.t", [""]); ("<default>.tgt", [""])]
  ].
  Definition envs := flat_map (fun pc => [mk_env "ansi" "" "" {| p_truthy := true; p_cols := pc |} [];
                                          mk_env "ansi" "" "" {| p_truthy := false; p_cols := pc |} []]) provs.
  Definition envs2 := map (fun pc => mk_env "ansi" "main" "main" {| p_truthy := true; p_cols := pc |} [])
    [[("main.tgt", ["a"; "b"; "c"]); ("main.t", ["a"; "b"]); ("main.u", ["a"; "c"])]; [("main.t", ["*"; ""])]].
  Definition W := Seg "whitespace" "whitespace" ["whitespace"] " " true false false [].
  Definition Cm := Seg "comment" "comment" ["comment"; "raw"] "--x" false true false [].
  Definition noises := [[]; [W]; [W; Cm; W]].
  Definition all_checks :=
    flat_map (fun n => flat_map (fun e => map (fun s => lemma_A_md_check n e s) stmts) (envs ++ envs2)) noises.
  (** the metadata is really used: the full holder graphs differ (17 of the 18 statements) *)
  Definition e_all := mk_env "ansi" "" "" {| p_truthy := true; p_cols := nth 3 provs [] |} [].
  Definition e_none := mk_env "ansi" "" "" {| p_truthy := false; p_cols := [] |} [].
  Definition graphs_differ :=
    List.length (filter (fun s => negb (String.eqb (show_analysis e_all false (r_stmt [] s)) (show_analysis e_none false (r_stmt [] s)))) stmts).
End MdTests.

Lemma lemma_A_md_tests :
  List.length MdTests.all_checks = 864 /\ forallb (String.eqb "holds") MdTests.all_checks = true /\ MdTests.graphs_differ = 17.
Proof. vm_compute. repeat split. Qed.

(* ================================================================== *)
(** * Part T: the functions that never consult the provider *)
Definition same_np (e e' : env) : Prop :=
  e_cfg e = e_cfg e' /\ e_icfg e = e_icfg e' /\ e_vertica e = e_vertica e' /\ e_scalar e = e_scalar e'.

Lemma mk_table_np e e' : same_np e e' -> mk_table e = mk_table e'.
Proof. intros (Hcfg & Hicfg & _). unfold mk_table. rewrite Hcfg, Hicfg. reflexivity. Qed.

Lemma table_of_seg_np e e' : same_np e e' -> table_of_seg e = table_of_seg e'.
Proof. intros H. unfold table_of_seg. rewrite (mk_table_np e e' H), (proj1 H). reflexivity. Qed.

Lemma extract_sources_np fuel e e' : same_np e e' -> extract_sources fuel e = extract_sources fuel e'.
Proof.
  intros H. pose proof H as (_ & _ & _ & Hsc). induction fuel as [|k IHk]; [reflexivity|].
  cbn [extract_sources]. rewrite IHk, Hsc. reflexivity.
Qed.

Lemma column_of_seg_np fuel e e' : same_np e e' -> column_of_seg fuel e = column_of_seg fuel e'.
Proof.
  intros H. unfold column_of_seg, get_column_and_alias. rewrite (extract_sources_np fuel e e' H). reflexivity.
Qed.

Lemma list_tables_np e e' : same_np e e' -> list_tables e = list_tables e'.
Proof.
  intros H. unfold list_tables, list_tables_one, add_dataset_from_fee. rewrite (table_of_seg_np e e' H). reflexivity.
Qed.

Lemma handle_child_np fuel e e' : same_np e e' -> handle_child fuel e = handle_child fuel e'.
Proof.
  intros H. unfold handle_child, handle_swap_partition, handle_select_into, find_table.
  rewrite (mk_table_np e e' H), (table_of_seg_np e e' H), (list_tables_np e e' H), (column_of_seg_np fuel e e' H),
    (proj1 (proj2 (proj2 H))). reflexivity.
Qed.

(** the same environment without metadata *)
Definition strip (e : env) : env :=
  {| e_cfg := e_cfg e; e_icfg := e_icfg e; e_vertica := e_vertica e;
     e_provider := {| p_truthy := false; p_cols := p_cols (e_provider e) |}; e_scalar := e_scalar e |}.

Lemma strip_np e : same_np (strip e) e.
Proof. repeat split. Qed.

Lemma strip_ok e : env_ok_md e = true -> env_ok (strip e) = true.
Proof. intros H. exact H. Qed.

Lemma env_ok_weaken e : env_ok e = true -> env_ok_md e = true.
Proof.
  unfold env_ok, env_ok_md. intros H. apply andb_true_iff in H. destruct H as [H H4]. apply andb_true_iff in H. destruct H as [H H3].
  apply andb_true_iff in H. destruct H as [_ H2]. rewrite H2, H3, H4. reflexivity.
Qed.

(* ================================================================== *)
(** * Part C': wildcard expansion with any provider *)
Lemma in_edges_src_nok g n e0 : gok g -> In e0 (in_edges g n) -> nok (fst (fst e0)).
Proof.
  intros [_ Hg] Hin. unfold in_edges in Hin. apply filter_In in Hin. destruct Hin as [Hin _].
  rewrite Forall_forall in Hg. exact (proj1 (Hg e0 Hin)).
Qed.

Lemma source_columns_nok g c sw : gok g -> In sw (get_source_columns g c) -> nok (NCol sw).
Proof.
  intros Hg Hin. unfold get_source_columns in Hin. apply in_flat_map in Hin. destruct Hin as (e0 & He0 & Hin).
  pose proof (in_edges_src_nok g _ e0 Hg He0) as Hn.
  destruct (String.eqb (etype (snd e0)) "lineage"); [|destruct Hin].
  destruct (fst (fst e0)) as [d|c'|s]; [destruct Hin| |destruct Hin]. destruct Hin as [<-|[]]. exact Hn.
Qed.

Lemma provider_columns_col1 e st : data_ok st -> Forall col1 (provider_columns e st).
Proof.
  intros Hst. unfold provider_columns. apply Forall_forall. intros c Hc. apply in_map_iff in Hc. destruct Hc as (cn & <- & _).
  split; [cbn [nok cparents]; constructor; [exact Hst|constructor]|]. exists st. reflexivity.
Qed.

(** [expand_wildcard_ok] without the hypothesis on the provider *)
Lemma expand_wildcard_any e g : gok g -> exists g', expand_wildcard e g = Ok g' /\ cstep g g'.
Proof.
  intros Hg. unfold expand_wildcard. destruct (get_target_table g) as [tgt|] eqn:Et; [|exists g; split; [reflexivity|apply cstep_refl; exact Hg]].
  pose proof (gok_data g tgt _ Hg (get_target_table_In g tgt Et)) as Htgt.
  apply (fold_res_inv (fun g1 => cstep g g1)); [apply cstep_refl; exact Hg|].
  intros g1 c _ Hg1. destruct (String.eqb (craw c) "*"); [|exists g1; auto].
  assert (Hsrc : Forall (fun sw => nok (NCol sw)) (get_source_columns g1 c)).
  { apply Forall_forall. intros sw Hsw. exact (source_columns_nok g1 c sw (proj1 Hg1) Hsw). }
  revert Hsrc. generalize (get_source_columns g1 c). intros sws Hsws.
  apply (fold_res_inv (fun g2 => cstep g g2)); [exact Hg1|].
  intros g2 sw Hsw Hg2. rewrite Forall_forall in Hsws. specialize (Hsws sw Hsw).
  destruct (col_parent sw) as [st|] eqn:Ep; [|exists g2; auto].
  assert (Hst : data_ok st).
  { pose proof (col_parent_some _ _ Ep) as E4. cbn [nok] in Hsws. rewrite E4 in Hsws. inversion Hsws. assumption. }
  match goal with |- context [match ?C with [] => _ | _ :: _ => _ end] => set (cols := C) end.
  assert (Hcols : Forall col1 cols).
  { unfold cols. destruct (dk st).
    - destruct (p_truthy (e_provider e)); [apply provider_columns_col1; exact Hst|constructor].
    - constructor.
    - apply get_table_columns_col1. exact (proj1 Hg2). }
  destruct cols as [|c0 cs]; [exists g2; auto|].
  destruct (replace_wildcard_ok g2 tgt (c0 :: cs) c sw (proj1 Hg2) Htgt Hcols) as (g3 & E3 & Hg3).
  exists g3. split; [exact E3|]. apply (cstep_trans _ _ _ Hg2 Hg3).
Qed.

(** [select_tail] for any environment *)
Lemma select_tail_any e g1 ts cols bars :
  gok g1 -> Forall data_ok ts -> Forall xcol_ok cols -> List.length (sq_write g1) <= 1 ->
  exists g3, (do g2 <- end_of_query_cleanup e g1 ts cols bars; expand_wildcard e g2) = Ok g3 /\ gok g3 /\
             (forall k, k <> "read" -> holder_nodes g3 k = holder_nodes g1 k) /\
             (forall x, tset g3 "read" x <-> tset g1 "read" x \/ tnames ts x).
Proof.
  intros Hg Hts Hcols Hw. destruct (eoq_ok e g1 ts cols bars Hg Hts Hcols Hw) as (g2 & E2 & Hg2). rewrite E2.
  destruct (expand_wildcard_any e g2 (proj1 Hg2)) as (g3 & E3 & Hg3). rewrite E3.
  exists g3. split; [reflexivity|]. split; [exact (proj1 Hg3)|].
  destruct (fold_add_read ts g1 Hg Hts) as (_ & F2 & F3). split.
  - intros k Hk. rewrite (proj2 Hg3), (proj2 Hg2). apply F2. exact Hk.
  - intros x. rewrite (tset_ext g2 g3 "read" x (proj2 Hg3 "read")), (tset_ext _ g2 "read" x (proj2 Hg2 "read")). apply F3.
Qed.

(* ================================================================== *)
(** * Part M: the extractions, re-proved under [env_ok_md] *)
Section Meta.
Variable noise : list seg.
Hypothesis Hnoise : noise_ok noise = true.
Variable e : env.
Hypothesis Henv : env_ok_md e = true.

(** ** transported through [strip e] *)
Lemma clauses_fold_md f st k items from cj wh ctes :
  body_ok (S k) (QSelect items from cj wh) = true -> gok (s_g st) -> cte_rel (s_g st) ctes ->
  exists ts cols,
    fold_left (fun acc sg => do st4 <- acc; handle_child (S f) e st4 sg) (clauses noise items k from cj wh) (Ok st) =
    Ok {| s_g := s_g st; s_tables := s_tables st ++ ts; s_columns := s_columns st ++ cols; s_barriers := s_barriers st |} /\
    Forall data_ok ts /\ Forall xcol_ok cols /\
    forall x, tnames ts x <-> In x (flat_map (fun p => rel_reads e ctes (snd p)) (FL k from cj)).
Proof.
  intros Hq Hg Hc.
  destruct (clauses_fold noise Hnoise (strip e) (strip_ok e Henv) f st k items from cj wh ctes Hq Hg Hc) as (ts & cols & E & H1 & H2 & H3).
  rewrite (handle_child_np (S f) (strip e) e (strip_np e)) in E.
  exists ts, cols. split; [exact E|]. split; [exact H1|]. split; [exact H2|exact H3].
Qed.

Lemma handle_child_union_md f st k a b :
  handle_child f e st (r_union noise k a b) =
  Ok {| s_g := s_g st; s_tables := s_tables st; s_columns := s_columns st; s_barriers := s_barriers st |}.
Proof.
  rewrite <- (handle_child_np f (strip e) e (strip_np e)). apply (handle_child_union noise (strip e) (strip_ok e Henv)).
Qed.

Lemma table_of_seg_tref_md t alias :
  tref_ok t = true ->
  exists d, table_of_seg e (r_tref t) alias = Ok d /\ dk d = KTable /\ data_ok d /\ dstr d = tref_str (e_cfg e) t.
Proof.
  intros Ht. rewrite <- (table_of_seg_np (strip e) e (strip_np e)).
  exact (table_of_seg_tref (strip e) (strip_ok e Henv) t alias Ht).
Qed.

(** ** one SELECT, one UNION (as in Section SubQ of LemmaAProofs.v) *)
Section SubQ.
Variable ctes : list string.
Variable K : nat.
Hypothesis IHK : forall k q f ctx,
  k < K -> body_ok k q = true -> qd k q < f -> Pre (init_holder ctx) ctes ->
  exists g, extract f e XSelect (r_brq noise k q) ctx = Ok g /\ Post (init_holder ctx) g (q_reads k (e_cfg e) ctes q).

Lemma select_core_md k items from cj wh f ctx seg0 :
  K = S k ->
  body_ok (S k) (QSelect items from cj wh) = true -> qd (S k) (QSelect items from cj wh) < f ->
  Pre (init_holder ctx) ctes -> sel_segments seg0 = clauses noise items k from cj wh ->
  exists g, extract f e XSelect seg0 ctx = Ok g /\
            Post (init_holder ctx) g (q_reads (S k) (e_cfg e) ctes (QSelect items from cj wh)).
Proof.
  intros HK Hq Hf Hpre Hseg. destruct f as [|[|f]]; [cbn [qd] in Hf; lia|cbn [qd] in Hf; lia|].
  rewrite extract_select_eq, Hseg. unfold sel_subqueries. rewrite (proj1 (clauses_subq noise Hnoise e k items from cj wh Hq)), sel_sq_T.
  destruct (ex_subquery_ok noise Hnoise e ctes K IHK (S f) (sel_T k from cj wh) (init_holder ctx)) as (g1 & E1 & HP1).
  { pose proof (sel_T_ok e ctes k items from cj wh Hq) as HT. rewrite Forall_forall in *. intros t Ht. destruct (HT t Ht) as (T1 & T2 & T3).
    split; [rewrite HK; exact T1|]. split; [exact T2|lia]. }
  { exact Hpre. }
  rewrite E1. pose proof (Pre_Post _ _ _ _ Hpre HP1) as (G1 & G2 & G3).
  unfold sel_fold. rewrite (sel_fold_clauses e (S f) _ _ (clauses_not_set noise Hnoise items k from cj wh)).
  destruct (clauses_fold_md f {| s_g := g1; s_tables := []; s_columns := []; s_barriers := [] |} k items from cj wh ctes Hq G1 G2)
    as (ts & cols & E2 & Hts & Hcols & Hx).
  rewrite E2. cbn [s_g s_tables s_columns s_barriers app].
  destruct (select_tail_any e g1 ts cols [] G1 Hts Hcols (one_write_length g1 G1 G3)) as (g3 & E3 & Hg3 & Hk3 & Hr3).
  rewrite E3. exists g3. split; [reflexivity|].
  assert (HP2 : Post g1 g3 (flat_map (fun p => rel_reads e ctes (snd p)) (FL k from cj))).
  { split; [exact Hg3|]. split; [intros x; rewrite Hr3, Hx; reflexivity|]. split; [|split].
    - intros d. rewrite (Hk3 "write") by discriminate. auto.
    - intros d Hd _. rewrite (Hk3 "write") by discriminate. exact Hd.
    - intros d. unfold sq_cte. rewrite (Hk3 "cte") by discriminate. reflexivity. }
  apply (Post_reads_ext _ _ _ _ (fun x => conj (fun H => proj1 (sel_reads_eq e ctes k items from cj wh Hq x) (proj1 (in_app_iff _ _ _) H))
                                                (fun H => proj2 (in_app_iff _ _ _) (proj2 (sel_reads_eq e ctes k items from cj wh Hq x) H)))).
  apply (Post_trans _ _ _ _ _ HP1 HP2).
Qed.

Lemma union_core_md k ia fa ca wa ib fb cb wb f ctx seg0 :
  K = S (S k) ->
  body_ok (S k) (QSelect ia fa ca wa) = true -> body_ok (S k) (QSelect ib fb cb wb) = true ->
  qd (S (S k)) (QUnion (QSelect ia fa ca wa) (QSelect ib fb cb wb)) < f ->
  Pre (init_holder ctx) ctes -> sel_segments seg0 = [r_union noise (S k) (QSelect ia fa ca wa) (QSelect ib fb cb wb)] ->
  exists g, extract f e XSelect seg0 ctx = Ok g /\
            Post (init_holder ctx) g (q_reads (S (S k)) (e_cfg e) ctes (QUnion (QSelect ia fa ca wa) (QSelect ib fb cb wb))).
Proof.
  intros HK Ha Hb Hf Hpre Hseg. set (qa := QSelect ia fa ca wa) in *. set (qb := QSelect ib fb cb wb) in *.
  assert (Hfa : qd (S k) qa < f - 1 /\ qd (S k) qb < f - 1 /\ 2 <= f).
  { change (qd (S (S k)) (QUnion qa qb)) with (S (Nat.max (qd (S k) qa) (qd (S k) qb))) in Hf.
    assert (1 <= qd (S k) qa) by (unfold qa; cbn [qd]; lia). lia. }
  destruct f as [|[|f]]; [lia|lia|]. replace (S (S f) - 1) with (S f) in Hfa by lia.
  rewrite extract_select_eq, Hseg. unfold sel_subqueries. cbn [map concat_res]. unfold qa, qb.
  rewrite (sel_subq1_union noise Hnoise e k ia fa ca wa ib fb cb wb Ha Hb). fold qa qb. rewrite app_nil_r, !sel_sq_T, <- map_app.
  destruct (ex_subquery_ok noise Hnoise e ctes K IHK (S f) (sel_T k fa ca wa ++ sel_T k fb cb wb) (init_holder ctx)) as (g1 & E1 & HP1).
  { apply Forall_app. split.
    - pose proof (sel_T_ok e ctes k ia fa ca wa Ha) as HT. rewrite Forall_forall in *. intros t Ht. destruct (HT t Ht) as (T1 & T2 & T3).
      fold qa in T3. split; [lia|]. split; [exact T2|lia].
    - pose proof (sel_T_ok e ctes k ib fb cb wb Hb) as HT. rewrite Forall_forall in *. intros t Ht. destruct (HT t Ht) as (T1 & T2 & T3).
      fold qb in T3. split; [lia|]. split; [exact T2|lia]. }
  { exact Hpre. }
  rewrite E1. pose proof (Pre_Post _ _ _ _ Hpre HP1) as (G1 & G2 & G3).
  unfold sel_fold. cbn [fold_left]. unfold sel_step. rewrite handle_child_union_md. cbn [s_g s_tables s_columns s_barriers].
  change (is_set_expression (r_union noise (S k) qa qb)) with true. cbn iota. unfold qa, qb. rewrite (gc_union_subs noise Hnoise). fold qa qb.
  cbn [fold_left]. unfold sel_children. unfold qa at 1. rewrite (lcs_top_select noise Hnoise).
  destruct (clauses_fold_md f {| s_g := g1; s_tables := []; s_columns := []; s_barriers := [] |} k ia fa ca wa ctes Ha G1 G2)
    as (tsa & colsa & E2 & Htsa & Hcolsa & Hxa).
  rewrite E2. cbn [s_g s_tables s_columns s_barriers app]. unfold qb at 1. rewrite (lcs_top_select noise Hnoise).
  destruct (clauses_fold_md f (add_barrier {| s_g := g1; s_tables := tsa; s_columns := colsa; s_barriers := [] |}) k ib fb cb wb ctes Hb G1 G2)
    as (tsb & colsb & E3 & Htsb & Hcolsb & Hxb).
  rewrite E3. cbn [fst s_g s_tables s_columns s_barriers add_barrier app].
  destruct (select_tail_any e g1 (tsa ++ tsb) (colsa ++ colsb) [(List.length colsa, List.length tsa)] G1
              (proj2 (Forall_app _ _ _) (conj Htsa Htsb)) (proj2 (Forall_app _ _ _) (conj Hcolsa Hcolsb)) (one_write_length g1 G1 G3))
    as (g3 & E4 & Hg3 & Hk3 & Hr3).
  rewrite E4. exists g3. split; [reflexivity|].
  assert (HP2 : Post g1 g3 (flat_map (fun p => rel_reads e ctes (snd p)) (FL k fa ca) ++ flat_map (fun p => rel_reads e ctes (snd p)) (FL k fb cb))).
  { split; [exact Hg3|]. split; [intros x; rewrite Hr3, tnames_app, in_app_iff, Hxa, Hxb; reflexivity|]. split; [|split].
    - intros d. rewrite (Hk3 "write") by discriminate. auto.
    - intros d Hd _. rewrite (Hk3 "write") by discriminate. exact Hd.
    - intros d. unfold sq_cte. rewrite (Hk3 "cte") by discriminate. reflexivity. }
  refine (Post_reads_ext _ _ _ _ _ (Post_trans _ _ _ _ _ HP1 HP2)).
  intros x. change (q_reads (S (S k)) (e_cfg e) ctes (QUnion qa qb)) with (q_reads (S k) (e_cfg e) ctes qa ++ q_reads (S k) (e_cfg e) ctes qb).
  rewrite flat_map_app, !in_app_iff. unfold qa, qb.
  rewrite <- (sel_reads_eq e ctes k ia fa ca wa Ha x), <- (sel_reads_eq e ctes k ib fb cb wb Hb x). tauto.
Qed.

End SubQ.

(** ** the main induction: queries without WITH *)
Lemma body_main_md ctes : forall k q f ctx seg0,
  body_ok k q = true -> qd k q < f -> Pre (init_holder ctx) ctes ->
  (seg0 = r_query noise k q \/ seg0 = r_brq noise k q) ->
  exists g, extract f e XSelect seg0 ctx = Ok g /\ Post (init_holder ctx) g (q_reads k (e_cfg e) ctes q).
Proof.
  induction k as [k IH] using lt_wf_ind. intros q f ctx seg0 Hq Hf Hpre Hseg.
  assert (IHK : forall k' q' f' ctx', k' < k -> body_ok k' q' = true -> qd k' q' < f' -> Pre (init_holder ctx') ctes ->
            exists g, extract f' e XSelect (r_brq noise k' q') ctx' = Ok g /\ Post (init_holder ctx') g (q_reads k' (e_cfg e) ctes q')).
  { intros k' q' f' ctx' Hk' Hq' Hf' Hpre'. apply (IH k' Hk' q' f' ctx' (r_brq noise k' q')); auto. }
  destruct k as [|k]; [discriminate|]. destruct q as [items from cj wh|a b|n c b]; [| |discriminate].
  - apply (select_core_md ctes (S k) IHK k items from cj wh f ctx seg0 eq_refl Hq Hf Hpre).
    destruct Hseg as [->| ->]; [apply (sel_segments_top_select noise Hnoise)|apply (sel_segments_brq_select noise Hnoise)].
  - pose proof Hq as Hq'. cbn [body_ok] in Hq'. apply andb_true_iff in Hq'. destruct Hq' as [Hq' Hb]. apply andb_true_iff in Hq'. destruct Hq' as [Hq' Ha].
    apply andb_true_iff in Hq'. destruct Hq' as [Hsa Hsb].
    destruct a as [ia fa ca wa| |]; try discriminate. destruct b as [ib fb cb wb| |]; try discriminate.
    destruct (body_ok_pos k _ Ha) as (k' & ->).
    apply (union_core_md ctes (S (S k')) IHK k' ia fa ca wa ib fb cb wb f ctx seg0 eq_refl Ha Hb Hf Hpre).
    destruct Hseg as [->| ->]; [apply sel_segments_union|apply (sel_segments_brq_union noise Hnoise)].
Qed.

(** ** delegation and WITH *)
Lemma delegate_body_md g ctes f k b :
  Pre g ctes -> (forall d, In d (holder_nodes g "write") -> dk d <> KSubq) ->
  body_ok k b = true -> qd k b < f ->
  exists g', ex_delegate f e XSelect (r_query noise k b) g true = Ok g' /\ Post g g' (q_reads k (e_cfg e) ctes b).
Proof.
  intros Hpre Hns Hb Hf. unfold ex_delegate. fold (dctx g).
  destruct (init_delegate g ctes Hpre) as (I0 & _).
  destruct (body_main_md ctes k b f (dctx g) (r_query noise k b) Hb Hf I0 (or_introl eq_refl)) as (sub & E & HP).
  rewrite E. exists (compose g sub). split; [reflexivity|]. apply (Post_delegate g sub ctes _ Hpre Hns HP).
Qed.

Lemma xcte_ok_md f ctx k n c b :
  Pre (init_holder ctx) [] -> no_subq (init_holder ctx) ->
  body_ok k c = true -> body_ok k b = true -> id_ok n = true ->
  ~ In (tref_str "" (None, n)) (q_reads k "" [] c) ->
  qd (S k) (QWith n c b) < f ->
  exists g, extract f e XCte (r_query noise (S k) (QWith n c b)) ctx = Ok g /\ gok g /\
            (forall x, tset g "read" x <-> tset (init_holder ctx) "read" x \/ In x (q_reads (S k) (e_cfg e) [] (QWith n c b))) /\
            (forall d, In d (holder_nodes g "write") <-> In d (holder_nodes (init_holder ctx) "write")).
Proof.
  intros Hpre Hns Hc Hb Hn Hguard Hf. set (g0 := init_holder ctx) in *.
  destruct f as [|f]; [lia|]. cbn [qd] in Hf.
  set (D := mk_subquery (r_brq noise k c) (Some n)).
  assert (HD : data_ok D /\ dk D = KSubq) by (split; [unfold data_ok; cbn; discriminate|reflexivity]).
  destruct Hpre as (P1 & [P2 P2'] & P3).
  assert (Ecte0 : sq_cte g0 = []).
  { destruct (sq_cte g0) as [|c0 r] eqn:E; [reflexivity|]. destruct (P2 c0) as [[] _]. left. reflexivity. }
  assert (Eg1 : gnodes (add_cte g0 D) = gnodes g0 ++ [(NData D, [("cte", true)])]).
  { unfold add_cte, add_node. cbn [gnodes]. apply upsert_new. apply no_subq_has_node; [exact Hns|exact (proj2 HD)]. }
  set (g1 := add_cte g0 D) in *.
  assert (Hhn : forall k0, holder_nodes g1 k0 = holder_nodes g0 k0 ++ (if String.eqb k0 "cte" then [D] else [])).
  { intros k0. rewrite !holder_nodes_hn, Eg1, hn_app. f_equal. unfold hn. cbn [flat_map fst snd]. unfold attr_true. cbn [attr_get].
    destruct (String.eqb k0 "cte"); reflexivity. }
  assert (Hpre1 : Pre g1 [n]).
  { split; [apply gok_add_tag; [exact P1|exact (proj1 HD)]|]. split.
    - unfold cte_rel, sq_cte. rewrite Hhn. fold (sq_cte g0). rewrite Ecte0. cbn [String.eqb Ascii.eqb Bool.eqb app]. split.
      + intros c0 [<-|[]]. split; [left; unfold D; cbn [mk_subquery dalias]; symmetry; apply id_ok_escape; exact Hn|reflexivity].
      + intros m [<-|[]]. exists D. split; [left; reflexivity|]. unfold D. cbn [mk_subquery dalias]. apply id_ok_escape. exact Hn.
    - intros d1 d2 H1 H2. unfold sq_write in *. rewrite Hhn in H1, H2. cbn [String.eqb Ascii.eqb Bool.eqb] in H1, H2. rewrite app_nil_r in H1, H2.
      apply P3; assumption. }
  assert (Hns1 : forall d, In d (holder_nodes g1 "write") -> dk d <> KSubq).
  { intros d Hd. rewrite Hhn in Hd. cbn [String.eqb Ascii.eqb Bool.eqb] in Hd. rewrite app_nil_r in Hd. apply (no_subq_writes g0 d Hns Hd). }
  rewrite extract_cte_eq, (lcs_with noise Hnoise). cbn [fold_left]. fold g0. rewrite cte_step_kw.
  rewrite (cte_step_cte noise Hnoise e f g0 [] k n c Hc Hn). fold D. fold g1. cbn [app].
  rewrite (cte_step_body noise e f g1 [D] k b Hb).
  destruct (delegate_body_md g1 [n] f k b Hpre1 Hns1 Hb ltac:(lia)) as (g2 & E2 & HP2). rewrite E2. cbn [fst snd].
  change [D] with (map (mk_sq noise) [(k, c, Some n)]).
  destruct (ex_subquery_ok noise Hnoise e [n] (S k)
              (fun k' q' f' ctx' Hk' Hq' Hf' Hp' => body_main_md [n] k' q' f' ctx' _ Hq' Hf' Hp' (or_intror eq_refl))
              f [(k, c, Some n)] g2) as (g3 & E3 & HP3).
  { constructor; [|constructor]. cbn [fst snd]. split; [lia|]. split; [exact Hc|lia]. }
  { apply (Pre_Post _ _ _ _ Hpre1 HP2). }
  rewrite E3. exists g3. pose proof (Post_trans _ _ _ _ _ HP2 HP3) as (A1 & A2 & A3 & A4 & _).
  split; [reflexivity|]. split; [exact A1|]. split.
  - intros x. rewrite A2. rewrite (tset_ext g0 g1 "read" x) by (rewrite Hhn; cbn [String.eqb Ascii.eqb Bool.eqb]; apply app_nil_r).
    cbn [flat_map fst snd q_reads]. rewrite app_nil_r, !in_app_iff. rewrite (q_reads_cte_irrelevant k c (e_cfg e) n [] Hc Hguard). tauto.
  - intros d. split.
    + intros Hd. apply A3 in Hd. rewrite Hhn in Hd. cbn [String.eqb Ascii.eqb Bool.eqb] in Hd. rewrite app_nil_r in Hd. exact Hd.
    + intros Hd. apply A4; [rewrite Hhn; cbn [String.eqb Ascii.eqb Bool.eqb]; rewrite app_nil_r; exact Hd|apply (no_subq_writes g0 d Hns Hd)].
Qed.

(** ** INSERT / CREATE TABLE AS / CREATE VIEW AS *)
(** the holder after the target table was seen: with metadata, an INSERT also records the target's known columns *)
Definition target_holder (stmt : seg) (g : graph) (d : dataset) : graph :=
  if p_truthy (e_provider e) && tyis stmt "insert_statement"
  then add_write_column (add_write g d) (provider_columns e d) else add_write g d.

Lemma ci_tref_md f stmt g t :
  ci_step f e stmt (Ok (g, true, false)) (r_tref t) =
  (do d <- table_of_seg e (r_tref t) None; Ok (target_holder stmt g d, false, false)).
Proof.
  unfold ci_step, target_holder. change (tyis (r_tref t) "with_compound_statement") with false.
  change (tyis (r_tref t) "bracketed") with false. change (ty_in (r_tref t) ["select_statement"; "set_expression"]) with false.
  change (tyis (r_tref t) "values_clause") with false. change (tyis (r_tref t) "keyword") with false. cbn [andb]. cbn iota.
  change (ty_in (r_tref t) ["table_reference"; "object_reference"]) with true. cbn iota.
  destruct (table_of_seg e (r_tref t) None) as [d|err]; [|reflexivity].
  destruct (p_truthy (e_provider e) && tyis stmt "insert_statement"); reflexivity.
Qed.

(** the provider's columns of the target are write columns of the target: a column-level step *)
Lemma WF_target stmt d : data_ok d -> WF (target_holder stmt empty_graph d) d.
Proof.
  intros Hd. pose proof (WF_init d Hd) as HW. unfold target_holder.
  destruct (p_truthy (e_provider e) && tyis stmt "insert_statement"); [|exact HW].
  apply (WF_cstep _ _ d HW). apply cstep_add_write_column; [exact (proj1 HW)|].
  intros t Ht. destruct HW as (_ & W2 & _). rewrite W2 in Ht. destruct Ht as [<-|[]].
  unfold provider_columns. apply Forall_forall. intros c Hc. apply in_map_iff in Hc. destruct Hc as (cn & <- & _).
  right. exists d. split; [reflexivity|]. split; [apply dataset_eqb_refl|exact Hd].
Qed.

Lemma ci_source_md f stmt g k q :
  src_ok k q -> Pre g [] -> sq_cte g = [] -> (forall d, In d (holder_nodes g "write") -> dk d <> KSubq) ->
  qd (S k) q < f ->
  exists g', ci_step f e stmt (Ok (g, false, false)) (r_query noise (S k) q) = Ok (g', false, false) /\
             RW g g' (q_reads (S k) (e_cfg e) [] q).
Proof.
  intros Hsrc Hpre Hcte Hns Hf. destruct Hsrc as [Hb|(n & c & b & -> & Hc & Hb & Hn & Hguard)].
  - rewrite (ci_body noise e f stmt g (S k) q Hb).
    destruct (delegate_body_md g [] f (S k) q Hpre Hns Hb Hf) as (g' & E & HP). rewrite E.
    exists g'. split; [reflexivity|apply Post_RW; exact HP].
  - rewrite (ci_with noise e). unfold ex_delegate. fold (dctx g). destruct (init_delegate g [] Hpre) as (I0 & I1 & I2 & I3).
    destruct (xcte_ok_md f (dctx g) k n c b I0 (no_subq_init_delegate g Hcte Hns) Hc Hb Hn Hguard Hf)
      as (sub & E & S1 & S2 & S3).
    rewrite E. exists (compose g sub). split; [reflexivity|]. apply compose_rw; [exact Hpre|exact Hns|exact S1| |].
    + intros x. rewrite S2. unfold tset at 1. rewrite I2. split; [intros [(d & [] & _)|H]; exact H|auto].
    + intros d Hd. apply I3. apply S3. exact Hd.
Qed.

Lemma ci_tail_md f stmt g d k q cols :
  WF g d -> dk d = KTable -> src_ok k q -> qd (S k) q < S f ->
  exists g', fold_left (ci_step (S f) e stmt) (cols_part noise cols ++ [r_query noise (S k) q]) (Ok (g, false, false))
             = Ok (g', false, false) /\
             gok g' /\ (forall x, tset g' "read" x <-> In x (q_reads (S k) (e_cfg e) [] q)) /\ (forall x, tset g' "write" x <-> x = dstr d).
Proof.
  intros HW Hk Hsrc Hf.
  assert (Hstep : exists g1, fold_left (ci_step (S f) e stmt) (cols_part noise cols) (Ok (g, false, false))
                             = Ok (g1, false, false) /\ WF g1 d).
  { destruct cols as [cs|]; [|exists g; split; [reflexivity|exact HW]]. cbn [cols_part fold_left].
    destruct (ci_cols noise Hnoise e f stmt g cs) as (cl & E & Hcl). rewrite E. exists (add_write_column g cl). split; [reflexivity|].
    apply (WF_cstep g _ d HW). apply cstep_add_write_column; [exact (proj1 HW)|]. intros t _. apply Forall_forall. intros c Hc.
    rewrite Forall_forall in Hcl. left. apply Hcl. exact Hc. }
  destruct Hstep as (g1 & E1 & HW1). rewrite fold_left_app, E1. cbn [fold_left].
  destruct (WF_facts g1 d HW1 Hk) as (F1 & F2 & F3 & F4 & F5).
  destruct (ci_source_md (S f) stmt g1 k q Hsrc F1 F2 F3 Hf) as (g' & E2 & (R1 & R2 & R3)). rewrite E2.
  exists g'. split; [reflexivity|]. split; [exact R1|]. split.
  - intros x. rewrite R2. split; [intros [H|H]; [destruct (F4 x H)|exact H]|auto].
  - intros x. rewrite R3. apply F5.
Qed.

Lemma ci_finish_md F stmt t cols k q d rest :
  table_of_seg e (r_tref t) None = Ok d -> dk d = KTable -> data_ok d -> dstr d = tref_str (e_cfg e) t ->
  src_ok k q -> qd (S k) q < S F ->
  (forall g, fold_left (ci_step (S F) e stmt) rest (Ok (g, false, false)) =
             fold_left (ci_step (S F) e stmt) (cols_part noise cols ++ [r_query noise (S k) q]) (Ok (g, false, false))) ->
  exists g, (do r <- fold_left (ci_step (S F) e stmt) (r_tref t :: rest) (Ok (empty_graph, true, false)); Ok (fst (fst r))) = Ok g /\
            gok g /\ (forall x, tset g "read" x <-> In x (q_reads (S k) (e_cfg e) [] q)) /\
            (forall x, tset g "write" x <-> x = tref_str (e_cfg e) t).
Proof.
  intros Et Hk Hd Hs Hsrc Hf Hrest. cbn [fold_left]. rewrite ci_tref_md, Et.
  change (do d0 <- Ok d; Ok (target_holder stmt empty_graph d0, false, false)) with (Ok (target_holder stmt empty_graph d, false, false)).
  rewrite Hrest.
  destruct (ci_tail_md F stmt (target_holder stmt empty_graph d) d k q cols (WF_target stmt d Hd) Hk Hsrc Hf) as (g' & E & G1 & G2 & G3).
  rewrite E. exists g'. split; [reflexivity|]. split; [exact G1|]. split; [exact G2|]. intros x. rewrite G3, Hs. reflexivity.
Qed.

Lemma insert_ok_md t cols q :
  tref_ok t = true -> src_ok (q_size q) q ->
  exists g, analyze e false (r_stmt noise (SInsert t cols q)) = Ok g /\ gok g /\
            (forall x, tset g "read" x <-> In x (q_reads (S (q_size q)) (e_cfg e) [] q)) /\
            (forall x, tset g "write" x <-> x = tref_str (e_cfg e) t).
Proof.
  intros Ht Hsrc. set (k := q_size q) in *. set (Q := r_query noise (S k) q).
  set (stmt := node "insert_statement" ["insert_statement"] (sep noise ([kw "insert"; kw "into"; r_tref t] ++ cols_part noise cols ++ [Q]))).
  assert (Es : r_stmt noise (SInsert t cols q) = stmt) by (destruct cols; reflexivity). rewrite Es.
  assert (Ea : analyze e false stmt = extract (S (S (3 * depth stmt + 8))) e XCreateInsert stmt empty_ctx).
  { replace (S (S (3 * depth stmt + 8))) with (3 * depth stmt + 10) by lia. reflexivity. }
  assert (HF : forall Q0 k0 q0, In Q0 (children stmt) -> Q0 = r_query noise (S k0) q0 -> qd (S k0) q0 < S (3 * depth stmt + 8))
    by (intros Q0 k0 q0; apply fuel_child).
  set (F := 3 * depth stmt + 8) in *.
  rewrite Ea, extract_ci_eq. unfold stmt at 2. rewrite (lcs_node noise Hnoise) by reflexivity.
  rewrite !filter_app, filter_nn_cols. cbn [filter]. change (nn (kw "insert")) with true. change (nn (kw "into")) with true.
  change (nn (r_tref t)) with true. unfold Q at 1. rewrite (nn_rq noise). cbn iota. fold Q.
  change (init_holder empty_ctx) with empty_graph. cbn [app fold_left].
  rewrite (ci_kw_target e (S F) stmt empty_graph false false "insert" eq_refl), (ci_kw_target e (S F) stmt empty_graph true false "into" eq_refl).
  destruct (table_of_seg_tref_md t None Ht) as (d & Et & Hk & Hd & Hs).
  apply (ci_finish_md F stmt t cols k q d (cols_part noise cols ++ [Q]) Et Hk Hd Hs Hsrc); [|reflexivity].
  apply (HF Q k q); [|reflexivity]. unfold stmt. cbn [children node]. apply (In_sep noise).
  rewrite !in_app_iff. right. right. left. reflexivity.
Qed.

Lemma create_ok_md (view : bool) t q :
  tref_ok t = true -> src_ok (q_size q) q ->
  exists g, analyze e false (r_stmt noise (if view then SView t q else SCtas t q)) = Ok g /\ gok g /\
            (forall x, tset g "read" x <-> In x (q_reads (S (q_size q)) (e_cfg e) [] q)) /\
            (forall x, tset g "write" x <-> x = tref_str (e_cfg e) t).
Proof.
  intros Ht Hsrc. set (k := q_size q) in *. set (Q := r_query noise (S k) q).
  set (ty0 := if view then "create_view_statement" else "create_table_statement").
  set (w0 := if view then "view" else "table").
  set (stmt := node ty0 [ty0] (sep noise [kw "create"; kw w0; r_tref t; kw "as"; Q])).
  assert (Es : r_stmt noise (if view then SView t q else SCtas t q) = stmt) by (destruct view; reflexivity). rewrite Es.
  assert (Ea : analyze e false stmt = extract (S (S (3 * depth stmt + 8))) e XCreateInsert stmt empty_ctx).
  { replace (S (S (3 * depth stmt + 8))) with (3 * depth stmt + 10) by lia. destruct view; reflexivity. }
  assert (HF : forall Q0 k0 q0, In Q0 (children stmt) -> Q0 = r_query noise (S k0) q0 -> qd (S k0) q0 < S (3 * depth stmt + 8))
    by (intros Q0 k0 q0; apply fuel_child).
  set (F := 3 * depth stmt + 8) in *.
  rewrite Ea, extract_ci_eq. unfold stmt at 2. rewrite (lcs_node noise Hnoise) by (destruct view; reflexivity).
  cbn [filter]. change (nn (kw "create")) with true. change (nn (kw w0)) with true. change (nn (kw "as")) with true.
  change (nn (r_tref t)) with true. unfold Q at 1. rewrite (nn_rq noise). cbn iota. fold Q.
  change (init_holder empty_ctx) with empty_graph. cbn [fold_left].
  rewrite (ci_kw_other e (S F) stmt empty_graph false "create" eq_refl eq_refl).
  rewrite (ci_kw_target e (S F) stmt empty_graph false false w0) by (destruct view; reflexivity).
  destruct (table_of_seg_tref_md t None Ht) as (d & Et & Hk & Hd & Hs).
  apply (ci_finish_md F stmt t None k q d [kw "as"; Q] Et Hk Hd Hs Hsrc).
  - apply (HF Q k q); [|reflexivity]. unfold stmt. cbn [children node]. apply (In_sep noise).
    right. right. right. right. left. reflexivity.
  - intros g. cbn [fold_left cols_part app]. rewrite (ci_kw_other e (S F) stmt g false "as" eq_refl eq_refl). reflexivity.
Qed.

(** ** plain queries *)
Lemma query_graph_md q :
  stmt_ok (SQuery q) = true -> sshape_q q = true ->
  exists g, analyze e false (r_stmt noise (SQuery q)) = Ok g /\ gok g /\
            (forall x, tset g "read" x <-> In x (q_reads (S (q_size q)) (e_cfg e) [] q)) /\
            (forall x, ~ tset g "write" x).
Proof.
  intros Hok Hs. unfold stmt_ok in Hok. apply andb_true_iff in Hok. destruct Hok as [Hf Hnm].
  assert (Hplain : qshape (S (q_size q)) q = true ->
    exists g, analyze e false (r_stmt noise (SQuery q)) = Ok g /\ gok g /\
              (forall x, tset g "read" x <-> In x (q_reads (S (q_size q)) (e_cfg e) [] q)) /\
              (forall x, ~ tset g "write" x)).
  { intros Hs'. pose proof (body_ok_of _ _ _ Hf Hnm Hs') as Hb. cbn [r_stmt].
    rewrite (analyze_query noise e (q_size q) q (body_ok_is_body _ _ Hb)).
    set (stmt := r_query noise (S (q_size q)) q).
    assert (Hfuel : qd (S (q_size q)) q < 3 * depth stmt + 10).
    { pose proof (depth_qd noise (S (q_size q)) q). fold stmt in H. lia. }
    destruct (body_main_md [] (S (q_size q)) q _ empty_ctx stmt Hb Hfuel Pre_empty (or_introl eq_refl))
      as (g & E & (G1 & G2 & G3 & _ & _)).
    exists g. change (init_holder empty_ctx) with empty_graph in *. split; [exact E|]. split; [exact G1|]. split.
    - intros x. rewrite G2, tset_empty. tauto.
    - intros x (d & Hd & _). apply G3 in Hd. destruct Hd. }
  destruct q as [items from cj wh|a b|n c b]; try (apply Hplain; exact Hs).
  clear Hplain. unfold sshape_q in Hs. apply andb_true_iff in Hs. destruct Hs as [Hsc Hsb].
  set (k := q_size (QWith n c b)) in *.
  destruct (with_facts k n c b Hf Hnm Hsc Hsb) as (Hc & Hb & Hid & Hguard).
  cbn [r_stmt]. fold k. set (stmt := r_query noise (S k) (QWith n c b)).
  assert (Ea : analyze e false stmt = extract (3 * depth stmt + 10) e XCte stmt empty_ctx) by reflexivity.
  assert (Hfuel : qd (S k) (QWith n c b) < 3 * depth stmt + 10).
  { pose proof (depth_qd noise (S k) (QWith n c b)). fold stmt in H. lia. }
  destruct (xcte_ok_md _ empty_ctx k n c b Pre_empty no_subq_empty Hc Hb Hid Hguard Hfuel) as (g & E & G1 & G2 & G3).
  rewrite Ea. fold stmt in E. exists g. change (init_holder empty_ctx) with empty_graph in *. split; [exact E|]. split; [exact G1|]. split.
  - intros x. rewrite G2, tset_empty. tauto.
  - intros x (d & Hd & _). apply G3 in Hd. destruct Hd.
Qed.

Lemma query_ok_md q :
  stmt_ok (SQuery q) = true -> sshape_q q = true ->
  stmt_reads (analyze e false (r_stmt noise (SQuery q))) = sort_strings (spec_reads (e_cfg e) (SQuery q)) /\
  stmt_writes (analyze e false (r_stmt noise (SQuery q))) = sort_strings (spec_writes (e_cfg e) (SQuery q)).
Proof.
  intros Hok Hs. destruct (query_graph_md q Hok Hs) as (g & E & G1 & G2 & G3). split.
  - unfold spec_reads. apply (stmt_reads_spec _ g); [exact E|exact G1|exact G2].
  - unfold spec_writes. apply (stmt_writes_spec _ g); [exact E|exact G1|constructor|]. intros x. cbn [In]. split; [|tauto].
    intros H. exact (G3 x H).
Qed.

End Meta.

(* ================================================================== *)
(** * Lemma A (tables) with any provider, and C13 on the fragment *)
Theorem lemma_A_tables_any_provider : forall noise e s,
  noise_ok noise = true -> env_ok_md e = true -> stmt_ok s = true -> sshape s = true ->
  stmt_reads (analyze e false (r_stmt noise s)) = sort_strings (spec_reads (e_cfg e) s) /\
  stmt_writes (analyze e false (r_stmt noise s)) = sort_strings (spec_writes (e_cfg e) s).
Proof.
  intros noise e s Hn He Hok Hs. destruct s as [t cols q|t q|t q|q|kind].
  - cbn [stmt_ok sshape] in *. apply andb_true_iff in Hok. destruct Hok as [Hok _]. apply andb_true_iff in Hok. destruct Hok as [Hok Hnm].
    apply andb_true_iff in Hok. destruct Hok as [Ht Hf].
    destruct (insert_ok_md noise Hn e He t cols q Ht (src_ok_of q Hf Hnm Hs)) as (g & E & G1 & G2 & G3).
    apply (wrapper_conclusion e _ g t q); auto.
  - cbn [stmt_ok sshape] in *. apply andb_true_iff in Hok. destruct Hok as [Hok Hnm]. apply andb_true_iff in Hok. destruct Hok as [Ht Hf].
    destruct (create_ok_md noise Hn e He false t q Ht (src_ok_of q Hf Hnm Hs)) as (g & E & G1 & G2 & G3).
    apply (wrapper_conclusion e _ g t q); auto.
  - cbn [stmt_ok sshape] in *. apply andb_true_iff in Hok. destruct Hok as [Hok Hnm]. apply andb_true_iff in Hok. destruct Hok as [Ht Hf].
    destruct (create_ok_md noise Hn e He true t q Ht (src_ok_of q Hf Hnm Hs)) as (g & E & G1 & G2 & G3).
    apply (wrapper_conclusion e _ g t q); auto.
  - apply query_ok_md; assumption.
  - split; reflexivity.
Qed.

(** metadata never makes the analysis fail on the fragment ([stmt_reads] / [stmt_writes] of a failed analysis are empty,
    so this is not implied by the theorem above for statements that read and write nothing) *)
Theorem analysis_succeeds_any_provider : forall noise e s,
  noise_ok noise = true -> env_ok_md e = true -> stmt_ok s = true -> sshape s = true ->
  exists g, analyze e false (r_stmt noise s) = Ok g /\ gok g.
Proof.
  intros noise e s Hn He Hok Hs. destruct s as [t cols q|t q|t q|q|kind].
  - cbn [stmt_ok sshape] in *. apply andb_true_iff in Hok. destruct Hok as [Hok _]. apply andb_true_iff in Hok. destruct Hok as [Hok Hnm].
    apply andb_true_iff in Hok. destruct Hok as [Ht Hf].
    destruct (insert_ok_md noise Hn e He t cols q Ht (src_ok_of q Hf Hnm Hs)) as (g & E & G1 & _). exists g. auto.
  - cbn [stmt_ok sshape] in *. apply andb_true_iff in Hok. destruct Hok as [Hok Hnm]. apply andb_true_iff in Hok. destruct Hok as [Ht Hf].
    destruct (create_ok_md noise Hn e He false t q Ht (src_ok_of q Hf Hnm Hs)) as (g & E & G1 & _). exists g. auto.
  - cbn [stmt_ok sshape] in *. apply andb_true_iff in Hok. destruct Hok as [Hok Hnm]. apply andb_true_iff in Hok. destruct Hok as [Ht Hf].
    destruct (create_ok_md noise Hn e He true t q Ht (src_ok_of q Hf Hnm Hs)) as (g & E & G1 & _). exists g. auto.
  - destruct (query_graph_md noise Hn e He q Hok Hs) as (g & E & G1 & _). exists g. auto.
  - exists empty_graph. split; [reflexivity|apply gok_empty].
Qed.

(** the theorem of LemmaAProofs.v is the special case of a provider without metadata *)
Corollary lemma_A_tables_restricted_again : forall noise e s,
  noise_ok noise = true -> env_ok e = true -> stmt_ok s = true -> sshape s = true ->
  stmt_reads (analyze e false (r_stmt noise s)) = sort_strings (spec_reads (e_cfg e) s) /\
  stmt_writes (analyze e false (r_stmt noise s)) = sort_strings (spec_writes (e_cfg e) s).
Proof. intros noise e s Hn He. apply lemma_A_tables_any_provider; [exact Hn|apply env_ok_weaken; exact He]. Qed.

(** C13 on the fragment: two environments that differ only in the metadata provider (one may have none, the other
    may know any columns of any tables) report the same tables read and written *)
Theorem metadata_never_changes_tables : forall noise e e' s,
  e_cfg e' = e_cfg e -> e_icfg e' = e_icfg e -> e_vertica e' = e_vertica e -> e_scalar e' = e_scalar e ->
  noise_ok noise = true -> env_ok_md e = true -> stmt_ok s = true -> sshape s = true ->
  stmt_reads (analyze e false (r_stmt noise s)) = stmt_reads (analyze e' false (r_stmt noise s)) /\
  stmt_writes (analyze e false (r_stmt noise s)) = stmt_writes (analyze e' false (r_stmt noise s)).
Proof.
  intros noise e e' s H1 H2 H3 _ Hn He Hok Hs.
  assert (He' : env_ok_md e' = true) by (unfold env_ok_md in *; rewrite H1, H2, H3; exact He).
  destruct (lemma_A_tables_any_provider noise e s Hn He Hok Hs) as [R W].
  destruct (lemma_A_tables_any_provider noise e' s Hn He' Hok Hs) as [R' W'].
  rewrite R, W, R', W', H1. split; reflexivity.
Qed.

(** in particular: replacing the provider of an environment by any other one *)
Definition with_provider (e : env) (p : provider) : env :=
  {| e_cfg := e_cfg e; e_icfg := e_icfg e; e_vertica := e_vertica e; e_provider := p; e_scalar := e_scalar e |}.

Corollary metadata_never_changes_tables_with_provider : forall noise e p s,
  noise_ok noise = true -> env_ok_md e = true -> stmt_ok s = true -> sshape s = true ->
  stmt_reads (analyze (with_provider e p) false (r_stmt noise s)) = stmt_reads (analyze e false (r_stmt noise s)) /\
  stmt_writes (analyze (with_provider e p) false (r_stmt noise s)) = stmt_writes (analyze e false (r_stmt noise s)).
Proof.
  intros noise e p s Hn He Hok Hs.
  destruct (metadata_never_changes_tables noise e (with_provider e p) s eq_refl eq_refl eq_refl eq_refl Hn He Hok Hs) as [R W].
  split; symmetry; assumption.
Qed.

Print Assumptions lemma_A_md_tests.
Print Assumptions lemma_A_tables_any_provider.
Print Assumptions analysis_succeeds_any_provider.
Print Assumptions metadata_never_changes_tables.
Print Assumptions metadata_never_changes_tables_with_provider.
