(** C06 end to end on the tree model: the reported column paths of a script of core statements project onto the
    table-level lineage of the script. *)
From Coq Require Import Permutation.
From SV Require Import Tree.Render Tree.LemmaA Tree.LemmaAProofs Tree.LemmaB Tree.LemmaBProofs Ident.Escape Ident.EscapeProofs
     Holder.PathProofs Holder.SortProofs Tree.ProviderProofs Tree.ScriptExact.
From SV Require Holder.RefineDefs Holder.RefineGraph Holder.Refinement Holder.CompDefs Holder.Composition.

(* ================================================================== *)
(** * Part 1: the statement, executable *)
Definition path_wf (g : graph) (path : list Graph.node) : bool :=
  Nat.leb 2 (List.length path) &&
  forallb (fun n => CompDefs.owner_in n (target_tables g ++ intermediate_tables g)) (tl path) &&
  forallb (fun n => CompDefs.owner_in n (source_tables g ++ intermediate_tables g)) (removelast path).

Definition wf_check (noise : list seg) (e : env) (ss : list Spec.stmt) : string :=
  if negb (noise_ok noise && env_ok e && forallb core_ok ss) then "outside"
  else match script_graph e false [] (map (r_stmt noise) ss) with
       | Ok g => if forallb (fun b => forallb (path_wf g) (column_lineage g b false)) [true; false] then "holds" else "FAILS"
       | Err _ => "FAILS"
       end.

Example wf_tests_hold :
  map (wf_check [] Tests.e0) Tests.tests = map (fun _ => "holds") Tests.tests /\
  map (wf_check [Tests.ws; Tests.cm] Tests.e1) Tests.tests = map (fun _ => "holds") Tests.tests.
Proof. vm_compute. split; reflexivity. Qed.

(* ================================================================== *)
(** * Part 2: the node attributes of a statement holder of the fragment: only read = True / write = True *)
Definition rw_pair (kv : string * bool) : Prop := snd kv = true /\ (fst kv = "read" \/ fst kv = "write").
Definition rw_attrs (a : nattrs) : Prop := forall kv, In kv a -> rw_pair kv.
Definition RW (g : graph) : Prop := forall n a, In (n, a) (gnodes g) -> rw_attrs a.
(** the dataset [v] carries the tag [k] *)
Definition has_tag (k : string) (g : graph) (v : dataset) : Prop :=
  exists m a, In (m, a) (gnodes g) /\ node_eqb (NData v) m = true /\ In (k, true) a.

Lemma In_attr_set_rw k v a kv : In kv (attr_set k v a) -> kv = (k, v) \/ In kv a.
Proof.
  induction a as [|[k' v'] r IH]; cbn [attr_set]; [intros [<-|[]]; left; reflexivity|].
  destruct (String.eqb k k'); cbn [In]; [intros [<-|H]; auto|intros [<-|H]; [auto|]]. destruct (IH H); auto.
Qed.

Lemma attr_set_keeps k v a k0 : In (k0, true) a -> v = true -> In (k0, true) (attr_set k v a).
Proof.
  intros H ->. induction a as [|[k' v'] r IH]; [destruct H|]. cbn [attr_set]. destruct (String.eqb k k') eqn:E.
  - apply String.eqb_eq in E. subst k'. destruct H as [H|H]; [inversion H; subst; left; reflexivity|right; exact H].
  - destruct H as [H|H]; [left; exact H|right; exact (IH H)].
Qed.

Lemma attr_set_puts k v a : In (k, v) (attr_set k v a).
Proof.
  induction a as [|[k' v'] r IH]; cbn [attr_set]; [left; reflexivity|]. destruct (String.eqb k k'); [left; reflexivity|right; exact IH].
Qed.

Lemma rw_attr_update a : forall b, rw_attrs b -> rw_attrs a -> rw_attrs (attr_update b a).
Proof.
  induction a as [|[k v] r IH]; intros b Hb Ha; cbn [attr_update]; [exact Hb|]. apply IH.
  - intros kv H. apply In_attr_set_rw in H. destruct H as [->|H]; [apply Ha; left; reflexivity|apply Hb; exact H].
  - intros kv H. apply Ha. right. exact H.
Qed.

Lemma attr_update_keeps a : forall b k0, rw_attrs a -> In (k0, true) b -> In (k0, true) (attr_update b a).
Proof.
  induction a as [|[k v] r IH]; intros b k0 Ha H; cbn [attr_update]; [exact H|]. apply IH.
  - intros kv Hkv. apply Ha. right. exact Hkv.
  - apply attr_set_keeps; [exact H|]. exact (proj1 (Ha (k, v) (or_introl eq_refl))).
Qed.

Lemma attr_update_puts a : forall b k0, rw_attrs a -> In (k0, true) a -> In (k0, true) (attr_update b a).
Proof.
  induction a as [|[k v] r IH]; intros b k0 Ha H; [destruct H|]. cbn [attr_update].
  assert (Hr : rw_attrs r) by (intros kv Hkv; apply Ha; right; exact Hkv).
  destruct H as [H|H].
  - inversion H. subst k v. apply attr_update_keeps; [exact Hr|apply attr_set_puts].
  - apply IH; assumption.
Qed.

Lemma In_upsert_node p n a l :
  In p (upsert_node n a l) -> In p l \/ p = (n, a) \/ exists b, In (fst p, b) l /\ node_eqb n (fst p) = true /\ snd p = attr_update b a.
Proof.
  induction l as [|[m b] r IH]; cbn [upsert_node]; [intros [<-|[]]; auto|].
  destruct (node_eqb n m) eqn:E; cbn [In].
  - intros [<-|H]; [right; right; exists b; cbn [fst snd]; auto|auto].
  - intros [<-|H]; [auto|]. destruct (IH H) as [K|[K|(b' & K1 & K2 & K3)]]; [auto|auto|]. right. right. exists b'. auto.
Qed.

Lemma upsert_node_mono m b n a l : In (m, b) l -> exists b', In (m, b') (upsert_node n a l) /\ (b' = b \/ b' = attr_update b a).
Proof.
  induction l as [|[m0 b0] r IH]; intros H; [destruct H|]. cbn [upsert_node]. destruct (node_eqb n m0) eqn:E.
  - destruct H as [H|H]; [inversion H; subst; exists (attr_update b a); split; [left; reflexivity|auto]|exists b; split; [right; exact H|auto]].
  - destruct H as [H|H]; [exists b; split; [left; exact H|auto]|]. destruct (IH H) as (b' & K1 & K2). exists b'. split; [right; exact K1|exact K2].
Qed.

Lemma upsert_node_new n a l : exists m b, In (m, b) (upsert_node n a l) /\ node_eqb n m = true /\ (b = a \/ exists b0, b = attr_update b0 a).
Proof.
  induction l as [|[m0 b0] r IH]; cbn [upsert_node].
  - exists n, a. split; [left; reflexivity|]. split; [apply node_eqb_refl|auto].
  - destruct (node_eqb n m0) eqn:E.
    + exists m0, (attr_update b0 a). split; [left; reflexivity|]. split; [exact E|right; exists b0; reflexivity].
    + destruct IH as (m & b & K1 & K2 & K3). exists m, b. split; [right; exact K1|auto].
Qed.

Lemma RW_add_node g n a : RW g -> rw_attrs a -> RW (add_node g n a).
Proof.
  intros Hg Ha m b Hin. cbn [add_node gnodes] in Hin. apply In_upsert_node in Hin.
  destruct Hin as [H|[H|(b0 & H1 & _ & H3)]]; [exact (Hg m b H)|inversion H; subst; exact Ha|].
  cbn [fst snd] in *. subst b. apply rw_attr_update; [exact (Hg m b0 H1)|exact Ha].
Qed.

Lemma rw_nil : rw_attrs [].
Proof. intros kv []. Qed.

Lemma RW_add_edge g u v a : RW g -> RW (add_edge g u v a).
Proof. intros H. unfold add_edge. cbn [gnodes RW]. intros m b Hin. apply (RW_add_node (add_node g u []) v [] (RW_add_node g u [] H rw_nil) rw_nil m b Hin). Qed.

Lemma RW_remove_node g n : RW g -> RW (remove_node g n).
Proof. intros H m b Hin. cbn [remove_node gnodes] in Hin. apply filter_In in Hin. exact (H m b (proj1 Hin)). Qed.

Lemma has_tag_add_node k g n a v : rw_attrs a -> has_tag k g v -> has_tag k (add_node g n a) v.
Proof.
  intros Ha (m & b & Hin & E & Hk). destruct (upsert_node_mono m b n a (gnodes g) Hin) as (b' & K1 & K2).
  exists m, b'. split; [exact K1|]. split; [exact E|]. destruct K2 as [->| ->]; [exact Hk|apply attr_update_keeps; assumption].
Qed.

Lemma has_tag_add_edge k g u w a v : has_tag k g v -> has_tag k (add_edge g u w a) v.
Proof.
  intros H. unfold add_edge, has_tag. cbn [gnodes].
  exact (has_tag_add_node k (add_node g u []) w [] v rw_nil (has_tag_add_node k g u [] v rw_nil H)).
Qed.

Lemma has_tag_remove_col k g c v : has_tag k g v -> has_tag k (remove_node g (NCol c)) v.
Proof.
  intros (m & b & Hin & E & Hk). exists m, b. split; [|auto]. cbn [remove_node gnodes]. apply filter_In. split; [exact Hin|].
  cbn [fst]. destruct m; try discriminate E. reflexivity.
Qed.

Lemma has_tag_new k g v : has_tag k (add_node g (NData v) [(k, true)]) v.
Proof.
  assert (Ha : rw_attrs [(k, true)] \/ True) by (right; exact I).
  destruct (upsert_node_new (NData v) [(k, true)] (gnodes g)) as (m & b & K1 & K2 & K3).
  exists m, b. split; [exact K1|]. split; [exact K2|]. destruct K3 as [->|(b0 & ->)]; [left; reflexivity|].
  cbn [attr_update]. apply attr_set_puts.
Qed.

(** ** the preorder "obtained by operations that keep both invariants" *)
Definition keeps (g g' : graph) : Prop := (RW g -> RW g') /\ forall k v, has_tag k g v -> has_tag k g' v.

Lemma keeps_refl g : keeps g g.
Proof. split; auto. Qed.
Lemma keeps_trans g1 g2 g3 : keeps g1 g2 -> keeps g2 g3 -> keeps g1 g3.
Proof. intros [A1 A2] [B1 B2]. split; auto. Qed.
Lemma keeps_add_edge g u v a : keeps g (add_edge g u v a).
Proof. split; [apply RW_add_edge|intros k w; apply has_tag_add_edge]. Qed.
Lemma keeps_add_node g n a : rw_attrs a -> keeps g (add_node g n a).
Proof. intros Ha. split; [intros H; apply RW_add_node; assumption|intros k w; apply has_tag_add_node; exact Ha]. Qed.
Lemma keeps_remove_col g c : keeps g (remove_node g (NCol c)).
Proof. split; [apply RW_remove_node|intros k w; apply has_tag_remove_col]. Qed.

Lemma fold_res_keeps {A} (F : graph -> A -> res graph) :
  (forall g x g', F g x = Ok g' -> keeps g g') ->
  forall l g g2, fold_left (fun acc x => do g' <- acc; F g' x) l (Ok g) = Ok g2 -> keeps g g2.
Proof.
  intros HF. induction l as [|x r IH]; intros g g2 H; cbn [fold_left] in H; [inversion H; apply keeps_refl|].
  destruct (F g x) as [g1|err] eqn:E.
  - apply (keeps_trans g g1 g2); [exact (HF g x g1 E)|exact (IH g1 g2 H)].
  - exfalso. clear -H. induction r as [|y r IH]; cbn [fold_left] in H; [discriminate|auto].
Qed.

(** ** the holder operations of the fragment *)
Lemma rw_single k : k = "read" \/ k = "write" -> rw_attrs [(k, true)].
Proof. intros H kv [<-|[]]. split; [reflexivity|exact H]. Qed.

Lemma keeps_add_read g v : keeps g (add_read g v).
Proof.
  unfold add_read. destruct (has_alias_attr v).
  - apply (keeps_trans _ (add_node g (NData v) [("read", true)])); [apply keeps_add_node; apply rw_single; auto|apply keeps_add_edge].
  - apply keeps_add_node. apply rw_single. auto.
Qed.

Lemma has_tag_add_read g v : has_tag "read" (add_read g v) v.
Proof.
  unfold add_read. destruct (has_alias_attr v); [apply has_tag_add_edge|]; apply has_tag_new.
Qed.

Lemma keeps_add_reads l : forall g, keeps g (fold_left add_read l g) /\ forall v, In v l -> has_tag "read" (fold_left add_read l g) v.
Proof.
  induction l as [|x r IH]; intros g; cbn [fold_left]; [split; [apply keeps_refl|intros v []]|].
  destruct (IH (add_read g x)) as [K1 K2]. split; [apply (keeps_trans _ _ _ (keeps_add_read g x) K1)|].
  intros v [<-|Hv]; [apply (proj2 K1); apply has_tag_add_read|apply K2; exact Hv].
Qed.

Lemma keeps_add_column_lineage g s t g' : add_column_lineage g s t = Ok g' -> keeps g g'.
Proof.
  unfold add_column_lineage. destruct (col_parent t) as [tp|]; [|discriminate]. intros H. inversion H. clear H.
  set (g1 := add_edge g (NCol s) (NCol t) lineage_edge). set (g2 := add_edge g1 (NData tp) (NCol t) (e_has_column None)).
  assert (K2 : keeps g g2) by (apply (keeps_trans _ g1); apply keeps_add_edge).
  destruct (col_parent s); [apply (keeps_trans _ g2 _ K2); apply keeps_add_edge|exact K2].
Qed.

Lemma keeps_eoq_step e tg n d g idx x g' : eoq_step e tg n d g idx x = Ok g' -> keeps g g'.
Proof.
  unfold eoq_step. destruct (to_source_columns e x (get_alias_mapping g tg)) as [srcs|err]; [|discriminate]. cbv zeta.
  apply (fold_res_keeps (fun g3 s => add_column_lineage g3 s _)). intros g0 s g1. apply keeps_add_column_lineage.
Qed.

Lemma keeps_eoq_fold e tg n d : forall l rg idx g2,
  fst (fold_left (fun acc2 x => let '(rg, idx) := acc2 in (do g2 <- rg; eoq_step e tg n d g2 idx x, S idx)) l (rg, idx)) = Ok g2 ->
  exists g, rg = Ok g /\ keeps g g2.
Proof.
  induction l as [|x r IH]; intros rg idx g2 H; cbn [fold_left fst] in H.
  - exists g2. split; [exact H|apply keeps_refl].
  - destruct (IH _ _ _ H) as (g1 & E1 & K1). destruct rg as [g|err]; [|discriminate E1]. exists g. split; [reflexivity|].
    apply (keeps_trans g g1 g2); [|exact K1]. apply (keeps_eoq_step e tg n d g idx x g1 E1).
Qed.

Lemma keeps_eoq e g ts cols g2 :
  end_of_query_cleanup e g ts cols [] = Ok g2 -> keeps g g2 /\ forall v, In v ts -> has_tag "read" g2 v.
Proof.
  rewrite eoq_single. cbv zeta. destruct (keeps_add_reads ts g) as [K1 K2]. set (g0 := fold_left add_read ts g) in *.
  intros H.
  assert (K : keeps g0 g2).
  { destruct (sq_write g0) as [|d [|d' l]]; [inversion H; apply keeps_refl| |discriminate].
    destruct (keeps_eoq_fold e ts (List.length cols) d cols (Ok g0) 0 g2 H) as (g' & E & K). inversion E. subst g'. exact K. }
  split; [apply (keeps_trans g g0 g2 K1 K)|]. intros v Hv. apply (proj2 K). apply K2. exact Hv.
Qed.

Lemma keeps_replace_wildcard g tgt cols c sw g' : replace_wildcard g tgt cols c sw = Ok g' -> keeps g g'.
Proof.
  unfold replace_wildcard.
  match goal with |- (do g1 <- ?FOLD; _) = _ -> _ => destruct FOLD as [g1|err] eqn:E1 end; [|discriminate].
  cbv zeta. intros H. inversion H. clear H.
  assert (K1 : keeps g g1).
  { revert E1. apply (fold_res_keeps (fun g' sc => if existsb (col_eqb {| craw := escape (craw sc); cparents := [tgt] |}) (get_table_columns g tgt) || String.eqb (craw sc) "*" then Ok g'
                                                   else match col_parent sc with
                                                        | None => Err EValue
                                                        | Some sp => Ok (add_edge (add_edge (add_edge g' (NData tgt) (NCol {| craw := escape (craw sc); cparents := [tgt] |}) (e_has_column None))
                                                                                  (NData sp) (NCol sc) (e_has_column None))
                                                                                  (NCol sc) (NCol {| craw := escape (craw sc); cparents := [tgt] |}) lineage_edge)
                                                        end)).
    intros g0 sc g0' H0. destruct (_ || _); [inversion H0; apply keeps_refl|].
    destruct (col_parent sc); [|discriminate]. inversion H0.
    eapply keeps_trans; [apply keeps_add_edge|]. eapply keeps_trans; [apply keeps_add_edge|]. apply keeps_add_edge. }
  set (g2 := if has_node g1 (NCol c) then remove_node g1 (NCol c) else g1).
  assert (K2 : keeps g1 g2) by (unfold g2; destruct (has_node g1 (NCol c)); [apply keeps_remove_col|apply keeps_refl]).
  apply (keeps_trans _ _ _ K1). apply (keeps_trans _ _ _ K2).
  destruct (has_node g2 (NCol sw)); [apply keeps_remove_col|apply keeps_refl].
Qed.

Lemma keeps_expand_wildcard e g g' : expand_wildcard e g = Ok g' -> keeps g g'.
Proof.
  unfold expand_wildcard. destruct (get_target_table g) as [tgt|]; [|intros H; inversion H; apply keeps_refl].
  apply (fold_res_keeps (fun g' c => if String.eqb (craw c) "*"
                                     then fold_left (fun acc2 sw => do g'' <- acc2;
                                            match col_parent sw with
                                            | None => Ok g''
                                            | Some st =>
                                                match (match dk st with
                                                       | KSubq => get_table_columns g'' st
                                                       | KTable => if p_truthy (e_provider e) then provider_columns e st else []
                                                       | KPath => []
                                                       end) with [] => Ok g'' | _ => replace_wildcard g'' tgt _ c sw end
                                            end) (get_source_columns g' c) (Ok g')
                                     else Ok g')).
  intros g0 c g1. destruct (String.eqb (craw c) "*"); [|intros H; inversion H; apply keeps_refl].
  apply (fold_res_keeps (fun g'' sw => match col_parent sw with
                                       | None => Ok g''
                                       | Some st =>
                                           match (match dk st with
                                                  | KSubq => get_table_columns g'' st
                                                  | KTable => if p_truthy (e_provider e) then provider_columns e st else []
                                                  | KPath => []
                                                  end) with [] => Ok g'' | _ => replace_wildcard g'' tgt _ c sw end
                                       end)).
  intros g2 sw g3. destruct (col_parent sw) as [st|]; [|intros H; inversion H; apply keeps_refl].
  destruct (match dk st with KSubq => _ | KTable => _ | KPath => _ end) eqn:Ec; [intros H; inversion H; apply keeps_refl|].
  apply keeps_replace_wildcard.
Qed.

(** ** [compose] *)
Lemma gnodes_compose_fold g h :
  gnodes (compose g h) = gnodes (fold_left (fun g' p => add_node g' (fst p) (snd p)) (gnodes h) g).
Proof.
  unfold compose. cbn [gnodes]. generalize (gnodes h) as hl. intros hl. revert g.
  induction hl as [|p r IH]; intros g; cbn [fold_left]; [reflexivity|]. rewrite <- IH. reflexivity.
Qed.

Lemma has_tag_put k g m a v : rw_attrs a -> node_eqb (NData v) m = true -> In (k, true) a -> has_tag k (add_node g m a) v.
Proof.
  intros Ha E Hk. destruct (upsert_node_new m a (gnodes g)) as (m' & b & K1 & K2 & K3).
  exists m', b. split; [exact K1|]. split; [exact (node_eqb_trans _ _ _ E K2)|].
  destruct K3 as [->|(b0 & ->)]; [exact Hk|apply attr_update_puts; assumption].
Qed.

Lemma fold_add_nodes hl : (forall n a, In (n, a) hl -> rw_attrs a) -> forall g,
  let g' := fold_left (fun g' p => add_node g' (fst p) (snd p)) hl g in
  keeps g g' /\ forall k v m a, In (m, a) hl -> node_eqb (NData v) m = true -> In (k, true) a -> has_tag k g' v.
Proof.
  induction hl as [|[n0 a0] r IH]; intros Hh g; cbn [fold_left].
  - split; [apply keeps_refl|intros k v m a []].
  - assert (Ha0 : rw_attrs a0) by (apply (Hh n0 a0); left; reflexivity).
    destruct (IH (fun n a H => Hh n a (or_intror H)) (add_node g n0 a0)) as [K1 K2]. cbn [fst snd]. split.
    + apply (keeps_trans _ _ _ (keeps_add_node g n0 a0 Ha0) K1).
    + intros k v m a [H|H] E Hk; [inversion H; subst; apply (proj2 K1); apply has_tag_put; assumption|exact (K2 k v m a H E Hk)].
Qed.

Lemma RW_compose g h : RW g -> RW h -> RW (compose g h).
Proof.
  intros Hg Hh n a Hin. rewrite gnodes_compose_fold in Hin.
  exact (proj1 (proj1 (fold_add_nodes (gnodes h) Hh g)) Hg n a Hin).
Qed.

Lemma has_tag_compose_r k g h v : RW h -> has_tag k h v -> has_tag k (compose g h) v.
Proof.
  intros Hh (m & a & Hin & E & Hk).
  destruct (proj2 (fold_add_nodes (gnodes h) Hh g) k v m a Hin E Hk) as (m' & a' & H1 & H2 & H3).
  exists m', a'. rewrite gnodes_compose_fold. auto.
Qed.

(** ** what the invariants give: [tag_free], and membership in [h_read] / [h_write] *)
Lemma rw_attr_get a k : rw_attrs a -> k <> "read" -> k <> "write" -> attr_get k a = None.
Proof.
  intros Ha H1 H2. induction a as [|[k' v] r IH]; [reflexivity|]. cbn [attr_get].
  destruct (String.eqb k k') eqn:E.
  - apply String.eqb_eq in E. subst k'. destruct (Ha (k, v) (or_introl eq_refl)) as [_ [K|K]]; cbn [fst] in K; contradiction.
  - apply IH. intros kv H. apply Ha. right. exact H.
Qed.

Lemma rw_no_true a k : rw_attrs a -> k <> "read" -> k <> "write" -> RefineDefs.no_true k a = true.
Proof.
  intros Ha H1 H2. unfold RefineDefs.no_true. apply forallb_forall. intros [k' v] Hin. cbn [fst snd].
  destruct (String.eqb k' k) eqn:E; [|reflexivity]. apply String.eqb_eq in E. subst k'.
  destruct (Ha (k, v) Hin) as [_ [K|K]]; cbn [fst] in K; contradiction.
Qed.

Lemma RW_tag_free g : RW g -> RefineDefs.tag_free g = true.
Proof.
  intros H. unfold RefineDefs.tag_free. apply forallb_forall. intros [n a] Hin. cbn [fst snd].
  destruct (is_dataset n); [|reflexivity]. cbn [negb orb]. pose proof (H n a Hin) as Ha.
  rewrite (rw_attr_get a "source_only" Ha), (rw_attr_get a "target_only" Ha), (rw_no_true a "selfloop" Ha) by discriminate. reflexivity.
Qed.

Lemma rw_attr_true a k : rw_attrs a -> In (k, true) a -> attr_true k a = true.
Proof.
  intros Ha Hk. unfold attr_true. induction a as [|[k' v] r IH]; [destruct Hk|]. cbn [attr_get].
  destruct (String.eqb k k') eqn:E.
  - pose proof (proj1 (Ha (k', v) (or_introl eq_refl))) as Hv. cbn [snd] in Hv. rewrite Hv. reflexivity.
  - destruct Hk as [Hk|Hk]; [inversion Hk; subst; rewrite String.eqb_refl in E; discriminate|].
    apply IH; [intros kv H; apply Ha; right; exact H|exact Hk].
Qed.

Lemma has_tag_memn k g v : RW g -> is_dataset (NData v) = true -> has_tag k g v -> memn (NData v) (tagged g k is_dataset) = true.
Proof.
  intros Hg Hd (m & a & Hin & E & Hk). apply Composition.memn_In. exists m. split; [|exact E].
  unfold tagged. apply in_map_iff. exists (m, a). split; [reflexivity|]. apply filter_In. split; [exact Hin|]. cbn [fst snd].
  rewrite (rw_attr_true a k (Hg m a Hin) Hk), <- (RefineGraph.is_dataset_eqb _ _ E), Hd. reflexivity.
Qed.

(* ================================================================== *)
(** * Part 3: one statement of the fragment: [tag_free] and [owners_dir] *)
Lemma keeps_awc d cols : forall g i, keeps g (fst (fold_left (awc_step d) cols (g, i))).
Proof.
  induction cols as [|c r IH]; intros g i; cbn [fold_left]; [apply keeps_refl|]. cbn [awc_step].
  eapply keeps_trans; [apply keeps_add_edge|apply IH].
Qed.

Lemma RW_add_write d : RW (add_write empty_graph d) /\ has_tag "write" (add_write empty_graph d) d.
Proof.
  split; [|apply has_tag_new]. intros n a [H|[]]. inversion H. apply rw_single. auto.
Qed.

Lemma RW_gb_of d cs : RW (gb_of d cs) /\ has_tag "write" (gb_of d cs) d.
Proof.
  rewrite gb_of_eq. destruct (keeps_awc d (cl_of cs) (add_write empty_graph d) 0) as [K1 K2]. destruct (RW_add_write d) as [A B]. auto.
Qed.

Lemma holder_tags e gb d ts xs G : RW gb -> has_tag "write" gb d ->
  (do sub <- (do g2 <- end_of_query_cleanup e gb ts xs []; expand_wildcard e g2); Ok (compose gb sub)) = Ok G ->
  RW G /\ has_tag "write" G d /\ forall v, In v ts -> has_tag "read" G v.
Proof.
  intros Hb Hw H. destruct (end_of_query_cleanup e gb ts xs []) as [g2|err] eqn:E2; [|discriminate].
  cbn in H. destruct (expand_wildcard e g2) as [sub|err] eqn:E3; [|discriminate]. inversion H. clear H.
  destruct (keeps_eoq e gb ts xs g2 E2) as [K2 R2]. pose proof (keeps_expand_wildcard e g2 sub E3) as K3.
  assert (Hs : RW sub) by (apply (proj1 K3); apply (proj1 K2); exact Hb).
  split; [apply RW_compose; assumption|]. split.
  - apply has_tag_compose_r; [exact Hs|]. apply (proj2 K3). apply (proj2 K2). exact Hw.
  - intros v Hv. apply has_tag_compose_r; [exact Hs|]. apply (proj2 K3). apply R2. exact Hv.
Qed.

Lemma owners_dir_of G FL d ts :
  realises G FL -> RW G -> dk d = KTable -> (forall v, In v ts -> dk v = KTable) ->
  has_tag "write" G d -> (forall v, In v ts -> has_tag "read" G v) ->
  (forall f, In f FL -> (exists v, In v ts /\ cparents (fst f) = [v]) /\ cparents (snd f) = [d]) ->
  CompDefs.owners_dir (holder_of G) = true.
Proof.
  intros R Hrw Hd Hts Hw Hr HF. unfold CompDefs.owners_dir. apply forallb_forall. intros e He. cbn [hg holder_of] in He.
  destruct (CompDefs.is_cc e) eqn:Ecc; [|reflexivity]. cbn [negb orb]. unfold CompDefs.is_cc in Ecc. apply andb_true_iff in Ecc. destruct Ecc as [C1 _].
  destruct (r_sound _ _ R _ _ C1 (edge_has_edge G e He)) as (f & Hf & E1 & E2). destruct (HF f Hf) as [(v & Hv & Ev) Ed].
  unfold RefineDefs.esrc, RefineDefs.etgt in *.
  rewrite (Composition.owner_in_cong _ _ _ E1), (Composition.owner_in_cong _ _ _ E2).
  assert (Kv : is_dataset (NData v) = true) by (cbn [is_dataset]; rewrite (Hts v Hv); reflexivity).
  assert (Kd : is_dataset (NData d) = true) by (cbn [is_dataset]; rewrite Hd; reflexivity).
  rewrite (Composition.owner_in_memn (NCol (fst f)) v _) by (try exact Kv; cbn [CompDefs.owner]; unfold col_parent; rewrite Ev; reflexivity).
  rewrite (Composition.owner_in_memn (NCol (snd f)) d _) by (try exact Kd; cbn [CompDefs.owner]; unfold col_parent; rewrite Ed; reflexivity).
  unfold h_read, h_write. cbn [hg holder_of].
  rewrite (has_tag_memn "read" G v Hrw Kv (Hr v Hv)), (has_tag_memn "write" G d Hrw Kd Hw). reflexivity.
Qed.

Lemma write_nonempty G d : RW G -> dk d = KTable -> has_tag "write" G d -> h_write (holder_of G) <> [].
Proof.
  intros Hrw Hd Hw E. assert (Kd : is_dataset (NData d) = true) by (cbn [is_dataset]; rewrite Hd; reflexivity).
  pose proof (has_tag_memn "write" G d Hrw Kd Hw) as H. unfold h_write in E. cbn [hg holder_of] in E. rewrite E in H. discriminate H.
Qed.

Lemma flows_parents d ts xs (l : list (xcol * column)) :
  group_ok d ts -> ts_inj ts -> dk d = KTable -> (forall x, In x xs -> xref_ok ts x) -> unres_names ts xs = [] ->
  (forall p0, In p0 l -> In (fst p0) xs /\ cparents (snd p0) = [d]) ->
  forall f, In f (flows_of (S_of ts) l) -> (exists v, In v ts /\ cparents (fst f) = [v]) /\ cparents (snd f) = [d].
Proof.
  intros Hgo Hinj Hd Hxs Hun Hl f Hf. unfold flows_of in Hf. apply in_flat_map in Hf. destruct Hf as (p0 & Hp0 & Hf).
  apply in_map_iff in Hf. destruct Hf as (s0 & <- & Hs0). destruct (Hl p0 Hp0) as [Hx Ep]. cbn [fst snd]. split; [|exact Ep].
  destruct (S_of_props d ts xs (fst p0) Hgo Hinj Hd Hx (Hxs _ Hx)) as (_ & _ & _ & _ & A5). rewrite Hun in A5.
  destruct (A5 s0 Hs0) as [K|(nm & [] & _)]. exact K.
Qed.

(** the statement theorem of ScriptExact.v, with the two further conjuncts of [c06_hyps] *)
Theorem core_statement_c06 : forall noise e s,
  noise_ok noise = true -> env_ok e = true ->
  stmt_ok s = true -> colshape s = true -> sel_tables_syntactic s = true -> unq_single s = true ->
  exists G, analyze e false (r_stmt noise s) = Ok G /\
            RefineDefs.tag_free G = true /\ CompDefs.owners_dir (holder_of G) = true /\ h_write (holder_of G) <> [].
Proof.
  intros noise e s Hn He Hok Hc Hsh Huq.
  assert (K : exists t items from cj,
            ((exists cols, s = SInsert t cols (QSelect items from cj None) /\ match cols with Some cs => forallb id_ok cs = true | None => True end)
             \/ s = SCtas t (QSelect items from cj None) \/ s = SView t (QSelect items from cj None)) /\
            forallb is_rtable from && trefs_distinct (map rtref from) = true /\
            tref_ok t && frag_query (S (q_size (QSelect items from cj None))) (QSelect items from cj None)
            && names_ok_q (S (q_size (QSelect items from cj None))) [] (QSelect items from cj None) = true /\
            match from with
            | [_] => true
            | _ => forallb (fun i => match snd (item_ref i) with Some _ => true | None => false end) items
            end = true).
  { destruct s as [t cols q|t q|t q|q|kind]; cbn [sel_tables_syntactic] in Hsh; try discriminate;
      destruct q as [items from cj [wh|]| |]; try discriminate; exists t, items, from, cj.
    - cbn [stmt_ok] in Hok. apply andb_true_iff in Hok. destruct Hok as [Hok Hcols]. split; [|split; [exact Hsh|split; [exact Hok|exact Huq]]].
      left. exists cols. split; [reflexivity|]. destruct cols; [exact Hcols|exact I].
    - cbn [stmt_ok] in Hok. split; [right; left; reflexivity|]. split; [exact Hsh|split; [exact Hok|exact Huq]].
    - cbn [stmt_ok] in Hok. split; [right; right; reflexivity|]. split; [exact Hsh|split; [exact Hok|exact Huq]]. }
  destruct K as (t & items & from & cj & Hs & Hsh' & Hok' & Huq').
  apply andb_true_iff in Hsh'. destruct Hsh' as [Hrt Hd].
  destruct (stmt_ok_select t items from cj Hok' Hrt) as (Ht & Hit & Hne & Hrel).
  assert (Hs' : (exists cols, s = SInsert t cols (QSelect items from cj None)) \/ s = SCtas t (QSelect items from cj None) \/ s = SView t (QSelect items from cj None)).
  { destruct Hs as [(cols & E & _)|[E|E]]; [left; exists cols; exact E|right; left; exact E|right; right; exact E]. }
  destruct (colshape_tables (e_cfg e) s t items from cj Hs' Hc Ht Hne Hrel Hit Hd) as (Htc & Hic & _).
  pose proof (unq_single_unres e items from Huq' Hit) as Hun.
  pose proof (group_ok_of e t from Hrel Htc) as Hgo. pose proof (ts_inj_of e t from Hrel Htc) as Hinj.
  pose proof (names_nodot_of e from Hrel) as Hnd. pose proof (xref_ok_of e t from items Hrel Hit Htc Hic) as Hxs.
  set (d := tbl e t None) in *. set (ts := map (tbl_of e) from) in *. set (xs := map xcol_of items) in *.
  assert (Hsel : (s = SInsert t None (QSelect items from cj None) \/ s = SCtas t (QSelect items from cj None) \/ s = SView t (QSelect items from cj None)) ->
                 exists G, analyze e false (r_stmt noise s) = Ok G /\ RefineDefs.tag_free G = true /\ CompDefs.owners_dir (holder_of G) = true /\ h_write (holder_of G) <> []).
  { intros Hs3. destruct (holder_select noise e s t items from cj Hn He Hs3 Ht Hit Hne Hrel Hgo Hinj Hnd Hxs Hun) as (G & Ea & CF & _).
    exists G. split; [exact Ea|].
    assert (Ef : analyze e false (r_stmt noise s) = sel_holder e t items from).
    { destruct Hs3 as [->|[->| ->]].
      - apply analyze_insert_select; assumption.
      - apply (analyze_create_select noise Hn e He false); assumption.
      - apply (analyze_create_select noise Hn e He true); assumption. }
    rewrite Ea in Ef. symmetry in Ef. unfold sel_holder in Ef.
    destruct (RW_add_write d) as [B1 B2].
    destruct (holder_tags e (add_write empty_graph d) d ts xs G B1 B2 Ef) as (T1 & T2 & T3).
    split; [exact (RW_tag_free G T1)|].
    split; [|exact (write_nonempty G d T1 eq_refl T2)].
    apply (owners_dir_of G _ d ts (cf_real _ _ CF) T1 eq_refl (go_tables _ _ Hgo) T2 T3).
    apply (flows_parents d ts xs _ Hgo Hinj eq_refl Hxs Hun). intros p0 Hp0. unfold own_pairs in Hp0. apply in_map_iff in Hp0.
    destruct Hp0 as (x & <- & Hx). cbn [fst snd]. split; [exact Hx|].
    destruct (S_of_props d ts xs x Hgo Hinj eq_refl Hx (Hxs _ Hx)) as (A1 & _). fold d. rewrite (own_col_eq d x A1). reflexivity. }
  destruct Hs as [(cols & E & Hcols)|Hs].
  - destruct cols as [cs|].
    + destruct (colshape_tables "" s t items from cj Hs' Hc Ht Hne Hrel Hit Hd) as (Htc0 & _ & _).
      destruct (colshape_cols s t cs items from cj E Hc Hrel Hit Htc0 Hic) as [Hndc Hlen]. rewrite E.
      destruct (holder_insert_cols noise e t cs items from cj Hn He Ht Hcols Hndc Hlen Hit Hne Hrel Hgo Hinj Hnd Hxs Hun) as (G & Ea & CF & _).
      exists G. split; [exact Ea|].
      pose proof (analyze_insert_cols noise Hn e He t cs items from cj Ht Hcols Hndc Hit Hne Hrel) as Ef.
      rewrite Ea in Ef. symmetry in Ef. unfold sel_holder_cols in Ef.
      destruct (RW_gb_of d cs) as [B1 B2].
      destruct (holder_tags e (gb_of d cs) d ts xs G B1 B2 Ef) as (T1 & T2 & T3).
      split; [exact (RW_tag_free G T1)|].
      split; [|exact (write_nonempty G d T1 eq_refl T2)].
      apply (owners_dir_of G _ d ts (cf_real _ _ CF) T1 eq_refl (go_tables _ _ Hgo) T2 T3).
      apply (flows_parents d ts xs _ Hgo Hinj eq_refl Hxs Hun). intros [x w] Hp0. cbn [fst snd].
      split; [exact (in_combine_l _ _ _ _ Hp0)|]. apply in_combine_r in Hp0. apply in_map_iff in Hp0.
      destruct Hp0 as (c & <- & _). reflexivity.
    + apply Hsel. left. exact E.
  - apply Hsel. right. exact Hs.
Qed.
Print Assumptions core_statement_c06.

(* ================================================================== *)
(** * Part 4: scripts *)
Lemma core_script_c06 noise e ss :
  noise_ok noise = true -> env_ok e = true -> Forall core_stmt ss ->
  exists Gs, map_res (analyze e false) (map (r_stmt noise) ss) = Ok Gs /\
             Composition.c04_hyps (map holder_of Gs) = true /\ Composition.c06_hyps (map holder_of Gs) = true /\
             Forall (fun h => h_write h <> []) (map holder_of Gs).
Proof.
  intros Hn He H.
  assert (K : exists Gs, map_res (analyze e false) (map (r_stmt noise) ss) = Ok Gs /\
              forallb CompDefs.plain_holder (map holder_of Gs) = true /\
              forallb CompDefs.resolved_holder (map holder_of Gs) = true /\
              forallb CompDefs.cwf_holder (map holder_of Gs) = true /\
              forallb (fun h => CompDefs.col_out_closed (hg h)) (map holder_of Gs) = true /\
              forallb (fun h => RefineDefs.tag_free (hg h)) (map holder_of Gs) = true /\
              forallb CompDefs.owners_dir (map holder_of Gs) = true /\
              Forall (fun h => h_write h <> []) (map holder_of Gs)).
  { induction H as [|s ss (H1 & _ & H3 & H4 & H5) _ IH].
    - exists []. repeat split. constructor.
    - destruct IH as (Gs & Em & P1 & P2 & P3 & P4 & P5 & P6 & P7).
      destruct (core_statement noise e s Hn He H1 H3 H4 H5) as (G & Ea & Q1 & Q2 & Q3 & _).
      destruct (core_statement_c06 noise e s Hn He H1 H3 H4 H5) as (G' & Ea' & Q5 & Q6 & Q7).
      rewrite Ea in Ea'. inversion Ea'. subst G'.
      assert (Q4 : CompDefs.col_out_closed G = true).
      { unfold CompDefs.cwf_holder, CompDefs.cwf_graph in Q3. cbn [hg holder_of] in Q3. apply andb_true_iff in Q3. exact (proj2 Q3). }
      exists (G :: Gs). split; [cbn [map map_res]; rewrite Ea, Em; reflexivity|].
      cbn [map forallb hg holder_of]. cbn [hg holder_of] in Q5. rewrite Q1, Q2, Q3, Q4, Q5, Q6, P1, P2, P3, P4, P5, P6. repeat split. constructor; assumption. }
  destruct K as (Gs & Em & P1 & P2 & P3 & P4 & P5 & P6 & P7). exists Gs. split; [exact Em|].
  unfold Composition.c04_hyps, Composition.c06_hyps. rewrite P1, P2, P3, P4, P5, P6. repeat split. exact P7.
Qed.

(** the form [c06_main] gives directly: every column but the last belongs to a dataset that some statement reads *)
Theorem script_paths_project_on_core : forall noise e ss,
  noise_ok noise = true -> env_ok e = true -> Forall core_stmt ss ->
  exists g Gs, map_res (analyze e false) (map (r_stmt noise) ss) = Ok Gs /\
    script_graph e false [] (map (r_stmt noise) ss) = Ok g /\
    forall b path, In path (column_lineage g b false) ->
      2 <= List.length path /\
      (forall n, In n (tl path) -> CompDefs.owner_in n (target_tables g ++ intermediate_tables g) = true) /\
      (forall n, In n (removelast path) -> exists G, In G Gs /\ CompDefs.owner_in n (h_read (holder_of G)) = true).
Proof.
  intros noise e ss Hn He H.
  destruct (core_script_c06 noise e ss Hn He H) as (Gs & Em & _ & Hh & _).
  destruct (run_statements_core e _ Gs (proj1 (env_facts e He)) Em) as (sess & Er).
  unfold script_graph. rewrite Er. cbn [fst snd].
  set (p := {| p_truthy := p_truthy (e_provider e); p_cols := view_cols sess [] |}).
  destruct (Composition.c06_main p (map holder_of Gs) Hh) as (g & Hb & Hp). rewrite Hb. exists g, Gs. split; [exact Em|]. split; [reflexivity|].
  intros b path Hin. destruct (Hp b path Hin) as [P1 P2]. split; [exact (proj1 (column_lineage_wf g b path Hin))|]. split; [exact P1|].
  intros n Hn0. destruct (P2 n Hn0) as (h & Hh0 & Ho). apply in_map_iff in Hh0. destruct Hh0 as (G & <- & HG). exists G. auto.
Qed.
Print Assumptions script_paths_project_on_core.

(* ================================================================== *)
(** * Part 5: a dataset that some statement of a plain script reads (every statement writing something) is a source or
      an intermediate table of the script.  Mirror image of [tmark] / [fold_tmark] / [tmark_roles] of
      Holder/Composition.v (which treat "written => target or intermediate"). *)
Module M.
Import RefineDefs RefineGraph Refinement CompDefs Composition.

Definition Pout (d : Graph.node) (e : Graph.node * Graph.node * eattrs) : bool := dd e && String.eqb (key (esrc e)) (key d).
Lemma eresp_Pout d : eresp (Pout d).
Proof.
  intros u v a u' v' a' Hu Hv. unfold Pout, dd, esrc, etgt; cbn [fst snd].
  rewrite <- (is_dataset_eqb _ _ Hu), <- (is_dataset_eqb _ _ Hv).
  destruct (is_dataset u) eqn:Eu; [|reflexivity]. rewrite (key_resp _ _ Hu Eu). reflexivity.
Qed.

(** the dataset has an outgoing table-level edge, or carries the tag source_only *)
Definition smark (g : graph) (d : Graph.node) : bool :=
  existsb (Pout d) (gedges g) || existsb (Qt "source_only" (key d)) (gnodes g).

Lemma smark_plain g h g' d : plain_shape (compose g (hg h)) h g' ->
  tag_absent "source_only" (gnodes (hg h)) -> is_dataset d = true -> h_write h <> [] ->
  (has_node g d = true /\ smark g d = true) \/ memn d (h_read h) = true ->
  has_node g' d = true /\ smark g' d = true.
Proof.
  intros Hs Hab Hd Hwn H.
  assert (Hn : has_node g' d = true).
  { rewrite (plain_shape_has_node g h g' d Hs). destruct H as [[H _]|H]; [rewrite H; apply Bool.orb_true_r|].
    apply memn_In in H. destruct H as (w & Hw & E). rewrite (has_node_cong _ _ _ E), (proj2 (h_read_In h w Hw)). reflexivity. }
  split; [exact Hn|].
  pose proof (existsb_compose (Pout d) g (hg h) (eresp_Pout d)) as Hec.
  pose proof (tag_compose "source_only" (key d) g (hg h) Hab) as Htc.
  assert (Hmono : smark g d = true ->
          existsb (Pout d) (gedges (compose g (hg h))) || existsb (Qt "source_only" (key d)) (gnodes (compose g (hg h))) = true).
  { unfold smark. rewrite Hec, Htc. intros H0. apply Bool.orb_true_iff in H0. destruct H0 as [H0|H0]; rewrite H0; [reflexivity|apply Bool.orb_true_r]. }
  unfold smark. destruct Hs as [Hw|Hr|Hrw].
  - contradiction.
  - rewrite Hr in H. destruct H as [[_ H]|H]; [|discriminate H].
    cbn [set_attr gedges]. rewrite (tag_set_attr_ne _ _ "target_only" true "source_only" _ eq_refl). apply Hmono; exact H.
  - destruct (add_product_spec (h_read h) (h_write h) (compose g (hg h))) as [A1 A2].
    + intros r Hr. rewrite has_node_compose, (proj2 (h_read_In h r Hr)). reflexivity.
    + intros w Hw. rewrite has_node_compose, (proj2 (h_write_In h w Hw)). reflexivity.
    + rewrite A1, (A2 _ (eresp_Pout d)). destruct H as [[_ H]|H].
      * apply Hmono in H. apply Bool.orb_true_iff in H. destruct H as [H|H]; rewrite H; [|apply Bool.orb_true_r].
        rewrite Bool.orb_true_r. reflexivity.
      * apply memn_In in H. destruct H as (r & Hr & E).
        assert (Hex : existsb (fun r0 => existsb (fun w0 => Pout d (r0, w0, lineage_edge)) (h_write h)) (h_read h) = true).
        { apply existsb_exists. exists r. split; [exact Hr|].
          destruct (h_write h) as [|w0 ww] eqn:Ew; [contradiction Hwn; reflexivity|].
          assert (Hw0 : In w0 (h_write h)) by (rewrite Ew; left; reflexivity).
          cbn [existsb]. apply Bool.orb_true_iff. left.
          unfold Pout, dd, esrc, etgt; cbn [fst snd].
          rewrite (proj1 (h_read_In h r Hr)), (proj1 (h_write_In h w0 Hw0)), <- (key_resp _ _ E Hd), String.eqb_refl. reflexivity. }
        rewrite Hex. reflexivity.
Qed.

Lemma tag_free_absent_so g : tag_free g = true -> tag_absent "source_only" (gnodes g).
Proof.
  unfold tag_free. rewrite forallb_forall. intros W3 q Hin Hd. specialize (W3 q Hin). rewrite Hd in W3. cbn [negb orb] in W3.
  repeat (apply Bool.andb_true_iff in W3; destruct W3 as [W3 ?]).
  destruct (attr_get "source_only" (snd q)); [discriminate|reflexivity].
Qed.

Lemma fold_smark hs : all_plain hs -> all_tag_free hs -> Forall (fun h => h_write h <> []) hs ->
  forall d, is_dataset d = true -> forall g g',
  fold_steps g hs = BOk g' ->
  (has_node g d = true /\ smark g d = true) \/ (exists h, In h hs /\ memn d (h_read h) = true) ->
  has_node g' d = true /\ smark g' d = true.
Proof.
  induction 1 as [|h r Hh Hr IH]; intros Htf Hwn d Hd g g'; cbn [fold_steps].
  - intros E; inversion E; subst. intros [H|(h & [] & _)]. exact H.
  - inversion Htf as [|h0 r0 Th Tr]; subst. inversion Hwn as [|h1 r1 Wh Wr]; subst.
    destruct (plain_step g h Hh) as (g1 & E1 & S1). rewrite E1. intros E H.
    apply (IH Tr Wr d Hd g1 g' E).
    destruct H as [H|(h' & [Hin|Hin] & Hm)].
    + left. apply (smark_plain g h g1 d S1 (tag_free_absent_so _ Th) Hd Wh). left; exact H.
    + subst h'. left. apply (smark_plain g h g1 d S1 (tag_free_absent_so _ Th) Hd Wh). right; exact Hm.
    + right. exists h'. split; assumption.
Qed.

Lemma role_bool_s (i o sl so : bool) :
  negb o || so = true -> ((i && negb o) || sl || so) || (negb i && negb o && negb sl) = true.
Proof. destruct i, o, sl, so; cbn; intros H; try reflexivity; discriminate H. Qed.

Lemma smark_roles g0 d : is_dataset d = true -> has_node g0 d = true -> smark g0 d = true ->
  let g2 := set_attr g0 (selfloop_nodes g0) "selfloop" true in
  memn d (source_tables g2 ++ intermediate_tables g2) = true.
Proof.
  intros Hd Hn Hm g2.
  apply has_node_In in Hn. destruct Hn as (m & Hmin & Hdm).
  assert (Hmd : is_dataset m = true) by (rewrite <- (is_dataset_eqb _ _ Hdm); exact Hd).
  assert (Hns : map fst (gnodes (table_graph g2)) = dnodes (gnodes g0)).
  { rewrite table_graph_form. cbn [gnodes]. rewrite map_fst_filter_dsp. unfold dnodes, g2. rewrite map_fst_set_attr. reflexivity. }
  assert (Hmin' : In m (map fst (gnodes (table_graph g2)))).
  { rewrite Hns. unfold dnodes. apply filter_In. split; assumption. }
  assert (Hkey : key d = key m) by (apply key_resp; assumption).
  assert (Hcond : negb (Nat.eqb (outdeg (table_graph g2) m) 0) || memn m (retrieve_tag g2 "source_only") = true).
  { unfold smark in Hm. apply Bool.orb_true_iff in Hm. destruct Hm as [Hm|Hm]; apply Bool.orb_true_iff.
    - left. apply Bool.negb_true_iff. apply Nat.eqb_neq. intros Hz.
      unfold outdeg, out_edges in Hz. rewrite table_graph_form in Hz. cbn [gedges] in Hz. unfold g2 in Hz. cbn [set_attr gedges] in Hz.
      rewrite length_filter_zero in Hz. apply existsb_exists in Hm. destruct Hm as (e & He & HP). unfold Pout in HP.
      apply Bool.andb_true_iff in HP. destruct HP as [Hdd Hk]. apply String.eqb_eq in Hk.
      assert (Hin : In e (filter dd (gedges g0))) by (apply filter_In; split; assumption).
      specialize (Hz e Hin). cbv beta in Hz.
      assert (Hme : node_eqb m (esrc e) = true) by (apply key_inj; [exact Hmd|congruence]).
      unfold esrc in Hme. rewrite Hme in Hz. discriminate.
    - right. unfold g2. rewrite (tag_g2_other g0 _ "source_only" m Hmd eq_refl), mem_tag_keys, <- Hkey. exact Hm. }
  apply role_bool_s with (i := Nat.eqb (indeg (table_graph g2) m) 0) (sl := memn m (retrieve_tag g2 "selfloop")) in Hcond.
  rewrite memn_app. apply Bool.orb_true_iff. apply Bool.orb_true_iff in Hcond. destruct Hcond as [Hc|Hc]; [left|right].
  - unfold source_tables. cbv zeta. apply (memn_filter_In d m _ _ Hmin' Hdm). exact Hc.
  - unfold intermediate_tables. cbv zeta. apply (memn_filter_In d m _ _ Hmin' Hdm). exact Hc.
Qed.

(** a dataset read by some statement is a source or an intermediate table of the script *)
Theorem read_is_source_or_intermediate p hs g d :
  all_plain hs -> all_resolved hs -> all_tag_free hs -> Forall (fun h => h_write h <> []) hs ->
  build p hs = BOk g -> is_dataset d = true -> (exists h, In h hs /\ memn d (h_read h) = true) ->
  memn d (source_tables g ++ intermediate_tables g) = true.
Proof.
  intros Hp Hr Htf Hwn Hb Hd Hex.
  destruct (build_plain p hs Hp Hr) as (g0 & E0 & _ & E' & _). rewrite E' in Hb. inversion Hb as [Hg].
  destruct (fold_smark hs Hp Htf Hwn d Hd empty_graph g0 E0 (or_intror Hex)) as [Hn0 Hm0].
  apply (smark_roles g0 d Hd Hn0 Hm0).
Qed.
End M.
Print Assumptions M.read_is_source_or_intermediate.

(* ================================================================== *)
(** * Part 6: C06 on scripts of core statements *)
Theorem script_paths_well_formed_on_core : forall noise e ss,
  noise_ok noise = true -> env_ok e = true -> Forall core_stmt ss ->
  exists g, script_graph e false [] (map (r_stmt noise) ss) = Ok g /\
    forall b path, In path (column_lineage g b false) ->
      2 <= List.length path /\
      (forall n, In n (tl path) -> CompDefs.owner_in n (target_tables g ++ intermediate_tables g) = true) /\
      (forall n, In n (removelast path) -> CompDefs.owner_in n (source_tables g ++ intermediate_tables g) = true).
Proof.
  intros noise e ss Hn He H.
  destruct (core_script_c06 noise e ss Hn He H) as (Gs & Em & _ & Hh & Hw).
  destruct (run_statements_core e _ Gs (proj1 (env_facts e He)) Em) as (sess & Er).
  unfold script_graph. rewrite Er. cbn [fst snd].
  set (p := {| p_truthy := p_truthy (e_provider e); p_cols := view_cols sess [] |}).
  destruct (Composition.c06_main p (map holder_of Gs) Hh) as (g & Hb & Hp). rewrite Hb. exists g. split; [reflexivity|].
  unfold Composition.c06_hyps in Hh. rewrite !andb_true_iff, !Composition.forallb_Forall in Hh. destruct Hh as [[[[Pp Pr] _] Pt] _].
  intros b path Hin. destruct (Hp b path Hin) as [P1 P2]. split; [exact (proj1 (column_lineage_wf g b path Hin))|]. split; [exact P1|].
  intros n Hn0. destruct (P2 n Hn0) as (h & Hh0 & Ho). unfold CompDefs.owner_in in *.
  destruct (CompDefs.ds_owner n) as [d|] eqn:Ed; [|reflexivity].
  apply (M.read_is_source_or_intermediate p (map holder_of Gs) g d Pp Pr Pt Hw Hb (Composition.ds_owner_ds n d Ed)).
  exists h. auto.
Qed.
Print Assumptions script_paths_well_formed_on_core.

(** the checker of Part 1 never fails *)
Corollary wf_check_never_fails noise e ss : wf_check noise e ss <> "FAILS".
Proof.
  unfold wf_check. destruct (noise_ok noise && env_ok e && forallb core_ok ss) eqn:G; cbn [negb]; [|discriminate].
  apply andb_true_iff in G. destruct G as [G Hss]. apply andb_true_iff in G. destruct G as [Hn He].
  assert (HF : Forall core_stmt ss).
  { apply Forall_forall. intros s Hs. rewrite forallb_forall in Hss. specialize (Hss s Hs). unfold core_ok in Hss.
    repeat (apply andb_true_iff in Hss; destruct Hss as [Hss ?]). repeat split; assumption. }
  destruct (script_paths_well_formed_on_core noise e ss Hn He HF) as (g & Eg & Hg). rewrite Eg.
  replace (forallb (fun b => forallb (path_wf g) (column_lineage g b false)) [true; false]) with true; [discriminate|].
  symmetry. apply forallb_forall. intros b _. apply forallb_forall. intros path Hin. destruct (Hg b path Hin) as (L & P1 & P2).
  unfold path_wf. rewrite !andb_true_iff. split; [split|].
  - apply Nat.leb_le. exact L.
  - apply forallb_forall. exact P1.
  - apply forallb_forall. exact P2.
Qed.
Print Assumptions wf_check_never_fails.

(** non-vacuity: test 2 (a.x > b.x > c.x, a.y > b.y) with noise and a default schema: the graph exists, the reported
    paths are well-formed, b is the intermediate table *)
Example script_paths_well_formed_nonvacuous :
  exists g, script_graph Tests.e1 false [] (map (r_stmt [Tests.ws; Tests.cm]) Examples.ss2) = Ok g /\
    map (map node_str) (column_lineage g true false) = [["main.a.x"; "main.b.x"; "main.c.x"]; ["main.a.y"; "main.b.y"]] /\
    map node_str (source_tables g) = ["main.a"] /\ map node_str (intermediate_tables g) = ["main.b"] /\
    map node_str (target_tables g) = ["main.c"] /\
    forall b path, In path (column_lineage g b false) ->
      2 <= List.length path /\
      (forall n, In n (tl path) -> CompDefs.owner_in n (target_tables g ++ intermediate_tables g) = true) /\
      (forall n, In n (removelast path) -> CompDefs.owner_in n (source_tables g ++ intermediate_tables g) = true).
Proof.
  destruct (script_paths_well_formed_on_core [Tests.ws; Tests.cm] Tests.e1 Examples.ss2 eq_refl eq_refl Examples.ss2_core) as (g & Eg & Hg).
  exists g. split; [exact Eg|].
  assert (E : script_graph Tests.e1 false [] (map (r_stmt [Tests.ws; Tests.cm]) Examples.ss2) = Ok g) by exact Eg.
  vm_compute in E. inversion E. subst g. clear E Eg.
  split; [vm_compute; reflexivity|]. split; [vm_compute; reflexivity|]. split; [vm_compute; reflexivity|]. split; [vm_compute; reflexivity|]. exact Hg.
Qed.

Example core_statement_c06_nonvacuous :
  exists G, analyze Tests.e1 false (r_stmt [Tests.ws; Tests.cm] (Tests.insc "c" ["u"] (Tests.sel [Tests.c_ "q"] [Tests.T "b"]))) = Ok G /\
            RefineDefs.tag_free G = true /\ CompDefs.owners_dir (holder_of G) = true /\ h_write (holder_of G) <> [].
Proof. apply core_statement_c06; reflexivity. Qed.
