(** L3 -> L4: how the parser lays out the core grammar (ANSI shape), as a function from the abstract
    syntax of Ast/Spec.v to segment trees, with arbitrary trivia between tokens.  The shape is validated
    against the real parser on every run (suite T3: strip (parse (print a)) = strip (render [] a)). *)
From SV Require Export Ast.Spec Tree.Observe.

Section Render.
  (** trivia inserted at every gap the grammar allows (never as first child) *)
  Variable noise : list seg.

  Definition leaf (t g : string) (c : list string) (r : string) : seg := Seg t g c r false false false [].
  Definition kw (w : string) : seg := leaf "keyword" "keyword" ["keyword"; "raw"; "word"] w.
  Definition ident (n : string) : seg := leaf "identifier" "naked_identifier" ["identifier"; "naked_identifier"; "raw"] n.
  Definition sym (g r : string) : seg := leaf "symbol" g [g; "raw"; "symbol"] r.
  Definition dot : seg := sym "dot" ".".
  Definition comma : seg := sym "comma" ",".
  Definition lpar : seg := sym "start_bracket" "(".
  Definition rpar : seg := sym "end_bracket" ")".
  Definition star_seg : seg := sym "star" "*".
  Definition num (r : string) : seg := leaf "literal" "numeric_literal" ["literal"; "numeric_literal"; "raw"] r.

  Definition node (t : string) (c : list string) (ch : list seg) : seg := Seg t t c "" false false false ch.

  (** children separated by noise *)
  Fixpoint sep (l : list seg) : list seg :=
    match l with
    | [] => []
    | [x] => [x]
    | x :: r => x :: noise ++ sep r
    end.

  Fixpoint intersperse (x : seg) (l : list seg) : list seg :=
    match l with [] => [] | [y] => [y] | y :: r => y :: x :: intersperse x r end.

  (** a schema may itself be dotted (db.schema): one identifier per part *)
  Definition r_tref (t : tref) : seg :=
    node "table_reference" ["object_reference"; "table_reference"]
         (match fst t with
          | Some s => intersperse dot (map ident (split_dot_aux s)) ++ [dot; ident (snd t)]
          | None => [ident (snd t)]
          end).

  Definition r_colref (q : option string) (c : string) : seg :=
    node "column_reference" ["column_reference"; "object_reference"]
         (match q with Some x => [ident x; dot; ident c] | None => [ident c] end).

  Definition r_alias (a : string) : seg :=
    node "alias_expression" ["alias_expression"] (sep [node "alias_operator" ["alias_operator"] [kw "as"]; ident a]).

  (** select items of the fragment: plain column references and stars *)
  Definition r_item (i : item) : seg :=
    node "select_clause_element" ["select_clause_element"]
         (match i with
          | IExpr (EColRef q c) al =>
              sep (r_colref q c :: match al with Some a => [r_alias a] | None => [] end)
          | IExpr _ al => sep (num "1" :: match al with Some a => [r_alias a] | None => [] end)
          | IStar q =>
              [node "wildcard_expression" ["wildcard_expression"]
                    [node "wildcard_identifier" ["wildcard_identifier"; "object_reference"]
                          (match q with Some x => [ident x; dot; star_seg] | None => [star_seg] end)]]
          end).

  Definition on_clause : seg :=
    node "join_on_condition" ["join_on_condition"]
         (sep [kw "on"; node "expression" ["expression"]
                             (sep [num "1"; node "comparison_operator" ["comparison_operator"] [sym "raw_comparison_operator" "="]; num "1"])]).

  Fixpoint r_query (fuel : nat) (q : query) : seg :=
    match fuel with
    | O => node "select_statement" ["select_statement"] []
    | S k =>
        let r_rel (r : rel) : seg :=
          node "from_expression_element" ["from_expression_element"]
               (match r with
                | RTable t al =>
                    sep (node "table_expression" ["table_expression"] [r_tref t]
                         :: match al with Some a => [r_alias a] | None => [] end)
                | RDerived q' a =>
                    sep [node "table_expression" ["table_expression"]
                              [node "bracketed" ["bracketed"] (sep [lpar; r_query k q'; rpar])];
                         r_alias a]
                | RGroup _ _ => []
                end) in
        match q with
        | QSelect items from comma_join wh =>
            node "select_statement" ["select_statement"]
              (sep ([node "select_clause" ["select_clause"] (sep (kw "select" :: intersperse comma (map r_item items)));
                     node "from_clause" ["from_clause"]
                          (sep (kw "from" ::
                                (if comma_join
                                 then intersperse comma (map (fun r => node "from_expression" ["from_expression"] [r_rel r]) from)
                                 else match from with
                                      | [] => []
                                      | r0 :: rest =>
                                          [node "from_expression" ["from_expression"]
                                                (sep (r_rel r0 :: map (fun r => node "join_clause" ["join_clause"]
                                                                                     (sep [kw "join"; r_rel r; on_clause])) rest))]
                                      end)))]
                    ++ match wh with
                       | Some (c, sq) =>
                           [node "where_clause" ["where_clause"]
                                 (sep [kw "where";
                                       node "expression" ["expression"]
                                            (sep [r_colref None c; kw "in";
                                                  node "bracketed" ["bracketed"] (sep [lpar; r_query k sq; rpar])])])]
                       | None => []
                       end))
        | QUnion a b =>
            node "set_expression" ["set_expression"]
                 (sep [r_query k a; node "set_operator" ["set_operator"] (sep [kw "union"; kw "all"]); r_query k b])
        | QWith n c b =>
            node "with_compound_statement" ["with_compound_statement"]
                 (sep [kw "with";
                       node "common_table_expression" ["common_table_expression"]
                            (sep [ident n; kw "as"; node "bracketed" ["bracketed"] (sep [lpar; r_query k c; rpar])]);
                       r_query k b])
        end
    end.

  Definition r_stmt (s : stmt) : seg :=
    match s with
    | SInsert t cols q =>
        node "insert_statement" ["insert_statement"]
             (sep ([kw "insert"; kw "into"; r_tref t]
                   ++ match cols with
                      | Some cs => [node "bracketed" ["bracketed"] (sep (lpar :: intersperse comma (map (r_colref None) cs) ++ [rpar]))]
                      | None => []
                      end
                   ++ [r_query (S (q_size q)) q]))
    | SCtas t q =>
        node "create_table_statement" ["create_table_statement"]
             (sep [kw "create"; kw "table"; r_tref t; kw "as"; r_query (S (q_size q)) q])
    | SView t q =>
        node "create_view_statement" ["create_view_statement"]
             (sep [kw "create"; kw "view"; r_tref t; kw "as"; r_query (S (q_size q)) q])
    | SQuery q => r_query (S (q_size q)) q
    | SNoData _ => node "delete_statement" ["delete_statement"] (sep [kw "delete"; kw "from"; r_tref (None, "t")])
    end.
End Render.

(** the fragment Lemma A is stated for: items are plain column references or stars, no join groups *)
Fixpoint frag_query (fuel : nat) (q : query) : bool :=
  match fuel with
  | O => false
  | S k =>
      match q with
      | QSelect items from _ wh =>
          forallb (fun i => match i with IExpr (EColRef _ _) _ => true | IStar _ => true | _ => false end) items
          && negb (match from with [] => true | _ => false end)
          && forallb (fun r => match r with RTable _ _ => true | RDerived q' _ => frag_query k q' | RGroup _ _ => false end) from
          && match wh with Some (_, sq) => frag_query k sq | None => true end
      | QUnion a b => frag_query k a && frag_query k b
      | QWith _ c b => frag_query k c && frag_query k b
      end
  end.

Definition show_render (s : stmt) : string :=
  (fix show (fuel : nat) (x : seg) : string :=
     match fuel with
     | O => ""
     | S k => (ty x ++ "/" ++ gty x ++ "/" ++ join "," (sort_strings (cls x)) ++
               (match children x with [] => "=" ++ raw x | ch => "(" ++ join " " (map (show k) ch) ++ ")" end))%string
     end) 200 (r_stmt [] s).
