(** Lemma B (columns): proofs.

    SUMMARY
    - The statement of Tree/LemmaB.v WITHOUT the guard [colshape] ([lemma_B_unguarded], i.e. the lemma as first stated,
      with [colshape := true]) is FALSE: [lemma_B_statement_refuted]; eighteen counterexample classes [cxB_*]
      (Part X), each satisfying [stmt_ok] and [sshape], each with [lemma_B_check0] = "FAILS", each excluded by the
      strengthened [colshape] ([cxB_guards], [cxB_fail], [cxB_excluded]).
    - [colshape] (Tree/LemmaB.v) = [cs_noself] (the target is not read) && [cs_cols] (an INSERT column list names every
      output column once) && [cs_alias] (alias discipline across scopes: K-C02-4/7/8; statement-wide, one bare name is
      one table and no alias is the bare name of another table) && [cs_scopes] (per SELECT:
      distinct relation names, references resolve to existing columns, unresolved names are used nowhere else, stars only
      where the output is not consumed by name, union branches of equal arity with distinct first-branch names).
    - PROVED, for an arbitrary trivia list [noise] and any number of items / tables ([lemma_B_tables_colshape], an
      instance of [lemma_B_statement]): INSERT (with or without column list) / CREATE TABLE AS / CREATE VIEW AS over ONE
      SELECT without WHERE from base tables without self join ([sel_tables_syntactic]).  Steps:
        [lemma_B_step1]  one table, column references (qualified or not), item aliases, INSERT column list;
        [lemma_B_step2]  ... and star items ([*], [q.*]);
        [lemma_B_step3]  several tables (joins or comma joins), qualified references and [q.*];
        [lemma_B_step4]  ... and unqualified references over several tables (unresolved: c{t1,t2}).
      [lemma_B_select_tables] / [lemma_B_insert_cols] are the same results from conditions on the syntax that do not
      mention [colshape]; [lemma_B_tables_restricted] from the executable guard [sel_tables_shape].
      [lemma_B_single_select] adds the statements without target (a plain SELECT over base tables, the no-data kinds).
    - NOT proved: step 5 (derived tables, WITH, UNION, WHERE .. IN) and the full [lemma_B_statement]; self joins.
      The general machinery is in place for them: Part P (from one statement holder to the reported pairs, for a
      bipartite set of flows), Part H (graph algebra up to Python equality), Part A/K (the cleanup of one table group,
      with own or given write columns).

    ORGANISATION
    Part X  counterexamples, refutation            Part U  [uniq_sorted (sort_strings l)] depends on the members only
    Part H  [has_edge] / [has_node] / stored node objects under add / compose / set_attr
    Part P  [build] on one holder ([build_one]), paths of a bipartite column graph ([lineage_of_realises])
    Part A  one SELECT over tables: alias mapping, [end_of_query_cleanup], wildcard expansion
    Part N  exact navigation on the rendered tree      Part C  INSERT / CREATE wrappers
    Part W  parents of an unresolved column            Part D  the holder realises the flows ([holder_realises])
    Part E  source columns of an item                  Part S  the specification side
    Part T/V  executable conditions, link to [colshape]  Part K  INSERT column list     Part Z  step theorems *)
From Coq Require Import Permutation.
From SV Require Import Tree.Render Tree.LemmaA Tree.LemmaAProofs Tree.LemmaB Ident.Escape Ident.EscapeProofs
     Holder.PathProofs Holder.SortProofs.
From SV Require TriviaProofs.

(* ================================================================== *)
(** * Part X: the statement without [colshape] is false: counterexamples, one per class *)
Definition e_cxB : env := mk_env "ansi" "" "" {| p_truthy := false; p_cols := [] |} [].
Definition ci (q : option string) (n : string) : item := IExpr (EColRef q n) None.
Definition cia (q : option string) (n a : string) : item := IExpr (EColRef q n) (Some a).
Definition tb (n : string) : rel := RTable (None, n) None.
Definition tba (n a : string) : rel := RTable (None, n) (Some a).
Definition tbs (s n : string) (a : option string) : rel := RTable (Some s, n) a.
Definition sel1 (items : list item) (from : list rel) : query := QSelect items from false None.
Definition tx : tref := (None, "x").

(** (1) K-C02-2  insert into t select a from t
    the column self loop t.a -> t.a is neither root nor leaf of the column graph: no pair is reported.  Defect of the implementation. *)
Definition cxB_self : stmt := SInsert (None, "t") None (sel1 [ci None "a"] [tb "t"]).
(** (2) K-C02-3  insert into x select t.a from s1.t as t join s2.t as u
    the alias t is overridden by the bare name of s2.t: reported s2.t.a.  Defect of the implementation. *)
Definition cxB_alias_shadow : stmt :=
  SInsert tx None (sel1 [ci (Some "t") "a"] [tbs "s1" "t" (Some "t"); tbs "s2" "t" (Some "u")]).
(** (3) K-C02-4  insert into x select r.k from s1.t1 as r join t4 as q union all select r.z from t4 as r
    the alias r of the second branch captures the reference of the first.  Defect of the implementation. *)
Definition cxB_alias_reuse : stmt :=
  SInsert tx None (QUnion (sel1 [ci (Some "r") "k"] [tbs "s1" "t1" (Some "r"); tba "t4" "q"]) (sel1 [ci (Some "r") "z"] [tba "t4" "r"])).
(** (4) K-C02-5  insert into x select k, p.k as k2 from s.a as p join s.b as q
    the unqualified k is attributed to s.a because s.a.k is in the graph.  Heuristic of the implementation (by design). *)
Definition cxB_guess : stmt :=
  SInsert tx None (sel1 [ci None "k"; cia (Some "p") "k" "k2"] [tbs "s" "a" (Some "p"); tbs "s" "b" (Some "q")]).
(** (5) K-C02-7  a derived table's alias reused inside it.  Defect of the implementation. *)
Definition cxB_nested_alias : stmt :=
  SInsert (None, "o") None
    (sel1 [cia (Some "q") "cx" "ck"]
          [RDerived (sel1 [cia (Some "t5") "ck" "cx"] [tb "t5"; RDerived (sel1 [ci (Some "p") "cx"] [tba "t4" "p"]) "q"]) "q"; tba "t7" "u"]).
(** (6) K-C02-8  an alias of the enclosing query reused in its WHERE .. IN sub-query.  Defect of the implementation. *)
Definition cxB_where_alias : stmt :=
  SView (None, "o")
    (QSelect [cia (Some "u") "ck" "ck"]
             [RDerived (sel1 [cia None "cy" "ck"] [tbs "s1" "t1" (Some "p")]) "u";
              RDerived (sel1 [cia (Some "t2") "ck" "ck"] [tba "t3" "p"; tbs "s4" "t6" (Some "u"); tb "t2"]) "r"]
             false (Some ("ck", sel1 [cia (Some "r") "cz" "ck"] [tbs "s4" "t6" (Some "r")]))).
(** (7) insert into x select z.a from t
    a qualifier that names nothing in scope: the implementation invents the table <default>.z, the specification reports
    nothing.  Invalid SQL; artefact of the fragment (the specification is silent), not a defect. *)
Definition cxB_dangling_qualifier : stmt := SInsert tx None (sel1 [ci (Some "z") "a"] [tb "t"]).
(** (8) insert into x select t.a from t as p
    the implementation lets an aliased table still answer to its own name, the specification does not.
    Invalid in most engines; artefact of the specification's strictness. *)
Definition cxB_own_name : stmt := SInsert tx None (sel1 [ci (Some "t") "a"] [tba "t" "p"]).
(** (9) insert into x select b from (select a from t) as q
    a column the derived table does not have: the implementation reports the dangling q.b, the specification nothing.
    Invalid SQL; artefact. *)
Definition cxB_missing_column : stmt :=
  SInsert tx None (sel1 [ci None "b"] [RDerived (sel1 [ci None "a"] [tb "t"]) "q"]).
(** (10) insert into x select q.a from (select * from t) as q
    valid SQL: a named column taken through a star of a sub-query.  The implementation reports the dangling q.a > x.a,
    the specification nothing; neither reports t.a or the star of t.  Limitation of both. *)
Definition cxB_star_in_derived : stmt :=
  SInsert tx None (sel1 [ci (Some "q") "a"] [RDerived (sel1 [IStar None] [tb "t"]) "q"]).
(** (11) insert into x select a from t, (select b from u) as q
    unresolved column over a table and a derived table: the implementation prints the candidates {t,q}, the specification {t}.
    Artefact of the specification (candidates are base tables only). *)
Definition cxB_unresolved_mixed : stmt :=
  SInsert tx None (QSelect [ci None "a"] [tb "t"; RDerived (sel1 [ci None "b"] [tb "u"]) "q"] true None).
(** (12) insert into x (p) select a, b from t      column list shorter than the select list: the implementation maps both
    items to x.a.  Invalid SQL; the specification falls back to the select names. *)
Definition cxB_cols_short : stmt := SInsert tx (Some ["p"]) (sel1 [ci None "a"; ci None "b"] [tb "t"]).
(** (13) insert into x (p, p) select a, b from t   duplicate names in the column list collapse to one write column.  Invalid SQL. *)
Definition cxB_cols_dup : stmt := SInsert tx (Some ["p"; "p"]) (sel1 [ci None "a"; ci None "b"] [tb "t"]).
(** (14) insert into x select a, b from t union all select c from u    branches of different arity.  Invalid SQL. *)
Definition cxB_union_arity : stmt :=
  SInsert tx None (QUnion (sel1 [ci None "a"; ci None "b"] [tb "t"]) (sel1 [ci None "c"] [tb "u"])).
(** (15) insert into x (p, q) select * from a, b
    one star over two tables is one column for the implementation, two for the specification.  Artefact of the specification
    (a star stands for an unknown number of columns). *)
Definition cxB_star_cols : stmt := SInsert tx (Some ["p"; "q"]) (QSelect [IStar None] [tb "a"; tb "b"] true None).
(** (16) insert into x with c1 as (select a from t) select * from c1
    valid SQL: a star over a CTE is not expanded by the implementation (reported: the star of c1 feeding the star of x).  Defect of the implementation
    (related to K-C04-3). *)
Definition cxB_star_cte : stmt :=
  SInsert tx None (QWith "c1" (sel1 [ci None "a"] [tb "t"]) (sel1 [IStar None] [tb "c1"])).

(** (17) insert into x select a, a from t union all select b, c from u
    the first branch of a set operation has two output columns of the same name: they are one write column, so the
    second branch no longer finds its positions and falls back to its own names.  Found while proving step 5.
    Defect of the implementation (positions are tracked through the names of the write columns, cf. K-C02-1). *)
Definition cxB_union_dupnames : stmt :=
  SInsert tx None (QUnion (sel1 [ci None "a"; ci None "a"] [tb "t"]) (sel1 [ci None "b"; ci None "c"] [tb "u"])).

(** (18) insert into x select t.b from (select k from u join t on ..) as q join u as t on ..
    the tables joined inside a derived table are listed again for the enclosing FROM (its join clauses are found by a
    recursive crawl), so the alias t of u is overridden by the bare name of the inner table t: K-C02-3 through a derived
    table.  Found by a randomised search inside the guards.  Defect of the implementation. *)
Definition cxB_leaked_join : stmt :=
  SInsert tx None (sel1 [ci (Some "t") "b"] [RDerived (sel1 [ci None "k"] [tb "u"; tb "t"]) "q"; tba "u" "t"]).

Definition cxB_all : list stmt :=
  [cxB_self; cxB_alias_shadow; cxB_alias_reuse; cxB_guess; cxB_nested_alias; cxB_where_alias; cxB_dangling_qualifier;
   cxB_own_name; cxB_missing_column; cxB_star_in_derived; cxB_unresolved_mixed; cxB_cols_short; cxB_cols_dup;
   cxB_union_arity; cxB_star_cols; cxB_star_cte; cxB_union_dupnames; cxB_leaked_join].

(** all guards of the original statement hold ... *)
Lemma cxB_guards : forallb (fun s => noise_ok [] && env_ok e_cxB && stmt_ok s && sshape s) cxB_all = true.
Proof. vm_compute. reflexivity. Qed.
(** ... the model and the specification disagree ... *)
Lemma cxB_fail : forallb (fun s => String.eqb (lemma_B_check0 [] e_cxB s) "FAILS") cxB_all = true.
Proof. vm_compute. reflexivity. Qed.
(** ... and the strengthened guard excludes each of them *)
Lemma cxB_excluded : forallb (fun s => negb (colshape s)) cxB_all = true.
Proof. vm_compute. reflexivity. Qed.

Theorem lemma_B_statement_refuted : ~ lemma_B_unguarded.
Proof.
  intros H. specialize (H [] e_cxB cxB_self).
  assert (E : script_pairs e_cxB false [] [r_stmt [] cxB_self] = spec_pairs (e_cfg e_cxB) cxB_self) by (apply H; vm_compute; reflexivity).
  vm_compute in E. discriminate E.
Qed.

(* ================================================================== *)
(** * Part U: [uniq_sorted (sort_strings l)] is determined by the members of [l] *)
Fixpoint sorted_s (l : list string) : Prop :=
  match l with x :: ((y :: _) as r) => String.leb x y = true /\ sorted_s r | _ => True end.
Fixpoint ssorted (l : list string) : Prop :=
  match l with x :: ((y :: _) as r) => String.leb x y = true /\ x <> y /\ ssorted r | _ => True end.

Lemma In_insert_sorted x y l : In y (insert_sorted x l) <-> y = x \/ In y l.
Proof.
  induction l as [|z r IH]; cbn [insert_sorted In].
  - split; intros [H|H]; auto.
  - destruct (String.leb x z); cbn [In]; [split; intros [H|H]; auto|]. rewrite IH. split; intros H; tauto.
Qed.

Lemma insert_sorted_sorted x l : sorted_s l -> sorted_s (insert_sorted x l).
Proof.
  induction l as [|z r IH]; intros H; cbn [insert_sorted]; [exact I|].
  destruct (String.leb x z) eqn:E.
  - split; [exact E|exact H].
  - apply string_leb_false_flip in E. destruct r as [|w r'].
    + cbn [insert_sorted]. split; [exact E|exact I].
    + destruct H as [H1 H2]. specialize (IH H2). cbn [insert_sorted] in *. destruct (String.leb x w) eqn:E2.
      * split; [exact E|]. split; [exact E2|exact H2].
      * split; [exact H1|exact IH].
Qed.

Lemma sort_sorted l : sorted_s (sort_strings l).
Proof. induction l as [|x r IH]; [exact I|]. cbn [sort_strings fold_right]. apply insert_sorted_sorted. exact IH. Qed.

Lemma In_sort l x : In x (sort_strings l) <-> In x l.
Proof.
  induction l as [|y r IH]; [tauto|]. cbn [sort_strings fold_right In]. fold (sort_strings r).
  rewrite In_insert_sorted, IH. split; intros [H|H]; auto.
Qed.

Lemma uniq_sorted_cons y r : exists t, uniq_sorted (y :: r) = y :: t.
Proof.
  revert y. induction r as [|z r IH]; intros y; [exists []; reflexivity|].
  cbn [uniq_sorted]. destruct (String.eqb y z) eqn:E.
  - apply String.eqb_eq in E. subst z. apply IH.
  - eexists. reflexivity.
Qed.

Lemma uniq_sorted_props l :
  sorted_s l -> ssorted (uniq_sorted l) /\ (forall x, In x (uniq_sorted l) <-> In x l).
Proof.
  induction l as [|x r IH]; intros H; [split; [exact I|tauto]|].
  destruct r as [|y r']; [split; [exact I|tauto]|].
  destruct H as [H1 H2]. destruct (IH H2) as [I1 I2].
  change (uniq_sorted (x :: y :: r')) with (if String.eqb x y then uniq_sorted (y :: r') else x :: uniq_sorted (y :: r')).
  destruct (String.eqb x y) eqn:E.
  - apply String.eqb_eq in E. subst y. split; [exact I1|]. intros z. rewrite I2. cbn [In]. tauto.
  - destruct (uniq_sorted_cons y r') as [t Et]. rewrite Et in *. split.
    + split; [exact H1|]. split; [apply String.eqb_neq; exact E|exact I1].
    + intros z. cbn [In]. cbn [In] in I2. rewrite I2. tauto.
Qed.

Lemma ssorted_head_min x r : ssorted (x :: r) -> forall y, In y r -> String.leb x y = true /\ x <> y.
Proof.
  revert x. induction r as [|z r IH]; intros x H y Hy; [destruct Hy|].
  destruct H as (H1 & H2 & H3). destruct Hy as [<-|Hy]; [auto|].
  destruct (IH z H3 y Hy) as [K1 K2]. split; [apply (string_leb_trans x z y); assumption|].
  intros ->. apply H2. apply String.leb_antisym; assumption.
Qed.

Lemma ssorted_tail x r : ssorted (x :: r) -> ssorted r.
Proof. destruct r; [intros _; exact I|]. intros (_ & _ & H). exact H. Qed.

Lemma ssorted_ext l : forall l', ssorted l -> ssorted l' -> (forall x, In x l <-> In x l') -> l = l'.
Proof.
  induction l as [|x r IH]; intros [|x' r'] H H' Hm.
  - reflexivity.
  - exfalso. apply (proj2 (Hm x')). left. reflexivity.
  - exfalso. apply (proj1 (Hm x)). left. reflexivity.
  - assert (Ex : x = x').
    { destruct (proj1 (Hm x) (or_introl eq_refl)) as [E|Hin]; [auto|].
      destruct (proj2 (Hm x') (or_introl eq_refl)) as [E|Hin']; [auto|].
      destruct (ssorted_head_min x r H x' Hin') as [A _]. destruct (ssorted_head_min x' r' H' x Hin) as [B _].
      apply String.leb_antisym; assumption. }
    subst x'. f_equal. apply IH; [exact (ssorted_tail _ _ H)|exact (ssorted_tail _ _ H')|].
    intros y. split; intros Hy.
    + destruct (proj1 (Hm y) (or_intror Hy)) as [E|K]; [|exact K]. subst y.
      exfalso. exact (proj2 (ssorted_head_min x r H x Hy) eq_refl).
    + destruct (proj2 (Hm y) (or_intror Hy)) as [E|K]; [|exact K]. subst y.
      exfalso. exact (proj2 (ssorted_head_min x r' H' x Hy) eq_refl).
Qed.

Theorem us_ext l l' : (forall x, In x l <-> In x l') -> uniq_sorted (sort_strings l) = uniq_sorted (sort_strings l').
Proof.
  intros H. destruct (uniq_sorted_props _ (sort_sorted l)) as [A1 A2]. destruct (uniq_sorted_props _ (sort_sorted l')) as [B1 B2].
  apply ssorted_ext; [exact A1|exact B1|]. intros x. rewrite A2, B2, !In_sort. apply H.
Qed.

(* ================================================================== *)
(** * Part H: the graph algebra at the level of [has_edge] / [has_node] (equality of nodes is Python equality) and of
      the node objects literally stored ([lits_in]) *)

Lemma edge_is_upd x y (e : Graph.node * Graph.node * eattrs) a' : edge_is x y (fst e, a') = edge_is x y e.
Proof. reflexivity. Qed.

Lemma has_edge_l_upsert x y u v a l :
  has_edge_l x y (upsert_edge u v a l) = has_edge_l x y l || (node_eqb x u && node_eqb y v).
Proof.
  induction l as [|e r IH]; cbn [upsert_edge has_edge_l].
  - unfold edge_is. cbn [fst snd]. rewrite orb_false_r. reflexivity.
  - destruct (edge_is u v e) eqn:E; cbn [has_edge_l].
    + rewrite edge_is_upd. destruct (node_eqb x u && node_eqb y v) eqn:E2; [|rewrite orb_false_r; reflexivity].
      apply andb_true_iff in E2. destruct E2 as [E3 E4]. unfold edge_is in E. apply andb_true_iff in E. destruct E as [E5 E6].
      assert (Ex : edge_is x y e = true).
      { unfold edge_is. rewrite (node_eqb_trans _ _ _ E3 E5), (node_eqb_trans _ _ _ E4 E6). reflexivity. }
      rewrite Ex. reflexivity.
    + rewrite IH, orb_assoc. reflexivity.
Qed.

Lemma has_node_l_upsert' x n a l : has_node_l x (upsert_node n a l) = has_node_l x l || node_eqb x n.
Proof.
  rewrite has_node_l_upsert. destruct (node_eqb x n) eqn:E; [|rewrite andb_false_r; reflexivity].
  rewrite (has_node_l_cong x n l E). destruct (has_node_l n l); reflexivity.
Qed.

Lemma has_edge_add_node g n a x y : has_edge (add_node g n a) x y = has_edge g x y.
Proof. reflexivity. Qed.
Lemma has_node_add_node g n a x : has_node (add_node g n a) x = has_node g x || node_eqb x n.
Proof. unfold has_node, add_node. cbn [gnodes]. apply has_node_l_upsert'. Qed.

Lemma has_edge_add_edge g u v a x y :
  has_edge (add_edge g u v a) x y = has_edge g x y || (node_eqb x u && node_eqb y v).
Proof.
  unfold add_edge, has_edge. cbn [gedges add_node]. rewrite has_edge_l_upsert.
  rewrite <- (node_eqb_cong_r u _ x (canon_eqb u _)), <- (node_eqb_cong_r v _ y (canon_eqb v _)). reflexivity.
Qed.

Lemma has_node_add_edge g u v a x :
  has_node (add_edge g u v a) x = has_node g x || node_eqb x u || node_eqb x v.
Proof. unfold add_edge, has_node. cbn [gnodes add_node]. rewrite !has_node_l_upsert'. reflexivity. Qed.

Lemma has_node_l_upserts x hl : forall l, has_node_l x (upserts hl l) = has_node_l x l || has_node_l x hl.
Proof.
  induction hl as [|[n a] r IH]; intros l; cbn [upserts fold_left has_node_l]; [rewrite orb_false_r; reflexivity|].
  fold (upserts r (upsert_node n a l)). rewrite IH. cbn [fst snd]. rewrite has_node_l_upsert', orb_assoc. reflexivity.
Qed.

Lemma has_node_compose g h x : has_node (compose g h) x = has_node g x || has_node h x.
Proof. unfold has_node, compose. cbn [gnodes]. apply (has_node_l_upserts x (gnodes h) (gnodes g)). Qed.

Lemma has_edge_compose g h x y : has_edge (compose g h) x y = has_edge g x y || has_edge h x y.
Proof.
  unfold has_edge, compose. cbn [gedges]. set (ns := fold_left _ (gnodes h) (gnodes g)).
  generalize (gedges g). induction (gedges h) as [|e r IH]; intros l; cbn [fold_left has_edge_l]; [rewrite orb_false_r; reflexivity|].
  rewrite IH, has_edge_l_upsert.
  rewrite <- (node_eqb_cong_r _ _ x (canon_eqb (fst (fst e)) ns)), <- (node_eqb_cong_r _ _ y (canon_eqb (snd (fst e)) ns)).
  unfold edge_is. rewrite orb_assoc. reflexivity.
Qed.

Lemma has_edge_set_attr g ns k v x y : has_edge (set_attr g ns k v) x y = has_edge g x y.
Proof. reflexivity. Qed.
Lemma keys_set_attr g ns k v : map fst (gnodes (set_attr g ns k v)) = map fst (gnodes g).
Proof. cbn [set_attr gnodes]. rewrite map_map. apply map_ext. intros [n a]. cbn [fst snd]. destruct (existsb _ _); reflexivity. Qed.
Lemma has_node_set_attr g ns k v x : has_node (set_attr g ns k v) x = has_node g x.
Proof. unfold has_node. apply has_node_l_keys. apply keys_set_attr. Qed.

Lemma has_edge_In g x y :
  has_edge g x y = true <-> exists e, In e (gedges g) /\ node_eqb x (fst (fst e)) = true /\ node_eqb y (snd (fst e)) = true.
Proof.
  unfold has_edge. induction (gedges g) as [|e r IH]; cbn [has_edge_l In].
  - split; [discriminate|intros (e & [] & _)].
  - rewrite orb_true_iff, IH. unfold edge_is. rewrite andb_true_iff. split.
    + intros [[H1 H2]|(e' & H & K)]; [exists e; auto|exists e'; auto].
    + intros (e' & [<-|H] & K); [left; exact K|right; exists e'; auto].
Qed.

Lemma has_node_In g x : has_node g x = true <-> exists m, In m (map fst (gnodes g)) /\ node_eqb x m = true.
Proof.
  unfold has_node. rewrite has_node_l_In. split.
  - intros (m & a & H & E). exists m. split; [apply in_map_iff; exists (m, a); auto|exact E].
  - intros (m & H & E). apply in_map_iff in H. destruct H as ([m' a] & <- & H). exists m', a. auto.
Qed.

(** ** the node objects stored in a graph *)
Definition lits_in (Q : Graph.node -> Prop) (g : graph) : Prop :=
  (forall n, In n (map fst (gnodes g)) -> Q n) /\ (forall e, In e (gedges g) -> Q (fst (fst e)) /\ Q (snd (fst e))).

Lemma lits_in_empty Q : lits_in Q empty_graph.
Proof. split; [intros n []|intros e []]. Qed.

Lemma canon_cases n l : canon_l n l = n \/ In (canon_l n l) (map fst l).
Proof.
  induction l as [|[m b] r IH]; cbn [canon_l map fst In]; [left; reflexivity|].
  destruct (node_eqb n m); [right; left; reflexivity|]. destruct IH as [H|H]; [left; exact H|right; right; exact H].
Qed.

Lemma In_upsert_edge e u v a l :
  In e (upsert_edge u v a l) -> fst e = (u, v) \/ exists e', In e' l /\ fst e' = fst e.
Proof.
  induction l as [|e0 r IH]; cbn [upsert_edge In].
  - intros [<-|[]]. left. reflexivity.
  - destruct (edge_is u v e0); cbn [In].
    + intros [<-|H]; right; [exists e0; auto|exists e; auto].
    + intros [<-|H]; [right; exists e0; auto|]. destruct (IH H) as [K|(e' & K1 & K2)]; [left; exact K|right; exists e'; auto].
Qed.

Lemma keys_upsert_In n a l m : In m (map fst (upsert_node n a l)) -> In m (map fst l) \/ m = n.
Proof.
  rewrite keys_upsert. destruct (has_node_l n l); [auto|]. rewrite in_app_iff. intros [H|[H|[]]]; auto.
Qed.

Lemma lits_add_node Q g n a : lits_in Q g -> Q n -> lits_in Q (add_node g n a).
Proof.
  intros [H1 H2] Hn. split; [|exact H2]. intros m Hm. cbn [add_node gnodes] in Hm.
  apply keys_upsert_In in Hm. destruct Hm as [Hm| ->]; auto.
Qed.

Lemma lits_add_edge Q g u v a : lits_in Q g -> Q u -> Q v -> lits_in Q (add_edge g u v a).
Proof.
  intros Hg Hu Hv. pose proof (lits_add_node Q _ v [] (lits_add_node Q g u [] Hg Hu) Hv) as [K1 K2].
  split; [exact K1|]. intros e He. unfold add_edge in He. cbn [gedges] in He.
  apply In_upsert_edge in He. destruct He as [E|(e' & He' & E)].
  - rewrite E. cbn [fst snd]. split.
    + destruct (canon_cases u (gnodes (add_node (add_node g u []) v []))) as [-> | H]; [exact Hu|apply K1; exact H].
    + destruct (canon_cases v (gnodes (add_node (add_node g u []) v []))) as [-> | H]; [exact Hv|apply K1; exact H].
  - rewrite <- E. apply K2. exact He'.
Qed.

Lemma keys_upserts_In hl : forall l m, In m (map fst (upserts hl l)) -> In m (map fst l) \/ In m (map fst hl).
Proof.
  induction hl as [|[n a] r IH]; intros l m H; cbn [upserts fold_left] in H; [left; exact H|].
  fold (upserts r (upsert_node n a l)) in H. apply IH in H. cbn [map fst In]. destruct H as [H|H]; [|auto].
  apply keys_upsert_In in H. cbn [fst] in H. destruct H as [H| ->]; auto.
Qed.

Lemma lits_compose Q g h : lits_in Q g -> lits_in Q h -> lits_in Q (compose g h).
Proof.
  intros [G1 G2] [H1 H2]. unfold compose. set (ns := fold_left _ (gnodes h) (gnodes g)).
  assert (Hns : forall m, In m (map fst ns) -> Q m).
  { intros m Hm. apply (keys_upserts_In (gnodes h) (gnodes g)) in Hm. destruct Hm; auto. }
  split; cbn [gnodes gedges]; [exact Hns|].
  assert (Hc : forall e, In e (gedges h) -> Q (canon_l (fst (fst e)) ns) /\ Q (canon_l (snd (fst e)) ns)).
  { intros e He. destruct (H2 e He) as [A B]. split.
    - destruct (canon_cases (fst (fst e)) ns) as [-> | K]; auto.
    - destruct (canon_cases (snd (fst e)) ns) as [-> | K]; auto. }
  clear H1 H2 G1. revert Hc. generalize (gedges g) G2. induction (gedges h) as [|e0 r IH]; intros l Hl Hc; cbn [fold_left]; [exact Hl|].
  apply IH.
  - intros e He. apply In_upsert_edge in He. destruct He as [E|(e' & He' & E)].
    + rewrite E. cbn [fst snd]. apply Hc. left. reflexivity.
    + rewrite <- E. apply Hl. exact He'.
  - intros e He. apply Hc. right. exact He.
Qed.

Lemma lits_set_attr Q g ns k v : lits_in Q g -> lits_in Q (set_attr g ns k v).
Proof. intros [H1 H2]. split; [rewrite keys_set_attr; exact H1|exact H2]. Qed.

Lemma lits_weaken (Q Q' : Graph.node -> Prop) g : (forall n, Q n -> Q' n) -> lits_in Q g -> lits_in Q' g.
Proof. intros H [H1 H2]. split; [intros n Hn; auto|]. intros e He. destruct (H2 e He). auto. Qed.

(* ================================================================== *)
(** * Part P: from the holder of one statement to the reported column pairs *)

Lemma fold_left_id {A B} (f : A -> B -> A) l a : (forall x, In x l -> f a x = a) -> fold_left f l a = a.
Proof.
  induction l as [|x r IH]; intros H; [reflexivity|]. cbn [fold_left]. rewrite (H x (or_introl eq_refl)). apply IH.
  intros y Hy. apply H. right. exact Hy.
Qed.

(** ** [resolve_all] does nothing when no unresolved column has a candidate in the graph *)
Lemma resolve_all_id p g :
  p_truthy p = false ->
  (forall e u, In e (gedges g) -> unresolved (fst (fst e)) = Some u -> candidates_in_graph g u = []) ->
  (forall n u, In n (map fst (gnodes g)) -> unresolved n = Some u -> degree g n <> 0) ->
  resolve_all p g = g.
Proof.
  intros Hp H1 H2. unfold resolve_all.
  match goal with |- context [fold_left ?F ?L g] =>
    assert (E : fold_left F L g = g) end.
  { apply fold_left_id. intros [u tgt] Hin. apply in_flat_map in Hin. destruct Hin as (e & He & Hin).
    destruct (unresolved (fst (fst e))) as [u'|] eqn:Eu; [|destruct Hin]. destruct Hin as [Hin|[]]. inversion Hin. subst u' tgt.
    cbn [fst snd]. unfold resolve_one. rewrite (H1 e u He Eu), Hp. reflexivity. }
  rewrite E. apply fold_left_id. intros [n a] Hin. cbn [fst].
  destruct (unresolved n) as [u|] eqn:Eu; [|reflexivity].
  assert (Hn : In n (map fst (gnodes g))) by (apply in_map_iff; exists (n, a); auto).
  specialize (H2 n u Hn Eu). apply Nat.eqb_neq in H2. rewrite H2. reflexivity.
Qed.

(** ** the table-level product adds edges between datasets only *)
Lemma has_edge_fold_add ws a r : forall g x y,
  has_edge (fold_left (fun g' w => add_edge g' r w a) ws g) x y = has_edge g x y || (node_eqb x r && memn y ws).
Proof.
  induction ws as [|w ws IH]; intros g x y; cbn [fold_left memn existsb]; [rewrite andb_false_r, orb_false_r; reflexivity|].
  rewrite IH, has_edge_add_edge. unfold memn. rewrite <- orb_assoc, <- andb_orb_distrib_r. reflexivity.
Qed.

Lemma has_edge_add_product rs ws : forall g x y,
  has_edge (add_product rs ws g) x y = has_edge g x y || (memn x rs && memn y ws).
Proof.
  induction rs as [|r rs IH]; intros g x y; cbn [add_product memn existsb]; [rewrite orb_false_r; reflexivity|].
  rewrite IH, has_edge_fold_add. unfold memn. rewrite <- orb_assoc, <- andb_orb_distrib_l. reflexivity.
Qed.

Lemma has_node_fold_add ws a r : forall g x,
  has_node g x = true -> has_node (fold_left (fun g' w => add_edge g' r w a) ws g) x = true.
Proof.
  induction ws as [|w ws IH]; intros g x H; cbn [fold_left]; [exact H|]. apply IH. rewrite has_node_add_edge, H. reflexivity.
Qed.
Lemma has_node_add_product rs ws : forall g x, has_node g x = true -> has_node (add_product rs ws g) x = true.
Proof.
  induction rs as [|r rs IH]; intros g x H; cbn [add_product]; [exact H|]. apply IH. apply has_node_fold_add. exact H.
Qed.

Lemma lits_fold_add Q ws a r : forall g, lits_in Q g -> Q r -> (forall w, In w ws -> Q w) ->
  lits_in Q (fold_left (fun g' w => add_edge g' r w a) ws g).
Proof.
  induction ws as [|w ws IH]; intros g H Hr Hw; cbn [fold_left]; [exact H|].
  apply IH; [apply lits_add_edge; [exact H|exact Hr|apply Hw; left; reflexivity]|exact Hr|intros w' Hw'; apply Hw; right; exact Hw'].
Qed.
Lemma lits_add_product Q rs ws : forall g, lits_in Q g -> (forall r, In r rs -> Q r) -> (forall w, In w ws -> Q w) ->
  lits_in Q (add_product rs ws g).
Proof.
  induction rs as [|r rs IH]; intros g H Hr Hw; cbn [add_product]; [exact H|].
  apply IH; [apply lits_fold_add; [exact H|apply Hr; left; reflexivity|exact Hw]|intros r' Hr'; apply Hr; right; exact Hr'|exact Hw].
Qed.

Lemma tagged_data g k n : In n (tagged g k is_dataset) -> exists d, n = NData d.
Proof.
  unfold tagged. intros H. apply in_map_iff in H. destruct H as ([m a] & <- & H). apply filter_In in H. destruct H as [_ H].
  apply andb_true_iff in H. destruct H as [_ H]. cbn [fst] in *. destruct m as [d| |]; try discriminate. exists d. reflexivity.
Qed.

Lemma memn_data_col x l : is_column x = true -> (forall n, In n l -> exists d, n = NData d) -> memn x l = false.
Proof.
  intros Hx Hl. apply memn_false_all. intros y Hy. destruct (Hl y Hy) as [d ->]. destruct x; try discriminate. reflexivity.
Qed.

(** a holder without DROP / RENAME *)
Definition clean_holder (G : graph) : Prop :=
  (forall n a, In (n, a) (gnodes G) -> attr_true "drop" a = false) /\
  (forall e, In e (gedges G) -> String.eqb (etype (snd e)) "rename" = false).

(** what an unresolved column object of the holder has to satisfy for [resolve_all] to leave it alone *)
Definition unres_ok (G : graph) (n : Graph.node) : Prop :=
  forall u, unresolved n = Some u -> candidates_in_graph G u = [] /\ exists y, has_edge G n y = true.

Lemma candidates_ext g g' u :
  (forall d c, has_edge g' (NData d) (NCol c) = has_edge g (NData d) (NCol c)) -> candidates_in_graph g' u = candidates_in_graph g u.
Proof. intros H. unfold candidates_in_graph. apply flat_map_ext. intros p. rewrite H. reflexivity. Qed.

Lemma degree_pos g n y : has_edge g n y = true -> degree g n <> 0.
Proof.
  intros H. apply has_edge_In in H. destruct H as (e & He & E1 & _). unfold degree.
  assert (Hin : In e (out_edges g n)) by (unfold out_edges; apply filter_In; auto).
  destruct (out_edges g n); [destruct Hin|]. cbn [List.length]. lia.
Qed.

Definition colpair (x y : Graph.node) : Prop := is_column x = true \/ is_column y = true.

Theorem build_one p G :
  p_truthy p = false -> clean_holder G -> lits_in (unres_ok G) G ->
  exists gF, build p [holder_of G] = BOk gF /\
             (forall x y, colpair x y -> has_edge gF x y = has_edge G x y) /\
             (forall x, has_node G x = true -> has_node gF x = true) /\
             (forall Q : Graph.node -> Prop, (forall d, Q (NData d)) -> lits_in Q G -> lits_in Q gF).
Proof.
  intros Hp [Hd Hr] Hu. unfold build. cbn [fold_steps]. unfold step.
  assert (Ed : h_drop (holder_of G) = []).
  { unfold h_drop, tagged, holder_of. cbn [hg]. rewrite (filter_none _ (gnodes G)); [reflexivity|].
    intros [n a] Hin. cbn [fst snd]. rewrite (Hd n a Hin). reflexivity. }
  assert (Er : h_renames (holder_of G) = []).
  { unfold holder_of. cbn [h_renames]. apply flat_map_none. intros e He. apply edges_nx_In in He. rewrite (Hr e He). reflexivity. }
  rewrite Ed, Er. set (g := compose empty_graph (hg (holder_of G))).
  set (rs := h_read (holder_of G)). set (ws := h_write (holder_of G)).
  assert (Hrs : forall n, In n rs -> exists d, n = NData d) by (intros n Hn; exact (tagged_data _ _ _ Hn)).
  assert (Hws : forall n, In n ws -> exists d, n = NData d) by (intros n Hn; exact (tagged_data _ _ _ Hn)).
  (* the three properties, for the graph after the table-level step *)
  assert (K : exists gX, match rs with
                         | [] => match ws with
                                 | [] => BOk (add_product [] [] g)
                                 | _ :: _ => BOk (set_attr g ws "target_only" true)
                                 end
                         | n :: l => match ws with
                                     | [] => BOk (set_attr g rs "source_only" true)
                                     | n0 :: l0 => BOk (add_product (n :: l) (n0 :: l0) g)
                                     end
                         end = BOk gX /\
                         (forall x y, colpair x y -> has_edge gX x y = has_edge G x y) /\
                         (forall x, has_node G x = true -> has_node gX x = true) /\
                         (forall Q : Graph.node -> Prop, (forall d, Q (NData d)) -> lits_in Q G -> lits_in Q gX)).
  { assert (G1 : forall x y, has_edge g x y = has_edge G x y) by (intros x y; unfold g; rewrite has_edge_compose; reflexivity).
    assert (G2 : forall x, has_node g x = has_node G x) by (intros x; unfold g; rewrite has_node_compose; reflexivity).
    assert (G3 : forall Q : Graph.node -> Prop, lits_in Q G -> lits_in Q g).
    { intros Q HQ. unfold g. apply lits_compose; [apply lits_in_empty|exact HQ]. }
    assert (KP : forall rs' ws', (forall n, In n rs' -> exists d, n = NData d) -> (forall n, In n ws' -> exists d, n = NData d) ->
                 (forall x y, colpair x y -> has_edge (add_product rs' ws' g) x y = has_edge G x y) /\
                 (forall x, has_node G x = true -> has_node (add_product rs' ws' g) x = true) /\
                 (forall Q : Graph.node -> Prop, (forall d, Q (NData d)) -> lits_in Q G -> lits_in Q (add_product rs' ws' g))).
    { intros rs' ws' Hrs' Hws'. split; [|split].
      - intros x y Hxy. rewrite has_edge_add_product, G1. destruct Hxy as [Hx|Hy].
        + rewrite (memn_data_col x rs' Hx Hrs'). rewrite orb_false_r. reflexivity.
        + rewrite (memn_data_col y ws' Hy Hws'). rewrite andb_false_r, orb_false_r. reflexivity.
      - intros x Hx. apply has_node_add_product. rewrite G2. exact Hx.
      - intros Q HQd HQ. apply lits_add_product; [apply G3; exact HQ| |].
        + intros r Hr'. destruct (Hrs' r Hr') as [d ->]. apply HQd.
        + intros w Hw'. destruct (Hws' w Hw') as [d ->]. apply HQd. }
    assert (KS : forall ns k, (forall x y, colpair x y -> has_edge (set_attr g ns k true) x y = has_edge G x y) /\
                 (forall x, has_node G x = true -> has_node (set_attr g ns k true) x = true) /\
                 (forall Q : Graph.node -> Prop, (forall d, Q (NData d)) -> lits_in Q G -> lits_in Q (set_attr g ns k true))).
    { intros ns k. split; [|split].
      - intros x y _. rewrite has_edge_set_attr. apply G1.
      - intros x Hx. rewrite has_node_set_attr, G2. exact Hx.
      - intros Q _ HQ. apply lits_set_attr. apply G3. exact HQ. }
    destruct rs as [|r0 rs'], ws as [|w0 ws']; eexists; (split; [reflexivity|]); try apply KP; try apply KS; auto. }
  destruct K as (gX & EX & X1 & X2 & X3). rewrite EX. cbn iota.
  set (gY := set_attr gX (selfloop_nodes gX) "selfloop" true).
  assert (Y1 : forall x y, colpair x y -> has_edge gY x y = has_edge G x y) by (intros x y H; unfold gY; rewrite has_edge_set_attr; apply X1; exact H).
  assert (Y2 : forall x, has_node G x = true -> has_node gY x = true) by (intros x H; unfold gY; rewrite has_node_set_attr; apply X2; exact H).
  assert (Y3 : forall Q : Graph.node -> Prop, (forall d, Q (NData d)) -> lits_in Q G -> lits_in Q gY).
  { intros Q HQd HQ. unfold gY. apply lits_set_attr. apply X3; assumption. }
  assert (HuY : lits_in (unres_ok G) gY) by (apply Y3; [intros d u Hu'; discriminate|exact Hu]).
  exists gY. split; [|auto]. f_equal. apply resolve_all_id; [exact Hp| |].
  - intros e u He Eu. destruct (proj2 HuY e He) as [K _]. destruct (K u Eu) as [Kc _].
    rewrite <- Kc. apply candidates_ext. intros d c. apply Y1. right. reflexivity.
  - intros n u Hn Eu. destruct (proj1 HuY n Hn u Eu) as [_ (y & Hy)]. apply (degree_pos gY n y).
    rewrite Y1; [exact Hy|]. left. destruct n as [|c|]; cbn [unresolved] in Eu; try discriminate. reflexivity.
Qed.

(** ** the reported pairs of a graph whose column edges are a known bipartite set of flows *)
Definition src_str (n : Graph.node) : string :=
  match n with
  | NCol c => match col_parent c with
              | Some _ => col_str c
              | None => craw c ++ "{" ++ join "," (sort_strings (map dstr (cparents c))) ++ "}"
              end
  | _ => node_str n
  end.
Definition flow := (column * column)%type.
Definition flow_str (f : flow) : string := src_str (NCol (fst f)) ++ ">" ++ col_str (snd f).

Lemma pair_str_cons s r : pair_str (s :: r) = (src_str s ++ ">" ++ node_str (last (s :: r) s))%string.
Proof. reflexivity. Qed.

Record realises (g : graph) (FL : list flow) : Prop := {
  r_sound : forall x y, is_column x = true -> has_edge g x y = true ->
            exists f, In f FL /\ node_eqb x (NCol (fst f)) = true /\ node_eqb y (NCol (snd f)) = true;
  r_complete : forall f, In f FL -> has_edge g (NCol (fst f)) (NCol (snd f)) = true;
  r_nodes : forall f, In f FL -> has_node g (NCol (fst f)) = true /\ has_node g (NCol (snd f)) = true;
  r_lits : lits_in (fun n => forall f, In f FL -> node_eqb n (NCol (fst f)) = true -> src_str n = src_str (NCol (fst f))) g
}.

(** targets are never sources, and belong to tables *)
Definition flows_ok (FL : list flow) : Prop :=
  (forall f f', In f FL -> In f' FL -> col_eqb (snd f) (fst f') = false) /\
  (forall f, In f FL -> parent_is KTable (NCol (snd f)) = true).

Lemma node_str_eqb_col n c : node_eqb n (NCol c) = true -> node_str n = col_str c.
Proof.
  destruct n as [|c'|]; cbn [node_eqb]; try discriminate. unfold col_eqb. intros H. apply andb_true_iff in H.
  destruct H as [H _]. apply String.eqb_eq in H. exact H.
Qed.

Lemma length_zero_iff_none {A} (l : list A) : (forall x, ~ In x l) -> List.length l = 0.
Proof. destruct l as [|a r]; [reflexivity|]. intros H. exfalso. apply (H a). left. reflexivity. Qed.

Lemma memn_true_iff x l : memn x l = true <-> exists y, In y l /\ node_eqb x y = true.
Proof. unfold memn. apply existsb_exists. Qed.

Lemma successors_edge g a b : memn b (successors g a) = true -> has_edge g a b = true.
Proof.
  intros H. apply memn_true_iff in H. destruct H as (v & Hv & E). unfold successors in Hv. apply in_map_iff in Hv.
  destruct Hv as (e & <- & He). unfold out_edges in He. apply filter_In in He. destruct He as [He Ea].
  apply has_edge_In. exists e. auto.
Qed.

Theorem lineage_of_realises g FL :
  realises g FL -> flows_ok FL ->
  forall x, In x (map pair_str (column_lineage g true false)) <-> In x (map flow_str FL).
Proof.
  intros R [F1 F2] x.
  assert (ES : forall a b c, node_eqb a b = true -> node_eqb a c = true -> node_eqb b c = true).
  { intros a b c H1 H2. apply (node_eqb_trans b a c); [apply node_eqb_true_sym; exact H1|exact H2]. }
  split.
  - (* soundness *)
    intros Hx. apply in_map_iff in Hx. destruct Hx as (p & <- & Hp).
    unfold column_lineage in Hp. cbv zeta in Hp.
    apply in_flat_map in Hp. destruct Hp as (s & Hs & Hp). apply in_flat_map in Hp. destruct Hp as (t & Ht & Hp).
    apply in_flat_map in Hp. destruct Hp as (path & Hpath & Hp).
    destruct (Nat.ltb 1 (List.length path)) eqn:Hlen; [|destruct Hp]. destruct Hp as [<-|[]]. apply Nat.ltb_lt in Hlen.
    apply filter_In in Hs. destruct Hs as [Hs _]. apply in_map_iff in Hs. destruct Hs as ([s' a] & Es & Hs). cbn [fst] in Es. subst s'.
    unfold column_graph, subgraph in Hs. cbn [gnodes] in Hs. apply filter_In in Hs. cbn [fst] in Hs. destruct Hs as [Hs Hsc].
    assert (Hs' : In s (map fst (gnodes g))) by (apply in_map_iff; exists (s, a); auto).
    apply all_simple_paths_sound in Hpath. destruct Hpath as (r & -> & Hch & _ & _).
    destruct r as [|x1 r']; [cbn [List.length] in Hlen; lia|].
    destruct Hch as [Hc1 Hc2]. apply successors_edge in Hc1.
    destruct (r_sound _ _ R s x1 Hsc Hc1) as (f & Hf & E1 & E2).
    destruct r' as [|x2 r''].
    + rewrite pair_str_cons. cbn [last]. apply in_map_iff. exists f. split; [|exact Hf]. unfold flow_str.
      rewrite (proj1 (r_lits _ _ R) s Hs' f Hf E1), (node_str_eqb_col x1 _ E2). reflexivity.
    + exfalso. destruct Hc2 as [Hc2 _]. apply successors_edge in Hc2.
      assert (Hx1 : is_column x1 = true) by (rewrite (is_column_eqb _ _ E2); reflexivity).
      destruct (r_sound _ _ R x1 x2 Hx1 Hc2) as (f' & Hf' & E3 & _).
      pose proof (ES _ _ _ E2 E3) as E. cbn [node_eqb] in E. rewrite (F1 f f' Hf Hf') in E. discriminate.
  - (* completeness *)
    intros Hx. apply in_map_iff in Hx. destruct Hx as (f & <- & Hf).
    destruct (r_nodes _ _ R f Hf) as [N1 N2]. apply has_node_In in N1, N2.
    destruct N1 as (s & Hs & Es). destruct N2 as (t & Ht & Et).
    pose proof (r_complete _ _ R f Hf) as He. apply has_edge_In in He. destruct He as (e & He & Ee1 & Ee2).
    set (v := snd (fst e)) in *.
    assert (Hsc : is_column s = true) by (rewrite <- (is_column_eqb _ _ Es); reflexivity).
    assert (Htc : is_column t = true) by (rewrite <- (is_column_eqb _ _ Et); reflexivity).
    assert (Esv : node_eqb s (fst (fst e)) = true) by (apply (ES _ _ _ Es Ee1)).
    assert (Etv : node_eqb v t = true) by (apply (node_eqb_trans v (NCol (snd f)) t); [apply node_eqb_true_sym; exact Ee2|exact Et]).
    assert (Hvs : node_eqb v s = false).
    { destruct (node_eqb v s) eqn:E; [|reflexivity]. exfalso.
      assert (E' : node_eqb (NCol (snd f)) (NCol (fst f)) = true).
      { apply (node_eqb_trans _ v _ Ee2). apply (node_eqb_trans v s _ E). apply node_eqb_true_sym. exact Es. }
      cbn [node_eqb] in E'. rewrite (F1 f f Hf Hf) in E'. discriminate. }
    assert (Hst : node_eqb s t = false).
    { destruct (node_eqb s t) eqn:E; [|reflexivity]. exfalso.
      assert (E' : node_eqb v s = true) by (apply (node_eqb_trans v t s Etv); apply node_eqb_true_sym; exact E). congruence. }
    apply in_map_iff. exists [s; v]. split.
    { rewrite pair_str_cons. cbn [last]. unfold flow_str.
      rewrite (proj1 (r_lits _ _ R) s Hs f Hf (node_eqb_true_sym _ _ Es)).
      rewrite (node_str_eqb_col v (snd f) (node_eqb_true_sym _ _ Ee2)). reflexivity. }
    unfold column_lineage. cbv zeta. apply in_flat_map. exists s. split.
    { apply filter_In. split.
      - apply in_map_iff in Hs. destruct Hs as ([s' a] & Es' & Hs). cbn [fst] in Es'. subst s'.
        apply in_map_iff. exists (s, a). split; [reflexivity|]. unfold column_graph, subgraph. cbn [gnodes]. apply filter_In. auto.
      - apply Nat.eqb_eq. unfold indeg. apply length_zero_iff_none. intros e' He'.
        unfold in_edges, column_graph, subgraph in He'. cbn [gedges] in He'. apply filter_In in He'. destruct He' as [He' E1].
        apply filter_In in He'. destruct He' as [He' E2]. apply andb_true_iff in E2. destruct E2 as [E2 _].
        assert (Hh : has_edge g (fst (fst e')) s = true).
        { apply has_edge_In. exists e'. split; [exact He'|]. split; [apply node_eqb_refl|exact E1]. }
        destruct (r_sound _ _ R _ _ E2 Hh) as (f' & Hf' & _ & E4).
        assert (E' : node_eqb (NCol (snd f')) (NCol (fst f)) = true).
        { apply (node_eqb_trans _ s _); [apply node_eqb_true_sym; exact E4|apply node_eqb_true_sym; exact Es]. }
        cbn [node_eqb] in E'. rewrite (F1 f' f Hf' Hf) in E'. discriminate. }
    apply in_flat_map. exists t. split.
    { apply filter_In. split; [apply filter_In; split|].
      - apply in_map_iff in Ht. destruct Ht as ([t' a] & Et' & Ht). cbn [fst] in Et'. subst t'.
        apply in_map_iff. exists (t, a). split; [reflexivity|]. unfold column_graph, subgraph. cbn [gnodes]. apply filter_In. auto.
      - apply Nat.eqb_eq. unfold outdeg. apply length_zero_iff_none. intros e' He'.
        unfold out_edges, column_graph, subgraph in He'. cbn [gedges] in He'. apply filter_In in He'. destruct He' as [He' E1].
        apply filter_In in He'. destruct He' as [He' _].
        assert (Hh : has_edge g t (snd (fst e')) = true).
        { apply has_edge_In. exists e'. split; [exact He'|]. split; [exact E1|apply node_eqb_refl]. }
        destruct (r_sound _ _ R _ _ Htc Hh) as (f' & Hf' & E3 & _).
        pose proof (ES _ _ _ (node_eqb_true_sym _ _ Et) E3) as E'. cbn [node_eqb] in E'. rewrite (F1 f f' Hf Hf') in E'. discriminate.
      - rewrite <- (parent_is_eqb KTable _ _ Et). apply F2. exact Hf. }
    apply in_flat_map. exists [s; v]. split; [|cbn [List.length Nat.ltb Nat.leb]; left; reflexivity].
    unfold all_simple_paths. rewrite Hst. apply in_map_iff. exists [v]. split; [reflexivity|].
    apply paths_from_complete.
    + discriminate.
    + cbn [List.length]. apply in_map_iff in Hs. destruct Hs as (pa & _ & Hs). destruct (gnodes g); [destruct Hs|cbn [List.length]; lia].
    + split; [|exact I]. unfold successors. apply in_map_iff. exists e. split; [reflexivity|]. unfold out_edges. apply filter_In. auto.
    + split; [reflexivity|exact I].
    + intros y [<-|[]]. unfold memn. cbn [existsb]. rewrite Hvs. reflexivity.
    + cbn [last]. exact Etv.
    + intros y [].
Qed.

Theorem script_pairs_of_holder e stmt G FL :
  analyze (with_cols e (view_cols [] [])) false stmt = Ok G ->
  p_truthy (e_provider e) = false -> clean_holder G -> lits_in (unres_ok G) G ->
  realises G FL -> flows_ok FL ->
  script_pairs e false [] [stmt] = uniq_sorted (sort_strings (map flow_str FL)).
Proof.
  intros Ea Hp Hc Hu R F. unfold script_pairs, script_graph. cbn [run_statements]. rewrite Ea. cbn [rev app fst snd map].
  match goal with |- context [build ?P [holder_of G]] => destruct (build_one P G Hp Hc Hu) as (gF & E & B1 & B2 & B3) end.
  rewrite E. apply us_ext. apply lineage_of_realises; [|exact F].
  constructor.
  - intros x y Hx Hxy. rewrite B1 in Hxy by (left; exact Hx). exact (r_sound _ _ R x y Hx Hxy).
  - intros f Hf. rewrite B1 by (left; reflexivity). exact (r_complete _ _ R f Hf).
  - intros f Hf. destruct (r_nodes _ _ R f Hf). split; apply B2; assumption.
  - apply B3; [|exact (r_lits _ _ R)]. intros d f _ E'. discriminate E'.
Qed.

(* ================================================================== *)
(** * Part A: the holder of one SELECT over base tables *)

(** ** extensions of a graph by a list of edges *)
Definition ematch (x y : Graph.node) (el : list (Graph.node * Graph.node)) : bool :=
  existsb (fun p => node_eqb x (fst p) && node_eqb y (snd p)) el.

Lemma ematch_app x y a b : ematch x y (a ++ b) = ematch x y a || ematch x y b.
Proof. unfold ematch. apply existsb_app. Qed.

Record ext (g g' : graph) (EL : list (Graph.node * Graph.node)) : Prop := {
  ext_edges : forall x y, has_edge g' x y = has_edge g x y || ematch x y EL;
  ext_mono : forall x, has_node g x = true -> has_node g' x = true;
  ext_new : forall p, In p EL -> has_node g' (fst p) = true /\ has_node g' (snd p) = true
}.

Lemma ext_refl g : ext g g [].
Proof. constructor; [intros x y; cbn; rewrite orb_false_r; reflexivity|auto|intros p []]. Qed.

Lemma ext_trans g1 g2 g3 a b : ext g1 g2 a -> ext g2 g3 b -> ext g1 g3 (a ++ b).
Proof.
  intros [A1 A2 A3] [B1 B2 B3]. constructor.
  - intros x y. rewrite B1, A1, ematch_app, orb_assoc. reflexivity.
  - auto.
  - intros p Hp. apply in_app_iff in Hp. destruct Hp as [Hp|Hp]; [destruct (A3 p Hp); split; apply B2; assumption|apply B3; exact Hp].
Qed.

Lemma ext_add_edge g u v a : ext g (add_edge g u v a) [(u, v)].
Proof.
  constructor.
  - intros x y. rewrite has_edge_add_edge. cbn [ematch existsb fst snd]. rewrite orb_false_r. reflexivity.
  - intros x H. rewrite has_node_add_edge, H. reflexivity.
  - intros p [<-|[]]. cbn [fst snd]. rewrite !has_node_add_edge, !node_eqb_refl, !orb_true_r. auto.
Qed.

Lemma ext_add_node g n a : ext g (add_node g n a) [].
Proof.
  constructor; [intros x y; cbn; rewrite orb_false_r; reflexivity| |intros p []].
  intros x H. rewrite has_node_add_node, H. reflexivity.
Qed.

Lemma canon_data v l : exists src, canon_l (NData v) l = NData src /\ dataset_eqb v src = true.
Proof.
  pose proof (canon_eqb (NData v) l) as H. destruct (canon_l (NData v) l) as [src| |]; cbn [node_eqb] in H; try discriminate.
  exists src. auto.
Qed.
Lemma canon_col c l : exists c', canon_l (NCol c) l = NCol c' /\ col_eqb c c' = true.
Proof.
  pose proof (canon_eqb (NCol c) l) as H. destruct (canon_l (NCol c) l) as [|c'|]; cbn [node_eqb] in H; try discriminate.
  exists c'. auto.
Qed.
Lemma canon_str s l : canon_l (NStr s) l = NStr s.
Proof.
  pose proof (canon_eqb (NStr s) l) as H. destruct (canon_l (NStr s) l) as [| |s']; cbn [node_eqb] in H; try discriminate.
  apply String.eqb_eq in H. subst. reflexivity.
Qed.

Lemma In_upsert_edge' e u v a l :
  In e (upsert_edge u v a l) ->
  e = (u, v, a) \/ In e l \/ exists e0, In e0 l /\ edge_is u v e0 = true /\ e = (fst e0, eattr_update (snd e0) a).
Proof.
  induction l as [|e0 r IH]; cbn [upsert_edge In].
  - intros [<-|[]]. left. reflexivity.
  - destruct (edge_is u v e0) eqn:E; cbn [In].
    + intros [<-|H]; [right; right; exists e0; auto|right; left; right; exact H].
    + intros [<-|H]; [right; left; left; reflexivity|]. destruct (IH H) as [K|[K|(e1 & K1 & K2 & K3)]]; [left; exact K|right; left; right; exact K|].
      right. right. exists e1. auto.
Qed.

(** ** invariants on the edges of a SELECT holder over the tables [ts] *)
Definition edge_inv (ts : list dataset) (e : Graph.node * Graph.node * eattrs) : Prop :=
  match snd (fst e) with
  | NStr a => etype (snd e) = "has_alias" /\
              exists src v, fst (fst e) = NData src /\ dataset_eqb v src = true /\ In v ts /\ a = dalias v
  | _ => etype (snd e) = "lineage" \/ etype (snd e) = "has_column"
  end.
Definition edges_inv (ts : list dataset) (g : graph) : Prop := forall e, In e (gedges g) -> edge_inv ts e.

Definition new_edge_ok (ts : list dataset) (u v : Graph.node) (a : eattrs) : Prop :=
  match v with
  | NStr s => etype a = "has_alias" /\ exists w, u = NData w /\ In w ts /\ s = dalias w
  | _ => etype a = "lineage" \/ etype a = "has_column"
  end.

Lemma eqb_shape_str n s : node_eqb (NStr s) n = true -> n = NStr s.
Proof. destruct n as [| |s']; cbn [node_eqb]; try discriminate. intros H. apply String.eqb_eq in H. subst. reflexivity. Qed.

Lemma edges_inv_add_edge ts g u v a : edges_inv ts g -> new_edge_ok ts u v a -> edges_inv ts (add_edge g u v a).
Proof.
  intros Hg Hn e He. unfold add_edge in He. cbn [gedges] in He. set (ns := gnodes (add_node (add_node g u []) v [])) in *.
  apply In_upsert_edge' in He. destruct He as [->|[He|(e0 & He0 & E0 & ->)]]; [| apply Hg; exact He|].
  - unfold edge_inv. cbn [fst snd]. destruct v as [dv|cv|s]; cbn [new_edge_ok] in Hn.
    + destruct (canon_data dv ns) as (src & -> & _). exact Hn.
    + destruct (canon_col cv ns) as (c' & -> & _). exact Hn.
    + rewrite canon_str. destruct Hn as [Hn (w & -> & Hw & ->)]. split; [exact Hn|].
      destruct (canon_data w ns) as (src & -> & Es). exists src, w. auto.
  - specialize (Hg e0 He0). unfold edge_is in E0. apply andb_true_iff in E0. destruct E0 as [E1 E2].
    pose proof (canon_eqb v ns) as Ev. pose proof (node_eqb_trans _ _ _ Ev E2) as E3.
    unfold edge_inv in *. cbn [fst snd]. unfold eattr_update. cbn [etype].
    destruct v as [dv|cv|s]; cbn [new_edge_ok] in Hn.
    + destruct (snd (fst e0)); cbn [node_eqb] in E3; try discriminate. exact Hn.
    + destruct (snd (fst e0)); cbn [node_eqb] in E3; try discriminate. exact Hn.
    + apply eqb_shape_str in E3. rewrite E3 in *. destruct Hg as [_ Hg]. split; [exact (proj1 Hn)|exact Hg].
Qed.

Lemma edges_inv_add_node ts g n a : edges_inv ts g -> edges_inv ts (add_node g n a).
Proof. intros H. exact H. Qed.

(** ** the alias mapping of a table group *)
Lemma assoc_dict_set q k (v : dataset) m : assoc_list q (dict_set k v m) = if String.eqb q k then Some v else assoc_list q m.
Proof.
  induction m as [|[k' v'] r IH]; cbn [dict_set assoc_list]; [reflexivity|].
  destruct (String.eqb k k') eqn:E; cbn [assoc_list].
  - apply String.eqb_eq in E. subst k'. destruct (String.eqb q k); reflexivity.
  - rewrite IH. destruct (String.eqb q k') eqn:E2; [|reflexivity].
    apply String.eqb_eq in E2. subst k'. rewrite String.eqb_sym, E. reflexivity.
Qed.

Definition is_some {A} (o : option A) : bool := match o with Some _ => true | None => false end.

Lemma fold_tables_sound (key : dataset -> string) ts : forall m q v,
  assoc_list q (fold_left (fun m t => dict_set (key t) t m) ts m) = Some v ->
  (In v ts /\ key v = q) \/ assoc_list q m = Some v.
Proof.
  induction ts as [|t r IH]; intros m q v H; cbn [fold_left] in H; [right; exact H|].
  apply IH in H. destruct H as [[H1 H2]|H]; [left; split; [right; exact H1|exact H2]|].
  rewrite assoc_dict_set in H. destruct (String.eqb q (key t)) eqn:E; [|right; exact H].
  inversion H. subst v. apply String.eqb_eq in E. left. split; [left; reflexivity|auto].
Qed.

Lemma fold_tables_mono (key : dataset -> string) ts : forall m q,
  is_some (assoc_list q m) = true -> is_some (assoc_list q (fold_left (fun m t => dict_set (key t) t m) ts m)) = true.
Proof.
  induction ts as [|t r IH]; intros m q H; cbn [fold_left]; [exact H|]. apply IH. rewrite assoc_dict_set.
  destruct (String.eqb q (key t)); [reflexivity|exact H].
Qed.

Lemma fold_tables_complete (key : dataset -> string) ts : forall m v,
  In v ts -> is_some (assoc_list (key v) (fold_left (fun m t => dict_set (key t) t m) ts m)) = true.
Proof.
  induction ts as [|t r IH]; intros m v Hin; [destruct Hin|]. destruct Hin as [->|H]; cbn [fold_left].
  - apply fold_tables_mono. rewrite assoc_dict_set, String.eqb_refl. reflexivity.
  - apply IH. exact H.
Qed.

Lemma fold_tables_values (key : dataset -> string) ts : forall m x,
  In x (map snd (fold_left (fun m t => dict_set (key t) t m) ts m)) -> In x ts \/ In x (map snd m).
Proof.
  induction ts as [|t r IH]; intros m x H; cbn [fold_left] in H; [right; exact H|].
  apply IH in H. destruct H as [H|H]; [left; right; exact H|].
  apply in_map_iff in H. destruct H as ([k v] & <- & H). apply In_dict_set in H. destruct H as [H|H].
  - inversion H. left. left. reflexivity.
  - right. apply in_map_iff. exists (k, v). auto.
Qed.

Definition alias_step (group : list dataset) (m : list (string * dataset)) (e : Graph.node * Graph.node * eattrs) :=
  if String.eqb (etype (snd e)) "has_alias"
  then match fst (fst e), snd (fst e) with
       | NData src, NStr a => if memd src group then dict_set a src m else m
       | _, _ => m
       end
  else m.

Lemma alias_fold_sound group es : forall m q v,
  assoc_list q (fold_left (alias_step group) es m) = Some v ->
  (exists e, In e es /\ etype (snd e) = "has_alias" /\ fst e = (NData v, NStr q) /\ memd v group = true) \/ assoc_list q m = Some v.
Proof.
  induction es as [|e r IH]; intros m q v H; cbn [fold_left] in H; [right; exact H|].
  apply IH in H. destruct H as [(e' & H1 & H2)|H]; [left; exists e'; split; [right; exact H1|exact H2]|].
  unfold alias_step in H. destruct (String.eqb (etype (snd e)) "has_alias") eqn:Et; [|right; exact H].
  destruct e as [[u w] a]. cbn [fst snd] in *. destruct u as [src| |]; try (right; exact H). destruct w as [| |al]; try (right; exact H).
  destruct (memd src group) eqn:Em; [|right; exact H]. rewrite assoc_dict_set in H.
  destruct (String.eqb q al) eqn:E; [|right; exact H]. inversion H. subst v. apply String.eqb_eq in E. subst al.
  left. exists (NData src, NStr q, a). cbn [fst snd]. apply String.eqb_eq in Et. split; [left; reflexivity|auto].
Qed.

Lemma alias_fold_mono group es : forall m q,
  is_some (assoc_list q m) = true -> is_some (assoc_list q (fold_left (alias_step group) es m)) = true.
Proof.
  induction es as [|e r IH]; intros m q H; cbn [fold_left]; [exact H|]. apply IH. unfold alias_step.
  destruct (String.eqb _ _); [|exact H]. destruct (fst (fst e)); try exact H. destruct (snd (fst e)); try exact H.
  destruct (memd _ _); [|exact H]. rewrite assoc_dict_set. destruct (String.eqb q s); [reflexivity|exact H].
Qed.

Lemma alias_fold_complete group es : forall m e src q,
  In e es -> etype (snd e) = "has_alias" -> fst e = (NData src, NStr q) -> memd src group = true ->
  is_some (assoc_list q (fold_left (alias_step group) es m)) = true.
Proof.
  induction es as [|e0 r IH]; intros m e src q Hin Ht Hf Hm; [destruct Hin|]. destruct Hin as [->|H]; cbn [fold_left].
  - apply alias_fold_mono. unfold alias_step. rewrite Ht, Hf. change (String.eqb "has_alias" "has_alias") with true. cbn [fst snd]. rewrite Hm, assoc_dict_set, String.eqb_refl. reflexivity.
  - apply (IH _ e src q); assumption.
Qed.

Lemma alias_fold_values group es : forall m x,
  In x (map snd (fold_left (alias_step group) es m)) ->
  (exists e a, In e es /\ etype (snd e) = "has_alias" /\ fst e = (NData x, NStr a) /\ memd x group = true) \/ In x (map snd m).
Proof.
  induction es as [|e r IH]; intros m x H; cbn [fold_left] in H; [right; exact H|].
  apply IH in H. destruct H as [(e' & a' & H1 & H2)|H]; [left; exists e', a'; split; [right; exact H1|exact H2]|].
  unfold alias_step in H. destruct (String.eqb (etype (snd e)) "has_alias") eqn:Et; [|right; exact H].
  destruct e as [[u w] a]. cbn [fst snd] in *. destruct u as [src| |]; try (right; exact H). destruct w as [| |al]; try (right; exact H).
  destruct (memd src group) eqn:Em; [|right; exact H].
  apply in_map_iff in H. destruct H as ([k v] & <- & H). apply In_dict_set in H. destruct H as [H|H].
  - inversion H. subst. left. exists (NData src, NStr al, a), al. cbn [fst snd]. apply String.eqb_eq in Et. split; [left; reflexivity|auto].
  - right. apply in_map_iff. exists (k, v). auto.
Qed.

Lemma get_alias_mapping_eq g group :
  get_alias_mapping g group =
  let tables := filter (fun d => match dk d with KTable => true | _ => false end) group in
  fold_left (fun m t => dict_set (dstr t) t m) tables
            (fold_left (fun m t => dict_set (draw t) t m) tables (fold_left (alias_step group) (edges_nx g) [])).
Proof. reflexivity. Qed.

(** the tables of a scope: distinct, and distinct from the target *)
Record group_ok (d : dataset) (ts : list dataset) : Prop := {
  go_tables : forall v, In v ts -> dk v = KTable;
  go_distinct : forall v w, In v ts -> In w ts -> dataset_eqb v w = true -> v = w;
  go_target : forall v, In v ts -> dataset_eqb v d = false
}.

Definition QK (DS : list dataset) (PC : column -> Prop) (n : Graph.node) : Prop :=
  match n with
  | NData v => In v DS
  | NCol c => PC c
  | NStr _ => True
  end.

Lemma filter_tables ts : (forall v, In v ts -> dk v = KTable) -> filter (fun d => match dk d with KTable => true | _ => false end) ts = ts.
Proof.
  induction ts as [|t r IH]; intros H; [reflexivity|]. cbn [filter]. rewrite (H t (or_introl eq_refl)). f_equal. apply IH.
  intros v Hv. apply H. right. exact Hv.
Qed.

Lemma memd_In_eqb v l : memd v l = true -> exists w, In w l /\ dataset_eqb v w = true.
Proof. unfold memd. intros H. apply existsb_exists in H. exact H. Qed.

Lemma alias_edge_literal (PC : column -> Prop) d ts g e x a :
  group_ok d ts -> lits_in (QK (d :: ts) PC) g -> edges_inv ts g ->
  In e (gedges g) -> fst e = (NData x, NStr a) -> memd x ts = true -> In x ts /\ a = dalias x.
Proof.
  intros Hgo Hl Hei He Hf Hm. specialize (Hei e He). unfold edge_inv in Hei. rewrite Hf in Hei. cbn [fst snd] in Hei.
  destruct Hei as [_ (src & v & E1 & E2 & E3 & E4)]. inversion E1. subst src.
  destruct (proj2 Hl e He) as [Hq _]. rewrite Hf in Hq. cbn [fst QK] in Hq. destruct Hq as [<-|Hx].
  - exfalso. rewrite (go_target _ _ Hgo v E3) in E2. discriminate.
  - assert (v = x) by (apply (go_distinct _ _ Hgo); assumption). subst v. auto.
Qed.

Lemma am_sound (PC : column -> Prop) d ts g q v :
  group_ok d ts -> lits_in (QK (d :: ts) PC) g -> edges_inv ts g ->
  assoc_list q (get_alias_mapping g ts) = Some v -> In v ts /\ (dalias v = q \/ draw v = q \/ dstr v = q).
Proof.
  intros Hgo Hl Hei H. rewrite get_alias_mapping_eq in H. cbv zeta in H. rewrite (filter_tables ts (go_tables _ _ Hgo)) in H.
  apply fold_tables_sound in H. destruct H as [[H1 H2]|H]; [auto|].
  apply fold_tables_sound in H. destruct H as [[H1 H2]|H]; [auto|].
  apply alias_fold_sound in H. destruct H as [(e & He & Ht & Hf & Hm)|H]; [|discriminate].
  apply edges_nx_In in He. destruct (alias_edge_literal PC d ts g e v q Hgo Hl Hei He Hf Hm) as [K1 K2]. auto.
Qed.

Lemma am_values (PC : column -> Prop) d ts g x :
  group_ok d ts -> lits_in (QK (d :: ts) PC) g -> edges_inv ts g ->
  In x (map snd (get_alias_mapping g ts)) -> In x ts.
Proof.
  intros Hgo Hl Hei H. rewrite get_alias_mapping_eq in H. cbv zeta in H. rewrite (filter_tables ts (go_tables _ _ Hgo)) in H.
  apply fold_tables_values in H. destruct H as [H|H]; [exact H|].
  apply fold_tables_values in H. destruct H as [H|H]; [exact H|].
  apply alias_fold_values in H. destruct H as [(e & a & He & Ht & Hf & Hm)|H]; [|destruct H].
  apply edges_nx_In in He. exact (proj1 (alias_edge_literal PC d ts g e x a Hgo Hl Hei He Hf Hm)).
Qed.

Lemma edges_nx_complete g e : In e (gedges g) -> has_node g (fst (fst e)) = true -> In e (edges_nx g).
Proof.
  intros He Hn. apply has_node_In in Hn. destruct Hn as (m & Hm & E). unfold edges_nx. apply in_flat_map.
  apply in_map_iff in Hm. destruct Hm as ([m' a] & <- & Hm). exists (m', a). split; [exact Hm|].
  cbn [fst]. unfold out_edges. apply filter_In. split; [exact He|apply node_eqb_true_sym; exact E].
Qed.

Lemma am_complete_alias d ts g v :
  group_ok d ts -> edges_inv ts g -> In v ts ->
  has_edge g (NData v) (NStr (dalias v)) = true -> has_node g (NData v) = true ->
  is_some (assoc_list (dalias v) (get_alias_mapping g ts)) = true.
Proof.
  intros Hgo Hei Hv He Hn. rewrite get_alias_mapping_eq. cbv zeta. rewrite (filter_tables ts (go_tables _ _ Hgo)).
  apply fold_tables_mono. apply fold_tables_mono.
  apply has_edge_In in He. destruct He as (e & He & E1 & E2). apply eqb_shape_str in E2.
  pose proof (Hei e He) as Hi. unfold edge_inv in Hi. rewrite E2 in Hi. destruct Hi as [Ht (src & w & F1 & F2 & F3 & F4)].
  apply (alias_fold_complete ts (edges_nx g) [] e src (dalias v)).
  - apply edges_nx_complete; [exact He|]. unfold has_node in *. rewrite <- (has_node_l_cong _ _ _ E1). exact Hn.
  - exact Ht.
  - destruct e as [[u y] a]. cbn [fst snd] in *. subst u y. reflexivity.
  - rewrite F1 in E1. cbn [node_eqb] in E1. unfold memd. apply existsb_exists. exists v. split; [exact Hv|].
    apply dataset_eqb_true_sym. exact E1.
Qed.

(** ** no DROP tags *)
Definition drop_free (g : graph) : Prop := forall n a, In (n, a) (gnodes g) -> ~ In ("drop", true) a.

Lemma drop_free_upsert n a0 l :
  (forall m a, In (m, a) l -> ~ In ("drop", true) a) -> ~ In ("drop", true) a0 ->
  forall m a, In (m, a) (upsert_node n a0 l) -> ~ In ("drop", true) a.
Proof.
  intros Hl Ha m a Hin. destruct (has_node_l n l) eqn:E.
  - destruct (upsert_old n a0 l E) as (l1 & m' & b & l2 & H1 & _ & _ & H4). rewrite H4 in Hin. subst l.
    apply in_app_iff in Hin. destruct Hin as [Hin|[Hin|Hin]].
    + apply (Hl m a). apply in_app_iff. left. exact Hin.
    + inversion Hin. subst m a. intros K. apply In_attr_update in K. destruct K as [K|K]; [|exact (Ha K)].
      apply (Hl m' b); [apply in_app_iff; right; left; reflexivity|exact K].
    + apply (Hl m a). apply in_app_iff. right. right. exact Hin.
  - rewrite (upsert_new n a0 l E) in Hin. apply in_app_iff in Hin. destruct Hin as [Hin|[Hin|[]]]; [apply (Hl m a); exact Hin|].
    inversion Hin. subst. exact Ha.
Qed.

Lemma drop_free_add_node g n a0 : drop_free g -> ~ In ("drop", true) a0 -> drop_free (add_node g n a0).
Proof. intros Hg Ha m a Hin. exact (drop_free_upsert n a0 (gnodes g) Hg Ha m a Hin). Qed.

Lemma drop_free_add_edge g u v a : drop_free g -> drop_free (add_edge g u v a).
Proof.
  intros Hg. pose proof (drop_free_add_node _ v [] (drop_free_add_node g u [] Hg (fun K => K)) (fun K => K)) as H.
  intros m b Hin. exact (H m b Hin).
Qed.

Lemma drop_free_compose g h : drop_free g -> drop_free h -> drop_free (compose g h).
Proof.
  intros Hg Hh. unfold drop_free in *. unfold compose. cbn [gnodes]. revert Hh. generalize (gnodes g) Hg.
  induction (gnodes h) as [|[n a0] r IH]; intros l Hl Hr; cbn [fold_left]; [exact Hl|].
  apply IH.
  - cbn [fst snd]. apply drop_free_upsert; [exact Hl|]. apply (Hr n a0). left. reflexivity.
  - intros m b Hin. apply (Hr m b). right. exact Hin.
Qed.

Lemma etype_compose (P : string -> Prop) g h :
  (forall e, In e (gedges g) -> P (etype (snd e))) -> (forall e, In e (gedges h) -> P (etype (snd e))) ->
  forall e, In e (gedges (compose g h)) -> P (etype (snd e)).
Proof.
  intros Hg Hh. unfold compose. cbn [gedges]. set (ns := fold_left _ (gnodes h) (gnodes g)). clearbody ns.
  revert Hh. generalize (gedges g) Hg. induction (gedges h) as [|e0 r IH]; intros l Hl Hr; cbn [fold_left]; [exact Hl|].
  apply IH.
  - intros e He. apply In_upsert_edge' in He. destruct He as [->|[He|(e1 & He1 & _ & ->)]].
    + cbn [snd]. apply (Hr e0). left. reflexivity.
    + apply Hl. exact He.
    + cbn [snd eattr_update etype]. apply (Hr e0). left. reflexivity.
  - intros e He. apply Hr. right. exact He.
Qed.

(** ** the out-edges of the target table, and its write columns *)
Lemma out_edges_upsert_other n u v a l :
  node_eqb n u = false ->
  filter (fun e : Graph.node * Graph.node * eattrs => node_eqb n (fst (fst e))) (upsert_edge u v a l) =
  filter (fun e => node_eqb n (fst (fst e))) l.
Proof.
  intros Hn. induction l as [|e r IH]; cbn [upsert_edge filter fst snd]; [rewrite Hn; reflexivity|].
  destruct (edge_is u v e) eqn:E; cbn [filter fst snd].
  - unfold edge_is in E. apply andb_true_iff in E. destruct E as [E _].
    rewrite (node_eqb_cong_r _ _ n E) in Hn. rewrite Hn. reflexivity.
  - rewrite IH. reflexivity.
Qed.

Lemma out_edges_add_edge_other g u v a n : node_eqb n u = false -> out_edges (add_edge g u v a) n = out_edges g n.
Proof.
  intros Hn. unfold out_edges, add_edge. cbn [gedges add_node]. apply out_edges_upsert_other.
  rewrite <- (node_eqb_cong_r _ _ n (canon_eqb u _)). exact Hn.
Qed.

Lemma out_edges_upsert_len n u v a l :
  List.length (filter (fun e : Graph.node * Graph.node * eattrs => node_eqb n (fst (fst e))) (upsert_edge u v a l)) <=
  S (List.length (filter (fun e => node_eqb n (fst (fst e))) l)).
Proof.
  induction l as [|e r IH]; cbn [upsert_edge filter fst snd].
  - destruct (node_eqb n u); cbn [List.length]; lia.
  - destruct (edge_is u v e); cbn [filter fst snd].
    + destruct (node_eqb n (fst (fst e))); cbn [List.length]; lia.
    + destruct (node_eqb n (fst (fst e))); cbn [List.length]; lia.
Qed.

Lemma out_edges_add_edge_len g u v a n : List.length (out_edges (add_edge g u v a) n) <= S (List.length (out_edges g n)).
Proof. unfold out_edges, add_edge. cbn [gedges add_node]. apply out_edges_upsert_len. Qed.

Lemma length_insert_by_idx x l : List.length (insert_by_idx x l) = S (List.length l).
Proof. induction l as [|y r IH]; cbn [insert_by_idx List.length]; [reflexivity|]. destruct (Nat.ltb _ _); cbn [List.length]; lia. Qed.

Lemma length_sort_by_idx l : List.length (sort_by_idx l) = List.length l.
Proof.
  unfold sort_by_idx. assert (H : forall acc, List.length (fold_left (fun acc x => insert_by_idx x acc) l acc) = List.length l + List.length acc).
  { induction l as [|x r IH]; intros acc; cbn [fold_left List.length]; [reflexivity|]. rewrite IH, length_insert_by_idx. lia. }
  rewrite H. cbn [List.length]. lia.
Qed.

Lemma write_columns_len g d : sq_write g = [d] -> List.length (write_columns g) <= List.length (out_edges g (NData d)).
Proof.
  intros Hw. unfold write_columns, get_target_table. rewrite Hw. cbn [filter].
  destruct (negb (memd d (sq_read g))); [|cbn; lia]. rewrite map_length, length_sort_by_idx.
  induction (out_edges g (NData d)) as [|e r IH]; cbn [flat_map List.length]; [lia|]. rewrite app_length.
  destruct (String.eqb _ _); [|cbn [List.length]; lia]. destruct (snd (fst e)); cbn [List.length]; lia.
Qed.

(** ** one source column feeding one target column *)
Definition acl_edges (src tgt : column) (tp : dataset) : list (Graph.node * Graph.node) :=
  [(NCol src, NCol tgt); (NData tp, NCol tgt)] ++
  match col_parent src with Some sp => [(NData sp, NCol src)] | None => [] end.

Definition col_qk (c : column) : Prop := Forall (fun p => dk p = KTable) (cparents c).

Lemma acl_ok (PC : column -> Prop) d ts g src tgt :
  group_ok d ts -> col_parent tgt = Some d -> PC tgt -> PC src -> (forall p, In p (cparents src) -> In p ts) ->
  lits_in (QK (d :: ts) PC) g -> edges_inv ts g ->
  exists g', add_column_lineage g src tgt = Ok g' /\ ext g g' (acl_edges src tgt d) /\
             lits_in (QK (d :: ts) PC) g' /\ edges_inv ts g' /\ (forall k, holder_nodes g' k = holder_nodes g k) /\
             List.length (out_edges g' (NData d)) <= S (List.length (out_edges g (NData d))) /\
             (drop_free g -> drop_free g').
Proof.
  intros Hgo Ht Hqt Hqs Hps Hl He. unfold add_column_lineage. rewrite Ht.
  set (g1 := add_edge g (NCol src) (NCol tgt) lineage_edge).
  set (g2 := add_edge g1 (NData d) (NCol tgt) (e_has_column None)).
  assert (L1 : lits_in (QK (d :: ts) PC) g1) by (apply lits_add_edge; [exact Hl|exact Hqs|exact Hqt]).
  assert (L2 : lits_in (QK (d :: ts) PC) g2) by (apply lits_add_edge; [exact L1|left; reflexivity|exact Hqt]).
  assert (E1 : edges_inv ts g1) by (apply edges_inv_add_edge; [exact He|left; reflexivity]).
  assert (E2 : edges_inv ts g2) by (apply edges_inv_add_edge; [exact E1|right; reflexivity]).
  assert (X2 : ext g g2 ([(NCol src, NCol tgt)] ++ [(NData d, NCol tgt)])).
  { apply (ext_trans g g1 g2); apply ext_add_edge. }
  assert (O1 : out_edges g1 (NData d) = out_edges g (NData d)) by (apply out_edges_add_edge_other; reflexivity).
  assert (O2 : List.length (out_edges g2 (NData d)) <= S (List.length (out_edges g (NData d)))).
  { rewrite <- O1. apply out_edges_add_edge_len. }
  assert (T2 : forall k, holder_nodes g2 k = holder_nodes g k) by (intros k; unfold g2, g1; rewrite !tag_add_edge; reflexivity).
  unfold acl_edges. destruct (col_parent src) as [sp|] eqn:Es.
  - eexists. split; [reflexivity|]. pose proof (col_parent_some _ _ Es) as Ep.
    assert (Hsp : In sp ts) by (apply Hps; rewrite Ep; left; reflexivity).
    split; [|split; [|split; [|split; [|split]]]].
    + change ([(NCol src, NCol tgt); (NData d, NCol tgt)] ++ [(NData sp, NCol src)])
        with (([(NCol src, NCol tgt)] ++ [(NData d, NCol tgt)]) ++ [(NData sp, NCol src)]).
      apply (ext_trans g g2 _ _ _ X2). apply ext_add_edge.
    + apply lits_add_edge; [exact L2|right; exact Hsp|exact Hqs].
    + apply edges_inv_add_edge; [exact E2|right; reflexivity].
    + intros k. rewrite tag_add_edge. apply T2.
    + rewrite out_edges_add_edge_other; [exact O2|]. cbn [node_eqb]. rewrite dataset_eqb_sym. apply (go_target _ _ Hgo). exact Hsp.
    + intros Hdf. repeat apply drop_free_add_edge. exact Hdf.
  - eexists. split; [reflexivity|]. rewrite app_nil_r. repeat (split; [assumption|]).
    intros Hdf. repeat apply drop_free_add_edge. exact Hdf.
Qed.

Lemma acl_fold_ok (PC : column -> Prop) d ts tgt srcs : forall g,
  group_ok d ts -> col_parent tgt = Some d -> PC tgt ->
  (forall s, In s srcs -> PC s /\ forall p, In p (cparents s) -> In p ts) ->
  lits_in (QK (d :: ts) PC) g -> edges_inv ts g ->
  exists g', fold_left (fun acc s => do g3 <- acc; add_column_lineage g3 s tgt) srcs (Ok g) = Ok g' /\
             ext g g' (flat_map (fun s => acl_edges s tgt d) srcs) /\
             lits_in (QK (d :: ts) PC) g' /\ edges_inv ts g' /\ (forall k, holder_nodes g' k = holder_nodes g k) /\
             List.length (out_edges g' (NData d)) <= List.length srcs + List.length (out_edges g (NData d)) /\
             (drop_free g -> drop_free g').
Proof.
  induction srcs as [|s r IH]; intros g Hgo Ht Hqt Hs Hl He; cbn [fold_left flat_map].
  - exists g. split; [reflexivity|]. split; [apply ext_refl|]. cbn [List.length]. auto.
  - destruct (Hs s (or_introl eq_refl)) as [Hq Hp].
    destruct (acl_ok PC d ts g s tgt Hgo Ht Hqt Hq Hp Hl He) as (g1 & E1 & X1 & L1 & I1 & T1 & O1 & D1). rewrite E1.
    destruct (IH g1 Hgo Ht Hqt (fun s' Hs' => Hs s' (or_intror Hs')) L1 I1) as (g' & E' & X' & L' & I' & T' & O' & D').
    exists g'. split; [exact E'|]. split; [apply (ext_trans g g1 g'); assumption|]. split; [exact L'|]. split; [exact I'|].
    split; [intros k; rewrite T', T1; reflexivity|]. split; [cbn [List.length]; lia|auto].
Qed.

(** ** [end_of_query_cleanup] for one table group *)
Definition eoq_step (e : env) (tbl_grp : list dataset) (ncols : nat) (tgt_tbl : dataset) (g2 : graph) (idx : nat) (x : xcol) : res graph :=
  let own := add_parent (xc x) tgt_tbl in
  do srcs <- to_source_columns e x (get_alias_mapping g2 tbl_grp);
  let tgt := match srcs with
             | [] => own
             | _ => let wc := write_columns g2 in
                    if Nat.eqb (List.length wc) ncols
                    then match nth_error wc idx with Some c => c | None => own end
                    else own
             end in
  fold_left (fun acc3 s => do g3 <- acc3; add_column_lineage g3 s tgt) srcs (Ok g2).

Lemma slice_all {A} (l : list A) : slice l 0 (List.length l) = l.
Proof. unfold slice. rewrite Nat.sub_0_r. cbn [skipn]. apply firstn_all. Qed.

Lemma eoq_single e g tables columns :
  end_of_query_cleanup e g tables columns [] =
  let g0 := fold_left add_read tables g in
  match sq_write g0 with
  | [] => Ok g0
  | _ :: _ :: _ => Err ELineage
  | [tgt_tbl] =>
      fst (fold_left (fun acc2 x => let '(rg, idx) := acc2 in
                                    (do g2 <- rg; eoq_step e tables (List.length columns) tgt_tbl g2 idx x, S idx))
                     columns (Ok g0, 0))
  end.
Proof.
  unfold end_of_query_cleanup. cbn [app fold_left fst snd]. rewrite !slice_all. reflexivity.
Qed.

Record sel_inv (PC : column -> Prop) (d : dataset) (ts : list dataset) (g : graph) : Prop := {
  si_lits : lits_in (QK (d :: ts) PC) g;
  si_edges : edges_inv ts g;
  si_alias : forall v, In v ts -> has_edge g (NData v) (NStr (dalias v)) = true /\ has_node g (NData v) = true;
  si_drop : drop_free g
}.

Lemma sel_inv_ext (PC : column -> Prop) d ts g g' el :
  sel_inv PC d ts g -> ext g g' el -> lits_in (QK (d :: ts) PC) g' -> edges_inv ts g' -> drop_free g' -> sel_inv PC d ts g'.
Proof.
  intros [A1 A2 A3 A4] X L E D. constructor; [exact L|exact E| |exact D]. intros v Hv. destruct (A3 v Hv) as [B1 B2]. split.
  - rewrite (ext_edges _ _ _ X), B1. reflexivity.
  - apply (ext_mono _ _ _ X). exact B2.
Qed.

Definition own_col (d : dataset) (x : xcol) : column := add_parent (xc x) d.

Lemma own_col_eq d x : cparents (xc x) = [] -> own_col d x = {| craw := craw (xc x); cparents := [d] |}.
Proof. intros H. unfold own_col, add_parent. rewrite H. reflexivity. Qed.

Definition sel_edges (d : dataset) (S : xcol -> list column) (l : list (xcol * column)) : list (Graph.node * Graph.node) :=
  flat_map (fun p => flat_map (fun s => acl_edges s (snd p) d) (S (fst p))) l.
Definition own_pairs (d : dataset) (l : list xcol) : list (xcol * column) := map (fun x => (x, own_col d x)) l.

Lemma eoq_fold (PC : column -> Prop) e d ts cols (S : xcol -> list column) :
  group_ok d ts -> dk d = KTable ->
  (forall g2, sel_inv PC d ts g2 -> forall x, In x cols -> to_source_columns e x (get_alias_mapping g2 ts) = Ok (S x)) ->
  (forall x, In x cols -> cparents (xc x) = [] /\ PC (own_col d x) /\ List.length (S x) <= 1 /\
                          forall s, In s (S x) -> PC s /\ forall p, In p (cparents s) -> In p ts) ->
  forall l g2 idx,
    (forall x, In x l -> In x cols) -> sel_inv PC d ts g2 -> sq_write g2 = [d] ->
    List.length (out_edges g2 (NData d)) <= idx -> idx + List.length l = List.length cols ->
    exists g', fst (fold_left (fun acc2 x => let '(rg, idx) := acc2 in
                                  (do g2 <- rg; eoq_step e ts (List.length cols) d g2 idx x, Datatypes.S idx)) l (Ok g2, idx)) = Ok g' /\
               ext g2 g' (sel_edges d S (own_pairs d l)) /\ sel_inv PC d ts g' /\ (forall k, holder_nodes g' k = holder_nodes g2 k).
Proof.
  intros Hgo Hd HS HX. induction l as [|x r IH]; intros g2 idx Hl Hinv Hw Ho Hn; cbn [fold_left].
  - exists g2. split; [reflexivity|]. split; [apply ext_refl|]. split; [exact Hinv|reflexivity].
  - destruct (HX x (Hl x (or_introl eq_refl))) as (Hx1 & Hx0 & Hx2 & Hx3).
    assert (Estep : exists g3, eoq_step e ts (List.length cols) d g2 idx x = Ok g3 /\
                               ext g2 g3 (flat_map (fun s => acl_edges s (own_col d x) d) (S x)) /\
                               lits_in (QK (d :: ts) PC) g3 /\ edges_inv ts g3 /\ (forall k, holder_nodes g3 k = holder_nodes g2 k) /\
                               List.length (out_edges g3 (NData d)) <= Datatypes.S idx /\ drop_free g3).
    { unfold eoq_step. rewrite (HS g2 Hinv x (Hl x (or_introl eq_refl))).
      assert (Et : (match S x with
                    | [] => add_parent (xc x) d
                    | _ :: _ => if Nat.eqb (List.length (write_columns g2)) (List.length cols)
                                then match nth_error (write_columns g2) idx with Some c => c | None => add_parent (xc x) d end
                                else add_parent (xc x) d
                    end) = own_col d x).
      { destruct (S x); [reflexivity|]. pose proof (write_columns_len g2 d Hw) as Hwl. cbn [List.length] in Hn.
        replace (Nat.eqb (List.length (write_columns g2)) (List.length cols)) with false; [reflexivity|].
        symmetry. apply Nat.eqb_neq. lia. }
      cbv zeta. rewrite Et.
      assert (Hown : col_parent (own_col d x) = Some d).
      { rewrite (own_col_eq d x Hx1). reflexivity. }
      destruct (acl_fold_ok PC d ts (own_col d x) (S x) g2 Hgo Hown Hx0 Hx3 (si_lits _ _ _ _ Hinv) (si_edges _ _ _ _ Hinv))
        as (g3 & E3 & X3 & L3 & I3 & T3 & O3 & D3).
      exists g3. split; [exact E3|]. split; [exact X3|]. split; [exact L3|]. split; [exact I3|]. split; [exact T3|].
      split; [lia|exact (D3 (si_drop _ _ _ _ Hinv))]. }
    destruct Estep as (g3 & E3 & X3 & L3 & I3 & T3 & O3 & D3). rewrite E3.
    assert (Hinv3 : sel_inv PC d ts g3) by (apply (sel_inv_ext PC d ts g2 g3 _ Hinv X3 L3 I3 D3)).
    assert (Hw3 : sq_write g3 = [d]) by (unfold sq_write; rewrite T3; exact Hw).
    cbn [List.length] in Hn.
    destruct (IH g3 (Datatypes.S idx) (fun y Hy => Hl y (or_intror Hy)) Hinv3 Hw3 O3 ltac:(lia)) as (g' & E' & X' & Hinv' & T').
    exists g'. split; [exact E'|]. split.
    + unfold sel_edges, own_pairs. cbn [map flat_map fst snd]. apply (ext_trans g2 g3 g'); assumption.
    + split; [exact Hinv'|]. intros k. rewrite T', T3. reflexivity.
Qed.

Lemma fold_res_id {A B} (F : B -> A -> res B) l b :
  (forall x, In x l -> F b x = Ok b) -> fold_left (fun acc x => do y <- acc; F y x) l (Ok b) = Ok b.
Proof.
  induction l as [|x r IH]; intros H; [reflexivity|]. cbn [fold_left]. rewrite (H x (or_introl eq_refl)). apply IH.
  intros y Hy. apply H. right. exact Hy.
Qed.

(** ** with a falsy provider a star over base tables is left alone *)
Lemma expand_wildcard_id e g :
  p_truthy (e_provider e) = false ->
  lits_in (fun n => forall c, n = NCol c -> col_qk c) g -> expand_wildcard e g = Ok g.
Proof.
  intros Hp Hl. unfold expand_wildcard. destruct (get_target_table g) as [tgt|]; [|reflexivity].
  apply fold_res_id. intros c _. destruct (String.eqb (craw c) "*"); [|reflexivity].
  apply fold_res_id. intros sw Hsw. destruct (col_parent sw) as [st|] eqn:Est; [|reflexivity].
  assert (Hk : dk st = KTable).
  { unfold get_source_columns in Hsw. apply in_flat_map in Hsw. destruct Hsw as (e0 & He0 & Hsw).
    unfold in_edges in He0. apply filter_In in He0. destruct He0 as [He0 _].
    destruct (String.eqb (etype (snd e0)) "lineage"); [|destruct Hsw].
    destruct (fst (fst e0)) as [d0|c0|s0] eqn:Ef; [destruct Hsw| |destruct Hsw]. destruct Hsw as [->|[]].
    destruct (proj2 Hl e0 He0) as [Hq _]. specialize (Hq sw Ef). unfold col_qk in Hq.
    rewrite (col_parent_some _ _ Est) in Hq. inversion Hq. assumption. }
  rewrite Hk, Hp. reflexivity.
Qed.

Lemma QK_col_qk DS (PC : column -> Prop) g :
  (forall c, PC c -> col_qk c) -> lits_in (QK DS PC) g -> lits_in (fun n => forall c, n = NCol c -> col_qk c) g.
Proof. intros HP. apply lits_weaken. intros n H c ->. apply HP. exact H. Qed.

(** ** reading the tables of the FROM clause *)
Lemma add_read_table g v : dk v = KTable ->
  add_read g v = add_edge (add_node g (NData v) [("read", true)]) (NData v) (NStr (dalias v)) e_has_alias.
Proof. intros H. unfold add_read, has_alias_attr. rewrite H. reflexivity. Qed.

Lemma add_reads_ok (PC : column -> Prop) d ts : forall l g,
  group_ok d ts -> Forall data_ok ts -> (forall v, In v l -> In v ts) ->
  lits_in (QK (d :: ts) PC) g -> edges_inv ts g ->
  lits_in (QK (d :: ts) PC) (fold_left add_read l g) /\ edges_inv ts (fold_left add_read l g) /\
  ext g (fold_left add_read l g) (map (fun v => (NData v, NStr (dalias v))) l) /\
  (forall k, k <> "read" -> holder_nodes (fold_left add_read l g) k = holder_nodes g k) /\
  out_edges (fold_left add_read l g) (NData d) = out_edges g (NData d) /\
  (drop_free g -> drop_free (fold_left add_read l g)).
Proof.
  induction l as [|v r IH]; intros g Hgo Hdo Hl Hlit Hei; cbn [fold_left map].
  - split; [exact Hlit|]. split; [exact Hei|]. split; [apply ext_refl|]. split; [reflexivity|]. split; [reflexivity|auto].
  - assert (Hv : In v ts) by (apply Hl; left; reflexivity).
    pose proof (go_tables _ _ Hgo v Hv) as Hk. rewrite Forall_forall in Hdo.
    assert (L1 : lits_in (QK (d :: ts) PC) (add_read g v)).
    { rewrite (add_read_table g v Hk). apply lits_add_edge; [apply lits_add_node; [exact Hlit|right; exact Hv]|right; exact Hv|exact I]. }
    assert (E1 : edges_inv ts (add_read g v)).
    { rewrite (add_read_table g v Hk). apply edges_inv_add_edge; [apply edges_inv_add_node; exact Hei|].
      split; [reflexivity|]. exists v. auto. }
    assert (X1 : ext g (add_read g v) [(NData v, NStr (dalias v))]).
    { rewrite (add_read_table g v Hk).
      apply (ext_trans g (add_node g (NData v) [("read", true)]) _ [] _ (ext_add_node g _ _) (ext_add_edge _ _ _ _)). }
    assert (O1 : out_edges (add_read g v) (NData d) = out_edges g (NData d)).
    { rewrite (add_read_table g v Hk). rewrite out_edges_add_edge_other; [reflexivity|].
      cbn [node_eqb]. rewrite dataset_eqb_sym. apply (go_target _ _ Hgo v Hv). }
    assert (D1 : drop_free g -> drop_free (add_read g v)).
    { intros Hdf. rewrite (add_read_table g v Hk). apply drop_free_add_edge. apply drop_free_add_node; [exact Hdf|].
      intros [K|[]]. discriminate K. }
    destruct (IH (add_read g v) Hgo (proj2 (Forall_forall _ _) Hdo) (fun w Hw => Hl w (or_intror Hw)) L1 E1) as (A1 & A2 & A3 & A4 & A5 & A6).
    split; [exact A1|]. split; [exact A2|]. split.
    + apply (ext_trans g (add_read g v) _ [(NData v, NStr (dalias v))] _ X1 A3).
    + split; [|split; [rewrite A5; exact O1|auto]]. intros k Hk'. rewrite (A4 k Hk'). apply tag_add_read_other; [apply Hdo; exact Hv|exact Hk'].
Qed.

(* ================================================================== *)
(** * Part N: what the extractor reads off a rendered SELECT over tables, exactly *)

Definition xcol_of (i : item) : xcol :=
  match i with
  | IExpr (EColRef qq c) (Some a) => mk_xcol a [(c, qq)] true
  | IExpr (EColRef qq c) None => mk_xcol c [(c, qq)] false
  | IStar qq => mk_xcol "*" [("*", qq)] false
  | _ => mk_xcol "" [] false
  end.

Definition tbl_schema (e : env) (t : tref) : string :=
  match fst t with Some s => s | None => if String.eqb (e_cfg e) "" then Spec.placeholder else e_cfg e end.
Definition tbl (e : env) (t : tref) (al : option string) : dataset :=
  {| dk := KTable; deq := tref_str (e_cfg e) t; dstr := tref_str (e_cfg e) t; dschema := tbl_schema e t;
     draw := snd t; dalias := match al with Some a => a | None => snd t end; dquery := None |}.
Definition tbl_of (e : env) (r : rel) : dataset :=
  match r with RTable t al => tbl e t al | _ => tbl e (None, "") None end.

Section NavB.
Variable noise : list seg.
Hypothesis Hnoise : noise_ok noise = true.
Variable e : env.
Hypothesis Henv : env_ok e = true.

Lemma column_of_seg_exact f i : item_ok i = true -> column_of_seg (S f) e (r_item noise i) = Ok (xcol_of i).
Proof.
  destruct i as [[qq c| | | | | |] al|qq]; cbn [item_ok]; try discriminate; intros H.
  - apply andb_true_iff in H. destruct H as [H Ha]. apply andb_true_iff in H. destruct H as [Hc Hq].
    rewrite r_item_colref. unfold column_of_seg.
    match goal with |- context [tyis ?n "select_clause_element"] => change (tyis n "select_clause_element") with true end. cbn iota.
    unfold get_column_and_alias. rewrite !(lcs_node noise Hnoise) by reflexivity.
    assert (E : filter nn (r_colref qq c :: al_list noise al) = r_colref qq c :: al_list noise al) by (destruct al; reflexivity).
    rewrite E. cbn [fold_left]. change (tyis (r_colref qq c) "alias_expression") with false. cbn iota.
    change (ty_in (r_colref qq c) SOURCE_TYPES) with true. cbn [orb].
    cbn [extract_sources]. change (ty_in (r_colref qq c) ["identifier"; "column_reference"]) with true. cbn [orb].
    rewrite ecq_colref. cbn [app].
    destruct al as [a|]; cbn [al_list fold_left].
    + change (tyis (r_alias noise a) "alias_expression") with true. cbn iota. unfold extract_identifier. rewrite (lcs_alias noise Hnoise).
      cbn [last_res rev app raw ident leaf]. rewrite (id_ok_nonempty a Ha). reflexivity.
    + change (tyis (r_colref qq c) "column_reference") with true. cbn [orb fst]. reflexivity.
  - assert (Hq' : match qq with Some x => id_ok x = true | None => True end) by (destruct qq; auto).
    rewrite r_item_star. unfold column_of_seg.
    match goal with |- context [tyis ?n "select_clause_element"] => change (tyis n "select_clause_element") with true end. cbn iota.
    unfold get_column_and_alias. rewrite !lcs_node0 by reflexivity. cbn [filter]. change (nn (r_wild qq)) with true. cbn iota. cbn [fold_left].
    change (tyis (r_wild qq) "alias_expression") with false. cbn iota.
    change (is_wildcard (r_wild qq)) with true. rewrite !orb_true_r.
    cbn [extract_sources]. rewrite !orb_true_r. rewrite (ecq_wild qq Hq'). cbn [app fst]. reflexivity.
Qed.

Lemma map_res_exact {A B} (f : A -> res B) (h : A -> B) l : (forall x, In x l -> f x = Ok (h x)) -> map_res f l = Ok (map h l).
Proof.
  induction l as [|x r IH]; intros H; [reflexivity|]. cbn [map_res map]. rewrite (H x (or_introl eq_refl)), IH; [reflexivity|].
  intros y Hy. apply H. right. exact Hy.
Qed.

Lemma handle_child_sc_exact f st items :
  forallb item_ok items = true ->
  handle_child (S f) e st (r_sc noise items) =
  Ok {| s_g := s_g st; s_tables := s_tables st; s_columns := s_columns st ++ map xcol_of items; s_barriers := s_barriers st |}.
Proof.
  intros H. unfold handle_child. rewrite (swap_partition_off e Henv). unfold handle_select_into.
  change (ty_in (r_sc noise items) ["into_table_clause"; "into_clause"]) with false. cbn iota.
  unfold list_tables. change (ty_in (r_sc noise items) ["from_clause"; "join_clause"; "update_statement"]) with false. cbn iota.
  change (tyis (r_sc noise items) "select_clause") with true. cbn iota. rewrite (gc_sc_items noise Hnoise).
  assert (E : map_res (column_of_seg (S f) e) (map (r_item noise) items) = Ok (map xcol_of items)).
  { clear -H Hnoise. induction items as [|i r IH]; [reflexivity|]. cbn [forallb] in H. apply andb_true_iff in H. destruct H as [H1 H2].
    cbn [map map_res]. rewrite (column_of_seg_exact f i H1), (IH H2). reflexivity. }
  rewrite E. rewrite app_nil_r. reflexivity.
Qed.
End NavB.

Section NavB2.
Variable noise : list seg.
Hypothesis Hnoise : noise_ok noise = true.
Variable e : env.
Hypothesis Henv : env_ok e = true.

Definition alias_okp (al : option string) : Prop := match al with Some a => id_ok a = true | None => True end.

Lemma mk_table_exact name sch (al : option string) :
  id_ok name = true -> alias_okp al ->
  mk_table e name (Some sch) (match al with Some a => if String.eqb a "" then None else Some a | None => None end) =
  Ok {| dk := KTable; deq := sch ++ "." ++ name; dstr := sch ++ "." ++ name; dschema := sch; draw := name;
        dalias := match al with Some a => a | None => name end; dquery := None |}.
Proof.
  intros Hn Ha. unfold mk_table, table_of. rewrite (rsplit_dot_none name (id_ok_count name Hn)).
  destruct al as [a|]; cbn [alias_okp] in Ha.
  - rewrite (id_ok_nonempty a Ha). unfold table_str. cbn [t_schema t_raw t_alias]. rewrite (id_ok_escape name Hn), (id_ok_escape a Ha). reflexivity.
  - unfold table_str. cbn [t_schema t_raw t_alias]. rewrite !(id_ok_escape name Hn). reflexivity.
Qed.

Lemma table_of_seg_exact t al : tref_ok t = true -> alias_okp al -> table_of_seg e (r_tref t) al = Ok (tbl e t al).
Proof.
  destruct t as [[s|] name]; unfold tref_ok; cbn [fst snd]; intros H Ha; apply andb_true_iff in H; destruct H as [Hn Hs].
  - unfold r_tref. cbn [fst snd]. rewrite table_of_seg_dotted.
    + unfold schema_ok in Hs. apply andb_true_iff in Hs. destruct Hs as [Hs _].
      rewrite (concat_escape_parts _ Hs), join_split_dot. cbn [raw ident leaf].
      assert (Esch : schema_of (e_cfg e) (Some s) = s).
      { unfold schema_of. assert (Hne : String.eqb s "" = false) by (destruct s; [cbn in Hs; discriminate|reflexivity]).
        rewrite Hne. cbn [negb]. apply idc_escape. apply split_dot_chars. rewrite forallb_forall in *. intros y Hy. apply id_ok_chars. apply Hs. exact Hy. }
      rewrite Esch. rewrite (mk_table_exact name s al Hn Ha). reflexivity.
    + apply intersperse_length_pos. intros E. apply map_eq_nil in E. exact (split_dot_nonempty s E).
  - unfold r_tref. cbn [fst snd]. unfold table_of_seg. cbn [children node List.length Nat.leb].
    change (tyis _ "identifier") with false. cbn iota. unfold nth_res. cbn [nth_error raw ident leaf].
    rewrite (mk_table_exact name _ al Hn Ha), (default_schema_str e Henv). reflexivity.
Qed.

Lemma add_dataset_exact k t al g :
  tref_ok t = true -> alias_okp al -> sq_cte g = [] ->
  add_dataset_from_fee e (r_rel noise k (RTable t al)) g = Ok [tbl e t al].
Proof.
  intros Ht Ha Hc. rewrite (add_dataset_table noise Hnoise e k t al g Ht Ha).
  assert (El : cte_lookup g (snd t) = None) by (unfold cte_lookup; rewrite Hc; reflexivity).
  rewrite El. destruct (fst t); rewrite (table_of_seg_exact t al Ht Ha); reflexivity.
Qed.

Lemma concat_res_singletons {A B} (f : A -> res (list B)) (h : A -> B) l :
  (forall x, In x l -> f x = Ok [h x]) -> concat_res (map f l) = Ok (map h l).
Proof.
  induction l as [|x r IH]; intros H; [reflexivity|]. cbn [map concat_res]. rewrite (H x (or_introl eq_refl)), IH; [reflexivity|].
  intros y Hy. apply H. right. exact Hy.
Qed.

Lemma list_tables_exact k from cj g :
  from <> [] -> forallb rel_ok from = true -> sq_cte g = [] ->
  list_tables e (r_fc noise k from cj) g = Ok (map (tbl_of e) from).
Proof.
  intros Hne Hok Hc.
  assert (Hrt : forallb is_rtable from = true).
  { rewrite forallb_forall in *. intros r Hr. specialize (Hok r Hr). destruct r; try discriminate. reflexivity. }
  assert (Hper : forall r, In r from -> add_dataset_from_fee e (r_rel noise k r) g = Ok [tbl_of e r]).
  { intros r Hr. rewrite forallb_forall in Hok. specialize (Hok r Hr). destruct r as [t al| |]; try discriminate.
    cbn [rel_ok] in Hok. apply andb_true_iff in Hok. destruct Hok as [H1 H2].
    apply add_dataset_exact; auto. destruct al; cbn; auto. }
  assert (Hjoin : forall r0 rest, from = r0 :: rest -> list_tables e (r_fc noise k (r0 :: rest) false) g = Ok (map (tbl_of e) from)).
  { intros r0 rest ->. rewrite (list_tables_fc_join noise Hnoise e k r0 rest g _ (ljc_tables noise Hnoise k r0 rest Hrt)).
    rewrite (Hper r0 (or_introl eq_refl)).
    rewrite (concat_res_singletons (fun p => add_dataset_from_fee e (jfee noise p) g) (fun p => tbl_of e (snd p))).
    - cbn [app map]. rewrite map_map. reflexivity.
    - intros [k' r] Hin. apply in_map_iff in Hin. destruct Hin as (r' & Heq & Hr'). inversion Heq. subst k' r'.
      unfold jfee. cbn [fst snd]. apply Hper. right. exact Hr'. }
  destruct cj.
  - destruct from as [|r1 [|r2 rest]]; [contradiction| |].
    + rewrite r_fc_single_comma. apply (Hjoin r1 []). reflexivity.
    + rewrite (list_tables_fc_comma noise Hnoise). apply concat_res_singletons. exact Hper.
  - destruct from as [|r0 rest]; [contradiction|]. apply (Hjoin r0 rest). reflexivity.
Qed.

(** a SELECT over tables only, without WHERE: the extractor runs the cleanup on exactly these tables and columns *)
Lemma select_tables_extract f stmt items from cj k ctx :
  sel_segments stmt = [r_sc noise items; r_fc noise k from cj] ->
  forallb item_ok items = true -> from <> [] -> forallb rel_ok from = true ->
  sq_cte (init_holder ctx) = [] ->
  extract (S (S f)) e XSelect stmt ctx =
  (do g2 <- end_of_query_cleanup e (init_holder ctx) (map (tbl_of e) from) (map xcol_of items) []; expand_wildcard e g2).
Proof.
  intros Hseg Hit Hne Hrel Hc. rewrite extract_select_eq, Hseg.
  assert (Hrt : forallb is_rtable from = true).
  { rewrite forallb_forall in *. intros r Hr. specialize (Hrel r Hr). destruct r; try discriminate. reflexivity. }
  unfold sel_subqueries. cbn [map concat_res]. rewrite (sel_subq1_sc noise Hnoise items Hit), (sel_subq1_fc_tables noise Hnoise k from cj Hne Hrt).
  cbn [app ex_subquery fold_left]. unfold sel_fold. cbn [fold_left]. unfold sel_step.
  rewrite (handle_child_sc_exact noise Hnoise e Henv f _ items Hit), (ise_sc noise Hnoise). rewrite (handle_child_fc noise e Henv).
  cbn [s_g s_tables s_columns s_barriers app].
  rewrite (list_tables_exact k from cj (init_holder ctx) Hne Hrel Hc), (ise_fc noise Hnoise). cbn [s_g s_tables s_columns s_barriers]. reflexivity.
Qed.
End NavB2.

(* ================================================================== *)
(** * Part C: INSERT / CREATE over one SELECT from base tables: the holder *)

Lemma init_delegate_write d : init_holder (dctx (add_write empty_graph d)) = add_write empty_graph d.
Proof. reflexivity. Qed.

Lemma select_core (PC : column -> Prop) e d ts cols (S : xcol -> list column) :
  p_truthy (e_provider e) = false -> group_ok d ts -> Forall data_ok ts -> dk d = KTable -> (forall c, PC c -> col_qk c) ->
  (forall g2, sel_inv PC d ts g2 -> forall x, In x cols -> to_source_columns e x (get_alias_mapping g2 ts) = Ok (S x)) ->
  (forall x, In x cols -> cparents (xc x) = [] /\ PC (own_col d x) /\ List.length (S x) <= 1 /\
                          forall s, In s (S x) -> PC s /\ forall p, In p (cparents s) -> In p ts) ->
  exists sub, (do g2 <- end_of_query_cleanup e (add_write empty_graph d) ts cols []; expand_wildcard e g2) = Ok sub /\
              ext (add_write empty_graph d) sub (map (fun v => (NData v, NStr (dalias v))) ts ++ sel_edges d S (own_pairs d cols)) /\
              sel_inv PC d ts sub.
Proof.
  intros Hp Hgo Hdo Hd HPC HS HX. set (g_b := add_write empty_graph d).
  assert (Lb : lits_in (QK (d :: ts) PC) g_b).
  { split; [intros n [<-|[]]; left; reflexivity|intros e0 []]. }
  assert (Eb : edges_inv ts g_b) by (intros e0 []).
  assert (Db : drop_free g_b).
  { intros n a [H|[]]. inversion H. intros [K|[]]. discriminate K. }
  destruct (add_reads_ok PC d ts ts g_b Hgo Hdo (fun v Hv => Hv) Lb Eb) as (A1 & A2 & A3 & A4 & A5 & A6).
  rewrite eoq_single. cbv zeta. set (g0 := fold_left add_read ts g_b) in *.
  assert (Hw : sq_write g0 = [d]) by (unfold sq_write; rewrite A4 by discriminate; reflexivity).
  rewrite Hw.
  assert (Hinv0 : sel_inv PC d ts g0).
  { constructor; [exact A1|exact A2| |exact (A6 Db)]. intros v Hv.
    assert (Hin : In (NData v, NStr (dalias v)) (map (fun v => (NData v, NStr (dalias v))) ts)) by (apply in_map_iff; exists v; auto).
    split.
    - rewrite (ext_edges _ _ _ A3). apply orb_true_iff. right. unfold ematch. apply existsb_exists. eexists. split; [exact Hin|].
      cbn [fst snd]. rewrite !node_eqb_refl. reflexivity.
    - exact (proj1 (ext_new _ _ _ A3 _ Hin)). }
  destruct (eoq_fold PC e d ts cols S Hgo Hd HS HX cols g0 0 (fun x Hx => Hx) Hinv0 Hw) as (g' & E' & X' & Hinv' & T').
  - rewrite A5. cbn. lia.
  - reflexivity.
  - rewrite E'. rewrite (expand_wildcard_id e g' Hp (QK_col_qk _ PC g' HPC (si_lits _ _ _ _ Hinv'))).
    exists g'. split; [reflexivity|]. split; [apply (ext_trans g_b g0 g'); assumption|exact Hinv'].
Qed.

Section NavC.
Variable noise : list seg.
Hypothesis Hnoise : noise_ok noise = true.
Variable e : env.
Hypothesis Henv : env_ok e = true.

Lemma ci_select f stmt g k items from cj wh :
  ci_step f e stmt (Ok (g, false, false)) (r_query noise (S k) (QSelect items from cj wh)) =
  (do g' <- ex_delegate f e XSelect (r_query noise (S k) (QSelect items from cj wh)) g true; Ok (g', false, false)).
Proof.
  unfold ci_step. set (Q := r_query noise (S k) (QSelect items from cj wh)).
  assert (E : tyis Q "with_compound_statement" = false /\ tyis Q "bracketed" = false /\
              ty_in Q ["select_statement"; "set_expression"] = true) by (unfold Q; rewrite r_query_select; repeat split; reflexivity).
  destruct E as (E1 & E2 & E3). rewrite E1, E2, E3. cbn [andb]. cbn iota.
  destruct (ex_delegate f e XSelect Q g true); reflexivity.
Qed.

Definition sel_holder (t : tref) (items : list item) (from : list rel) : res graph :=
  do sub <- (do g2 <- end_of_query_cleanup e (add_write empty_graph (tbl e t None)) (map (tbl_of e) from) (map xcol_of items) [];
             expand_wildcard e g2);
  Ok (compose (add_write empty_graph (tbl e t None)) sub).

Lemma delegate_select F stmt t items from cj k :
  forallb item_ok items = true -> from <> [] -> forallb rel_ok from = true ->
  (do r <- ci_step (S (S (S F))) e stmt (Ok (add_write empty_graph (tbl e t None), false, false))
                   (r_query noise (S k) (QSelect items from cj None));
   Ok (fst (fst r))) = sel_holder t items from.
Proof.
  intros Hit Hne Hrel. rewrite ci_select. unfold ex_delegate. fold (dctx (add_write empty_graph (tbl e t None))).
  rewrite (select_tables_extract noise Hnoise e Henv (S F) _ items from cj k (dctx (add_write empty_graph (tbl e t None)))); try assumption.
  - rewrite init_delegate_write. unfold sel_holder.
    destruct (end_of_query_cleanup e _ _ _ []) as [g2|err]; [|reflexivity]. destruct (expand_wildcard e g2); reflexivity.
  - rewrite r_query_select. apply (sel_segments_select noise Hnoise items k from cj None).
  - reflexivity.
Qed.

Lemma analyze_insert_select t items from cj :
  tref_ok t = true -> forallb item_ok items = true -> from <> [] -> forallb rel_ok from = true ->
  analyze e false (r_stmt noise (SInsert t None (QSelect items from cj None))) = sel_holder t items from.
Proof.
  intros Ht Hit Hne Hrel. set (q := QSelect items from cj None). set (k := q_size q). set (Q := r_query noise (S k) q).
  set (stmt := node "insert_statement" ["insert_statement"] (sep noise ([kw "insert"; kw "into"; r_tref t] ++ cols_part noise None ++ [Q]))).
  assert (Es : r_stmt noise (SInsert t None q) = stmt) by reflexivity. rewrite Es.
  assert (Ea : analyze e false stmt = extract (S (S (S (S (3 * depth stmt + 6))))) e XCreateInsert stmt empty_ctx).
  { replace (S (S (S (S (3 * depth stmt + 6))))) with (3 * depth stmt + 10) by lia. reflexivity. }
  set (F := 3 * depth stmt + 6) in *.
  rewrite Ea, extract_ci_eq. unfold stmt at 2. rewrite (lcs_node noise Hnoise) by reflexivity.
  rewrite !filter_app. cbn [cols_part filter app]. change (nn (kw "insert")) with true. change (nn (kw "into")) with true.
  change (nn (r_tref t)) with true. unfold Q at 1. rewrite (nn_rq noise). cbn iota. fold Q.
  change (init_holder empty_ctx) with empty_graph. cbn [app fold_left].
  rewrite (ci_kw_target e (S (S (S F))) stmt empty_graph false false "insert" eq_refl), (ci_kw_target e (S (S (S F))) stmt empty_graph true false "into" eq_refl).
  rewrite (ci_tref e Henv), (table_of_seg_exact e Henv t None Ht I).
  unfold Q, q. apply (delegate_select F stmt t items from cj k Hit Hne Hrel).
Qed.

Lemma analyze_create_select (view : bool) t items from cj :
  tref_ok t = true -> forallb item_ok items = true -> from <> [] -> forallb rel_ok from = true ->
  analyze e false (r_stmt noise (if view then SView t (QSelect items from cj None) else SCtas t (QSelect items from cj None)))
  = sel_holder t items from.
Proof.
  intros Ht Hit Hne Hrel. set (q := QSelect items from cj None). set (k := q_size q). set (Q := r_query noise (S k) q).
  set (ty0 := if view then "create_view_statement" else "create_table_statement").
  set (w0 := if view then "view" else "table").
  set (stmt := node ty0 [ty0] (sep noise [kw "create"; kw w0; r_tref t; kw "as"; Q])).
  assert (Es : r_stmt noise (if view then SView t q else SCtas t q) = stmt) by (destruct view; reflexivity). rewrite Es.
  assert (Ea : analyze e false stmt = extract (S (S (S (S (3 * depth stmt + 6))))) e XCreateInsert stmt empty_ctx).
  { replace (S (S (S (S (3 * depth stmt + 6))))) with (3 * depth stmt + 10) by lia. destruct view; reflexivity. }
  set (F := 3 * depth stmt + 6) in *.
  rewrite Ea, extract_ci_eq. unfold stmt at 2. rewrite (lcs_node noise Hnoise) by (destruct view; reflexivity).
  cbn [filter]. change (nn (kw "create")) with true. change (nn (kw w0)) with true. change (nn (kw "as")) with true.
  change (nn (r_tref t)) with true. unfold Q at 1. rewrite (nn_rq noise). cbn iota. fold Q.
  change (init_holder empty_ctx) with empty_graph. cbn [fold_left].
  rewrite (ci_kw_other e (S (S (S F))) stmt empty_graph false "create" eq_refl eq_refl).
  rewrite (ci_kw_target e (S (S (S F))) stmt empty_graph false false w0) by (destruct view; reflexivity).
  rewrite (ci_tref e Henv), (table_of_seg_exact e Henv t None Ht I).
  rewrite (ci_kw_other e (S (S (S F))) stmt _ false "as" eq_refl eq_refl).
  unfold Q, q. apply (delegate_select F stmt t items from cj k Hit Hne Hrel).
Qed.
End NavC.

(* ================================================================== *)
(** * Part W: the parents of an unresolved column *)
Definition usort (ts : list dataset) : list dataset := fold_left (fun l v => insert_parent v l) ts [].

Fixpoint dsorted (l : list dataset) : Prop :=
  match l with x :: ((y :: _) as r) => String.leb (dstr x) (dstr y) = true /\ dstr x <> dstr y /\ dsorted r | _ => True end.

Lemma In_insert_parent x d l : In x (insert_parent d l) <-> x = d \/ In x l.
Proof.
  induction l as [|y r IH]; cbn [insert_parent In]; [split; intros [H|H]; auto|].
  destruct (_ && _); cbn [In]; [split; intros [H|H]; auto|]. rewrite IH. split; intros H; tauto.
Qed.

Lemma insert_parent_sorted d l : dsorted l -> ~ In (dstr d) (map dstr l) -> dsorted (insert_parent d l).
Proof.
  induction l as [|y r IH]; intros Hs Hn; cbn [insert_parent]; [exact I|].
  destruct (String.leb (dstr d) (dstr y) && negb (String.eqb (dstr d) (dstr y))) eqn:E.
  - apply andb_true_iff in E. destruct E as [E1 E2]. apply negb_true_iff in E2. apply String.eqb_neq in E2. split; [exact E1|]. split; [exact E2|exact Hs].
  - assert (Hyd : String.leb (dstr y) (dstr d) = true /\ dstr y <> dstr d).
    { assert (Hne : dstr y <> dstr d) by (intros K; apply Hn; left; exact K). split; [|exact Hne].
      destruct (String.leb (dstr d) (dstr y)) eqn:E1.
      - cbn [andb] in E. apply negb_false_iff in E. apply String.eqb_eq in E. congruence.
      - apply string_leb_false_flip. exact E1. }
    assert (Hn' : ~ In (dstr d) (map dstr r)) by (intros K; apply Hn; right; exact K).
    destruct r as [|z r'].
    + cbn [insert_parent]. split; [exact (proj1 Hyd)|]. split; [exact (proj2 Hyd)|exact I].
    + destruct Hs as (H1 & H2 & H3). specialize (IH H3 Hn'). cbn [insert_parent] in *.
      destruct (String.leb (dstr d) (dstr z) && negb (String.eqb (dstr d) (dstr z))).
      * split; [exact (proj1 Hyd)|]. split; [exact (proj2 Hyd)|exact IH].
      * split; [exact H1|]. split; [exact H2|exact IH].
Qed.

Definition pfold (values l : list dataset) : list dataset :=
  fold_left (fun l v => if memd v l then l else insert_parent v l) values l.

Lemma fold_add_parent_eq values : forall c,
  fold_left add_parent values c = {| craw := craw c; cparents := pfold values (cparents c) |}.
Proof.
  induction values as [|v r IH]; intros c; cbn [fold_left pfold]; [destruct c; reflexivity|].
  rewrite IH. unfold add_parent. destruct (memd v (cparents c)); reflexivity.
Qed.

(** the tables of a scope are told apart by their printed names *)
Definition ts_inj (ts : list dataset) : Prop :=
  (forall v w, In v ts -> In w ts -> dataset_eqb v w = true -> v = w) /\
  (forall v w, In v ts -> In w ts -> dstr v = dstr w -> v = w).

Lemma pfold_props ts values : ts_inj ts -> (forall v, In v values -> In v ts) -> forall l,
  dsorted l -> (forall x, In x l -> In x ts) ->
  dsorted (pfold values l) /\ (forall x, In x (pfold values l) <-> In x l \/ In x values).
Proof.
  intros [Hp Hi]. induction values as [|v r IH]; intros Hv l Hs Hl; cbn [pfold fold_left].
  - split; [exact Hs|]. intros x. cbn [In]. tauto.
  - fold (pfold r (if memd v l then l else insert_parent v l)).
    assert (Hvt : In v ts) by (apply Hv; left; reflexivity).
    destruct (memd v l) eqn:Em.
    + destruct (IH (fun w Hw => Hv w (or_intror Hw)) l Hs Hl) as [A B]. split; [exact A|].
      intros x. rewrite B. cbn [In]. split; [tauto|]. intros [H|[<-|H]]; auto.
      left. apply memd_In_eqb in Em. destruct Em as (w & Hw & E). rewrite (Hp v w Hvt (Hl w Hw) E). exact Hw.
    + assert (Hn : ~ In (dstr v) (map dstr l)).
      { intros K. apply in_map_iff in K. destruct K as (w & E & Hw). rewrite (Hi w v (Hl w Hw) Hvt E) in Hw.
        assert (memd v l = true) by (unfold memd; apply existsb_exists; exists v; split; [exact Hw|apply dataset_eqb_refl]). congruence. }
      destruct (IH (fun w Hw => Hv w (or_intror Hw)) (insert_parent v l) (insert_parent_sorted v l Hs Hn)) as [A B].
      { intros x Hx. apply In_insert_parent in Hx. destruct Hx as [->|Hx]; auto. }
      split; [exact A|]. intros x. rewrite B, In_insert_parent. cbn [In]. split; intros H; intuition auto.
Qed.

Lemma dsorted_ssorted l : dsorted l -> ssorted (map dstr l).
Proof.
  induction l as [|x r IH]; intros H; [exact I|]. destruct r as [|y r']; [exact I|].
  destruct H as (H1 & H2 & H3). cbn [map ssorted]. split; [exact H1|]. split; [exact H2|]. apply IH. exact H3.
Qed.

Lemma map_dstr_inj ts l : forall l',
  (forall v w, In v ts -> In w ts -> dstr v = dstr w -> v = w) ->
  (forall x, In x l -> In x ts) -> (forall x, In x l' -> In x ts) -> map dstr l = map dstr l' -> l = l'.
Proof.
  induction l as [|x r IH]; intros [|y r'] Hi Hl Hl' E; cbn [map] in E; try discriminate; [reflexivity|].
  inversion E. f_equal.
  - apply Hi; [apply Hl; left; reflexivity|apply Hl'; left; reflexivity|assumption].
  - apply IH; [exact Hi|intros z Hz; apply Hl; right; exact Hz|intros z Hz; apply Hl'; right; exact Hz|assumption].
Qed.

Lemma dsorted_ext ts l l' :
  ts_inj ts -> dsorted l -> dsorted l' -> (forall x, In x l -> In x ts) -> (forall x, In x l' -> In x ts) ->
  (forall x, In x l <-> In x l') -> l = l'.
Proof.
  intros [_ Hi] Hs Hs' Hl Hl' Hm. apply (map_dstr_inj ts); [exact Hi|exact Hl|exact Hl'|].
  apply ssorted_ext; [apply dsorted_ssorted; exact Hs|apply dsorted_ssorted; exact Hs'|].
  intros s. rewrite !in_map_iff. split; intros (v & E & Hv); exists v; (split; [exact E|apply Hm; exact Hv]).
Qed.

Definition Ucol (ts : list dataset) (c : string) : column := fold_left add_parent ts {| craw := c; cparents := [] |}.

Lemma Ucol_props ts c : ts_inj ts ->
  craw (Ucol ts c) = c /\ dsorted (cparents (Ucol ts c)) /\ (forall x, In x (cparents (Ucol ts c)) <-> In x ts).
Proof.
  intros Hinj. unfold Ucol. rewrite fold_add_parent_eq. cbn [craw cparents]. split; [reflexivity|].
  destruct (pfold_props ts ts Hinj (fun v Hv => Hv) [] I (fun x Hx => match Hx with end)) as [A B].
  split; [exact A|]. intros x. rewrite B. cbn [In]. tauto.
Qed.

Lemma fold_add_parent_canon ts values c :
  ts_inj ts -> (forall v, In v values -> In v ts) -> (forall v, In v ts -> In v values) ->
  fold_left add_parent values {| craw := c; cparents := [] |} = Ucol ts c.
Proof.
  intros Hinj H1 H2. unfold Ucol. rewrite !fold_add_parent_eq. cbn [craw cparents]. f_equal.
  destruct (pfold_props ts values Hinj H1 [] I (fun x Hx => match Hx with end)) as [A B].
  destruct (pfold_props ts ts Hinj (fun v Hv => Hv) [] I (fun x Hx => match Hx with end)) as [A' B'].
  apply (dsorted_ext ts); [exact Hinj|exact A|exact A'| | |].
  - intros x Hx. apply B in Hx. destruct Hx as [[]|Hx]. auto.
  - intros x Hx. apply B' in Hx. destruct Hx as [[]|Hx]. auto.
  - intros x. rewrite B, B'. cbn [In]. split; intros [[]|H]; right; auto.
Qed.

Lemma two_members {A} (l : list A) a b : In a l -> In b l -> a <> b -> 2 <= List.length l.
Proof.
  destruct l as [|x [|y r]]; cbn [In List.length]; intros Ha Hb Hn.
  - destruct Ha.
  - destruct Ha as [<-|[]], Hb as [<-|[]]. congruence.
  - lia.
Qed.

Lemma In_dedup_ds_iff ts l : (forall v w, In v ts -> In w ts -> dataset_eqb v w = true -> v = w) ->
  (forall x, In x l -> In x ts) -> forall x, In x (dedup_ds l []) <-> In x l.
Proof.
  intros Hp Hl x. split; [apply In_dedup_ds|].
  assert (G : forall l seen, (forall y, In y l -> In y ts) -> (forall y, In y seen -> In y ts) ->
              In x l -> In x (dedup_ds l seen) \/ In x seen).
  { clear Hl l. induction l as [|a r IH]; intros seen Hl Hs Hx; [destruct Hx|]. cbn [dedup_ds].
    destruct (memd a seen) eqn:Em.
    - destruct Hx as [<-|Hx]; [|apply IH; auto; intros y Hy; apply Hl; right; exact Hy].
      right. apply memd_In_eqb in Em. destruct Em as (w & Hw & E). rewrite (Hp a w (Hl a (or_introl eq_refl)) (Hs w Hw) E). exact Hw.
    - destruct Hx as [<-|Hx]; [left; left; reflexivity|].
      destruct (IH (a :: seen) (fun y Hy => Hl y (or_intror Hy))) as [K|K]; [|exact Hx|left; right; exact K|].
      + intros y [<-|Hy]; [apply Hl; left; reflexivity|apply Hs; exact Hy].
      + destruct K as [<-|K]; [left; left; reflexivity|right; exact K]. }
  intros Hx. destruct (G l [] Hl (fun y Hy => match Hy with end) Hx) as [K|[]]. exact K.
Qed.

(* ================================================================== *)
(** * Part D: the holder of such a statement realises the flows of its select items *)

Definition flows_of (S : xcol -> list column) (l : list (xcol * column)) : list flow :=
  flat_map (fun p => map (fun s => (s, snd p)) (S (fst p))) l.

Lemma ematch_cons x y p l : ematch x y (p :: l) = (node_eqb x (fst p) && node_eqb y (snd p)) || ematch x y l.
Proof. reflexivity. Qed.

Lemma ematch_alias_col x y (ts : list dataset) :
  is_column x = true -> ematch x y (map (fun v => (NData v, NStr (dalias v))) ts) = false.
Proof.
  intros Hx. unfold ematch. apply existsb_none. intros p Hp. apply in_map_iff in Hp. destruct Hp as (v & <- & _).
  cbn [fst snd]. destruct x; try discriminate. reflexivity.
Qed.

Lemma ematch_sel_col d S l x y :
  is_column x = true ->
  ematch x y (sel_edges d S l) = ematch x y (map (fun f : flow => (NCol (fst f), NCol (snd f))) (flows_of S l)).
Proof.
  intros Hx. unfold sel_edges, flows_of. induction l as [|x0 r IH]; [reflexivity|].
  cbn [flat_map]. rewrite map_app, !ematch_app, IH. f_equal.
  induction (S (fst x0)) as [|s r' IH']; [reflexivity|]. cbn [flat_map map]. rewrite ematch_app.
  rewrite ematch_cons, <- IH'. cbn [fst snd]. f_equal. unfold acl_edges, ematch. cbn [existsb app fst snd].
  destruct x as [|cx|]; try discriminate. cbn [node_eqb]. rewrite andb_false_l, orb_false_l.
  destruct (col_parent s); cbn [existsb fst snd node_eqb]; rewrite ?andb_false_l, ?orb_false_r; reflexivity.
Qed.

Lemma lits_in_all (Q : Graph.node -> Prop) g : (forall n, Q n) -> lits_in Q g.
Proof. intros H. split; [intros n _; apply H|intros e _; split; apply H]. Qed.

Lemma src_str_eqb_single n s p : col_parent s = Some p -> node_eqb n (NCol s) = true -> src_str n = src_str (NCol s).
Proof.
  intros Hs E. destruct n as [|c|]; cbn [node_eqb] in E; try discriminate. unfold col_eqb in E. apply andb_true_iff in E.
  destruct E as [E1 E2]. apply String.eqb_eq in E1. cbn [src_str]. rewrite Hs in *.
  destruct (col_parent c); cbn [opt_dataset_eqb] in E2; [exact E1|discriminate].
Qed.

(** single-parent columns over tables *)
Definition PC1 (c : column) : Prop := exists p, cparents c = [p] /\ dk p = KTable.

Lemma PC1_qk c : PC1 c -> col_qk c.
Proof. intros (p & E & K). unfold col_qk. rewrite E. constructor; [exact K|constructor]. Qed.

(** columns of the holder: one table as parent, or the unresolved column of one of the names [NM] over all tables of the scope *)
Definition PC4 (ts : list dataset) (NM : list string) (c : column) : Prop :=
  PC1 c \/ exists nm, In nm NM /\ c = Ucol ts nm /\ escape nm = nm /\ 2 <= List.length (cparents c).

Lemma PC4_qk d ts NM c : group_ok d ts -> ts_inj ts -> PC4 ts NM c -> col_qk c.
Proof.
  intros Hgo Hinj [H|(nm & _ & -> & _ & _)]; [apply PC1_qk; exact H|]. unfold col_qk. apply Forall_forall. intros p Hp.
  apply (go_tables _ _ Hgo). apply (proj2 (proj2 (Ucol_props ts nm Hinj))). exact Hp.
Qed.

Lemma append_cancel a x y : (a ++ x)%string = (a ++ y)%string -> x = y.
Proof. induction a as [|ch a IH]; cbn [append]; intros H; [exact H|]. inversion H. auto. Qed.

Lemma col_parent_none c : 2 <= List.length (cparents c) -> col_parent c = None.
Proof. unfold col_parent. destruct (cparents c) as [|a [|b r]]; cbn [List.length]; intros H; try lia. reflexivity. Qed.

Lemma ematch_alias_ycol x c (ts : list dataset) : ematch x (NCol c) (map (fun v => (NData v, NStr (dalias v))) ts) = false.
Proof.
  unfold ematch. apply existsb_none. intros p Hp. apply in_map_iff in Hp. destruct Hp as (v & <- & _).
  cbn [fst snd node_eqb]. apply andb_false_r.
Qed.

Lemma ematch_sel_data d S l p y :
  ematch (NData p) y (sel_edges d S l) = true ->
  exists x s, In x l /\ In s (S (fst x)) /\
    ((dataset_eqb p d = true /\ node_eqb y (NCol (snd x)) = true) \/
     (exists sp, col_parent s = Some sp /\ dataset_eqb p sp = true /\ node_eqb y (NCol s) = true)).
Proof.
  unfold ematch, sel_edges. intros H. apply existsb_exists in H. destruct H as (pr & Hpr & E).
  apply in_flat_map in Hpr. destruct Hpr as (x & Hx & Hpr). apply in_flat_map in Hpr. destruct Hpr as (s & Hs & Hpr).
  exists x, s. split; [exact Hx|]. split; [exact Hs|]. apply andb_true_iff in E. destruct E as [E1 E2].
  unfold acl_edges in Hpr. cbn [app In] in Hpr. destruct Hpr as [<-|[<-|Hpr]].
  - cbn [fst node_eqb] in E1. discriminate.
  - left. cbn [fst snd node_eqb] in *. auto.
  - right. destruct (col_parent s) as [sp|]; [|destruct Hpr]. destruct Hpr as [<-|[]]. exists sp. cbn [fst snd node_eqb] in *. auto.
Qed.

Theorem holder_realises d ts NM xs (S : xcol -> list column) gb sub :
  group_ok d ts -> ts_inj ts -> dk d = KTable ->
  (forall x, In x xs -> (exists nm0, snd x = {| craw := nm0; cparents := [d] |}) /\
     forall s, In s (S (fst x)) -> (exists v, In v ts /\ cparents s = [v]) \/
                             (exists nm, In nm NM /\ s = Ucol ts nm /\ escape nm = nm /\ 2 <= List.length (cparents s))) ->
  (forall nm, In nm NM -> exists x, In x xs /\ In (Ucol ts nm) (S (fst x))) ->
  (forall x' s' nm v, In nm NM -> In x' xs -> In s' (S (fst x')) -> cparents s' = [v] -> craw s' <> nm) ->
  lits_in (QK (d :: ts) (PC4 ts NM)) gb -> drop_free gb ->
  (forall e0, In e0 (gedges gb) -> String.eqb (etype (snd e0)) "rename" = false) ->
  (forall x y, is_column x = true -> has_edge gb x y = false) ->
  (forall p c, In p ts -> has_edge gb (NData p) (NCol c) = false) ->
  ext gb sub (map (fun v => (NData v, NStr (dalias v))) ts ++ sel_edges d S xs) ->
  sel_inv (PC4 ts NM) d ts sub ->
  let G := compose gb sub in
  clean_holder G /\ lits_in (unres_ok G) G /\ realises G (flows_of S xs) /\ flows_ok (flows_of S xs).
Proof.
  intros Hgo Hinj Hd HX HNM HNQ Lb Db Hbe Hbc Hbd X Hinv G.
  assert (HE : forall x y, has_edge G x y = has_edge gb x y || (ematch x y (map (fun v => (NData v, NStr (dalias v))) ts) || ematch x y (sel_edges d S xs))).
  { intros x y. unfold G. rewrite has_edge_compose, (ext_edges _ _ _ X), ematch_app. destruct (has_edge gb x y); reflexivity. }
  assert (HEc : forall x y, is_column x = true ->
                has_edge G x y = ematch x y (map (fun f : flow => (NCol (fst f), NCol (snd f))) (flows_of S xs))).
  { intros x y Hx. rewrite HE, (Hbc x y Hx), (ematch_alias_col x y ts Hx), (ematch_sel_col d S xs x y Hx). reflexivity. }
  assert (HF : forall f, In f (flows_of S xs) ->
               exists x s, In x xs /\ In s (S (fst x)) /\ f = (s, snd x) /\
                           ((exists v, In v ts /\ cparents s = [v]) \/
                            (exists nm, In nm NM /\ s = Ucol ts nm /\ escape nm = nm /\ 2 <= List.length (cparents s))) /\
                           (exists nm0, snd x = {| craw := nm0; cparents := [d] |})).
  { intros f Hf. unfold flows_of in Hf. apply in_flat_map in Hf. destruct Hf as (x & Hx & Hf). apply in_map_iff in Hf.
    destruct Hf as (s & <- & Hs). destruct (HX x Hx) as [H1 H2].
    exists x, s. repeat split; auto. }
  assert (LG : lits_in (QK (d :: ts) (PC4 ts NM)) G) by (apply lits_compose; [exact Lb|exact (si_lits _ _ _ _ Hinv)]).
  assert (Rc : forall f, In f (flows_of S xs) -> has_edge G (NCol (fst f)) (NCol (snd f)) = true).
  { intros f Hf. rewrite HEc by reflexivity. unfold ematch. apply existsb_exists. exists (NCol (fst f), NCol (snd f)).
    split; [apply in_map_iff; exists f; auto|]. cbn [fst snd]. rewrite !node_eqb_refl. reflexivity. }
  split; [|split; [|split]].
  - (* clean_holder *)
    split.
    + intros n a Hin. destruct (attr_true "drop" a) eqn:E; [|reflexivity]. exfalso. apply attr_true_In in E.
      exact (drop_free_compose gb sub Db (si_drop _ _ _ _ Hinv) n a Hin E).
    + apply (etype_compose (fun s => String.eqb s "rename" = false)); [exact Hbe|].
      intros e0 He0. pose proof (si_edges _ _ _ _ Hinv e0 He0) as Hi. unfold edge_inv in Hi.
      destruct (snd (fst e0)); [destruct Hi as [-> | ->]; reflexivity|destruct Hi as [-> | ->]; reflexivity|destruct Hi as [-> _]; reflexivity].
  - (* unresolved columns have no candidate in the graph, and an outgoing edge *)
    apply (lits_weaken (QK (d :: ts) (PC4 ts NM))); [|exact LG]. intros n Hn u Hu. destruct n as [|c|]; cbn [unresolved] in Hu; try discriminate.
    cbn [QK] in Hn. destruct Hn as [(p & Ep & _)|(nm & Hnm & -> & Enm & Hlen)]; [rewrite Ep in Hu; cbn in Hu; discriminate|].
    destruct (Nat.ltb 1 (List.length (cparents (Ucol ts nm)))); [|discriminate]. inversion Hu. subst u. clear Hu.
    destruct (Ucol_props ts nm Hinj) as (U1 & _ & U3). split.
    + unfold candidates_in_graph. apply flat_map_none. intros p Hp. rewrite U1.
      destruct (has_edge G (NData p) (NCol (mk_col nm p))) eqn:Ehe; [|reflexivity]. exfalso.
      apply U3 in Hp. rewrite HE, (Hbd p _ Hp), ematch_alias_ycol in Ehe. cbn [orb] in Ehe.
      apply ematch_sel_data in Ehe. destruct Ehe as (x' & s' & Hx' & Hs' & [[K _]|(sp & Esp & K1 & K2)]).
      * rewrite (go_target _ _ Hgo p Hp) in K. discriminate.
      * destruct (proj2 (HX x' Hx') s' Hs') as [(v & Hv & Ev)|(nm' & _ & -> & _ & Hl')].
        -- unfold col_parent in Esp. rewrite Ev in Esp. inversion Esp. subst sp.
           pose proof (proj1 Hinj p v Hp Hv K1) as Epv. subst v.
           cbn [node_eqb] in K2. unfold col_eqb in K2. apply andb_true_iff in K2. destruct K2 as [K2 _]. apply String.eqb_eq in K2.
           unfold col_str, col_parent, mk_col in K2. cbn [cparents craw] in K2. rewrite Ev, (go_tables _ _ Hgo p Hp), Enm in K2.
           apply append_cancel in K2. apply append_cancel in K2. apply (HNQ x' s' nm p Hnm Hx' Hs' Ev). symmetry. exact K2.
        -- rewrite (col_parent_none _ Hl') in Esp. discriminate.
    + destruct (HNM nm Hnm) as (x & Hx & Hs). exists (NCol (snd x)).
      apply (Rc (Ucol ts nm, snd x)). unfold flows_of. apply in_flat_map. exists x. split; [exact Hx|]. apply in_map_iff. exists (Ucol ts nm). auto.
  - (* realises *)
    constructor.
    + intros x y Hx Hxy. rewrite (HEc x y Hx) in Hxy. unfold ematch in Hxy. apply existsb_exists in Hxy.
      destruct Hxy as (p & Hp & E). apply in_map_iff in Hp. destruct Hp as (f & <- & Hf). cbn [fst snd] in E.
      apply andb_true_iff in E. exists f. tauto.
    + exact Rc.
    + intros f Hf. destruct (HF f Hf) as (x & s & Hx & Hs & -> & _).
      assert (Hin : In (NCol s, NCol (snd x)) (map (fun v => (NData v, NStr (dalias v))) ts ++ sel_edges d S xs)).
      { apply in_app_iff. right. unfold sel_edges. apply in_flat_map. exists x. split; [exact Hx|]. apply in_flat_map. exists s.
        split; [exact Hs|]. left. reflexivity. }
      destruct (ext_new _ _ _ X _ Hin) as [N1 N2]. cbn [fst snd] in *. unfold G. rewrite !has_node_compose, N1, N2, !orb_true_r. auto.
    + apply (lits_weaken (QK (d :: ts) (PC4 ts NM))); [|exact LG]. intros n Hn f Hf E.
      destruct (HF f Hf) as (x & s & _ & _ & -> & [(v & _ & Ev)|(nm & _ & -> & _ & Hl)] & _); cbn [fst] in *.
      * apply (src_str_eqb_single n s v); [unfold col_parent; rewrite Ev; reflexivity|exact E].
      * destruct n as [|c|]; cbn [node_eqb] in E; try discriminate. cbn [QK] in Hn.
        unfold col_eqb in E. apply andb_true_iff in E. destruct E as [E1 E2]. rewrite (col_parent_none _ Hl) in E2.
        destruct Hn as [(p & Ep & _)|(nm' & _ & -> & _ & Hl')].
        -- unfold col_parent in E2. rewrite Ep in E2. discriminate.
        -- apply String.eqb_eq in E1. unfold col_str in E1. rewrite (col_parent_none _ Hl), (col_parent_none _ Hl') in E1.
           rewrite (proj1 (Ucol_props ts nm Hinj)), (proj1 (Ucol_props ts nm' Hinj)) in E1. subst nm'. reflexivity.
  - (* flows_ok *)
    split.
    + intros f f' Hf Hf'. destruct (HF f Hf) as (x & s & _ & _ & -> & _ & (nm0 & Eo)).
      destruct (HF f' Hf') as (x' & s' & _ & _ & -> & Hk & _). cbn [fst snd]. rewrite Eo.
      unfold col_eqb. destruct Hk as [(v' & Hv' & Ev')|(nm & _ & -> & _ & Hl)].
      * unfold col_parent. cbn [cparents]. rewrite Ev'. cbn [opt_dataset_eqb].
        rewrite dataset_eqb_sym, (go_target _ _ Hgo v' Hv'). apply andb_false_r.
      * rewrite (col_parent_none _ Hl). unfold col_parent at 1. cbn [cparents opt_dataset_eqb]. apply andb_false_r.
    + intros f Hf. destruct (HF f Hf) as (x & s & _ & _ & -> & _ & (nm0 & Eo)). cbn [snd]. rewrite Eo.
      cbn [parent_is col_parent cparents]. rewrite Hd. reflexivity.
Qed.

(* ================================================================== *)
(** * Part E: the source columns of a select item *)
Lemma tsc_qualified e x am c q t :
  xsrc x = [(c, Some q)] -> escape c = c -> assoc_list q am = Some t ->
  to_source_columns e x am = Ok [{| craw := c; cparents := [t] |}].
Proof. intros Hx Hc Ha. unfold to_source_columns. rewrite Hx. cbn [map concat_res]. rewrite Ha, Hc. reflexivity. Qed.

Lemma tsc_unq_single e x am c d1 :
  xsrc x = [(c, None)] -> escape c = c -> dedup_ds (map snd am) [] = [d1] ->
  to_source_columns e x am = Ok [{| craw := c; cparents := [d1] |}].
Proof.
  intros Hx Hc Hv. unfold to_source_columns. rewrite Hx, Hv. cbn [map concat_res]. rewrite Hc.
  destruct (String.eqb c "*"); reflexivity.
Qed.

Lemma am_lookup (PC : column -> Prop) d ts g q v :
  group_ok d ts -> sel_inv PC d ts g -> In v ts -> dalias v = q ->
  (forall w, In w ts -> (dalias w = q \/ draw w = q \/ dstr w = q) -> w = v) ->
  assoc_list q (get_alias_mapping g ts) = Some v.
Proof.
  intros Hgo Hinv Hv Hq Hu. subst q.
  pose proof (am_complete_alias d ts g v Hgo (si_edges _ _ _ _ Hinv) Hv (proj1 (si_alias _ _ _ _ Hinv v Hv)) (proj2 (si_alias _ _ _ _ Hinv v Hv))) as Hs.
  destruct (assoc_list (dalias v) (get_alias_mapping g ts)) as [w|] eqn:E; [|discriminate].
  destruct (am_sound PC d ts g _ w Hgo (si_lits _ _ _ _ Hinv) (si_edges _ _ _ _ Hinv) E) as [Hin Hor].
  rewrite (Hu w Hin Hor). reflexivity.
Qed.

Lemma dedup_all_same l d1 : l <> [] -> (forall x, In x l -> x = d1) -> dedup_ds l [] = [d1].
Proof.
  destruct l as [|a r]; [congruence|]. intros _ H. rewrite (H a (or_introl eq_refl)). cbn [dedup_ds memd existsb]. f_equal.
  assert (Hr : forall x, In x r -> x = d1) by (intros x Hx; apply H; right; exact Hx). clear H.
  induction r as [|b r IH]; [reflexivity|]. cbn [dedup_ds]. rewrite (Hr b (or_introl eq_refl)). unfold memd at 1. cbn [existsb].
  rewrite dataset_eqb_refl. cbn [orb]. apply IH. intros x Hx. apply Hr. right. exact Hx.
Qed.

Lemma am_values_single (PC : column -> Prop) d d1 g :
  group_ok d [d1] -> sel_inv PC d [d1] g -> dedup_ds (map snd (get_alias_mapping g [d1])) [] = [d1].
Proof.
  intros Hgo Hinv. apply dedup_all_same.
  - pose proof (am_complete_alias d [d1] g d1 Hgo (si_edges _ _ _ _ Hinv) (or_introl eq_refl)
                  (proj1 (si_alias _ _ _ _ Hinv d1 (or_introl eq_refl))) (proj2 (si_alias _ _ _ _ Hinv d1 (or_introl eq_refl)))) as Hs.
    destruct (get_alias_mapping g [d1]); [discriminate Hs|discriminate].
  - intros x Hx. destruct (am_values PC d [d1] g x Hgo (si_lits _ _ _ _ Hinv) (si_edges _ _ _ _ Hinv) Hx) as [H|[]]. auto.
Qed.

Definition S_of (ts : list dataset) (x : xcol) : list column :=
  match xsrc x with
  | [(c, Some q)] => match find (fun v => String.eqb (dalias v) q) ts with
                     | Some v => [{| craw := c; cparents := [v] |}]
                     | None => []
                     end
  | [(c, None)] => match ts with [d1] => [{| craw := c; cparents := [d1] |}] | _ => [Ucol ts c] end
  | _ => []
  end.

Definition multi (ts : list dataset) : Prop := exists a b, In a ts /\ In b ts /\ a <> b.

(** what a select item has to satisfy: its qualifier names exactly one table of the scope; without a qualifier the
    scope has one table, or several (the column is unresolved) and the item is not a star *)
Definition xref_ok (ts : list dataset) (x : xcol) : Prop :=
  cparents (xc x) = [] /\
  exists c qq, xsrc x = [(c, qq)] /\ escape c = c /\
               match qq with
               | Some q => exists v, In v ts /\ dalias v = q /\
                                     forall w, In w ts -> (dalias w = q \/ draw w = q \/ dstr w = q) -> w = v
               | None => (exists d1, ts = [d1]) \/ (multi ts /\ c <> "*")
               end.

(** the names of the unresolved columns of a scope *)
Definition unres_names (ts : list dataset) (xs : list xcol) : list string :=
  match ts with
  | [_] => []
  | _ => flat_map (fun x => match xsrc x with [(c, None)] => [c] | _ => [] end) xs
  end.

Definition names_nodot (ts : list dataset) : Prop :=
  forall v w, In v ts -> In w ts -> dalias w <> dstr v /\ draw w <> dstr v.

Lemma multi_not_single ts (A : Type) (f : dataset -> A) (g : A) : multi ts -> match ts with [d1] => f d1 | _ => g end = g.
Proof.
  intros (a & b & Ha & Hb & Hn). destruct ts as [|x [|y r]]; [reflexivity| |reflexivity].
  destruct Ha as [<-|[]], Hb as [<-|[]]. congruence.
Qed.

Lemma find_dalias ts q v :
  In v ts -> dalias v = q -> (forall w, In w ts -> dalias w = q -> w = v) -> find (fun v => String.eqb (dalias v) q) ts = Some v.
Proof.
  intros Hv Hq Hu. destruct (find (fun v => String.eqb (dalias v) q) ts) as [w|] eqn:E.
  - apply find_some in E. destruct E as [Hw E]. apply String.eqb_eq in E. rewrite (Hu w Hw E). reflexivity.
  - exfalso. pose proof (find_none _ _ E v Hv) as K. cbn in K. rewrite Hq, String.eqb_refl in K. discriminate.
Qed.

Lemma assoc_list_In {A} q (am : list (string * A)) w : assoc_list q am = Some w -> In w (map snd am).
Proof.
  induction am as [|[k v] r IH]; cbn [assoc_list map snd In]; [discriminate|].
  destruct (String.eqb q k); [intros H; inversion H; left; reflexivity|intros H; right; exact (IH H)].
Qed.

Lemma am_covers (PC : column -> Prop) d ts g v :
  group_ok d ts -> ts_inj ts -> names_nodot ts -> sel_inv PC d ts g -> In v ts -> In v (map snd (get_alias_mapping g ts)).
Proof.
  intros Hgo Hinj Hnd Hinv Hv.
  assert (Hs : is_some (assoc_list (dstr v) (get_alias_mapping g ts)) = true).
  { rewrite get_alias_mapping_eq. cbv zeta. rewrite (filter_tables ts (go_tables _ _ Hgo)). apply fold_tables_complete. exact Hv. }
  destruct (assoc_list (dstr v) (get_alias_mapping g ts)) as [w|] eqn:E; [|discriminate].
  destruct (am_sound PC d ts g _ w Hgo (si_lits _ _ _ _ Hinv) (si_edges _ _ _ _ Hinv) E) as [Hw Hor].
  apply assoc_list_In in E. destruct (Hnd v w Hv Hw) as [N1 N2].
  destruct Hor as [K|[K|K]]; [contradiction|contradiction|]. rewrite <- (proj2 Hinj w v Hw Hv K). exact E.
Qed.

Lemma tsc_unresolved e x am c ts :
  xsrc x = [(c, None)] -> escape c = c -> c <> "*" -> ts_inj ts ->
  (forall v, In v (map snd am) -> In v ts) -> (forall v, In v ts -> In v (map snd am)) ->
  to_source_columns e x am = Ok [Ucol ts c].
Proof.
  intros Hx Hc Hs Hinj H1 H2. unfold to_source_columns. rewrite Hx. cbn [map concat_res]. rewrite Hc.
  apply String.eqb_neq in Hs. rewrite Hs.
  rewrite (fold_add_parent_canon ts (dedup_ds (map snd am) []) c Hinj).
  - reflexivity.
  - intros v Hv. apply H1. apply (In_dedup_ds _ _ _ Hv).
  - intros v Hv. apply (In_dedup_ds_iff ts _ (proj1 Hinj) H1). apply H2. exact Hv.
Qed.

Lemma HS_of (PC : column -> Prop) e d ts g x :
  group_ok d ts -> ts_inj ts -> names_nodot ts -> sel_inv PC d ts g -> xref_ok ts x ->
  to_source_columns e x (get_alias_mapping g ts) = Ok (S_of ts x).
Proof.
  intros Hgo Hinj Hnd Hinv (_ & c & qq & Hx & Hc & Hq). unfold S_of. rewrite Hx. destruct qq as [q|].
  - destruct Hq as (v & Hv & Eq & Hu). rewrite (find_dalias ts q v Hv Eq (fun w Hw E => Hu w Hw (or_introl E))).
    apply (tsc_qualified e x _ c q v); [exact Hx|exact Hc|]. apply (am_lookup PC d ts g q v); assumption.
  - destruct Hq as [(d1 & ->)|[Hm Hs]].
    + apply tsc_unq_single; [exact Hx|exact Hc|]. apply (am_values_single PC d d1 g); assumption.
    + rewrite (multi_not_single ts _ _ _ Hm). apply tsc_unresolved; [exact Hx|exact Hc|exact Hs|exact Hinj| |].
      * intros v Hv. apply (am_values PC d ts g v Hgo (si_lits _ _ _ _ Hinv) (si_edges _ _ _ _ Hinv) Hv).
      * intros v Hv. apply (am_covers PC d ts g v); assumption.
Qed.

Lemma S_of_props d ts xs x :
  group_ok d ts -> ts_inj ts -> dk d = KTable -> In x xs -> xref_ok ts x ->
  cparents (xc x) = [] /\ PC4 ts (unres_names ts xs) (own_col d x) /\ List.length (S_of ts x) <= 1 /\
  (forall s, In s (S_of ts x) -> PC4 ts (unres_names ts xs) s /\ forall p, In p (cparents s) -> In p ts) /\
  (forall s, In s (S_of ts x) ->
     (exists v, In v ts /\ cparents s = [v]) \/
     (exists nm, In nm (unres_names ts xs) /\ s = Ucol ts nm /\ escape nm = nm /\ 2 <= List.length (cparents s))).
Proof.
  intros Hgo Hinj Hd Hxin (Hx0 & c & qq & Hx & Hc & Hq). split; [exact Hx0|]. split.
  { rewrite (own_col_eq d x Hx0). left. exists d. auto. }
  unfold S_of. rewrite Hx. destruct qq as [q|].
  - destruct Hq as (v & Hv & Eq & Hu). rewrite (find_dalias ts q v Hv Eq (fun w Hw E => Hu w Hw (or_introl E))).
    split; [cbn; lia|]. split; intros s [<-|[]]; cbn [cparents].
    + split; [left; exists v; split; [reflexivity|apply (go_tables _ _ Hgo); exact Hv]|intros p [<-|[]]; exact Hv].
    + left. exists v. auto.
  - destruct Hq as [(d1 & ->)|[Hm Hs]].
    + split; [cbn; lia|]. split; intros s [<-|[]]; cbn [cparents].
      * split; [left; exists d1; split; [reflexivity|apply (go_tables _ _ Hgo); left; reflexivity]|intros p [<-|[]]; left; reflexivity].
      * left. exists d1. split; [left; reflexivity|reflexivity].
    + rewrite (multi_not_single ts _ _ _ Hm). split; [cbn; lia|].
      destruct (Ucol_props ts c Hinj) as (U1 & _ & U3).
      assert (Hl : 2 <= List.length (cparents (Ucol ts c))).
      { destruct Hm as (a & b & Ha & Hb & Hn). apply (two_members _ a b); [apply U3; exact Ha|apply U3; exact Hb|exact Hn]. }
      assert (Hnm : In c (unres_names ts xs)).
      { unfold unres_names. rewrite (multi_not_single ts _ _ _ Hm). apply in_flat_map. exists x. split; [exact Hxin|]. rewrite Hx. left. reflexivity. }
      split; intros s [<-|[]].
      * split; [right; exists c; auto|]. intros p Hp. apply U3. exact Hp.
      * right. exists c. auto.
Qed.

(** ** the statement-level result on the model side *)
Lemma env_ok_with_cols e cols : env_ok (with_cols e cols) = env_ok e.
Proof. reflexivity. Qed.

(** no qualified reference carries the name of an unresolved column (K-C02-5) *)
Definition noqual (ts : list dataset) (xs : list xcol) : Prop :=
  forall x x' c c' q, In x xs -> In x' xs -> xsrc x = [(c, None)] -> xsrc x' = [(c', Some q)] -> multi ts -> c' <> c.

Theorem model_pairs_select noise e (s : stmt) t items from cj :
  noise_ok noise = true -> env_ok e = true ->
  (s = SInsert t None (QSelect items from cj None) \/ s = SCtas t (QSelect items from cj None) \/ s = SView t (QSelect items from cj None)) ->
  tref_ok t = true -> forallb item_ok items = true -> from <> [] -> forallb rel_ok from = true ->
  let d := tbl e t None in let ts := map (tbl_of e) from in let xs := map xcol_of items in
  group_ok d ts -> ts_inj ts -> names_nodot ts -> (forall x, In x xs -> xref_ok ts x) -> noqual ts xs ->
  script_pairs e false [] [r_stmt noise s] = uniq_sorted (sort_strings (map flow_str (flows_of (S_of ts) (own_pairs d xs)))).
Proof.
  intros Hn He Hs Ht Hit Hne Hrel d ts xs Hgo Hinj Hnd Hxs Hnq.
  set (e' := with_cols e (view_cols [] [])).
  assert (He' : env_ok e' = true) by exact He.
  assert (Hp : p_truthy (e_provider e') = false) by exact (proj1 (env_facts e' He')).
  assert (Hdo : Forall data_ok ts).
  { apply Forall_forall. intros v Hv. unfold data_ok. rewrite (go_tables _ _ Hgo v Hv).
    apply in_map_iff in Hv. destruct Hv as (r & <- & _). destruct r; reflexivity. }
  assert (Ea : analyze e' false (r_stmt noise s) = sel_holder e' t items from).
  { destruct Hs as [->|[->| ->]].
    - apply analyze_insert_select; assumption.
    - apply (analyze_create_select noise Hn e' He' false); assumption.
    - apply (analyze_create_select noise Hn e' He' true); assumption. }
  unfold sel_holder in Ea. change (tbl e' t None) with d in Ea. change (map (tbl_of e') from) with ts in Ea. fold xs in Ea.
  set (NM := unres_names ts xs).
  destruct (select_core (PC4 ts NM) e' d ts xs (S_of ts) Hp Hgo Hdo eq_refl (fun c Hc => PC4_qk d ts NM c Hgo Hinj Hc)) as (sub & Esub & Xsub & Isub).
  - intros g2 Hinv x Hx. apply (HS_of (PC4 ts NM) e' d ts g2 x Hgo Hinj Hnd Hinv (Hxs x Hx)).
  - intros x Hx. destruct (S_of_props d ts xs x Hgo Hinj eq_refl Hx (Hxs x Hx)) as (A1 & A2 & A3 & A4 & _). auto.
  - rewrite Esub in Ea.
    assert (Hop : forall p0, In p0 (own_pairs d xs) -> In (fst p0) xs /\ snd p0 = own_col d (fst p0)).
    { intros p0 Hp0. unfold own_pairs in Hp0. apply in_map_iff in Hp0. destruct Hp0 as (x & <- & Hx). auto. }
    destruct (holder_realises d ts NM (own_pairs d xs) (S_of ts) (add_write empty_graph d) sub Hgo Hinj eq_refl) as (C1 & C2 & C3 & C4);
      [| | |split; [intros n [<-|[]]; left; reflexivity|intros e0 []]
       |intros n a [H|[]]; inversion H; intros [K|[]]; discriminate K
       |intros e0 []|reflexivity|reflexivity|exact Xsub|exact Isub|].
    + intros p0 Hp0. destruct (Hop p0 Hp0) as [Hx Ep].
      destruct (S_of_props d ts xs (fst p0) Hgo Hinj eq_refl Hx (Hxs _ Hx)) as (A1 & _ & _ & _ & A5). split; [|exact A5].
      rewrite Ep, (own_col_eq d _ A1). eexists. reflexivity.
    + intros nm Hnm. unfold NM, unres_names in Hnm.
      assert (Hns : forall (A : Type) (f : dataset -> A) (g : A), In nm (match ts with [_] => [] | _ => [nm] end) -> match ts with [d1] => f d1 | _ => g end = g).
      { intros A f g. destruct ts as [|a [|b r]]; [reflexivity|intros []|reflexivity]. }
      assert (Hin : In nm (flat_map (fun x => match xsrc x with [(c, None)] => [c] | _ => [] end) xs) /\ In nm (match ts with [_] => [] | _ => [nm] end)).
      { destruct ts as [|a [|b r]]; [split; [exact Hnm|left; reflexivity]|destruct Hnm|split; [exact Hnm|left; reflexivity]]. }
      destruct Hin as [Hin Hsh]. apply in_flat_map in Hin. destruct Hin as (x & Hx & Hin). exists (x, own_col d x).
      split; [unfold own_pairs; apply in_map_iff; exists x; auto|]. cbn [fst].
      unfold S_of. destruct (xsrc x) as [|[c qq] rest]; [destruct Hin|]. destruct qq as [q|]; [destruct Hin|].
      destruct rest as [|p r]; [|destruct Hin]. destruct Hin as [->|[]].
      rewrite (Hns _ _ _ Hsh). left. reflexivity.
    + intros p' s' nm v Hnm Hp' Hs' Ev. destruct (Hop p' Hp') as [Hx' _]. set (x' := fst p') in *. unfold NM, unres_names in Hnm.
      assert (Hm : In nm (flat_map (fun x => match xsrc x with [(c, None)] => [c] | _ => [] end) xs) /\ (forall d1, ts <> [d1])).
      { destruct ts as [|a [|b r]]; [split; [exact Hnm|discriminate]|destruct Hnm|split; [exact Hnm|discriminate]]. }
      destruct Hm as [Hin Hns]. apply in_flat_map in Hin. destruct Hin as (x & Hx & Hin).
      destruct (Hxs x Hx) as (_ & c & qq & Ex & _ & Hq). rewrite Ex in Hin. destruct qq as [q|]; [destruct Hin|]. destruct Hin as [->|[]].
      destruct Hq as [(d1 & Ed)|[Hmul _]]; [exfalso; exact (Hns d1 Ed)|].
      destruct (Hxs x' Hx') as (_ & c' & qq' & Ex' & _ & Hq'). unfold S_of in Hs'. rewrite Ex' in Hs'. destruct qq' as [q'|].
      * destruct Hq' as (v' & Hv' & Eq' & Hu'). rewrite (find_dalias ts q' v' Hv' Eq' (fun w Hw E => Hu' w Hw (or_introl E))) in Hs'.
        destruct Hs' as [<-|[]]. cbn [craw]. apply (Hnq x x' nm c' q' Hx Hx' Ex Ex' Hmul).
      * rewrite (multi_not_single ts _ _ _ Hmul) in Hs'. destruct Hs' as [<-|[]].
        destruct (Ucol_props ts c' Hinj) as (_ & _ & U3). destruct Hmul as (a & b & Ha & Hb & Hab).
        pose proof (two_members _ a b (proj2 (U3 a) Ha) (proj2 (U3 b) Hb) Hab) as Hl. rewrite Ev in Hl. cbn in Hl. lia.
    + apply (script_pairs_of_holder e (r_stmt noise s) _ _ Ea (proj1 (env_facts e He)) C1 C2 C3 C4).
Qed.

(* ================================================================== *)
(** * Part S: the specification side, and the conditions in terms of the abstract syntax *)
Definition rtref (r : rel) : tref := match r with RTable t _ => t | _ => (None, "") end.
Definition ralias (r : rel) : option string := match r with RTable _ al => al | _ => None end.
Definition rname (r : rel) : string := match ralias r with Some a => a | None => snd (rtref r) end.

(** exactly one relation of the scope answers to [q] (by alias, else by bare name), and it does so by the name it is
    known under in the scope *)
Definition qual1 (from : list rel) (q : string) : Prop :=
  exists r0, In r0 from /\ rname r0 = q /\ forall r, In r from -> (rname r = q \/ snd (rtref r) = q) -> r = r0.

Definition item_ref (i : item) : string * option string :=
  match i with IExpr (EColRef qq c) _ => (c, qq) | IStar qq => ("*", qq) | _ => ("", None) end.
Definition item_name (i : item) : string :=
  match i with IExpr (EColRef _ c) (Some a) => a | IExpr (EColRef _ c) None => c | IStar _ => "*" | _ => "" end.

Definition items_cond (from : list rel) (items : list item) : Prop :=
  forall i, In i items -> match snd (item_ref i) with
                          | Some q => qual1 from q
                          | None => (exists r, from = [r]) \/ (2 <= List.length from /\ fst (item_ref i) <> "*")
                          end.
(** no qualified reference carries the name of an unresolved column *)
Definition noqual_items (from : list rel) (items : list item) : Prop :=
  2 <= List.length from ->
  forall i i' c c' q, In i items -> In i' items -> item_ref i = (c, None) -> item_ref i' = (c', Some q) -> c' <> c.
Definition tables_cond (ds : string) (t : tref) (from : list rel) : Prop :=
  NoDup (map (fun r => tref_str ds (rtref r)) from) /\ ~ In (tref_str ds t) (map (fun r => tref_str ds (rtref r)) from).

Lemma tbl_of_table e r : is_rtable r = true -> tbl_of e r = tbl e (rtref r) (ralias r).
Proof. destruct r; try discriminate. reflexivity. Qed.

Lemma tbl_eqb_str e t al t' al' : dataset_eqb (tbl e t al) (tbl e t' al') = true -> tref_str (e_cfg e) t = tref_str (e_cfg e) t'.
Proof. unfold dataset_eqb. cbn [dk deq tbl dkind_beq andb]. apply String.eqb_eq. Qed.

Lemma NoDup_map_inj {A B} (f : A -> B) l a b : NoDup (map f l) -> In a l -> In b l -> f a = f b -> a = b.
Proof.
  induction l as [|x r IH]; intros Hn Ha Hb E; [destruct Ha|]. cbn [map] in Hn. inversion Hn. subst.
  destruct Ha as [->|Ha], Hb as [->|Hb].
  - reflexivity.
  - exfalso. apply H1. rewrite E. apply in_map. exact Hb.
  - exfalso. apply H1. rewrite <- E. apply in_map. exact Ha.
  - apply IH; assumption.
Qed.

Lemma rel_ok_table r : rel_ok r = true -> is_rtable r = true.
Proof. destruct r; try discriminate. reflexivity. Qed.

Lemma group_ok_of e t from :
  forallb rel_ok from = true -> tables_cond (e_cfg e) t from -> group_ok (tbl e t None) (map (tbl_of e) from).
Proof.
  intros Hrel [Hnd Hnt]. rewrite forallb_forall in Hrel. constructor.
  - intros v Hv. apply in_map_iff in Hv. destruct Hv as (r & <- & Hr). rewrite (tbl_of_table e r (rel_ok_table r (Hrel r Hr))). reflexivity.
  - intros v w Hv Hw E. apply in_map_iff in Hv, Hw. destruct Hv as (r & <- & Hr). destruct Hw as (r' & <- & Hr').
    rewrite (tbl_of_table e r (rel_ok_table r (Hrel r Hr))), (tbl_of_table e r' (rel_ok_table r' (Hrel r' Hr'))) in E.
    apply tbl_eqb_str in E. rewrite (NoDup_map_inj _ from r r' Hnd Hr Hr' E). reflexivity.
  - intros v Hv. apply in_map_iff in Hv. destruct Hv as (r & <- & Hr). rewrite (tbl_of_table e r (rel_ok_table r (Hrel r Hr))).
    destruct (dataset_eqb _ _) eqn:E; [|reflexivity]. exfalso. apply tbl_eqb_str in E. apply Hnt. rewrite <- E.
    apply (in_map (fun r => tref_str (e_cfg e) (rtref r))). exact Hr.
Qed.

Lemma tref_str_dot ds t : sexists is_dot (tref_str ds t) = true.
Proof. unfold tref_str. rewrite sexists_app. cbn [append sexists]. rewrite orb_true_r. reflexivity. Qed.

Lemma id_ok_not_tref q ds t : id_ok q = true -> tref_str ds t <> q.
Proof. intros Hq E. pose proof (tref_str_dot ds t) as H. rewrite E, (id_ok_nodot q Hq) in H. discriminate. Qed.

Lemma xcol_of_facts i :
  item_ok i = true ->
  xc (xcol_of i) = {| craw := item_name i; cparents := [] |} /\ xsrc (xcol_of i) = [item_ref i] /\
  escape (fst (item_ref i)) = fst (item_ref i) /\ match snd (item_ref i) with Some q => id_ok q = true | None => True end.
Proof.
  destruct i as [[qq c| | | | | |] al|qq]; cbn [item_ok]; try discriminate; intros H.
  - apply andb_true_iff in H. destruct H as [H Ha]. apply andb_true_iff in H. destruct H as [Hc Hq].
    assert (Eq : option_map escape qq = qq) by (destruct qq as [x|]; [cbn; rewrite (id_ok_escape x Hq); reflexivity|reflexivity]).
    assert (Hq' : match qq with Some q => id_ok q = true | None => True end) by (destruct qq; auto).
    destruct al as [a|]; cbn [xcol_of item_name item_ref mk_xcol xc xsrc map fst snd]; unfold esc_src; cbn [fst snd]; rewrite Eq, (id_ok_escape c Hc).
    + rewrite (id_ok_escape a Ha). auto.
    + auto.
  - assert (Eq : option_map escape qq = qq) by (destruct qq as [x|]; [cbn; rewrite (id_ok_escape x H); reflexivity|reflexivity]).
    cbn [xcol_of item_name item_ref mk_xcol xc xsrc map fst snd]. unfold esc_src. cbn [fst snd]. rewrite Eq.
    change (escape "*") with "*". destruct qq; auto.
Qed.

Lemma multi_of e t from :
  forallb rel_ok from = true -> tables_cond (e_cfg e) t from -> 2 <= List.length from -> multi (map (tbl_of e) from).
Proof.
  intros Hrel [Hnd _] Hl. destruct from as [|r [|r' l]]; cbn [List.length] in Hl; try lia.
  exists (tbl_of e r), (tbl_of e r'). split; [left; reflexivity|]. split; [right; left; reflexivity|].
  cbn [forallb] in Hrel. apply andb_true_iff in Hrel. destruct Hrel as [H1 Hrel]. apply andb_true_iff in Hrel. destruct Hrel as [H2 _].
  rewrite (tbl_of_table e r (rel_ok_table _ H1)), (tbl_of_table e r' (rel_ok_table _ H2)). intros E.
  apply (f_equal dstr) in E. cbn [tbl dstr] in E. cbn [map] in Hnd. inversion Hnd. apply H3. left. symmetry. exact E.
Qed.

Lemma ts_inj_of e t from :
  forallb rel_ok from = true -> tables_cond (e_cfg e) t from -> ts_inj (map (tbl_of e) from).
Proof.
  intros Hrel Htc. split; [exact (go_distinct _ _ (group_ok_of e t from Hrel Htc))|].
  destruct Htc as [Hnd _]. rewrite forallb_forall in Hrel. intros v w Hv Hw E.
  apply in_map_iff in Hv, Hw. destruct Hv as (r & <- & Hr). destruct Hw as (r' & <- & Hr').
  rewrite (tbl_of_table e r (rel_ok_table r (Hrel r Hr))), (tbl_of_table e r' (rel_ok_table r' (Hrel r' Hr'))) in E.
  cbn [tbl dstr] in E. rewrite (NoDup_map_inj _ from r r' Hnd Hr Hr' E). reflexivity.
Qed.

Lemma names_nodot_of e from : forallb rel_ok from = true -> names_nodot (map (tbl_of e) from).
Proof.
  intros Hrel v w Hv Hw. rewrite forallb_forall in Hrel.
  apply in_map_iff in Hv, Hw. destruct Hv as (r & <- & Hr). destruct Hw as (r' & <- & Hr').
  pose proof (Hrel r' Hr') as Hok. rewrite (tbl_of_table e r (rel_ok_table r (Hrel r Hr))), (tbl_of_table e r' (rel_ok_table r' Hok)).
  cbn [tbl dstr dalias draw]. destruct r' as [t' al'| |]; try discriminate. cbn [rel_ok rtref ralias] in *.
  apply andb_true_iff in Hok. destruct Hok as [Ht' Ha']. unfold tref_ok in Ht'. apply andb_true_iff in Ht'. destruct Ht' as [Hn' _].
  split.
  - destruct al' as [a|]; intros K; [exact (id_ok_not_tref a _ _ Ha' (eq_sym K))|exact (id_ok_not_tref (snd t') _ _ Hn' (eq_sym K))].
  - intros K. exact (id_ok_not_tref (snd t') _ _ Hn' (eq_sym K)).
Qed.

Lemma xref_ok_of e t from items :
  forallb rel_ok from = true -> forallb item_ok items = true -> tables_cond (e_cfg e) t from -> items_cond from items ->
  forall x, In x (map xcol_of items) -> xref_ok (map (tbl_of e) from) x.
Proof.
  intros Hrel Hit Htc Hc x Hx. apply in_map_iff in Hx. destruct Hx as (i & <- & Hi).
  pose proof Hrel as Hrel0. rewrite forallb_forall in Hit, Hrel. destruct (xcol_of_facts i (Hit i Hi)) as (F1 & F2 & F3 & F4).
  split; [rewrite F1; reflexivity|]. exists (fst (item_ref i)), (snd (item_ref i)).
  split; [rewrite F2; destruct (item_ref i); reflexivity|]. split; [exact F3|].
  specialize (Hc i Hi). destruct (snd (item_ref i)) as [q|].
  - destruct Hc as (r0 & Hr0 & En & Hu). exists (tbl_of e r0). split; [apply in_map; exact Hr0|].
    rewrite (tbl_of_table e r0 (rel_ok_table _ (Hrel r0 Hr0))). split; [exact En|].
    intros w Hw Hor. apply in_map_iff in Hw. destruct Hw as (r & <- & Hr).
    rewrite (tbl_of_table e r (rel_ok_table _ (Hrel r Hr))) in *. cbn [tbl dalias draw dstr] in Hor.
    rewrite (Hu r Hr); [reflexivity|]. destruct Hor as [H|[H|H]]; [left; exact H|right; exact H|].
    exfalso. exact (id_ok_not_tref q _ _ F4 H).
  - destruct Hc as [(r & ->)|[Hl Hs]]; [left; exists (tbl_of e r); reflexivity|].
    right. split; [exact (multi_of e t from Hrel0 Htc Hl)|exact Hs].
Qed.

Lemma noqual_of e from items :
  forallb item_ok items = true -> noqual_items from items -> noqual (map (tbl_of e) from) (map xcol_of items).
Proof.
  intros Hit Hnq x x' c c' q Hx Hx' Ex Ex' Hm.
  assert (Hl : 2 <= List.length from).
  { destruct Hm as (a & b & Ha & Hb & Hab). rewrite <- (map_length (tbl_of e)). apply (two_members _ a b Ha Hb Hab). }
  apply in_map_iff in Hx, Hx'. destruct Hx as (i & <- & Hi). destruct Hx' as (i' & <- & Hi').
  rewrite forallb_forall in Hit. destruct (xcol_of_facts i (Hit i Hi)) as (_ & F2 & _). destruct (xcol_of_facts i' (Hit i' Hi')) as (_ & F2' & _).
  rewrite F2 in Ex. rewrite F2' in Ex'. inversion Ex. inversion Ex'.
  apply (Hnq Hl i i' c c' q Hi Hi'); assumption.
Qed.

(** ** the specification on a SELECT over tables *)
Definition sbind (ds : string) (r : rel) : binding :=
  {| b_alias := ralias r;
     b_names := match ralias r with Some _ => [] | None => [snd (rtref r); tref_str ds (rtref r)] end;
     b_rel := RelBase (tref_str ds (rtref r)) |}.

Lemma q_cols_select k ds items from cj wh :
  forallb is_rtable from = true ->
  q_cols (S k) ds [] (QSelect items from cj wh) = flat_map (item_cols (map (sbind ds) from)) items.
Proof.
  intros Hrt. cbn [q_cols]. rewrite (rels_flat_tables from Hrt). f_equal. f_equal. apply map_ext_in. intros r Hr.
  rewrite forallb_forall in Hrt. specialize (Hrt r Hr). destruct r as [t al| |]; try discriminate.
  cbn [assoc_s]. destruct (fst t); reflexivity.
Qed.

Lemma find_binding_q ds from q r0 :
  forallb is_rtable from = true -> id_ok q = true ->
  In r0 from -> rname r0 = q -> (forall r, In r from -> (rname r = q \/ snd (rtref r) = q) -> r = r0) ->
  find_binding q (map (sbind ds) from) = Some (sbind ds r0).
Proof.
  intros Hrt Hq Hr0 En Hu. unfold find_binding.
  set (P1 := fun b => match b_alias b with Some a => String.eqb a q | None => false end).
  set (P2 := fun b => mem_string q (b_names b)).
  assert (H1 : forall b, In b (map (sbind ds) from) -> P1 b = true -> b = sbind ds r0).
  { intros b Hb Hp. apply in_map_iff in Hb. destruct Hb as (r & <- & Hr). unfold P1 in Hp. cbn [sbind b_alias] in Hp.
    destruct (ralias r) as [a|] eqn:Ea; [|discriminate]. apply String.eqb_eq in Hp.
    rewrite (Hu r Hr); [reflexivity|]. left. unfold rname. rewrite Ea. exact Hp. }
  assert (H2 : forall b, In b (map (sbind ds) from) -> P2 b = true -> b = sbind ds r0).
  { intros b Hb Hp. apply in_map_iff in Hb. destruct Hb as (r & <- & Hr). unfold P2 in Hp. cbn [sbind b_names] in Hp.
    destruct (ralias r) as [a|] eqn:Ea; [discriminate|]. cbn [mem_string] in Hp. rewrite orb_false_r in Hp.
    apply orb_true_iff in Hp. destruct Hp as [Hp|Hp]; apply String.eqb_eq in Hp.
    - rewrite (Hu r Hr); [reflexivity|]. right. symmetry. exact Hp.
    - exfalso. exact (id_ok_not_tref q ds (rtref r) Hq (eq_sym Hp)). }
  destruct (filter P1 (map (sbind ds) from)) as [|b l] eqn:E1.
  - destruct (filter P2 (map (sbind ds) from)) as [|b l] eqn:E2.
    + exfalso. assert (Hin : In (sbind ds r0) (map (sbind ds) from)) by (apply in_map; exact Hr0).
      unfold rname in En. destruct (ralias r0) as [a|] eqn:Ea.
      * assert (K : In (sbind ds r0) (filter P1 (map (sbind ds) from))).
        { apply filter_In. split; [exact Hin|]. unfold P1. cbn [sbind b_alias]. rewrite Ea, En. apply String.eqb_refl. }
        rewrite E1 in K. destruct K.
      * assert (K : In (sbind ds r0) (filter P2 (map (sbind ds) from))).
        { apply filter_In. split; [exact Hin|]. unfold P2. cbn [sbind b_names]. rewrite Ea. cbn [mem_string]. rewrite En, String.eqb_refl. reflexivity. }
        rewrite E2 in K. destruct K.
    + assert (K : In b (filter P2 (map (sbind ds) from))) by (rewrite E2; left; reflexivity).
      apply filter_In in K. rewrite (H2 b (proj1 K) (proj2 K)). reflexivity.
  - assert (K : In b (filter P1 (map (sbind ds) from))) by (rewrite E1; left; reflexivity).
    apply filter_In in K. rewrite (H1 b (proj1 K) (proj2 K)). reflexivity.
Qed.

Definition spec_item_strs (tstr : string) (scope : list binding) (i : item) : list string :=
  flat_map (fun c : colspec => map (fun sr => (show_src sr ++ ">" ++ tstr ++ "." ++ fst c)%string) (snd c)) (item_cols scope i).

Lemma dedup_s_NoDup l : forall seen, NoDup l -> (forall x, In x l -> ~ In x seen) -> dedup_s l seen = l.
Proof.
  induction l as [|a r IH]; intros seen Hn Hs; [reflexivity|]. cbn [dedup_s]. inversion Hn. subst.
  destruct (mem_string a seen) eqn:E; [apply mem_string_In in E; exfalso; exact (Hs a (or_introl eq_refl) E)|].
  f_equal. apply IH; [assumption|]. intros x Hx [<-|K]; [contradiction|exact (Hs x (or_intror Hx) K)].
Qed.

Lemma ssorted_NoDup l : ssorted l -> NoDup l.
Proof.
  induction l as [|x r IH]; intros H; [constructor|]. constructor; [|apply IH; exact (ssorted_tail _ _ H)].
  intros Hin. exact (proj2 (ssorted_head_min x r H x Hin) eq_refl).
Qed.

Lemma unres_strs ts c : ts_inj ts -> NoDup (map dstr ts) ->
  sort_strings (map dstr (cparents (Ucol ts c))) = sort_strings (map dstr ts).
Proof.
  intros Hinj Hnd. destruct (Ucol_props ts c Hinj) as (_ & U2 & U3). apply sort_strings_set_eq.
  - apply ssorted_NoDup. apply dsorted_ssorted. exact U2.
  - exact Hnd.
  - intros x. rewrite !in_map_iff. split; intros (v & E & Hv); exists v; (split; [exact E|apply U3; exact Hv]).
Qed.

Lemma map_dstr_tbl e from : forallb rel_ok from = true -> map dstr (map (tbl_of e) from) = map (fun r => tref_str (e_cfg e) (rtref r)) from.
Proof.
  intros Hrel. rewrite map_map. apply map_ext_in. intros r Hr. rewrite forallb_forall in Hrel.
  rewrite (tbl_of_table e r (rel_ok_table _ (Hrel r Hr))). reflexivity.
Qed.

Lemma cands_of_scope ds from :
  flat_map (fun b => match b_rel b with RelBase t => [t] | RelCols _ => [] end) (map (sbind ds) from) = map (fun r => tref_str ds (rtref r)) from.
Proof. induction from as [|r l IH]; [reflexivity|]. cbn [map flat_map sbind b_rel app]. rewrite IH. reflexivity. Qed.

Lemma resolve_unres ds from c :
  2 <= List.length from -> NoDup (map (fun r => tref_str ds (rtref r)) from) ->
  resolve (map (sbind ds) from) (None, c) = [SUnres c (map (fun r => tref_str ds (rtref r)) from)].
Proof.
  intros Hl Hnd. unfold resolve. cbn [fst snd]. rewrite cands_of_scope, (dedup_s_NoDup _ [] Hnd) by (intros x _ []).
  destruct from as [|r1 [|r2 rest]]; cbn [List.length] in Hl; try lia. reflexivity.
Qed.

Lemma item_corr e t from i :
  forallb rel_ok from = true -> item_ok i = true -> tables_cond (e_cfg e) t from ->
  (match snd (item_ref i) with
   | Some q => qual1 from q
   | None => (exists r, from = [r]) \/ (2 <= List.length from /\ fst (item_ref i) <> "*")
   end) ->
  spec_item_strs (tref_str (e_cfg e) t) (map (sbind (e_cfg e)) from) i =
  map flow_str (map (fun s => (s, own_col (tbl e t None) (xcol_of i))) (S_of (map (tbl_of e) from) (xcol_of i))).
Proof.
  intros Hrel Hi Htc Hc. destruct (xcol_of_facts i Hi) as (F1 & F2 & F3 & F4).
  assert (Hrt : forallb is_rtable from = true).
  { rewrite forallb_forall in *. intros r Hr. apply rel_ok_table. apply Hrel. exact Hr. }
  assert (Eo : own_col (tbl e t None) (xcol_of i) = {| craw := item_name i; cparents := [tbl e t None] |}).
  { rewrite own_col_eq; rewrite F1; reflexivity. }
  pose proof Hrel as Hrel0. rewrite Eo. unfold S_of. rewrite F2. rewrite forallb_forall in Hrel.
  destruct i as [[qq c| | | | | |] al|qq]; cbn [item_ok] in Hi; try discriminate; cbn [item_ref item_name fst snd] in *.
  - (* a column reference *)
    destruct qq as [q|].
    + destruct Hc as (r0 & Hr0 & En & Hu).
      rewrite (find_dalias (map (tbl_of e) from) q (tbl_of e r0)).
      * rewrite (tbl_of_table e r0 (rel_ok_table _ (Hrel r0 Hr0))).
        unfold spec_item_strs. cbn [item_cols col_refs flat_map app resolve fst snd].
        rewrite (find_binding_q (e_cfg e) from q r0 Hrt F4 Hr0 En Hu). destruct al; reflexivity.
      * apply in_map. exact Hr0.
      * rewrite (tbl_of_table e r0 (rel_ok_table _ (Hrel r0 Hr0))). exact En.
      * intros w Hw Ew. apply in_map_iff in Hw. destruct Hw as (r & <- & Hr).
        rewrite (Hu r Hr); [reflexivity|]. left. rewrite (tbl_of_table e r (rel_ok_table _ (Hrel r Hr))) in Ew. exact Ew.
    + destruct Hc as [(r & ->)|[Hl _]].
      * cbn [map]. rewrite (tbl_of_table e r (rel_ok_table _ (Hrel r (or_introl eq_refl)))).
        unfold spec_item_strs. cbn [item_cols col_refs flat_map app resolve fst snd map]. destruct al; reflexivity.
      * rewrite (multi_not_single _ _ _ _ (multi_of e t from Hrel0 Htc Hl)).
        pose proof (ts_inj_of e t from Hrel0 Htc) as Hinj. destruct Htc as [Hnd _].
        unfold spec_item_strs. cbn [item_cols col_refs flat_map app]. rewrite (resolve_unres (e_cfg e) from c Hl Hnd).
        cbn [dedup_src existsb app map flat_map fst snd]. unfold flow_str. cbn [fst snd src_str].
        assert (Hl2 : 2 <= List.length (cparents (Ucol (map (tbl_of e) from) c))).
        { destruct (multi_of e t from Hrel0 (conj Hnd (fun K => K)) Hl) as (a & b & Ha & Hb & Hab) || idtac.
          destruct (Ucol_props (map (tbl_of e) from) c Hinj) as (_ & _ & U3).
          destruct from as [|r1 [|r2 rest]]; cbn [List.length] in Hl; try lia.
          apply (two_members _ (tbl_of e r1) (tbl_of e r2)); [apply U3; left; reflexivity|apply U3; right; left; reflexivity|].
          cbn [forallb] in Hrel0. apply andb_true_iff in Hrel0. destruct Hrel0 as [H1 Hrel0]. apply andb_true_iff in Hrel0. destruct Hrel0 as [H2 _].
          rewrite (tbl_of_table e r1 (rel_ok_table _ H1)), (tbl_of_table e r2 (rel_ok_table _ H2)). intros E.
          apply (f_equal dstr) in E. cbn [tbl dstr] in E. cbn [map] in Hnd. inversion Hnd. apply H3. left. symmetry. exact E. }
        rewrite (col_parent_none _ Hl2), (proj1 (Ucol_props _ c Hinj)).
        rewrite (unres_strs _ c Hinj) by (rewrite (map_dstr_tbl e from Hrel0); exact Hnd).
        rewrite (map_dstr_tbl e from Hrel0). destruct al; reflexivity.
  - (* a star *)
    destruct qq as [q|].
    + destruct Hc as (r0 & Hr0 & En & Hu).
      rewrite (find_dalias (map (tbl_of e) from) q (tbl_of e r0)).
      * rewrite (tbl_of_table e r0 (rel_ok_table _ (Hrel r0 Hr0))).
        unfold spec_item_strs. cbn [item_cols].
        rewrite (find_binding_q (e_cfg e) from q r0 Hrt F4 Hr0 En Hu). reflexivity.
      * apply in_map. exact Hr0.
      * rewrite (tbl_of_table e r0 (rel_ok_table _ (Hrel r0 Hr0))). exact En.
      * intros w Hw Ew. apply in_map_iff in Hw. destruct Hw as (r & <- & Hr).
        rewrite (Hu r Hr); [reflexivity|]. left. rewrite (tbl_of_table e r (rel_ok_table _ (Hrel r Hr))) in Ew. exact Ew.
    + destruct Hc as [(r & ->)|[_ Hs]]; [|exfalso; apply Hs; reflexivity].
      cbn [map]. rewrite (tbl_of_table e r (rel_ok_table _ (Hrel r (or_introl eq_refl)))).
      unfold spec_item_strs. cbn [item_cols map]. reflexivity.
Qed.

Lemma map_flat_map' {A B C} (f : B -> C) (g : A -> list B) l : map f (flat_map g l) = flat_map (fun x => map f (g x)) l.
Proof. induction l as [|a r IH]; [reflexivity|]. cbn [flat_map]. rewrite map_app, IH. reflexivity. Qed.

Lemma flat_map_flat_map {A B C} (f : B -> list C) (g : A -> list B) l :
  flat_map f (flat_map g l) = flat_map (fun x => flat_map f (g x)) l.
Proof. induction l as [|a r IH]; [reflexivity|]. cbn [flat_map]. rewrite flat_map_app, IH. reflexivity. Qed.

Lemma flat_map_map' {A B C} (f : B -> list C) (g : A -> B) l : flat_map f (map g l) = flat_map (fun x => f (g x)) l.
Proof. induction l as [|a r IH]; [reflexivity|]. cbn [map flat_map]. rewrite IH. reflexivity. Qed.

Lemma combine_names_flows (tstr : string) (qc : list colspec) :
  flat_map (fun p : string * colspec => map (fun sr => (sr, (tstr ++ "." ++ fst p)%string)) (snd (snd p))) (combine (map fst qc) qc) =
  flat_map (fun c : colspec => map (fun sr => (sr, (tstr ++ "." ++ fst c)%string)) (snd c)) qc.
Proof. induction qc as [|c r IH]; [reflexivity|]. cbn [map combine flat_map fst snd]. rewrite IH. reflexivity. Qed.

Lemma spec_strs_select ds (s : stmt) t items from cj :
  (s = SInsert t None (QSelect items from cj None) \/ s = SCtas t (QSelect items from cj None) \/ s = SView t (QSelect items from cj None)) ->
  forallb is_rtable from = true ->
  map (fun p => (show_src (fst p) ++ ">" ++ snd p)%string) (spec_flows ds s) =
  flat_map (spec_item_strs (tref_str ds t) (map (sbind ds) from)) items.
Proof.
  intros Hs Hrt.
  assert (E : spec_flows ds s =
              flat_map (fun c : colspec => map (fun sr => (sr, (tref_str ds t ++ "." ++ fst c)%string)) (snd c))
                       (flat_map (item_cols (map (sbind ds) from)) items)).
  { destruct Hs as [->|[->| ->]]; unfold spec_flows; rewrite (q_cols_select _ ds items from cj None Hrt); [apply combine_names_flows|reflexivity|reflexivity]. }
  rewrite E, flat_map_flat_map, map_flat_map'. apply flat_map_ext. intros i. unfold spec_item_strs.
  rewrite map_flat_map'. apply flat_map_ext. intros c. rewrite map_map. reflexivity.
Qed.

(** * Lemma B for INSERT / CREATE TABLE AS / CREATE VIEW AS over one SELECT from distinct base tables, every select
      item being a column reference or a star whose qualifier names exactly one table of the scope (no qualifier: one table) *)
Theorem lemma_B_select_tables noise e (s : stmt) t items from cj :
  noise_ok noise = true -> env_ok e = true ->
  (s = SInsert t None (QSelect items from cj None) \/ s = SCtas t (QSelect items from cj None) \/ s = SView t (QSelect items from cj None)) ->
  tref_ok t = true -> forallb item_ok items = true -> from <> [] -> forallb rel_ok from = true ->
  tables_cond (e_cfg e) t from -> items_cond from items -> noqual_items from items ->
  script_pairs e false [] [r_stmt noise s] = spec_pairs (e_cfg e) s.
Proof.
  intros Hn He Hs Ht Hit Hne Hrel Htc Hic Hnq.
  assert (Hrt : forallb is_rtable from = true).
  { rewrite forallb_forall in *. intros r Hr. apply rel_ok_table. apply Hrel. exact Hr. }
  rewrite (model_pairs_select noise e s t items from cj Hn He Hs Ht Hit Hne Hrel (group_ok_of e t from Hrel Htc)
             (ts_inj_of e t from Hrel Htc) (names_nodot_of e from Hrel)
             (xref_ok_of e t from items Hrel Hit Htc Hic) (noqual_of e from items Hit Hnq)).
  unfold spec_pairs. rewrite (spec_strs_select (e_cfg e) s t items from cj Hs Hrt).
  f_equal. f_equal. unfold flows_of, own_pairs. rewrite !flat_map_map', map_flat_map'. cbn [fst snd]. apply flat_map_ext_in'. intros i Hi.
  symmetry. apply item_corr; [exact Hrel| |exact Htc|exact (Hic i Hi)]. rewrite forallb_forall in Hit. apply Hit. exact Hi.
Qed.

(* ================================================================== *)
(** * Part T: executable forms of the conditions, and the step theorems *)
Lemma tref_str_eq_clash ds t t' :
  id_ok (snd t) = true -> id_ok (snd t') = true -> tref_str ds t = tref_str ds t' -> tref_clash t t' = true.
Proof.
  intros H1 H2 E. unfold tref_str in E. apply (f_equal rsplit_dot) in E.
  rewrite !rsplit_dot_spec in E by (apply id_ok_count; assumption). inversion E as [[E1 E2]].
  unfold tref_clash. rewrite E2, String.eqb_refl. cbn [andb].
  destruct (fst t) as [s|], (fst t') as [s'|]; try reflexivity. subst s'. apply String.eqb_refl.
Qed.

Fixpoint trefs_distinct (l : list tref) : bool :=
  match l with [] => true | t :: r => forallb (fun t' => negb (tref_clash t t')) r && trefs_distinct r end.

Lemma trefs_distinct_NoDup ds l :
  forallb (fun t => id_ok (snd t)) l = true -> trefs_distinct l = true -> NoDup (map (tref_str ds) l).
Proof.
  induction l as [|t r IH]; intros Hid Hd; cbn [map]; [constructor|].
  cbn [forallb trefs_distinct] in *. apply andb_true_iff in Hid, Hd. destruct Hid as [Hi1 Hi2]. destruct Hd as [Hd1 Hd2].
  constructor; [|apply IH; assumption]. intros Hin. apply in_map_iff in Hin. destruct Hin as (t' & E & Ht').
  rewrite forallb_forall in Hd1, Hi2. specialize (Hd1 t' Ht').
  rewrite (tref_str_eq_clash ds t t' Hi1 (Hi2 t' Ht') (eq_sym E)) in Hd1. discriminate.
Qed.

Definition tables_condb (t : tref) (from : list rel) : bool :=
  trefs_distinct (map rtref from) && forallb (fun r => negb (tref_clash t (rtref r))) from.

Lemma rel_ok_id r : rel_ok r = true -> id_ok (snd (rtref r)) = true.
Proof.
  destruct r as [t al| |]; try discriminate. cbn [rel_ok rtref]. intros H. apply andb_true_iff in H. destruct H as [H _].
  unfold tref_ok in H. apply andb_true_iff in H. exact (proj1 H).
Qed.

Lemma tables_condb_ok ds t from :
  tref_ok t = true -> forallb rel_ok from = true -> tables_condb t from = true -> tables_cond ds t from.
Proof.
  intros Ht Hrel H. unfold tables_condb in H. apply andb_true_iff in H. destruct H as [H1 H2].
  assert (Hid : forallb (fun t => id_ok (snd t)) (map rtref from) = true).
  { apply forallb_forall. intros x Hx. apply in_map_iff in Hx. destruct Hx as (r & <- & Hr). apply rel_ok_id.
    rewrite forallb_forall in Hrel. apply Hrel. exact Hr. }
  split.
  - rewrite <- (map_map rtref (tref_str ds)). apply trefs_distinct_NoDup; assumption.
  - intros Hin. apply in_map_iff in Hin. destruct Hin as (r & E & Hr). rewrite forallb_forall in H2, Hrel. specialize (H2 r Hr).
    unfold tref_ok in Ht. apply andb_true_iff in Ht.
    rewrite (tref_str_eq_clash ds t (rtref r) (proj1 Ht) (rel_ok_id r (Hrel r Hr)) (eq_sym E)) in H2. discriminate.
Qed.

Definition qual1b (from : list rel) (q : string) : bool :=
  match filter (fun r => String.eqb (rname r) q || String.eqb (snd (rtref r)) q) from with
  | [r0] => String.eqb (rname r0) q
  | _ => false
  end.

Lemma qual1b_ok from q : qual1b from q = true -> qual1 from q.
Proof.
  unfold qual1b. set (P := fun r => String.eqb (rname r) q || String.eqb (snd (rtref r)) q).
  destruct (filter P from) as [|r0 [|r1 l]] eqn:E; try discriminate. intros H. apply String.eqb_eq in H.
  assert (K : In r0 (filter P from)) by (rewrite E; left; reflexivity). apply filter_In in K.
  exists r0. split; [exact (proj1 K)|]. split; [exact H|]. intros r Hr Hor.
  assert (K2 : In r (filter P from)).
  { apply filter_In. split; [exact Hr|]. unfold P. destruct Hor as [<-|<-]; rewrite String.eqb_refl; [reflexivity|apply orb_true_r]. }
  rewrite E in K2. destruct K2 as [<-|[]]. reflexivity.
Qed.

Definition items_condb (from : list rel) (items : list item) : bool :=
  forallb (fun i => match snd (item_ref i) with
                    | Some q => qual1b from q
                    | None => match from with
                              | [_] => true
                              | _ => Nat.leb 2 (List.length from) && negb (String.eqb (fst (item_ref i)) "*")
                              end
                    end) items.

Lemma items_condb_ok from items : items_condb from items = true -> items_cond from items.
Proof.
  intros H i Hi. unfold items_condb in H. rewrite forallb_forall in H. specialize (H i Hi).
  destruct (snd (item_ref i)) as [q|]; [apply qual1b_ok; exact H|].
  destruct from as [|r [|r' l]]; [discriminate|left; exists r; reflexivity|].
  apply andb_true_iff in H. destruct H as [H1 H2]. right. split; [apply Nat.leb_le; exact H1|].
  apply negb_true_iff in H2. apply String.eqb_neq. exact H2.
Qed.

Definition noqual_itemsb (from : list rel) (items : list item) : bool :=
  negb (Nat.leb 2 (List.length from)) ||
  forallb (fun i => match snd (item_ref i) with
                    | None => forallb (fun i' => match snd (item_ref i') with
                                                 | Some _ => negb (String.eqb (fst (item_ref i')) (fst (item_ref i)))
                                                 | None => true end) items
                    | Some _ => true
                    end) items.

Lemma noqual_itemsb_ok from items : noqual_itemsb from items = true -> noqual_items from items.
Proof.
  intros H Hl i i' c c' q Hi Hi' E E'. unfold noqual_itemsb in H. apply orb_true_iff in H. destruct H as [H|H].
  - apply negb_true_iff in H. apply Nat.leb_gt in H. lia.
  - rewrite forallb_forall in H. specialize (H i Hi). rewrite E in H. cbn [snd fst] in H.
    rewrite forallb_forall in H. specialize (H i' Hi'). rewrite E' in H. cbn [snd fst] in H.
    apply negb_true_iff in H. apply String.eqb_neq. exact H.
Qed.

(** the statements of steps 1 - 3: INSERT (without column list) / CREATE TABLE AS / CREATE VIEW AS over one SELECT
    without WHERE from base tables *)
Definition sel_tables_shape (s : stmt) : bool :=
  match s with
  | SInsert t None (QSelect items from _ None) | SCtas t (QSelect items from _ None) | SView t (QSelect items from _ None) =>
      forallb is_rtable from && tables_condb t from && items_condb from items && noqual_itemsb from items
  | _ => false
  end.

Lemma stmt_ok_select t items from cj :
  tref_ok t && frag_query (S (q_size (QSelect items from cj None))) (QSelect items from cj None)
  && names_ok_q (S (q_size (QSelect items from cj None))) [] (QSelect items from cj None) = true ->
  forallb is_rtable from = true ->
  tref_ok t = true /\ forallb item_ok items = true /\ from <> [] /\ forallb rel_ok from = true.
Proof.
  intros Hok Hrt. apply andb_true_iff in Hok. destruct Hok as [Hok Hnames]. apply andb_true_iff in Hok. destruct Hok as [Ht Hfrag].
  set (q := QSelect items from cj None) in *.
  assert (Hsz : exists k, q_size q = S k) by (eexists; reflexivity). destruct Hsz as [k Hk].
  rewrite Hk in Hfrag, Hnames. cbn [frag_query names_ok_q q] in Hfrag, Hnames.
  rewrite !andb_true_r in Hfrag, Hnames.
  apply andb_true_iff in Hfrag. destruct Hfrag as [Hfrag _]. apply andb_true_iff in Hfrag. destruct Hfrag as [_ Hne].
  apply andb_true_iff in Hnames. destruct Hnames as [Hitems Hrels].
  split; [exact Ht|]. split; [exact Hitems|]. split; [destruct from; [discriminate|discriminate]|].
  revert Hrels. apply forallb_impl. intros r Hr. rewrite forallb_forall in Hrt. specialize (Hrt r Hr). destruct r; try discriminate. auto.
Qed.

Theorem lemma_B_tables_restricted : forall noise e s,
  noise_ok noise = true -> env_ok e = true -> stmt_ok s = true -> sel_tables_shape s = true ->
  script_pairs e false [] [r_stmt noise s] = spec_pairs (e_cfg e) s.
Proof.
  intros noise e s Hn He Hok Hsh.
  assert (K : exists t items from cj,
            (s = SInsert t None (QSelect items from cj None) \/ s = SCtas t (QSelect items from cj None) \/ s = SView t (QSelect items from cj None)) /\
            forallb is_rtable from && tables_condb t from && items_condb from items && noqual_itemsb from items = true /\
            tref_ok t && frag_query (S (q_size (QSelect items from cj None))) (QSelect items from cj None)
            && names_ok_q (S (q_size (QSelect items from cj None))) [] (QSelect items from cj None) = true).
  { destruct s as [t [cs|] q|t q|t q|q|kind]; cbn [sel_tables_shape] in Hsh; try discriminate;
      destruct q as [items from cj [wh|]| |]; try discriminate; exists t, items, from, cj; (split; [auto|]); (split; [exact Hsh|]);
      cbn [stmt_ok] in Hok; try exact Hok. rewrite andb_true_r in Hok. exact Hok. }
  destruct K as (t & items & from & cj & Hs & Hsh' & Hok').
  apply andb_true_iff in Hsh'. destruct Hsh' as [Hsh' Hnq]. apply andb_true_iff in Hsh'. destruct Hsh' as [Hsh' Hic].
  apply andb_true_iff in Hsh'. destruct Hsh' as [Hrt Htc].
  destruct (stmt_ok_select t items from cj Hok' Hrt) as (Ht & Hit & Hne & Hrel).
  apply (lemma_B_select_tables noise e s t items from cj Hn He Hs Ht Hit Hne Hrel).
  - apply tables_condb_ok; assumption.
  - apply items_condb_ok. exact Hic.
  - apply noqual_itemsb_ok. exact Hnq.
Qed.

(** ** with ONE table in scope the conditions follow from [colshape] *)
Lemma find_binding_single ds r q :
  is_rtable r = true -> id_ok q = true -> find_binding q [sbind ds r] <> None -> rname r = q.
Proof.
  intros Hr Hq H. unfold find_binding in H. cbn [filter sbind b_alias b_names] in H. unfold rname.
  destruct (ralias r) as [a|] eqn:Ea.
  - destruct (String.eqb a q) eqn:E; [apply String.eqb_eq; exact E|]. cbn [mem_string] in H. exfalso. apply H. reflexivity.
  - cbn [mem_string] in H. destruct (String.eqb q (snd (rtref r))) eqn:E; [symmetry; apply String.eqb_eq; exact E|].
    cbn [orb] in H. rewrite orb_false_r in H. destruct (String.eqb q (tref_str ds (rtref r))) eqn:E2; [|exfalso; apply H; reflexivity].
    apply String.eqb_eq in E2. exfalso. exact (id_ok_not_tref q ds _ Hq (eq_sym E2)).
Qed.

Lemma scope_of_single k t' al : scope_of k [] [RTable t' al] = [sbind "" (RTable t' al)].
Proof. unfold scope_of. cbn [flat_map rels_flat app map assoc_s]. destruct (fst t'); reflexivity. Qed.

Lemma colshape_single ds (s : stmt) t items t' al cj :
  (s = SInsert t None (QSelect items [RTable t' al] cj None) \/ s = SCtas t (QSelect items [RTable t' al] cj None) \/
   s = SView t (QSelect items [RTable t' al] cj None)) ->
  colshape s = true -> tref_ok t = true -> rel_ok (RTable t' al) = true -> forallb item_ok items = true ->
  tables_cond ds t [RTable t' al] /\ items_cond [RTable t' al] items /\ noqual_items [RTable t' al] items.
Proof.
  intros Hs Hc Ht Hrel Hit. unfold colshape in Hc. apply andb_true_iff in Hc. destruct Hc as [Hc Hsc].
  apply andb_true_iff in Hc. destruct Hc as [Hc _]. apply andb_true_iff in Hc. destruct Hc as [Hns _].
  assert (Hns' : negb (tref_clash t t') = true).
  { destruct Hs as [->|[->| ->]]; cbn [cs_noself q_trefs flat_map rels_flat app forallb] in Hns; rewrite andb_true_r in Hns; exact Hns. }
  assert (Hsc' : forallb (item_ok_c (q_refnames (S (q_size (QSelect items [RTable t' al] cj None))) (QSelect items [RTable t' al] cj None))
                                    [sbind "" (RTable t' al)] true
                                    (flat_map (fun r : option string * string => match fst r with None => [snd r] | Some _ => [] end)
                                              (flat_map item_refs items))) items = true).
  { assert (E : cs_scopes s = cs_q (S (q_size (QSelect items [RTable t' al] cj None)))
                                   (q_refnames (S (q_size (QSelect items [RTable t' al] cj None))) (QSelect items [RTable t' al] cj None))
                                   true [] (QSelect items [RTable t' al] cj None)) by (destruct Hs as [->|[->| ->]]; reflexivity).
    rewrite E in Hsc. cbn [cs_q] in Hsc. rewrite scope_of_single in Hsc.
    apply andb_true_iff in Hsc. destruct Hsc as [Hsc _]. apply andb_true_iff in Hsc. destruct Hsc as [Hsc _].
    apply andb_true_iff in Hsc. exact (proj2 Hsc). }
  split.
  - split; [cbn [map]; constructor; [intros []|constructor]|]. cbn [map rtref]. intros [E|[]].
    unfold tref_ok in Ht. apply andb_true_iff in Ht.
    rewrite (tref_str_eq_clash ds t t' (proj1 Ht) (rel_ok_id _ Hrel) (eq_sym E)) in Hns'. discriminate.
  - split; [|intros Hl; cbn [List.length] in Hl; lia].
    intros i Hi. rewrite forallb_forall in Hsc', Hit. specialize (Hsc' i Hi). specialize (Hit i Hi).
    destruct (xcol_of_facts i Hit) as (_ & _ & _ & F4).
    destruct i as [[qq c| | | | | |] al'|qq]; cbn [item_ok] in Hit; try discriminate; cbn [item_ref snd] in *.
    + destruct qq as [q|]; [|left; exists (RTable t' al); reflexivity].
      cbn [item_ok_c col_refs forallb ref_ok fst snd] in Hsc'. rewrite andb_true_r in Hsc'.
      exists (RTable t' al). split; [left; reflexivity|].
      assert (En : rname (RTable t' al) = q).
      { apply (find_binding_single "" (RTable t' al) q eq_refl F4). intros K. rewrite K in Hsc'. discriminate. }
      split; [exact En|]. intros r [<-|[]] _. reflexivity.
    + destruct qq as [q|]; [|left; exists (RTable t' al); reflexivity].
      cbn [item_ok_c] in Hsc'. apply andb_true_iff in Hsc'. destruct Hsc' as [_ Hsc'].
      exists (RTable t' al). split; [left; reflexivity|].
      assert (En : rname (RTable t' al) = q).
      { apply (find_binding_single "" (RTable t' al) q eq_refl F4). intros K. rewrite K in Hsc'. discriminate. }
      split; [exact En|]. intros r [<-|[]] _. reflexivity.
Qed.

(** * The step theorems *)
Definition items_plain (items : list item) : bool := forallb (fun i => match i with IExpr _ _ => true | IStar _ => false end) items.

Lemma lemma_B_single_table noise e (s : stmt) t items t' al cj :
  noise_ok noise = true -> env_ok e = true -> stmt_ok s = true -> colshape s = true ->
  (s = SInsert t None (QSelect items [RTable t' al] cj None) \/ s = SCtas t (QSelect items [RTable t' al] cj None) \/
   s = SView t (QSelect items [RTable t' al] cj None)) ->
  script_pairs e false [] [r_stmt noise s] = spec_pairs (e_cfg e) s.
Proof.
  intros Hn He Hok Hc Hs.
  assert (Hok' : tref_ok t && frag_query (S (q_size (QSelect items [RTable t' al] cj None))) (QSelect items [RTable t' al] cj None)
                 && names_ok_q (S (q_size (QSelect items [RTable t' al] cj None))) [] (QSelect items [RTable t' al] cj None) = true).
  { destruct Hs as [->|[->| ->]]; cbn [stmt_ok] in Hok; try exact Hok. rewrite andb_true_r in Hok. exact Hok. }
  destruct (stmt_ok_select t items [RTable t' al] cj Hok' eq_refl) as (Ht & Hit & Hne & Hrel).
  assert (Hrel' : rel_ok (RTable t' al) = true) by (cbn [forallb] in Hrel; rewrite andb_true_r in Hrel; exact Hrel).
  destruct (colshape_single (e_cfg e) s t items t' al cj Hs Hc Ht Hrel' Hit) as (Htc & Hic & Hnq).
  apply (lemma_B_select_tables noise e s t items [RTable t' al] cj Hn He Hs Ht Hit Hne Hrel Htc Hic Hnq).
Qed.

(* ================================================================== *)
(** * Part V: for several distinct tables the conditions follow from [colshape] as well *)
Fixpoint pw {A} (P : A -> A -> Prop) (l : list A) : Prop :=
  match l with [] => True | x :: r => (forall y, In y r -> P x y) /\ pw P r end.

Lemma pw_In {A} (P : A -> A -> Prop) l a b : pw P l -> In a l -> In b l -> a = b \/ P a b \/ P b a.
Proof.
  induction l as [|x r IH]; intros Hp Ha Hb; [destruct Ha|]. destruct Hp as [H1 H2].
  destruct Ha as [->|Ha], Hb as [->|Hb]; auto.
Qed.

Definition sep_rel (r r' : rel) : Prop :=
  rname r <> rname r' /\ rname r <> snd (rtref r') /\ rname r' <> snd (rtref r).

Lemma tref_eqb_clash t t' : tref_eqb t t' = true -> tref_clash t t' = true.
Proof.
  unfold tref_eqb, tref_clash. intros H. apply andb_true_iff in H. destruct H as [H1 H2]. rewrite H2. cbn [andb].
  destruct (fst t), (fst t'); cbn [ostr_eqb] in H1; try reflexivity; try discriminate. exact H1.
Qed.

Lemma scope_names_sep from :
  forallb is_rtable from = true -> scope_names_ok from = true -> trefs_distinct (map rtref from) = true -> pw sep_rel from.
Proof.
  induction from as [|r rest IH]; intros Hrt Hs Hd; [exact I|].
  cbn [forallb scope_names_ok map trefs_distinct] in *. apply andb_true_iff in Hrt, Hs, Hd.
  destruct Hrt as [Hr Hrt]. destruct Hs as [Hs1 Hs2]. destruct Hd as [Hd1 Hd2]. split; [|apply IH; assumption].
  intros r' Hr'. rewrite forallb_forall in Hs1, Hd1, Hrt. specialize (Hs1 r' Hr'). specialize (Hrt r' Hr').
  assert (Hcl : tref_clash (rtref r) (rtref r') = false).
  { specialize (Hd1 (rtref r') (in_map rtref _ _ Hr')). apply negb_true_iff in Hd1. exact Hd1. }
  destruct r as [t al| |]; try discriminate. destruct r' as [t' al'| |]; try discriminate.
  cbn [rel_name rel_bare rtref] in *. apply andb_true_iff in Hs1. destruct Hs1 as [Hs1 N4]. apply andb_true_iff in Hs1.
  destruct Hs1 as [Hs1 N3]. apply andb_true_iff in Hs1. destruct Hs1 as [N1 _].
  unfold sep_rel, rname. cbn [ralias rtref ostr_eqb] in *. split; [|split].
  - apply negb_true_iff in N1. apply String.eqb_neq. exact N1.
  - apply orb_true_iff in N3. destruct N3 as [N3|N3].
    + apply negb_true_iff in N3. apply String.eqb_neq. exact N3.
    + destruct al; [discriminate|]. rewrite (tref_eqb_clash _ _ N3) in Hcl. discriminate.
  - apply orb_true_iff in N4. destruct N4 as [N4|N4].
    + apply negb_true_iff in N4. apply String.eqb_neq. exact N4.
    + destruct al'; [discriminate|]. rewrite (tref_eqb_clash _ _ N4) in Hcl. discriminate.
Qed.

Lemma scope_of_tables k from : forallb is_rtable from = true -> scope_of k [] from = map (sbind "") from.
Proof.
  intros Hrt. unfold scope_of. rewrite (rels_flat_tables from Hrt). apply map_ext_in. intros r Hr.
  rewrite forallb_forall in Hrt. specialize (Hrt r Hr). destruct r as [t al| |]; try discriminate.
  cbn [assoc_s]. destruct (fst t); reflexivity.
Qed.

Lemma find_binding_some ds from q b :
  forallb is_rtable from = true -> id_ok q = true -> find_binding q (map (sbind ds) from) = Some b ->
  exists r0, In r0 from /\ rname r0 = q.
Proof.
  intros Hrt Hq H. unfold find_binding in H.
  set (P1 := fun b => match b_alias b with Some a => String.eqb a q | None => false end) in *.
  set (P2 := fun b => mem_string q (b_names b)) in *.
  destruct (filter P1 (map (sbind ds) from)) as [|b1 l] eqn:E1.
  - destruct (filter P2 (map (sbind ds) from)) as [|b2 l] eqn:E2; [discriminate|].
    assert (K : In b2 (filter P2 (map (sbind ds) from))) by (rewrite E2; left; reflexivity).
    apply filter_In in K. destruct K as [K1 K2]. apply in_map_iff in K1. destruct K1 as (r & <- & Hr). exists r. split; [exact Hr|].
    unfold P2 in K2. cbn [sbind b_names] in K2. unfold rname. destruct (ralias r); [discriminate|]. cbn [mem_string] in K2.
    rewrite orb_false_r in K2. apply orb_true_iff in K2. destruct K2 as [K2|K2]; apply String.eqb_eq in K2; [symmetry; exact K2|].
    exfalso. exact (id_ok_not_tref q ds _ Hq (eq_sym K2)).
  - assert (K : In b1 (filter P1 (map (sbind ds) from))) by (rewrite E1; left; reflexivity).
    apply filter_In in K. destruct K as [K1 K2]. apply in_map_iff in K1. destruct K1 as (r & <- & Hr). exists r. split; [exact Hr|].
    unfold P1 in K2. cbn [sbind b_alias] in K2. unfold rname. destruct (ralias r); [|discriminate]. apply String.eqb_eq. exact K2.
Qed.

Definition unq_of (refs : list (option string * string)) : list string :=
  flat_map (fun r : option string * string => match fst r with None => [snd r] | Some _ => [] end) refs.

Lemma count_s_cons c n l : count_s c (n :: l) = (if String.eqb c n then 1 else 0) + count_s c l.
Proof. unfold count_s. cbn [filter]. destruct (String.eqb c n); reflexivity. Qed.

Lemma count_unq_le c refs : count_s c (unq_of refs) <= count_s c (map snd refs).
Proof.
  induction refs as [|[o n] r IH]; [cbn; lia|]. cbn [unq_of flat_map fst snd map app]. fold (unq_of r). rewrite count_s_cons.
  destruct o; cbn [app]; [lia|]. rewrite count_s_cons. lia.
Qed.

Lemma count_noqual c refs :
  count_s c (map snd refs) = count_s c (unq_of refs) -> forall q c', In (Some q, c') refs -> c' <> c.
Proof.
  induction refs as [|[o n] r IH]; intros H q c' Hin; [destruct Hin|].
  cbn [unq_of flat_map fst snd map app] in H. fold (unq_of r) in H. rewrite count_s_cons in H. pose proof (count_unq_le c r) as Hle.
  destruct o as [q0|]; cbn [app] in H.
  - destruct (String.eqb c n) eqn:E; [lia|]. destruct Hin as [Hin|Hin]; [inversion Hin; subst; apply String.eqb_neq in E; congruence|].
    apply (IH ltac:(lia) q c' Hin).
  - rewrite count_s_cons in H. destruct Hin as [Hin|Hin]; [discriminate|]. apply (IH ltac:(lia) q c' Hin).
Qed.

Lemma q_refnames_tables k items from cj :
  forallb is_rtable from = true -> q_refnames (S k) (QSelect items from cj None) = map snd (flat_map item_refs items).
Proof.
  intros Hrt. cbn [q_refnames]. rewrite (rels_flat_tables from Hrt), app_nil_r.
  rewrite (flat_map_none _ from); [apply app_nil_r|]. intros r Hr. rewrite forallb_forall in Hrt. specialize (Hrt r Hr). destruct r; try discriminate. reflexivity.
Qed.

Lemma colshape_tables ds (s : stmt) t items from cj :
  ((exists cols, s = SInsert t cols (QSelect items from cj None)) \/ s = SCtas t (QSelect items from cj None) \/ s = SView t (QSelect items from cj None)) ->
  colshape s = true -> tref_ok t = true -> from <> [] -> forallb rel_ok from = true -> forallb item_ok items = true ->
  trefs_distinct (map rtref from) = true ->
  tables_cond ds t from /\ items_cond from items /\ noqual_items from items.
Proof.
  intros Hs Hc Ht Hne Hrel Hit Hd. unfold colshape in Hc. apply andb_true_iff in Hc. destruct Hc as [Hc Hsc].
  apply andb_true_iff in Hc. destruct Hc as [Hc _]. apply andb_true_iff in Hc. destruct Hc as [Hns _].
  assert (Hrt : forallb is_rtable from = true).
  { rewrite forallb_forall in *. intros r Hr. apply rel_ok_table. apply Hrel. exact Hr. }
  set (q := QSelect items from cj None) in *.
  assert (Hq : exists k, q_size q = S k) by (eexists; reflexivity). destruct Hq as [k Hk].
  assert (Hns' : forallb (fun r => negb (tref_clash t (rtref r))) from = true).
  { assert (E : cs_noself s = forallb (fun r => negb (tref_clash t r)) (q_trefs (S (q_size q)) q)) by (destruct Hs as [(cols & ->)|[->| ->]]; reflexivity).
    rewrite E, Hk in Hns. unfold q in Hns. cbn [q_trefs] in Hns. rewrite app_nil_r, (rels_flat_tables from Hrt) in Hns.
    apply forallb_forall. intros r Hr. rewrite forallb_forall in Hns. apply Hns. apply in_flat_map. exists r. split; [exact Hr|].
    rewrite forallb_forall in Hrt. specialize (Hrt r Hr). destruct r; try discriminate. left. reflexivity. }
  assert (E : cs_scopes s = cs_q (S (q_size q)) (q_refnames (S (q_size q)) q) true [] q) by (destruct Hs as [(cols & ->)|[->| ->]]; reflexivity).
  rewrite E, Hk in Hsc. unfold q in Hsc. rewrite (q_refnames_tables (S k) items from cj Hrt) in Hsc.
  cbn [cs_q] in Hsc. rewrite (scope_of_tables (S k) from Hrt), (rels_flat_tables from Hrt) in Hsc.
  fold (unq_of (flat_map item_refs items)) in Hsc.
  apply andb_true_iff in Hsc. destruct Hsc as [Hsc _]. apply andb_true_iff in Hsc. destruct Hsc as [Hsc _].
  apply andb_true_iff in Hsc. destruct Hsc as [Hnames Hitems].
  pose proof (scope_names_sep from Hrt Hnames Hd) as Hpw.
  set (AN := map snd (flat_map item_refs items)) in *. set (UQ := unq_of (flat_map item_refs items)) in *.
  assert (Hsome : forall i q0, In i items -> snd (item_ref i) = Some q0 -> id_ok q0 = true ->
                  (exists b, find_binding q0 (map (sbind "") from) = Some b) -> qual1 from q0).
  { intros i q0 Hi Eq F4 (b & Hb). destruct (find_binding_some "" from q0 b Hrt F4 Hb) as (r0 & Hr0 & En).
    exists r0. split; [exact Hr0|]. split; [exact En|]. intros r Hr Hor.
    destruct (pw_In sep_rel from r r0 Hpw Hr Hr0) as [Heq|[(S1 & S2 & S3)|(S1 & S2 & S3)]]; [exact Heq| |]; exfalso.
    - destruct Hor as [Hor|Hor]; [apply S1; congruence|apply S3; congruence].
    - destruct Hor as [Hor|Hor]; [apply S1; congruence|apply S2; congruence]. }
  split; [|split].
  - apply tables_condb_ok; [exact Ht|exact Hrel|]. unfold tables_condb. rewrite Hd, Hns'. reflexivity.
  - intros i Hi. rewrite forallb_forall in Hitems, Hit. specialize (Hitems i Hi). specialize (Hit i Hi).
    destruct (xcol_of_facts i Hit) as (_ & _ & _ & F4).
    destruct i as [[qq c| | | | | |] al'|qq]; cbn [item_ok] in Hit; try discriminate; cbn [item_ref snd fst] in *.
    + destruct qq as [q0|].
      * apply (Hsome _ q0 Hi eq_refl F4). cbn [item_ok_c col_refs forallb ref_ok fst snd] in Hitems. rewrite andb_true_r in Hitems.
        destruct (find_binding q0 (map (sbind "") from)) as [b|]; [exists b; reflexivity|discriminate].
      * destruct from as [|r [|r' l]]; [congruence|left; exists r; reflexivity|]. right. split; [cbn [List.length]; lia|].
        intros ->. cbn in Hit. discriminate.
    + destruct qq as [q0|].
      * apply (Hsome _ q0 Hi eq_refl F4). cbn [item_ok_c] in Hitems. apply andb_true_iff in Hitems. destruct Hitems as [_ Hitems].
        destruct (find_binding q0 (map (sbind "") from)) as [b|]; [exists b; reflexivity|discriminate].
      * destruct from as [|r [|r' l]]; [congruence|left; exists r; reflexivity|]. cbn [item_ok_c map andb] in Hitems. discriminate.
  - intros Hl i i' c c' q0 Hi Hi' Ei Ei'. rewrite forallb_forall in Hitems, Hit.
    pose proof (Hitems i Hi) as Hci. pose proof (Hit i Hi) as Hoi. pose proof (Hit i' Hi') as Hoi'.
    destruct from as [|r [|r' l]]; cbn [List.length] in Hl; try lia.
    destruct i as [[qq n| | | | | |] al'|qq]; cbn [item_ok] in Hoi; try discriminate; cbn [item_ref] in Ei; inversion Ei; subst.
    + cbn [item_ok_c col_refs forallb ref_ok fst snd map] in Hci. rewrite andb_true_r in Hci.
      apply andb_true_iff in Hci. destruct Hci as [_ Hci]. apply Nat.eqb_eq in Hci.
      destruct i' as [[qq' n'| | | | | |] al''|qq']; cbn [item_ok] in Hoi'; try discriminate; cbn [item_ref] in Ei'; inversion Ei'; subst.
      * apply (count_noqual c (flat_map item_refs items) Hci q0 c'). apply in_flat_map. exists (IExpr (EColRef (Some q0) c') al''). split; [exact Hi'|left; reflexivity].
      * intros <-. cbn in Hoi. discriminate.
    + cbn [item_ok_c map andb] in Hci. discriminate.
Qed.

(* ================================================================== *)
(** * Part K: the INSERT column list: the write columns of the target, exactly *)
Definition Wcol (d : dataset) (c : string) : column := {| craw := c; cparents := [d] |}.
Definition wedge (d : dataset) (jc : nat * string) : Graph.node * Graph.node * eattrs :=
  (NData d, NCol (Wcol d (snd jc)), e_has_column (Some (fst jc))).
Definition OE (d : dataset) (cs : list string) : list (Graph.node * Graph.node * eattrs) :=
  map (wedge d) (combine (seq 0 (List.length cs)) cs).

Lemma Wcol_eqb d c c' : dk d = KTable -> col_eqb (Wcol d c) (Wcol d c') = true -> c = c'.
Proof.
  intros Hd H. unfold col_eqb in H. apply andb_true_iff in H. destruct H as [H _]. apply String.eqb_eq in H.
  unfold col_str, col_parent, Wcol in H. cbn [cparents craw] in H. rewrite Hd in H. apply append_cancel in H. apply append_cancel in H. exact H.
Qed.

Lemma canon_head n l r : map fst l = n :: r -> canon_l n l = n.
Proof. destruct l as [|[m a] l']; cbn [map fst]; intros H; inversion H. subst. cbn [canon_l]. rewrite node_eqb_refl. reflexivity. Qed.

Lemma canon_last n : forall l ks, map fst l = ks ++ [n] -> (forall m, In m ks -> node_eqb n m = false) -> canon_l n l = n.
Proof.
  induction l as [|[m a] l' IH]; intros ks Hk Hn; [destruct ks; discriminate|].
  destruct ks as [|k ks']; cbn [map fst app] in Hk; inversion Hk; subst.
  - cbn [canon_l]. rewrite node_eqb_refl. reflexivity.
  - cbn [canon_l]. rewrite (Hn k (or_introl eq_refl)). apply (IH ks'); [assumption|]. intros m' Hm'. apply Hn. right. exact Hm'.
Qed.

Lemma upsert_edge_fresh u v a l : has_edge_l u v l = false -> upsert_edge u v a l = l ++ [(u, v, a)].
Proof.
  induction l as [|e r IH]; cbn [has_edge_l upsert_edge app]; [reflexivity|]. intros H. apply orb_false_iff in H. destruct H as [H1 H2].
  rewrite H1, (IH H2). reflexivity.
Qed.

Lemma combine_app' {A B} (l1 l1' : list A) (l2 l2' : list B) :
  List.length l1 = List.length l2 -> combine (l1 ++ l1') (l2 ++ l2') = combine l1 l2 ++ combine l1' l2'.
Proof.
  revert l2. induction l1 as [|a r IH]; intros [|b r2] H; cbn [List.length] in H; try discriminate; [reflexivity|].
  cbn [app combine]. rewrite IH by lia. reflexivity.
Qed.

Lemma has_edge_wedges d c L :
  dk d = KTable -> (forall jc, In jc L -> snd jc <> c) -> has_edge_l (NData d) (NCol (Wcol d c)) (map (wedge d) L) = false.
Proof.
  intros Hd. induction L as [|[j c'] r IH]; intros H; [reflexivity|]. cbn [map has_edge_l]. rewrite IH by (intros jc Hjc; apply H; right; exact Hjc).
  rewrite orb_false_r. unfold edge_is, wedge. cbn [fst snd node_eqb]. destruct (col_eqb (Wcol d c) (Wcol d c')) eqn:E; [|apply andb_false_r].
  exfalso. apply (H (j, c') (or_introl eq_refl)). cbn [snd]. symmetry. exact (Wcol_eqb d c c' Hd E).
Qed.

Lemma combine_seq_snoc {A} (P : list A) c :
  combine (seq 0 (List.length (P ++ [c]))) (P ++ [c]) = combine (seq 0 (List.length P)) P ++ [(List.length P, c)].
Proof.
  rewrite app_length. cbn [List.length]. rewrite Nat.add_1_r, seq_S. cbn [Nat.add].
  rewrite combine_app' by (rewrite seq_length; reflexivity). reflexivity.
Qed.

Lemma has_node_l_keys_false n l : (forall m, In m (map fst l) -> node_eqb n m = false) -> has_node_l n l = false.
Proof.
  induction l as [|[m a] r IH]; intros H; [reflexivity|]. cbn [has_node_l]. rewrite (H m (or_introl eq_refl)). apply IH.
  intros m' Hm'. apply H. right. exact Hm'.
Qed.

Definition awc_step (d : dataset) (acc : graph * nat) (c : column) : graph * nat :=
  let '(g', idx) := acc in (add_edge g' (NData d) (NCol (add_parent c d)) (e_has_column (Some idx)), S idx).

Lemma awc_fold d : dk d = KTable -> forall R P g,
  NoDup (P ++ R) ->
  gedges g = map (wedge d) (combine (seq 0 (List.length P)) P) ->
  map fst (gnodes g) = NData d :: map (fun c => NCol (Wcol d c)) P ->
  let g' := fst (fold_left (awc_step d) (map (fun c => {| craw := c; cparents := [] |}) R) (g, List.length P)) in
  gedges g' = map (wedge d) (combine (seq 0 (List.length (P ++ R))) (P ++ R)) /\
  map fst (gnodes g') = NData d :: map (fun c => NCol (Wcol d c)) (P ++ R).
Proof.
  intros Hd. induction R as [|c R IH]; intros P g Hnd He Hk; cbn [map fold_left fst].
  - rewrite app_nil_r. auto.
  - cbn [awc_step].
    assert (Ew : add_parent {| craw := c; cparents := [] |} d = Wcol d c) by reflexivity. rewrite Ew.
    assert (Hc : ~ In c P).
    { intros K. apply NoDup_remove_2 in Hnd. apply Hnd. apply in_app_iff. left. exact K. }
    set (g1 := add_edge g (NData d) (NCol (Wcol d c)) (e_has_column (Some (List.length P)))).
    assert (Hfresh : forall m, In m (map fst (gnodes g)) -> node_eqb (NCol (Wcol d c)) m = false).
    { intros m Hm. rewrite Hk in Hm. destruct Hm as [<-|Hm]; [reflexivity|]. apply in_map_iff in Hm. destruct Hm as (c' & <- & Hc').
      cbn [node_eqb]. destruct (col_eqb (Wcol d c) (Wcol d c')) eqn:E; [|reflexivity]. exfalso. apply Hc. rewrite (Wcol_eqb d c c' Hd E). exact Hc'. }
    assert (Hk1 : map fst (gnodes g1) = NData d :: map (fun c => NCol (Wcol d c)) (P ++ [c])).
    { unfold g1, add_edge. cbn [gnodes add_node]. rewrite !keys_upsert.
      assert (H1 : has_node_l (NData d) (gnodes g) = true).
      { apply has_node_l_In. destruct (gnodes g) as [|[m a] l']; [discriminate|]. cbn [map fst] in Hk. inversion Hk. subst. exists (NData d), a. split; [left; reflexivity|apply node_eqb_refl]. }
      assert (H2 : has_node_l (NCol (Wcol d c)) (gnodes g) = false) by (apply has_node_l_keys_false; exact Hfresh).
      assert (H3 : has_node_l (NCol (Wcol d c)) (upsert_node (NData d) [] (gnodes g)) = false).
      { rewrite has_node_l_upsert', H2. reflexivity. }
      rewrite H3, H1, Hk, map_app. reflexivity. }
    assert (He1 : gedges g1 = map (wedge d) (combine (seq 0 (List.length (P ++ [c]))) (P ++ [c]))).
    { unfold g1, add_edge. cbn [gedges gnodes add_node].
      set (ns := upsert_node (NCol (Wcol d c)) [] (upsert_node (NData d) [] (gnodes g))).
      assert (Hns : map fst ns = (NData d :: map (fun c => NCol (Wcol d c)) P) ++ [NCol (Wcol d c)]).
      { change ns with (gnodes g1). rewrite Hk1, map_app. reflexivity. }
      assert (C1 : canon_l (NData d) ns = NData d) by (apply (canon_head _ _ _ Hns)).
      assert (C2 : canon_l (NCol (Wcol d c)) ns = NCol (Wcol d c)).
      { apply (canon_last _ ns _ Hns). intros m Hm. apply Hfresh. rewrite Hk. exact Hm. }
      rewrite C1, C2, upsert_edge_fresh.
      - rewrite He, combine_seq_snoc, map_app. reflexivity.
      - rewrite He. apply (has_edge_wedges d c _ Hd). intros jc Hjc K. apply Hc. rewrite <- K.
        destruct jc as [j c']. apply in_combine_r in Hjc. exact Hjc. }
    assert (Hl : List.length (P ++ [c]) = S (List.length P)) by (rewrite app_length; cbn; lia).
    rewrite <- Hl. replace (P ++ c :: R) with ((P ++ [c]) ++ R) by (rewrite <- app_assoc; reflexivity).
    apply (IH (P ++ [c]) g1); [rewrite <- app_assoc; exact Hnd|exact He1|exact Hk1].
Qed.

(** ** sorting by index a list that is already in order *)
Lemma insert_by_idx_last x acc : (forall y, In y acc -> snd y <= snd x) -> insert_by_idx x acc = acc ++ [x].
Proof.
  induction acc as [|y r IH]; intros H; [reflexivity|]. cbn [insert_by_idx].
  assert (E : Nat.ltb (snd x) (snd y) = false) by (apply Nat.ltb_ge; apply H; left; reflexivity).
  rewrite E, IH; [reflexivity|]. intros z Hz. apply H. right. exact Hz.
Qed.

Lemma sort_by_idx_inc l : pw (fun a b : column * nat => snd a <= snd b) l -> sort_by_idx l = l.
Proof.
  unfold sort_by_idx.
  assert (G : forall l acc, pw (fun a b : column * nat => snd a <= snd b) l -> (forall y x, In y acc -> In x l -> snd y <= snd x) ->
              fold_left (fun acc x => insert_by_idx x acc) l acc = acc ++ l).
  { clear l. induction l as [|x r IH]; intros acc Hp Ha; cbn [fold_left]; [rewrite app_nil_r; reflexivity|].
    destruct Hp as [Hp1 Hp2]. rewrite insert_by_idx_last by (intros y Hy; apply Ha; [exact Hy|left; reflexivity]).
    rewrite IH; [rewrite <- app_assoc; reflexivity|exact Hp2|].
    intros y z Hy Hz. apply in_app_iff in Hy. destruct Hy as [Hy|[<-|[]]]; [apply Ha; [exact Hy|right; exact Hz]|apply Hp1; exact Hz]. }
  intros Hp. rewrite G; [reflexivity|exact Hp|intros y x []].
Qed.

Lemma pw_seq_combine d (cs : list string) : forall a,
  pw (fun x y : column * nat => snd x <= snd y) (map (fun jc : nat * string => (Wcol d (snd jc), fst jc)) (combine (seq a (List.length cs)) cs)).
Proof.
  induction cs as [|c r IH]; intros a; [exact I|]. cbn [List.length seq combine map pw]. split; [|apply IH].
  intros y Hy. apply in_map_iff in Hy. destruct Hy as ([j c'] & <- & Hj). apply in_combine_l in Hj. apply in_seq in Hj. cbn [fst snd]. lia.
Qed.

Lemma write_columns_exact g d cs :
  sq_write g = [d] -> memd d (sq_read g) = false -> out_edges g (NData d) = OE d cs -> write_columns g = map (Wcol d) cs.
Proof.
  intros Hw Hr Ho. unfold write_columns, get_target_table. rewrite Hw. cbn [filter]. rewrite Hr. cbn [negb]. rewrite Ho.
  assert (E : flat_map (fun e : Graph.node * Graph.node * eattrs =>
                          if String.eqb (etype (snd e)) "has_column"
                          then match snd (fst e) with
                               | NCol c => [(c, match eindex (snd e) with Some i => i | None => 0 end)]
                               | _ => []
                               end
                          else []) (OE d cs) =
              map (fun jc : nat * string => (Wcol d (snd jc), fst jc)) (combine (seq 0 (List.length cs)) cs)).
  { unfold OE. induction (combine (seq 0 (List.length cs)) cs) as [|[j c] r IH]; [reflexivity|]. cbn [map flat_map]. rewrite IH. reflexivity. }
  rewrite E, (sort_by_idx_inc _ (pw_seq_combine d cs 0)). rewrite map_map. cbn [fst].
  clear. generalize 0. induction cs as [|c r IH]; intros a; [reflexivity|]. cbn [List.length seq combine map snd]. rewrite IH. reflexivity.
Qed.

(** ** an edge that is already there, with the same attributes *)
Lemma upsert_edge_same u v a l :
  (forall e, In e l -> edge_is u v e = true -> eattr_update (snd e) a = snd e) -> has_edge_l u v l = true -> upsert_edge u v a l = l.
Proof.
  induction l as [|e r IH]; intros H Hh; [discriminate|]. cbn [upsert_edge]. destruct (edge_is u v e) eqn:E.
  - rewrite (H e (or_introl eq_refl) E). destruct e as [p b]. reflexivity.
  - cbn [has_edge_l] in Hh. rewrite E in Hh. cbn [orb] in Hh. rewrite IH; [reflexivity| |exact Hh]. intros e' He'. apply H. right. exact He'.
Qed.

Lemma gedges_add_edge_same g u v a :
  (forall e, In e (gedges g) -> edge_is u v e = true -> eattr_update (snd e) a = snd e) -> has_edge g u v = true ->
  gedges (add_edge g u v a) = gedges g.
Proof.
  intros H Hh. unfold add_edge. cbn [gedges add_node]. set (ns := gnodes _).
  assert (Ec : forall e, edge_is (canon_l u ns) (canon_l v ns) e = edge_is u v e).
  { intros e. unfold edge_is. rewrite (node_eqb_cong_l _ _ _ (canon_eqb u ns)), (node_eqb_cong_l _ _ _ (canon_eqb v ns)). reflexivity. }
  apply upsert_edge_same.
  - intros e He E. apply H; [exact He|rewrite <- Ec; exact E].
  - unfold has_edge in Hh. clear -Hh Ec. induction (gedges g) as [|e r IH]; [discriminate|]. cbn [has_edge_l] in *. rewrite Ec.
    destruct (edge_is u v e); [reflexivity|]. apply IH. exact Hh.
Qed.

Lemma OE_edge d cs e : In e (OE d cs) -> exists j c, In c cs /\ e = (NData d, NCol (Wcol d c), e_has_column (Some j)).
Proof.
  unfold OE. intros H. apply in_map_iff in H. destruct H as ([j c] & <- & Hjc). exists j, c. split; [exact (in_combine_r _ _ _ _ Hjc)|reflexivity].
Qed.

Lemma In_OE d cs c : In c cs -> exists j, In (NData d, NCol (Wcol d c), e_has_column (Some j)) (OE d cs).
Proof.
  intros Hc. apply In_nth_error in Hc. destruct Hc as (j & Hj). exists j. unfold OE. apply in_map_iff. exists (j, c). split; [reflexivity|].
  assert (Hlt : j < List.length cs) by (apply nth_error_Some; congruence).
  assert (G : forall (l : list string) a k, nth_error l k = Some c -> nth_error (combine (seq a (List.length l)) l) k = Some (a + k, c)).
  { induction l as [|c0 r IH]; intros a k Hk; [destruct k; discriminate|].
    destruct k as [|k]; cbn [nth_error List.length seq combine] in *; [inversion Hk; rewrite Nat.add_0_r; reflexivity|].
    rewrite (IH (S a) k Hk). f_equal. f_equal. lia. }
  pose proof (G cs 0 j Hj) as E. cbn [Nat.add] in E. apply nth_error_In in E. exact E.
Qed.

(** a lineage edge into a write column leaves the out-edges of the target as they are *)
Lemma acl_oed d cs g src c g' :
  add_column_lineage g src (Wcol d c) = Ok g' -> out_edges g (NData d) = OE d cs -> In c cs ->
  (forall p, In p (cparents src) -> dataset_eqb p d = false) ->
  out_edges g' (NData d) = OE d cs.
Proof.
  intros E Ho Hc Hp. unfold add_column_lineage in E. cbn [col_parent Wcol cparents] in E.
  set (g1 := add_edge g (NCol src) (NCol (Wcol d c)) lineage_edge) in *.
  set (g2 := add_edge g1 (NData d) (NCol (Wcol d c)) (e_has_column None)) in *.
  assert (O1 : out_edges g1 (NData d) = OE d cs) by (unfold g1; rewrite out_edges_add_edge_other; [exact Ho|reflexivity]).
  assert (O2 : out_edges g2 (NData d) = OE d cs).
  { unfold out_edges, g2. rewrite gedges_add_edge_same; [exact O1| |].
    - intros e He Ee. assert (Hin : In e (out_edges g1 (NData d))).
      { unfold out_edges. apply filter_In. split; [exact He|]. unfold edge_is in Ee. apply andb_true_iff in Ee. exact (proj1 Ee). }
      rewrite O1 in Hin. destruct (OE_edge d cs e Hin) as (j & c' & _ & ->). reflexivity.
    - destruct (In_OE d cs c Hc) as (j & Hj). rewrite <- O1 in Hj. unfold out_edges in Hj. apply filter_In in Hj.
      apply has_edge_In. eexists. split; [exact (proj1 Hj)|]. cbn [fst snd]. rewrite !node_eqb_refl. auto. }
  destruct (col_parent src) as [sp|] eqn:Es; inversion E; subst g'; [|exact O2].
  rewrite out_edges_add_edge_other; [exact O2|]. cbn [node_eqb]. rewrite dataset_eqb_sym. apply Hp.
  rewrite (col_parent_some _ _ Es). left. reflexivity.
Qed.

(** ** the holder after INSERT INTO t (c1, ..., cn) *)
Definition cl_of (cs : list string) : list column := map (fun c => {| craw := c; cparents := [] |}) cs.
Definition gb_of (d : dataset) (cs : list string) : graph := add_write_column (add_write empty_graph d) (cl_of cs).

Lemma awc_fold_tags d cols : forall g i k, holder_nodes (fst (fold_left (awc_step d) cols (g, i))) k = holder_nodes g k.
Proof.
  induction cols as [|c r IH]; intros g i k; cbn [fold_left]; [reflexivity|]. cbn [awc_step]. rewrite IH. apply tag_add_edge.
Qed.
Lemma awc_fold_drop d cols : forall g i, drop_free g -> drop_free (fst (fold_left (awc_step d) cols (g, i))).
Proof.
  induction cols as [|c r IH]; intros g i H; cbn [fold_left]; [exact H|]. cbn [awc_step]. apply IH. apply drop_free_add_edge. exact H.
Qed.

Lemma gb_of_eq d cs : gb_of d cs = fst (fold_left (awc_step d) (cl_of cs) (add_write empty_graph d, 0)).
Proof. reflexivity. Qed.

Lemma filter_all {A} (p : A -> bool) l : (forall x, In x l -> p x = true) -> filter p l = l.
Proof.
  induction l as [|a r IH]; intros H; [reflexivity|]. cbn [filter]. rewrite (H a (or_introl eq_refl)). f_equal. apply IH.
  intros x Hx. apply H. right. exact Hx.
Qed.

Lemma gb_facts d cs : dk d = KTable -> NoDup cs ->
  gedges (gb_of d cs) = OE d cs /\ map fst (gnodes (gb_of d cs)) = NData d :: map (fun c => NCol (Wcol d c)) cs /\
  (forall k, holder_nodes (gb_of d cs) k = holder_nodes (add_write empty_graph d) k) /\ drop_free (gb_of d cs) /\
  out_edges (gb_of d cs) (NData d) = OE d cs.
Proof.
  intros Hd Hn. rewrite gb_of_eq.
  destruct (awc_fold d Hd cs [] (add_write empty_graph d) Hn eq_refl eq_refl) as [A B]. cbn [app List.length] in A, B. unfold cl_of.
  split; [exact A|]. split; [exact B|]. split; [intros k; apply awc_fold_tags|]. split.
  - apply awc_fold_drop. intros n a [H|[]]. inversion H. intros [K|[]]. discriminate K.
  - unfold out_edges. rewrite A. apply filter_all. intros e0 He0. destruct (OE_edge d cs e0 He0) as (j & c & _ & ->). cbn [fst]. apply node_eqb_refl.
Qed.

Lemma add_parent_Wcol d c : add_parent (Wcol d c) d = Wcol d c.
Proof. unfold add_parent, memd, Wcol. cbn [cparents existsb]. rewrite dataset_eqb_refl. reflexivity. Qed.

Lemma awc_fold_ext d l1 l2 : map (fun c => add_parent c d) l1 = map (fun c => add_parent c d) l2 ->
  forall acc, fold_left (awc_step d) l1 acc = fold_left (awc_step d) l2 acc.
Proof.
  revert l2. induction l1 as [|a r IH]; intros [|b r2] H acc; cbn [map] in H; try discriminate; [reflexivity|].
  inversion H. cbn [fold_left]. destruct acc as [g i]. cbn [awc_step]. rewrite H1. apply IH. assumption.
Qed.

Lemma init_delegate_cols d cs : dk d = KTable -> NoDup cs -> init_holder (dctx (gb_of d cs)) = gb_of d cs.
Proof.
  intros Hd Hn. destruct (gb_facts d cs Hd Hn) as (A & B & C & D & O).
  assert (Ew : sq_write (gb_of d cs) = [d]) by (unfold sq_write; rewrite C; reflexivity).
  assert (Ec : sq_cte (gb_of d cs) = []) by (unfold sq_cte; rewrite C; reflexivity).
  assert (Er : sq_read (gb_of d cs) = []) by (unfold sq_read; rewrite C; reflexivity).
  assert (Ewc : write_columns (gb_of d cs) = map (Wcol d) cs).
  { apply write_columns_exact; [exact Ew|rewrite Er; reflexivity|exact O]. }
  unfold init_holder, dctx. cbn [c_cte c_write c_write_columns]. rewrite Ec, Ew, Ewc. cbn [fold_left].
  destruct cs as [|c r]; [reflexivity|]. cbn [map].
  change (Wcol d c :: map (Wcol d) r) with (map (Wcol d) (c :: r)).
  unfold add_write_column. change (sq_write (add_write empty_graph d)) with [d]. cbv iota.
  change (fst (fold_left (awc_step d) (map (Wcol d) (c :: r)) (add_write empty_graph d, 0)) = gb_of d (c :: r)).
  rewrite gb_of_eq. f_equal. apply awc_fold_ext. unfold cl_of. rewrite !map_map. apply map_ext. intros c0. rewrite add_parent_Wcol. reflexivity.
Qed.

Lemma reads_after_add_reads l : forall g v,
  (forall w, In w l -> dk w = KTable) ->
  In v (holder_nodes (fold_left add_read l g) "read") -> In v (holder_nodes g "read") \/ exists w, In w l /\ dataset_eqb w v = true.
Proof.
  induction l as [|a r IH]; intros g v Hk Hv; cbn [fold_left] in Hv; [left; exact Hv|].
  apply IH in Hv; [|intros w Hw; apply Hk; right; exact Hw]. destruct Hv as [Hv|(w & Hw & E)]; [|right; exists w; split; [right; exact Hw|exact E]].
  rewrite (add_read_table g a (Hk a (or_introl eq_refl))), tag_add_edge in Hv. apply tag_add_sound in Hv.
  destruct Hv as [Hv|Hv]; [left; exact Hv|right; exists a; split; [left; reflexivity|exact Hv]].
Qed.

Lemma skipn_nth {A} (l : list A) : forall i x, nth_error l i = Some x -> skipn i l = x :: skipn (S i) l.
Proof.
  induction l as [|a r IH]; intros [|i] x H; cbn [nth_error] in H; try discriminate.
  - inversion H. reflexivity.
  - cbn [skipn]. rewrite (IH i x H). reflexivity.
Qed.

(** ** the cleanup when the target columns are given: item [i] feeds the [i]-th write column *)
Lemma eoq_fold_cols (PC : column -> Prop) e d ts cs cols (S : xcol -> list column) :
  group_ok d ts -> dk d = KTable -> List.length cols = List.length cs ->
  (forall g2, sel_inv PC d ts g2 -> forall x, In x cols -> to_source_columns e x (get_alias_mapping g2 ts) = Ok (S x)) ->
  (forall x, In x cols -> (exists s, S x = [s]) /\ forall s, In s (S x) -> PC s /\ forall p, In p (cparents s) -> In p ts) ->
  (forall c, In c cs -> PC (Wcol d c)) ->
  forall l g2 idx,
    (forall x, In x l -> In x cols) -> sel_inv PC d ts g2 -> sq_write g2 = [d] -> memd d (sq_read g2) = false ->
    out_edges g2 (NData d) = OE d cs -> idx + List.length l = List.length cols ->
    exists g', fst (fold_left (fun acc2 x => let '(rg, idx) := acc2 in
                                  (do g2 <- rg; eoq_step e ts (List.length cols) d g2 idx x, Datatypes.S idx)) l (Ok g2, idx)) = Ok g' /\
               ext g2 g' (sel_edges d S (combine l (skipn idx (map (Wcol d) cs)))) /\ sel_inv PC d ts g' /\
               (forall k, holder_nodes g' k = holder_nodes g2 k) /\ out_edges g' (NData d) = OE d cs.
Proof.
  intros Hgo Hd Hlen HS HX HW. induction l as [|x r IH]; intros g2 idx Hl Hinv Hw Hr Ho Hn; cbn [fold_left].
  - exists g2. split; [reflexivity|]. split; [apply ext_refl|]. split; [exact Hinv|]. split; [reflexivity|exact Ho].
  - destruct (HX x (Hl x (or_introl eq_refl))) as ((s & Es) & Hx3). cbn [List.length] in Hn.
    assert (Hidx : idx < List.length cs) by lia.
    destruct (nth_error cs idx) as [c|] eqn:Ec; [|apply nth_error_None in Ec; lia].
    pose proof (nth_error_In _ _ Ec) as Hc.
    assert (Ewc : write_columns g2 = map (Wcol d) cs) by (apply write_columns_exact; assumption).
    assert (Estep : eoq_step e ts (List.length cols) d g2 idx x =
                    fold_left (fun acc3 s0 => do g3 <- acc3; add_column_lineage g3 s0 (Wcol d c)) (S x) (Ok g2)).
    { unfold eoq_step. rewrite (HS g2 Hinv x (Hl x (or_introl eq_refl))), Es, Ewc, map_length, Hlen, Nat.eqb_refl.
      rewrite (map_nth_error (Wcol d) idx cs Ec). reflexivity. }
    rewrite Estep.
    destruct (acl_fold_ok PC d ts (Wcol d c) (S x) g2 Hgo eq_refl (HW c Hc) Hx3 (si_lits _ _ _ _ Hinv) (si_edges _ _ _ _ Hinv))
      as (g3 & E3 & X3 & L3 & I3 & T3 & _ & D3).
    rewrite E3.
    assert (O3 : out_edges g3 (NData d) = OE d cs).
    { rewrite Es in E3. cbn [fold_left] in E3. apply (acl_oed d cs g2 s c g3 E3 Ho Hc).
      intros p Hp. apply (go_target _ _ Hgo). apply (proj2 (Hx3 s ltac:(rewrite Es; left; reflexivity))). exact Hp. }
    assert (Hinv3 : sel_inv PC d ts g3) by (apply (sel_inv_ext PC d ts g2 g3 _ Hinv X3 L3 I3 (D3 (si_drop _ _ _ _ Hinv)))).
    assert (Hw3 : sq_write g3 = [d]) by (unfold sq_write; rewrite T3; exact Hw).
    assert (Hr3 : memd d (sq_read g3) = false) by (unfold sq_read; rewrite T3; exact Hr).
    destruct (IH g3 (Datatypes.S idx) (fun y Hy => Hl y (or_intror Hy)) Hinv3 Hw3 Hr3 O3 ltac:(lia)) as (g' & E' & X' & Hinv' & T' & O').
    exists g'. split; [exact E'|]. split.
    + rewrite (skipn_nth (map (Wcol d) cs) idx (Wcol d c) (map_nth_error (Wcol d) idx cs Ec)).
      unfold sel_edges. cbn [combine flat_map fst snd]. apply (ext_trans g2 g3 g'); assumption.
    + split; [exact Hinv'|]. split; [intros k; rewrite T', T3; reflexivity|exact O'].
Qed.

Lemma select_core_cols (PC : column -> Prop) e d ts cs cols (S : xcol -> list column) :
  p_truthy (e_provider e) = false -> group_ok d ts -> Forall data_ok ts -> dk d = KTable -> NoDup cs ->
  List.length cols = List.length cs -> (forall c, PC c -> col_qk c) ->
  (forall g2, sel_inv PC d ts g2 -> forall x, In x cols -> to_source_columns e x (get_alias_mapping g2 ts) = Ok (S x)) ->
  (forall x, In x cols -> (exists s, S x = [s]) /\ forall s, In s (S x) -> PC s /\ forall p, In p (cparents s) -> In p ts) ->
  (forall c, In c cs -> PC (Wcol d c)) ->
  exists sub, (do g2 <- end_of_query_cleanup e (gb_of d cs) ts cols []; expand_wildcard e g2) = Ok sub /\
              ext (gb_of d cs) sub (map (fun v => (NData v, NStr (dalias v))) ts ++ sel_edges d S (combine cols (map (Wcol d) cs))) /\
              sel_inv PC d ts sub.
Proof.
  intros Hp Hgo Hdo Hd Hnd Hlen HPC HS HX HW. set (g_b := gb_of d cs).
  destruct (gb_facts d cs Hd Hnd) as (A & B & C & D & O). fold g_b in A, B, C, D, O.
  assert (Lb : lits_in (QK (d :: ts) PC) g_b).
  { split.
    - intros n Hn. rewrite B in Hn. destruct Hn as [<-|Hn]; [left; reflexivity|]. apply in_map_iff in Hn. destruct Hn as (c & <- & Hc). apply HW. exact Hc.
    - intros e0 He0. rewrite A in He0. destruct (OE_edge d cs e0 He0) as (j & c & Hc & ->). cbn [fst snd QK]. split; [left; reflexivity|apply HW; exact Hc]. }
  assert (Eb : edges_inv ts g_b).
  { intros e0 He0. rewrite A in He0. destruct (OE_edge d cs e0 He0) as (j & c & Hc & ->). unfold edge_inv. cbn [fst snd etype e_has_column]. right. reflexivity. }
  destruct (add_reads_ok PC d ts ts g_b Hgo Hdo (fun v Hv => Hv) Lb Eb) as (A1 & A2 & A3 & A4 & A5 & A6).
  rewrite eoq_single. cbv zeta. set (g0 := fold_left add_read ts g_b) in *.
  assert (Hw : sq_write g0 = [d]) by (unfold sq_write; rewrite A4 by discriminate; rewrite C; reflexivity).
  rewrite Hw.
  assert (Hr : memd d (sq_read g0) = false).
  { destruct (memd d (sq_read g0)) eqn:E; [|reflexivity]. exfalso. apply memd_In_eqb in E. destruct E as (v & Hv & Ev).
    unfold sq_read, g0 in Hv. apply reads_after_add_reads in Hv; [|exact (go_tables _ _ Hgo)].
    destruct Hv as [Hv|(w & Hw' & Ew)]; [rewrite C in Hv; destruct Hv|].
    assert (K : dataset_eqb w d = true) by (apply (dataset_eqb_trans w v d Ew); apply dataset_eqb_true_sym; exact Ev).
    rewrite (go_target _ _ Hgo w Hw') in K. discriminate. }
  assert (Hinv0 : sel_inv PC d ts g0).
  { constructor; [exact A1|exact A2| |exact (A6 D)]. intros v Hv.
    assert (Hin : In (NData v, NStr (dalias v)) (map (fun v => (NData v, NStr (dalias v))) ts)) by (apply in_map_iff; exists v; auto).
    split.
    - rewrite (ext_edges _ _ _ A3). apply orb_true_iff. right. unfold ematch. apply existsb_exists. eexists. split; [exact Hin|].
      cbn [fst snd]. rewrite !node_eqb_refl. reflexivity.
    - exact (proj1 (ext_new _ _ _ A3 _ Hin)). }
  destruct (eoq_fold_cols PC e d ts cs cols S Hgo Hd Hlen HS HX HW cols g0 0 (fun x Hx => Hx) Hinv0 Hw Hr) as (g' & E' & X' & Hinv' & T' & O').
  - rewrite A5. exact O.
  - reflexivity.
  - rewrite E'. rewrite (expand_wildcard_id e g' Hp (QK_col_qk _ PC g' HPC (si_lits _ _ _ _ Hinv'))).
    exists g'. split; [reflexivity|]. split; [|exact Hinv']. cbn [skipn] in X'. apply (ext_trans g_b g0 g'); assumption.
Qed.

Section NavK.
Variable noise : list seg.
Hypothesis Hnoise : noise_ok noise = true.
Variable e : env.
Hypothesis Henv : env_ok e = true.

Lemma ci_cols_exact f stmt g cs :
  forallb id_ok cs = true ->
  ci_step (S f) e stmt (Ok (g, false, false)) (r_cols noise cs) = Ok (add_write_column g (cl_of cs), false, false).
Proof.
  intros Hcs. unfold ci_step. change (tyis (r_cols noise cs) "with_compound_statement") with false. change (tyis (r_cols noise cs) "bracketed") with true.
  assert (E1 : existsb (fun c => tyis c "with_compound_statement") (children (r_cols noise cs)) = false).
  { unfold r_cols. cbn [children node]. rewrite (existsb_sep noise Hnoise) by (intros x Hx; apply noise_tyis; [exact Hx|reflexivity]).
    apply existsb_Forall_false. apply Forall_col_children; reflexivity. }
  rewrite E1. cbn [andb]. change (ty_in (r_cols noise cs) ["select_statement"; "set_expression"]) with false.
  change (tyis (r_cols noise cs) "values_clause") with false. cbn iota. cbn [flat_map].
  rewrite (clean_crawl _ _ (r_cols noise cs)) by (apply (clean_cols noise Hnoise); reflexivity). cbn [app]. rewrite (lcs_cols noise Hnoise).
  assert (E2 : forallb (fun x => ty_in x ["column_reference"; "column_definition"]) (map (r_colref None) cs) = true).
  { apply forallb_forall. intros x Hx. apply in_map_iff in Hx. destruct Hx as (c & <- & _). reflexivity. }
  rewrite E2.
  match goal with |- context [map_res ?F (map (r_colref None) cs)] =>
    assert (E3 : map_res F (map (r_colref None) cs) = Ok (cl_of cs)) end.
  { clear -Hcs. induction cs as [|c r IH]; [reflexivity|]. cbn [forallb] in Hcs. apply andb_true_iff in Hcs. destruct Hcs as [Hc Hr].
    cbn [map map_res]. change (tyis (r_colref None c) "column_definition") with false. cbn iota.
    unfold column_of_seg at 1. change (tyis (r_colref None c) "select_clause_element") with false. cbn iota.
    cbn [extract_sources]. change (ty_in (r_colref None c) ["identifier"; "column_reference"]) with true. cbn [orb].
    rewrite (ecq_colref None c). rewrite (IH Hr). cbn [xc mk_xcol cl_of map].
    assert (Er : raw (r_colref None c) = c) by (cbn; apply append_nil_r). rewrite Er, (id_ok_escape c Hc). reflexivity. }
  rewrite E3. reflexivity.
Qed.

Lemma delegate_select_g F stmt g items from cj k :
  forallb item_ok items = true -> from <> [] -> forallb rel_ok from = true ->
  init_holder (dctx g) = g -> sq_cte g = [] ->
  (do r <- ci_step (S (S (S F))) e stmt (Ok (g, false, false)) (r_query noise (S k) (QSelect items from cj None));
   Ok (fst (fst r))) =
  (do sub <- (do g2 <- end_of_query_cleanup e g (map (tbl_of e) from) (map xcol_of items) []; expand_wildcard e g2);
   Ok (compose g sub)).
Proof.
  intros Hit Hne Hrel Hi Hc. rewrite (ci_select noise e). unfold ex_delegate. fold (dctx g).
  rewrite (select_tables_extract noise Hnoise e Henv (S F) _ items from cj k (dctx g)); try assumption.
  - rewrite Hi. destruct (end_of_query_cleanup e _ _ _ []) as [g2|err]; [|reflexivity]. destruct (expand_wildcard e g2); reflexivity.
  - rewrite r_query_select. apply (sel_segments_select noise Hnoise items k from cj None).
  - rewrite Hi. exact Hc.
Qed.

Definition sel_holder_cols (t : tref) (cs : list string) (items : list item) (from : list rel) : res graph :=
  do sub <- (do g2 <- end_of_query_cleanup e (gb_of (tbl e t None) cs) (map (tbl_of e) from) (map xcol_of items) [];
             expand_wildcard e g2);
  Ok (compose (gb_of (tbl e t None) cs) sub).

Lemma analyze_insert_cols t cs items from cj :
  tref_ok t = true -> forallb id_ok cs = true -> NoDup cs ->
  forallb item_ok items = true -> from <> [] -> forallb rel_ok from = true ->
  analyze e false (r_stmt noise (SInsert t (Some cs) (QSelect items from cj None))) = sel_holder_cols t cs items from.
Proof.
  intros Ht Hcs Hnd Hit Hne Hrel. set (q := QSelect items from cj None). set (k := q_size q). set (Q := r_query noise (S k) q).
  set (stmt := node "insert_statement" ["insert_statement"] (sep noise ([kw "insert"; kw "into"; r_tref t] ++ cols_part noise (Some cs) ++ [Q]))).
  assert (Es : r_stmt noise (SInsert t (Some cs) q) = stmt) by reflexivity. rewrite Es.
  assert (Ea : analyze e false stmt = extract (S (S (S (S (3 * depth stmt + 6))))) e XCreateInsert stmt empty_ctx).
  { replace (S (S (S (S (3 * depth stmt + 6))))) with (3 * depth stmt + 10) by lia. reflexivity. }
  set (F := 3 * depth stmt + 6) in *.
  rewrite Ea, extract_ci_eq. unfold stmt at 2. rewrite (lcs_node noise Hnoise) by reflexivity.
  rewrite !filter_app, (filter_nn_cols noise). cbn [cols_part filter app]. change (nn (kw "insert")) with true. change (nn (kw "into")) with true.
  change (nn (r_tref t)) with true. unfold Q at 1. rewrite (nn_rq noise). cbn iota. fold Q.
  change (init_holder empty_ctx) with empty_graph. cbn [app fold_left].
  rewrite (ci_kw_target e (S (S (S F))) stmt empty_graph false false "insert" eq_refl), (ci_kw_target e (S (S (S F))) stmt empty_graph true false "into" eq_refl).
  rewrite (ci_tref e Henv), (table_of_seg_exact e Henv t None Ht I).
  rewrite (ci_cols_exact (S (S F)) stmt _ cs Hcs).
  change (add_write_column (add_write empty_graph (tbl e t None)) (cl_of cs)) with (gb_of (tbl e t None) cs).
  unfold Q, q. unfold sel_holder_cols.
  assert (Hd : dk (tbl e t None) = KTable) by reflexivity.
  destruct (gb_facts (tbl e t None) cs Hd Hnd) as (_ & _ & C & _).
  apply (delegate_select_g F stmt (gb_of (tbl e t None) cs) items from cj k Hit Hne Hrel (init_delegate_cols _ cs Hd Hnd)).
  unfold sq_cte. rewrite C. reflexivity.
Qed.
End NavK.

Lemma S_of_single ts x : xref_ok ts x -> exists s, S_of ts x = [s].
Proof.
  intros (_ & c & qq & Hx & _ & Hq). unfold S_of. rewrite Hx. destruct qq as [q|].
  - destruct Hq as (v & Hv & Eq & Hu). rewrite (find_dalias ts q v Hv Eq (fun w Hw E => Hu w Hw (or_introl E))). eexists. reflexivity.
  - destruct Hq as [(d1 & ->)|[Hm _]]; [eexists; reflexivity|]. rewrite (multi_not_single ts _ _ _ Hm). eexists. reflexivity.
Qed.

Lemma In_combine_l_ex {A B} (l : list A) : forall (l' : list B) a, List.length l = List.length l' -> In a l -> exists b, In (a, b) (combine l l').
Proof.
  induction l as [|x r IH]; intros [|y r'] a Hl Ha; cbn [List.length] in Hl; try discriminate; [destruct Ha|].
  destruct Ha as [->|Ha]; [exists y; left; reflexivity|]. destruct (IH r' a ltac:(lia) Ha) as (b & Hb). exists b. right. exact Hb.
Qed.

Theorem model_pairs_insert_cols noise e t cs items from cj :
  noise_ok noise = true -> env_ok e = true ->
  tref_ok t = true -> forallb id_ok cs = true -> NoDup cs -> List.length cs = List.length items ->
  forallb item_ok items = true -> from <> [] -> forallb rel_ok from = true ->
  let d := tbl e t None in let ts := map (tbl_of e) from in let xs := map xcol_of items in
  group_ok d ts -> ts_inj ts -> names_nodot ts -> (forall x, In x xs -> xref_ok ts x) -> noqual ts xs ->
  script_pairs e false [] [r_stmt noise (SInsert t (Some cs) (QSelect items from cj None))] =
  uniq_sorted (sort_strings (map flow_str (flows_of (S_of ts) (combine xs (map (Wcol d) cs))))).
Proof.
  intros Hn He Ht Hcs Hnd Hlen Hit Hne Hrel d ts xs Hgo Hinj Hndot Hxs Hnq.
  set (e' := with_cols e (view_cols [] [])).
  assert (He' : env_ok e' = true) by exact He.
  assert (Hp : p_truthy (e_provider e') = false) by exact (proj1 (env_facts e' He')).
  assert (Hdo : Forall data_ok ts).
  { apply Forall_forall. intros v Hv. unfold data_ok. rewrite (go_tables _ _ Hgo v Hv).
    apply in_map_iff in Hv. destruct Hv as (r & <- & _). destruct r; reflexivity. }
  pose proof (analyze_insert_cols noise Hn e' He' t cs items from cj Ht Hcs Hnd Hit Hne Hrel) as Ea.
  unfold sel_holder_cols in Ea. change (tbl e' t None) with d in Ea. change (map (tbl_of e') from) with ts in Ea. fold xs in Ea.
  set (NM := unres_names ts xs).
  assert (Hlx : List.length xs = List.length cs) by (unfold xs; rewrite map_length; lia).
  assert (HW : forall c, In c cs -> PC4 ts NM (Wcol d c)) by (intros c _; left; exists d; auto).
  destruct (select_core_cols (PC4 ts NM) e' d ts cs xs (S_of ts) Hp Hgo Hdo eq_refl Hnd Hlx (fun c Hc => PC4_qk d ts NM c Hgo Hinj Hc)) as (sub & Esub & Xsub & Isub).
  - intros g2 Hinv x Hx. apply (HS_of (PC4 ts NM) e' d ts g2 x Hgo Hinj Hndot Hinv (Hxs x Hx)).
  - intros x Hx. split; [exact (S_of_single ts x (Hxs x Hx))|].
    destruct (S_of_props d ts xs x Hgo Hinj eq_refl Hx (Hxs x Hx)) as (_ & _ & _ & A4 & _). exact A4.
  - exact HW.
  - rewrite Esub in Ea.
    destruct (gb_facts d cs eq_refl Hnd) as (GA & GB & GC & GD & GO).
    assert (Hop : forall p0, In p0 (combine xs (map (Wcol d) cs)) -> In (fst p0) xs /\ exists c, In c cs /\ snd p0 = Wcol d c).
    { intros [x w] Hp0. split; [exact (in_combine_l _ _ _ _ Hp0)|]. apply in_combine_r in Hp0. apply in_map_iff in Hp0.
      destruct Hp0 as (c & <- & Hc). exists c. auto. }
    destruct (holder_realises d ts NM (combine xs (map (Wcol d) cs)) (S_of ts) (gb_of d cs) sub Hgo Hinj eq_refl) as (C1 & C2 & C3 & C4);
      [| | | | | | | |exact Xsub|exact Isub|].
    + intros p0 Hp0. destruct (Hop p0 Hp0) as [Hx (c & _ & Ep)].
      destruct (S_of_props d ts xs (fst p0) Hgo Hinj eq_refl Hx (Hxs _ Hx)) as (_ & _ & _ & _ & A5). split; [|exact A5].
      rewrite Ep. eexists. reflexivity.
    + intros nm Hnm. unfold NM, unres_names in Hnm.
      assert (Hns : forall (A : Type) (f : dataset -> A) (g : A), In nm (match ts with [_] => [] | _ => [nm] end) -> match ts with [d1] => f d1 | _ => g end = g).
      { intros A f g. destruct ts as [|a [|b r]]; [reflexivity|intros []|reflexivity]. }
      assert (Hin : In nm (flat_map (fun x => match xsrc x with [(c, None)] => [c] | _ => [] end) xs) /\ In nm (match ts with [_] => [] | _ => [nm] end)).
      { destruct ts as [|a [|b r]]; [split; [exact Hnm|left; reflexivity]|destruct Hnm|split; [exact Hnm|left; reflexivity]]. }
      destruct Hin as [Hin Hsh]. apply in_flat_map in Hin. destruct Hin as (x & Hx & Hin).
      destruct (In_combine_l_ex xs (map (Wcol d) cs) x ltac:(rewrite map_length; exact Hlx) Hx) as (w & Hw). exists (x, w).
      split; [exact Hw|]. cbn [fst].
      unfold S_of. destruct (xsrc x) as [|[c qq] rest]; [destruct Hin|]. destruct qq as [q|]; [destruct Hin|].
      destruct rest as [|p r]; [|destruct Hin]. destruct Hin as [->|[]].
      rewrite (Hns _ _ _ Hsh). left. reflexivity.
    + intros p' s' nm v Hnm Hp' Hs' Ev. destruct (Hop p' Hp') as [Hx' _]. set (x' := fst p') in *. unfold NM, unres_names in Hnm.
      assert (Hm : In nm (flat_map (fun x => match xsrc x with [(c, None)] => [c] | _ => [] end) xs) /\ (forall d1, ts <> [d1])).
      { destruct ts as [|a [|b r]]; [split; [exact Hnm|discriminate]|destruct Hnm|split; [exact Hnm|discriminate]]. }
      destruct Hm as [Hin Hns]. apply in_flat_map in Hin. destruct Hin as (x & Hx & Hin).
      destruct (Hxs x Hx) as (_ & c & qq & Ex & _ & Hq). rewrite Ex in Hin. destruct qq as [q|]; [destruct Hin|]. destruct Hin as [->|[]].
      destruct Hq as [(d1 & Ed)|[Hmul _]]; [exfalso; exact (Hns d1 Ed)|].
      destruct (Hxs x' Hx') as (_ & c' & qq' & Ex' & _ & Hq'). unfold S_of in Hs'. rewrite Ex' in Hs'. destruct qq' as [q'|].
      * destruct Hq' as (v' & Hv' & Eq' & Hu'). rewrite (find_dalias ts q' v' Hv' Eq' (fun w Hw E => Hu' w Hw (or_introl E))) in Hs'.
        destruct Hs' as [<-|[]]. cbn [craw]. apply (Hnq x x' nm c' q' Hx Hx' Ex Ex' Hmul).
      * rewrite (multi_not_single ts _ _ _ Hmul) in Hs'. destruct Hs' as [<-|[]].
        destruct (Ucol_props ts c' Hinj) as (_ & _ & U3). destruct Hmul as (a & b & Ha & Hb & Hab).
        pose proof (two_members _ a b (proj2 (U3 a) Ha) (proj2 (U3 b) Hb) Hab) as Hl. rewrite Ev in Hl. cbn in Hl. lia.
    + split.
      * intros n Hn0. rewrite GB in Hn0. destruct Hn0 as [<-|Hn0]; [left; reflexivity|]. apply in_map_iff in Hn0. destruct Hn0 as (c & <- & Hc). apply HW. exact Hc.
      * intros e0 He0. rewrite GA in He0. destruct (OE_edge d cs e0 He0) as (j & c & Hc & ->). cbn [fst snd QK]. split; [left; reflexivity|apply HW; exact Hc].
    + exact GD.
    + intros e0 He0. rewrite GA in He0. destruct (OE_edge d cs e0 He0) as (j & c & _ & ->). reflexivity.
    + intros x y Hx. destruct (has_edge (gb_of d cs) x y) eqn:E; [|reflexivity]. apply has_edge_In in E. destruct E as (e0 & He0 & E1 & _).
      rewrite GA in He0. destruct (OE_edge d cs e0 He0) as (j & c & _ & ->). cbn [fst] in E1. destruct x; try discriminate.
    + intros p c Hp0. destruct (has_edge (gb_of d cs) (NData p) (NCol c)) eqn:E; [|reflexivity]. apply has_edge_In in E. destruct E as (e0 & He0 & E1 & _).
      rewrite GA in He0. destruct (OE_edge d cs e0 He0) as (j & c0 & _ & ->). cbn [fst node_eqb] in E1.
      rewrite (go_target _ _ Hgo p Hp0) in E1. discriminate.
    + apply (script_pairs_of_holder e _ _ _ Ea (proj1 (env_facts e He)) C1 C2 C3 C4).
Qed.

(** ** the specification with an explicit column list *)
Lemma item_corr_n e t from i nm :
  forallb rel_ok from = true -> item_ok i = true -> tables_cond (e_cfg e) t from ->
  (match snd (item_ref i) with
   | Some q => qual1 from q
   | None => (exists r, from = [r]) \/ (2 <= List.length from /\ fst (item_ref i) <> "*")
   end) ->
  exists srcs, item_cols (map (sbind (e_cfg e)) from) i = [(item_name i, srcs)] /\
    map (fun sr => (show_src sr ++ ">" ++ tref_str (e_cfg e) t ++ "." ++ nm)%string) srcs =
    map flow_str (map (fun s => (s, Wcol (tbl e t None) nm)) (S_of (map (tbl_of e) from) (xcol_of i))).
Proof.
  intros Hrel Hi Htc Hc. destruct (xcol_of_facts i Hi) as (F1 & F2 & F3 & F4).
  assert (Hrt : forallb is_rtable from = true).
  { rewrite forallb_forall in *. intros r Hr. apply rel_ok_table. apply Hrel. exact Hr. }
  pose proof Hrel as Hrel0. unfold S_of. rewrite F2. rewrite forallb_forall in Hrel.
  destruct i as [[qq c| | | | | |] al|qq]; cbn [item_ok] in Hi; try discriminate; cbn [item_ref item_name fst snd] in *.
  - destruct qq as [q|].
    + destruct Hc as (r0 & Hr0 & En & Hu).
      rewrite (find_dalias (map (tbl_of e) from) q (tbl_of e r0)).
      * rewrite (tbl_of_table e r0 (rel_ok_table _ (Hrel r0 Hr0))).
        cbn [item_cols col_refs flat_map app resolve fst snd].
        rewrite (find_binding_q (e_cfg e) from q r0 Hrt F4 Hr0 En Hu). eexists. split; [reflexivity|reflexivity].
      * apply in_map. exact Hr0.
      * rewrite (tbl_of_table e r0 (rel_ok_table _ (Hrel r0 Hr0))). exact En.
      * intros w Hw Ew. apply in_map_iff in Hw. destruct Hw as (r & <- & Hr).
        rewrite (Hu r Hr); [reflexivity|]. left. rewrite (tbl_of_table e r (rel_ok_table _ (Hrel r Hr))) in Ew. exact Ew.
    + destruct Hc as [(r & ->)|[Hl _]].
      * cbn [map]. rewrite (tbl_of_table e r (rel_ok_table _ (Hrel r (or_introl eq_refl)))).
        cbn [item_cols col_refs flat_map app resolve fst snd map]. eexists. split; [reflexivity|reflexivity].
      * rewrite (multi_not_single _ _ _ _ (multi_of e t from Hrel0 Htc Hl)).
        pose proof (ts_inj_of e t from Hrel0 Htc) as Hinj. destruct Htc as [Hnd _].
        cbn [item_cols col_refs flat_map app]. rewrite (resolve_unres (e_cfg e) from c Hl Hnd).
        eexists. split; [reflexivity|]. cbn [dedup_src existsb app map flat_map fst snd]. unfold flow_str. cbn [fst snd src_str].
        assert (Hl2 : 2 <= List.length (cparents (Ucol (map (tbl_of e) from) c))).
        { destruct (Ucol_props (map (tbl_of e) from) c Hinj) as (_ & _ & U3).
          destruct from as [|r1 [|r2 rest]]; cbn [List.length] in Hl; try lia.
          apply (two_members _ (tbl_of e r1) (tbl_of e r2)); [apply U3; left; reflexivity|apply U3; right; left; reflexivity|].
          cbn [forallb] in Hrel0. apply andb_true_iff in Hrel0. destruct Hrel0 as [H1 Hrel0]. apply andb_true_iff in Hrel0. destruct Hrel0 as [H2 _].
          rewrite (tbl_of_table e r1 (rel_ok_table _ H1)), (tbl_of_table e r2 (rel_ok_table _ H2)). intros E.
          apply (f_equal dstr) in E. cbn [tbl dstr] in E. cbn [map] in Hnd. inversion Hnd. apply H3. left. symmetry. exact E. }
        rewrite (col_parent_none _ Hl2), (proj1 (Ucol_props _ c Hinj)).
        rewrite (unres_strs _ c Hinj) by (rewrite (map_dstr_tbl e from Hrel0); exact Hnd).
        rewrite (map_dstr_tbl e from Hrel0). reflexivity.
  - destruct qq as [q|].
    + destruct Hc as (r0 & Hr0 & En & Hu).
      rewrite (find_dalias (map (tbl_of e) from) q (tbl_of e r0)).
      * rewrite (tbl_of_table e r0 (rel_ok_table _ (Hrel r0 Hr0))).
        cbn [item_cols]. rewrite (find_binding_q (e_cfg e) from q r0 Hrt F4 Hr0 En Hu). eexists. split; [reflexivity|reflexivity].
      * apply in_map. exact Hr0.
      * rewrite (tbl_of_table e r0 (rel_ok_table _ (Hrel r0 Hr0))). exact En.
      * intros w Hw Ew. apply in_map_iff in Hw. destruct Hw as (r & <- & Hr).
        rewrite (Hu r Hr); [reflexivity|]. left. rewrite (tbl_of_table e r (rel_ok_table _ (Hrel r Hr))) in Ew. exact Ew.
    + destruct Hc as [(r & ->)|[_ Hs]]; [|exfalso; apply Hs; reflexivity].
      cbn [map]. rewrite (tbl_of_table e r (rel_ok_table _ (Hrel r (or_introl eq_refl)))).
      cbn [item_cols map flat_map sbind b_rel app]. eexists. split; [reflexivity|reflexivity].
Qed.

Lemma combine_map {A B C D} (f : A -> C) (g : B -> D) (l : list A) : forall (l' : list B),
  combine (map f l) (map g l') = map (fun p => (f (fst p), g (snd p))) (combine l l').
Proof. induction l as [|a r IH]; intros [|b r']; cbn [map combine]; [reflexivity|reflexivity|reflexivity|]. rewrite IH. reflexivity. Qed.

Lemma nodup_s_NoDup l : nodup_s l = true -> NoDup l.
Proof.
  induction l as [|x r IH]; intros H; [constructor|]. cbn [nodup_s] in H. apply andb_true_iff in H. destruct H as [H1 H2].
  constructor; [|apply IH; exact H2]. apply negb_true_iff in H1. apply mem_string_false in H1. exact H1.
Qed.

(** the select list of such a statement has one output column per item *)
Lemma item_cols_single e t from items :
  forallb rel_ok from = true -> forallb item_ok items = true -> tables_cond (e_cfg e) t from -> items_cond from items ->
  forall i, In i items -> exists srcs, item_cols (map (sbind (e_cfg e)) from) i = [(item_name i, srcs)].
Proof.
  intros Hrel Hit Htc Hic i Hi. rewrite forallb_forall in Hit.
  destruct (item_corr_n e t from i "" Hrel (Hit i Hi) Htc (Hic i Hi)) as (srcs & E & _). exists srcs. exact E.
Qed.

Lemma length_flat_single {A B} (f : A -> list B) l : (forall x, In x l -> exists y, f x = [y]) -> List.length (flat_map f l) = List.length l.
Proof.
  induction l as [|a r IH]; intros H; [reflexivity|]. cbn [flat_map List.length]. destruct (H a (or_introl eq_refl)) as (y & ->).
  cbn [app List.length]. rewrite IH; [reflexivity|]. intros x Hx. apply H. right. exact Hx.
Qed.

Lemma spec_strs_insert_cols ds t cs items from cj :
  forallb is_rtable from = true -> List.length cs = List.length items ->
  (forall i, In i items -> exists srcs, item_cols (map (sbind ds) from) i = [(item_name i, srcs)]) ->
  map (fun p => (show_src (fst p) ++ ">" ++ snd p)%string) (spec_flows ds (SInsert t (Some cs) (QSelect items from cj None))) =
  flat_map (fun ic : item * string =>
              map (fun sr => (show_src sr ++ ">" ++ tref_str ds t ++ "." ++ snd ic)%string)
                  (flat_map snd (item_cols (map (sbind ds) from) (fst ic)))) (combine items cs).
Proof.
  intros Hrt Hlen Hs. unfold spec_flows. rewrite (q_cols_select _ ds items from cj None Hrt).
  set (IC := item_cols (map (sbind ds) from)) in *.
  assert (Hl : List.length (flat_map IC items) = List.length items).
  { apply length_flat_single. intros i Hi. destruct (Hs i Hi) as (srcs & E). eexists. exact E. }
  rewrite Hl, Hlen, Nat.eqb_refl. clear Hl.
  revert cs Hlen. induction items as [|i r IH]; intros [|c cr] Hlen; cbn [List.length] in Hlen; try discriminate; [reflexivity|].
  destruct (Hs i (or_introl eq_refl)) as (srcs & E). cbn [flat_map combine fst snd]. rewrite E. cbn [app combine flat_map fst snd map].
  rewrite map_app, app_nil_r. f_equal; [rewrite map_map; reflexivity|].
  apply IH; [intros i' Hi'; apply Hs; right; exact Hi'|lia].
Qed.

Theorem lemma_B_insert_cols noise e t cs items from cj :
  noise_ok noise = true -> env_ok e = true ->
  tref_ok t = true -> forallb id_ok cs = true -> NoDup cs -> List.length cs = List.length items ->
  forallb item_ok items = true -> from <> [] -> forallb rel_ok from = true ->
  tables_cond (e_cfg e) t from -> items_cond from items -> noqual_items from items ->
  let s := SInsert t (Some cs) (QSelect items from cj None) in
  script_pairs e false [] [r_stmt noise s] = spec_pairs (e_cfg e) s.
Proof.
  intros Hn He Ht Hcs Hnd Hlen Hit Hne Hrel Htc Hic Hnq s.
  assert (Hrt : forallb is_rtable from = true).
  { rewrite forallb_forall in *. intros r Hr. apply rel_ok_table. apply Hrel. exact Hr. }
  unfold s. rewrite (model_pairs_insert_cols noise e t cs items from cj Hn He Ht Hcs Hnd Hlen Hit Hne Hrel (group_ok_of e t from Hrel Htc)
             (ts_inj_of e t from Hrel Htc) (names_nodot_of e from Hrel)
             (xref_ok_of e t from items Hrel Hit Htc Hic) (noqual_of e from items Hit Hnq)).
  unfold spec_pairs. rewrite (spec_strs_insert_cols (e_cfg e) t cs items from cj Hrt Hlen (item_cols_single e t from items Hrel Hit Htc Hic)).
  f_equal. f_equal. unfold flows_of. rewrite combine_map, flat_map_map', map_flat_map'. cbn [fst snd].
  apply flat_map_ext_in'. intros [i c] Hic'. cbn [fst snd]. pose proof (in_combine_l _ _ _ _ Hic') as Hi.
  rewrite forallb_forall in Hit.
  destruct (item_corr_n e t from i c Hrel (Hit i Hi) Htc (Hic i Hi)) as (srcs & E1 & E2).
  rewrite E1. cbn [flat_map snd app]. rewrite app_nil_r. symmetry. exact E2.
Qed.

(* ================================================================== *)
(** * Part Z: the fragment in syntactic terms, the column list under [colshape], and the step theorems *)
Lemma colshape_cols (s : stmt) t cs items from cj :
  s = SInsert t (Some cs) (QSelect items from cj None) -> colshape s = true ->
  forallb rel_ok from = true -> forallb item_ok items = true -> tables_cond "" t from -> items_cond from items ->
  NoDup cs /\ List.length cs = List.length items.
Proof.
  intros -> Hc Hrel Hit Htc Hic. unfold colshape in Hc. apply andb_true_iff in Hc. destruct Hc as [Hc _].
  apply andb_true_iff in Hc. destruct Hc as [Hc _]. apply andb_true_iff in Hc. destruct Hc as [_ Hcc].
  cbn [cs_cols] in Hcc. apply andb_true_iff in Hcc. destruct Hcc as [H1 H2]. split; [apply nodup_s_NoDup; exact H1|].
  assert (Hrt : forallb is_rtable from = true).
  { rewrite forallb_forall in *. intros r Hr. apply rel_ok_table. apply Hrel. exact Hr. }
  apply Nat.eqb_eq in H2. rewrite H2. rewrite (q_cols_select _ "" items from cj None Hrt).
  apply length_flat_single. intros i Hi.
  destruct (item_cols_single (mk_env "ansi" "" "" {| p_truthy := false; p_cols := [] |} []) t from items Hrel Hit Htc Hic i Hi) as (srcs & E).
  eexists. exact E.
Qed.

(** the fragment of steps 1 - 4 in purely syntactic terms: INSERT (with or without column list) / CTAS / VIEW over one
    SELECT without WHERE from base tables, no table twice (no self join) *)
Definition sel_tables_syntactic (s : stmt) : bool :=
  match s with
  | SInsert _ _ (QSelect items from _ None) | SCtas _ (QSelect items from _ None) | SView _ (QSelect items from _ None) =>
      forallb is_rtable from && trefs_distinct (map rtref from)
  | _ => false
  end.

(** Lemma B on that fragment, as an instance of [lemma_B_statement] *)
Theorem lemma_B_tables_colshape : forall noise e s,
  noise_ok noise = true -> env_ok e = true -> stmt_ok s = true -> sshape s = true -> colshape s = true ->
  sel_tables_syntactic s = true ->
  script_pairs e false [] [r_stmt noise s] = spec_pairs (e_cfg e) s.
Proof.
  intros noise e s Hn He Hok _ Hc Hsh.
  assert (K : exists t items from cj,
            ((exists cols, s = SInsert t cols (QSelect items from cj None) /\ match cols with Some cs => forallb id_ok cs = true | None => True end)
             \/ s = SCtas t (QSelect items from cj None) \/ s = SView t (QSelect items from cj None)) /\
            forallb is_rtable from && trefs_distinct (map rtref from) = true /\
            tref_ok t && frag_query (S (q_size (QSelect items from cj None))) (QSelect items from cj None)
            && names_ok_q (S (q_size (QSelect items from cj None))) [] (QSelect items from cj None) = true).
  { destruct s as [t cols q|t q|t q|q|kind]; cbn [sel_tables_syntactic] in Hsh; try discriminate;
      destruct q as [items from cj [wh|]| |]; try discriminate; exists t, items, from, cj.
    - cbn [stmt_ok] in Hok. apply andb_true_iff in Hok. destruct Hok as [Hok Hcols]. split; [|split; [exact Hsh|exact Hok]].
      left. exists cols. split; [reflexivity|]. destruct cols; [exact Hcols|exact I].
    - cbn [stmt_ok] in Hok. split; [right; left; reflexivity|]. split; [exact Hsh|exact Hok].
    - cbn [stmt_ok] in Hok. split; [right; right; reflexivity|]. split; [exact Hsh|exact Hok]. }
  destruct K as (t & items & from & cj & Hs & Hsh' & Hok').
  apply andb_true_iff in Hsh'. destruct Hsh' as [Hrt Hd].
  destruct (stmt_ok_select t items from cj Hok' Hrt) as (Ht & Hit & Hne & Hrel).
  assert (Hs' : (exists cols, s = SInsert t cols (QSelect items from cj None)) \/ s = SCtas t (QSelect items from cj None) \/ s = SView t (QSelect items from cj None)).
  { destruct Hs as [(cols & E & _)|[E|E]]; [left; exists cols; exact E|right; left; exact E|right; right; exact E]. }
  destruct (colshape_tables (e_cfg e) s t items from cj Hs' Hc Ht Hne Hrel Hit Hd) as (Htc & Hic & Hnq).
  destruct Hs as [(cols & E & Hcols)|Hs].
  - destruct cols as [cs|].
    + destruct (colshape_tables "" s t items from cj Hs' Hc Ht Hne Hrel Hit Hd) as (Htc0 & _ & _).
      destruct (colshape_cols s t cs items from cj E Hc Hrel Hit Htc0 Hic) as [Hnd Hlen]. rewrite E.
      apply (lemma_B_insert_cols noise e t cs items from cj Hn He Ht Hcols Hnd Hlen Hit Hne Hrel Htc Hic Hnq).
    + apply (lemma_B_select_tables noise e s t items from cj Hn He (or_introl E) Ht Hit Hne Hrel Htc Hic Hnq).
  - apply (lemma_B_select_tables noise e s t items from cj Hn He (or_intror Hs) Ht Hit Hne Hrel Htc Hic Hnq).
Qed.

(** * The step theorems (each for an arbitrary trivia list [noise], any number of items / tables) *)
Definition items_plain_s (s : stmt) : bool :=
  match stmt_query s with
  | Some (QSelect items _ _ _) => forallb (fun i => match i with IExpr _ _ => true | IStar _ => false end) items
  | _ => true
  end.
Definition one_table (s : stmt) : bool :=
  match stmt_query s with Some (QSelect _ [RTable _ _] _ _) => true | _ => false end.
(** no unqualified item unless the scope has one table *)
Definition unq_single (s : stmt) : bool :=
  match stmt_query s with
  | Some (QSelect items from _ _) =>
      match from with
      | [_] => true
      | _ => forallb (fun i => match snd (item_ref i) with Some _ => true | None => false end) items
      end
  | _ => true
  end.

(** step 1: INSERT (with or without column list) / CTAS / VIEW over a single SELECT from ONE base table (optional schema,
    optional alias); the items are column references, qualified or not, with optional item aliases *)
Theorem lemma_B_step1 : forall noise e s,
  noise_ok noise = true -> env_ok e = true -> stmt_ok s = true -> sshape s = true -> colshape s = true ->
  sel_tables_syntactic s = true -> one_table s = true -> items_plain_s s = true ->
  script_pairs e false [] [r_stmt noise s] = spec_pairs (e_cfg e) s.
Proof. intros noise e s Hn He Hok Hss Hc Hsh _ _. apply lemma_B_tables_colshape; assumption. Qed.

(** step 2: the same with star items ([*] or [q.*]), alone or next to column references *)
Theorem lemma_B_step2 : forall noise e s,
  noise_ok noise = true -> env_ok e = true -> stmt_ok s = true -> sshape s = true -> colshape s = true ->
  sel_tables_syntactic s = true -> one_table s = true ->
  script_pairs e false [] [r_stmt noise s] = spec_pairs (e_cfg e) s.
Proof. intros noise e s Hn He Hok Hss Hc Hsh _. apply lemma_B_tables_colshape; assumption. Qed.

(** step 3: SELECT over several distinct base tables (explicit joins or comma joins) with qualified column references
    and [q.*] only *)
Theorem lemma_B_step3 : forall noise e s,
  noise_ok noise = true -> env_ok e = true -> stmt_ok s = true -> sshape s = true -> colshape s = true ->
  sel_tables_syntactic s = true -> unq_single s = true ->
  script_pairs e false [] [r_stmt noise s] = spec_pairs (e_cfg e) s.
Proof. intros noise e s Hn He Hok Hss Hc Hsh _. apply lemma_B_tables_colshape; assumption. Qed.

(** step 4: the same with unqualified column references over several base tables: they stay unresolved and are printed
    with their candidates, c{t1,t2} *)
Theorem lemma_B_step4 : forall noise e s,
  noise_ok noise = true -> env_ok e = true -> stmt_ok s = true -> sshape s = true -> colshape s = true ->
  sel_tables_syntactic s = true ->
  script_pairs e false [] [r_stmt noise s] = spec_pairs (e_cfg e) s.
Proof. exact lemma_B_tables_colshape. Qed.

(* ================================================================== *)
(** * Part Q: statements without a target *)
Lemma lineage_no_columns g : lits_in (fun n => is_column n = false) g -> column_lineage g true false = [].
Proof.
  intros [H _]. unfold column_lineage. cbv zeta.
  assert (E : map fst (gnodes (column_graph g)) = []).
  { unfold column_graph, subgraph. cbn [gnodes]. rewrite (filter_none _ (gnodes g)); [reflexivity|].
    intros [n a] Hin. cbn [fst]. apply H. apply in_map_iff. exists (n, a). auto. }
  rewrite E. reflexivity.
Qed.

Theorem lemma_B_nodata : forall noise e k, script_pairs e false [] [r_stmt noise (SNoData k)] = spec_pairs (e_cfg e) (SNoData k).
Proof. intros noise e k. reflexivity. Qed.

Lemma lits_add_read (Q : Graph.node -> Prop) g v : lits_in Q g -> Q (NData v) -> Q (NStr (dalias v)) -> lits_in Q (add_read g v).
Proof.
  intros Hg H1 H2. unfold add_read. destruct (has_alias_attr v); [apply lits_add_edge; [apply lits_add_node; assumption|assumption|assumption]|apply lits_add_node; assumption].
Qed.

Lemma lits_add_reads (Q : Graph.node -> Prop) l : forall g, lits_in Q g -> (forall v, Q (NData v)) -> (forall s, Q (NStr s)) -> lits_in Q (fold_left add_read l g).
Proof. induction l as [|v r IH]; intros g Hg H1 H2; cbn [fold_left]; [exact Hg|]. apply IH; auto. apply lits_add_read; auto. Qed.

Lemma add_reads_write l : forall g, (forall v, In v l -> dk v = KTable) -> holder_nodes (fold_left add_read l g) "write" = holder_nodes g "write".
Proof.
  induction l as [|v r IH]; intros g H; cbn [fold_left]; [reflexivity|]. rewrite IH by (intros w Hw; apply H; right; exact Hw).
  rewrite (add_read_table g v (H v (or_introl eq_refl))), tag_add_edge. apply tag_add_other. discriminate.
Qed.

Lemma add_reads_drop l : forall g, (forall v, In v l -> dk v = KTable) -> drop_free g -> drop_free (fold_left add_read l g).
Proof.
  induction l as [|v r IH]; intros g H Hd; cbn [fold_left]; [exact Hd|]. apply IH; [intros w Hw; apply H; right; exact Hw|].
  rewrite (add_read_table g v (H v (or_introl eq_refl))). apply drop_free_add_edge. apply drop_free_add_node; [exact Hd|]. intros [K|[]]. discriminate K.
Qed.

Lemma add_reads_etypes l : forall g, (forall v, In v l -> dk v = KTable) ->
  (forall e0, In e0 (gedges g) -> etype (snd e0) = "has_alias") -> forall e0, In e0 (gedges (fold_left add_read l g)) -> etype (snd e0) = "has_alias".
Proof.
  induction l as [|v r IH]; intros g H Hg; cbn [fold_left]; [exact Hg|]. apply IH; [intros w Hw; apply H; right; exact Hw|].
  rewrite (add_read_table g v (H v (or_introl eq_refl))). intros e0 He0. unfold add_edge in He0. cbn [gedges add_node] in He0.
  apply In_upsert_edge' in He0. destruct He0 as [->|[He0|(e1 & He1 & _ & ->)]]; [reflexivity|apply Hg; exact He0|reflexivity].
Qed.

Theorem lemma_B_query_tables noise e items from cj :
  noise_ok noise = true -> env_ok e = true ->
  stmt_ok (SQuery (QSelect items from cj None)) = true -> forallb is_rtable from = true ->
  script_pairs e false [] [r_stmt noise (SQuery (QSelect items from cj None))] = spec_pairs (e_cfg e) (SQuery (QSelect items from cj None)).
Proof.
  intros Hn He Hok Hrt. set (e' := with_cols e (view_cols [] [])).
  assert (He' : env_ok e' = true) by exact He.
  assert (Hok' : tref_ok (None, "x") && frag_query (S (q_size (QSelect items from cj None))) (QSelect items from cj None)
                 && names_ok_q (S (q_size (QSelect items from cj None))) [] (QSelect items from cj None) = true) by exact Hok.
  destruct (stmt_ok_select (None, "x") items from cj Hok' Hrt) as (_ & Hit & Hne & Hrel).
  set (q := QSelect items from cj None). set (k := q_size q). set (stmt := r_stmt noise (SQuery q)).
  assert (Hst : stmt = node "select_statement" ["select_statement"] (sep noise ([r_sc noise items; r_fc noise k from cj] ++ r_wh noise k None)))
    by (unfold stmt, r_stmt; apply r_query_select).
  assert (Ea : analyze e' false stmt = extract (S (S (3 * depth stmt + 8))) e' XSelect stmt empty_ctx).
  { replace (S (S (3 * depth stmt + 8))) with (3 * depth stmt + 10) by lia. rewrite Hst. reflexivity. }
  assert (Hseg : sel_segments stmt = [r_sc noise items; r_fc noise k from cj]) by (rewrite Hst; apply (sel_segments_select noise Hn items k from cj None)).
  rewrite (select_tables_extract noise Hn e' He' _ stmt items from cj k empty_ctx Hseg Hit Hne Hrel eq_refl) in Ea.
  change (init_holder empty_ctx) with empty_graph in Ea. rewrite eoq_single in Ea. cbv zeta in Ea.
  set (ts := map (tbl_of e') from) in *. set (G := fold_left add_read ts empty_graph) in *.
  assert (Hk : forall v, In v ts -> dk v = KTable).
  { intros v Hv. apply in_map_iff in Hv. destruct Hv as (r & <- & Hr). rewrite forallb_forall in Hrt. specialize (Hrt r Hr). destruct r; try discriminate. reflexivity. }
  assert (Hw : sq_write G = []) by (unfold sq_write, G; rewrite add_reads_write by exact Hk; reflexivity).
  rewrite Hw in Ea. unfold expand_wildcard in Ea. unfold get_target_table in Ea. rewrite Hw in Ea. cbn [filter] in Ea.
  assert (HL : lits_in (fun n => is_column n = false) G) by (apply lits_add_reads; [apply lits_in_empty|reflexivity|reflexivity]).
  assert (Hc : clean_holder G).
  { split.
    - intros n a Hin. destruct (attr_true "drop" a) eqn:E; [|reflexivity]. exfalso. apply attr_true_In in E.
      exact (add_reads_drop ts empty_graph Hk (fun _ _ H => match H with end) n a Hin E).
    - intros e0 He0. rewrite (add_reads_etypes ts empty_graph Hk (fun _ H => match H with end) e0 He0). reflexivity. }
  assert (Hu : lits_in (unres_ok G) G).
  { apply (lits_weaken (fun n => is_column n = false)); [|exact HL]. intros n Hn0 u Hu0. destruct n; cbn in Hn0, Hu0; discriminate. }
  unfold script_pairs, script_graph. cbn [run_statements]. fold e'. fold stmt. rewrite Ea. cbn [rev app fst snd map].
  match goal with |- context [build ?P [holder_of G]] => destruct (build_one P G (proj1 (env_facts e He)) Hc Hu) as (gF & E & _ & _ & B3) end.
  rewrite E. rewrite (lineage_no_columns gF (B3 _ (fun d => eq_refl) HL)). reflexivity.
Qed.

(** all statement kinds over (at most) one SELECT from base tables *)
Definition single_select_fragment (s : stmt) : bool :=
  sel_tables_syntactic s ||
  match s with
  | SQuery (QSelect _ from _ None) => forallb is_rtable from
  | SNoData _ => true
  | _ => false
  end.

Theorem lemma_B_single_select : forall noise e s,
  noise_ok noise = true -> env_ok e = true -> stmt_ok s = true -> sshape s = true -> colshape s = true ->
  single_select_fragment s = true ->
  script_pairs e false [] [r_stmt noise s] = spec_pairs (e_cfg e) s.
Proof.
  intros noise e s Hn He Hok Hss Hc Hf. unfold single_select_fragment in Hf. apply orb_true_iff in Hf. destruct Hf as [Hf|Hf].
  - apply lemma_B_tables_colshape; assumption.
  - destruct s as [t cols q|t q|t q|q|kind]; try discriminate.
    + destruct q as [items from cj [wh|]| |]; try discriminate. apply lemma_B_query_tables; assumption.
    + apply lemma_B_nodata.
Qed.

Print Assumptions lemma_B_statement_refuted.
Print Assumptions lemma_B_step1.
Print Assumptions lemma_B_step2.
Print Assumptions lemma_B_step3.
Print Assumptions lemma_B_step4.
Print Assumptions lemma_B_tables_colshape.
Print Assumptions lemma_B_tables_restricted.
Print Assumptions lemma_B_select_tables.
Print Assumptions lemma_B_insert_cols.
Print Assumptions lemma_B_single_select.
