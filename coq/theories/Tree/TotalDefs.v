(** C10 on ALL segment trees, part 1: the executable escape conditions [escape_free], the result predicate [okr]
    ("a value, or one of the library's own exceptions") and its composition rules, and the closure of
    "escape-free and not deeper" under the navigation combinators of sqlfluff/utils.py. *)
From SV Require Import Tree.Observe Tree.TriviaProofs.
Require Import Lia.
Open Scope string_scope.
Open Scope list_scope.

(* ================================================================== *)
(** * allowed errors, result predicate *)
Definition allowed_err (k : string) : bool :=
  String.eqb k ELineage || String.eqb k EUnsupported || String.eqb k "ScalarOracleMissing".

Definition allowed (k : string) : Prop := allowed_err k = true.

(** [EValue]: networkx's ValueError for add_edge(None, ..) in holders.add_column_lineage - see the report; the
    holder-level results are stated with [allowedv], everything below the holders with [allowed] *)
Definition allowedv (k : string) : Prop := allowed_err k = true \/ k = EValue.

Definition okg (al : string -> Prop) {A} (Q : A -> Prop) (r : res A) : Prop :=
  match r with Ok a => Q a | Err k => al k end.
Notation okr := (okg allowed).
Notation okv := (okg allowedv).

Definition TT {A} : A -> Prop := fun _ => True.

Lemma allowed_lineage : allowed ELineage. Proof. reflexivity. Qed.
Lemma allowed_oracle : allowed "ScalarOracleMissing". Proof. reflexivity. Qed.
Lemma allowed_unsupported : allowed EUnsupported. Proof. reflexivity. Qed.

Section Gen.
Context {al : string -> Prop}.
Lemma okr_bind {A B} (Q : A -> Prop) (R : B -> Prop) (m : res A) (f : A -> res B) :
  okg al Q m -> (forall a, Q a -> okg al R (f a)) -> okg al R (match m with Ok x => f x | Err e => Err e end).
Proof. destruct m as [a|k]; cbn [okg]; intros H HF; [exact (HF a H)|exact H]. Qed.

Lemma okr_weaken {A} (Q R : A -> Prop) (r : res A) : (forall a, Q a -> R a) -> okg al Q r -> okg al R r.
Proof. destruct r as [a|k]; cbn [okg]; intros H K; [exact (H a K)|exact K]. Qed.

Lemma okr_TT {A} (Q : A -> Prop) (r : res A) : okg al Q r -> okg al TT r.
Proof. apply okr_weaken. intros a _. exact I. Qed.

Lemma okr_map_res {A B} (Q : B -> Prop) (f : A -> res B) l :
  (forall x, In x l -> okg al Q (f x)) -> okg al (Forall Q) (map_res f l).
Proof.
  induction l as [|x r IH]; intros H; cbn [map_res]; [constructor|].
  apply (okr_bind Q); [apply H; left; reflexivity|]. intros y Hy.
  apply (okr_bind (Forall Q)); [apply IH; intros z Hz; apply H; right; exact Hz|]. intros ys Hys.
  constructor; assumption.
Qed.

Lemma okr_filter_res {A} (f : A -> res bool) l :
  (forall x, In x l -> okg al TT (f x)) -> okg al (fun ys => forall y, In y ys -> In y l) (filter_res f l).
Proof.
  induction l as [|x r IH]; intros H; cbn [filter_res]; [intros y Hy; exact Hy|].
  apply (okr_bind TT); [apply H; left; reflexivity|]. intros b _.
  apply (okr_bind (fun ys => forall y, In y ys -> In y r)); [apply IH; intros z Hz; apply H; right; exact Hz|]. intros ys Hys.
  cbn [okg]. intros y Hy. destruct b; [destruct Hy as [<-|Hy]; [left; reflexivity|right; exact (Hys y Hy)]|right; exact (Hys y Hy)].
Qed.

Lemma okr_concat_res {A} (Q : A -> Prop) (l : list (res (list A))) :
  (forall r, In r l -> okg al (Forall Q) r) -> okg al (Forall Q) (concat_res l).
Proof.
  induction l as [|x r IH]; intros H; cbn [concat_res]; [constructor|].
  apply (okr_bind (Forall Q)); [apply H; left; reflexivity|]. intros a Ha.
  apply (okr_bind (Forall Q)); [apply IH; intros z Hz; apply H; right; exact Hz|]. intros b Hb.
  cbn [okg]. apply Forall_app. split; assumption.
Qed.

Lemma okr_concat_map {A B} (Q : B -> Prop) (f : A -> res (list B)) (l : list A) :
  (forall x, In x l -> okg al (Forall Q) (f x)) -> okg al (Forall Q) (concat_res (map f l)).
Proof.
  intros H. apply okr_concat_res. intros r Hr. apply in_map_iff in Hr. destruct Hr as (x & <- & Hx). exact (H x Hx).
Qed.

(** folds that thread a [res] state *)
Lemma okr_fold {A S} (Q : S -> Prop) (F : S -> A -> res S) l :
  (forall st x, In x l -> Q st -> okg al Q (F st x)) ->
  forall r0, okg al Q r0 -> okg al Q (fold_left (fun acc x => match acc with Ok st0 => F st0 x | Err e => Err e end) l r0).
Proof.
  induction l as [|x r IH]; intros H r0 H0; cbn [fold_left]; [exact H0|].
  apply IH; [intros st y Hy; apply H; right; exact Hy|].
  apply (okr_bind Q); [exact H0|]. intros a Ha. apply H; [left; reflexivity|exact Ha].
Qed.

(** a fold whose step is any function of the accumulated [res] that keeps errors *)
Lemma okr_fold_acc {A S} (Q : S -> Prop) (step : res S -> A -> res S) l :
  (forall r x, In x l -> okg al Q r -> okg al Q (step r x)) ->
  forall r0, okg al Q r0 -> okg al Q (fold_left step l r0).
Proof.
  induction l as [|x r IH]; intros H r0 H0; cbn [fold_left]; [exact H0|].
  apply IH; [intros r1 y Hy; apply H; right; exact Hy|]. apply H; [left; reflexivity|exact H0].
Qed.

(** folds over (state, index) pairs as the model writes them *)
Lemma okr_fold_idx {A S} (Q : S -> Prop) (F : S -> nat -> A -> res S) l :
  (forall st i x, In x l -> Q st -> okg al Q (F st i x)) ->
  forall rs idx, okg al Q rs ->
    okg al Q (fst (fold_left (fun (acc2 : res S * nat) x => let '(rs, idx) := acc2 in
                             (match rs with Ok st => F st idx x | Err e => Err e end, Datatypes.S idx)) l (rs, idx))).
Proof.
  induction l as [|x r IH]; intros H rs idx H0; cbn [fold_left fst]; [exact H0|].
  apply IH; [intros st i y Hy; apply H; right; exact Hy|].
  apply (okr_bind Q); [exact H0|]. intros a Ha. apply H; [left; reflexivity|exact Ha].
Qed.

End Gen.

Lemma okr_okv {A} (Q : A -> Prop) (r : res A) : okr Q r -> okv Q r.
Proof. destruct r as [a|k]; cbn [okg]; intros H; [exact H|left; exact H]. Qed.

(* ================================================================== *)
(** * the local escape conditions *)
Definition nonempty {A} (l : list A) : bool := match l with [] => false | _ :: _ => true end.
Notation FEE := "from_expression_element" (only parsing).
Notation ALIAS := "alias_expression" (only parsing).

(** the segment [extract_as_and_target_segment] takes as the target of a from_expression_element: the first
    non-negligible child, or the second one when the first is a keyword and a second one exists *)
Definition fee_target (x : seg) : option seg :=
  match list_child_segments x false with
  | [] => None
  | t0 :: r => Some (if tyis t0 "keyword" then match r with t1 :: _ => t1 | [] => t0 end else t0)
  end.

Definition fee_is_function_source (x : seg) : bool :=
  match get_child x ["table_expression"] with
  | Some te => match get_child te ["function"] with Some _ => true | None => false end
  | None => false
  end.

(** state machine of MergeExtractor.extract over the statement's children: [sf] = "a source is expected" (set by
    USING, reset by the next non-keyword child).  A bracketed source (not itself a table reference) reached in that
    state is followed by another child (merge.py reads segments[i + 1] for the alias). *)
Fixpoint merge_guard (segs : list seg) (sf : bool) : bool :=
  match segs with
  | [] => true
  | s :: r =>
      if tyis s "merge_match" then merge_guard r false
      else if tyis s "keyword" then merge_guard r (if String.eqb (raw_upper s) "USING" then true else sf)
      else
        (if sf && negb (ty_in s ["table_reference"; "object_reference"]) && tyis s "bracketed" then nonempty r else true)
        && merge_guard r false
  end.

Definition imp (a b : bool) : bool := negb a || b.

Definition local_ok (x : seg) : bool :=
  (* L1 utils.is_subquery: segment.segments[0] *)
  imp (tyis x FEE) (nonempty (children x))
  (* L2 utils.extract_identifier / base._add_dataset_from_expression_element: list_child_segments(alias)[-1] / [0] *)
  && imp (tyis x ALIAS || is_type x [ALIAS]) (nonempty (list_child_segments x true))
  (* L3 utils.extract_as_and_target_segment: sublist[0], target.segments[0] *)
  && imp (tyis x FEE || is_type x [FEE])
         (match fee_target x with Some t => nonempty (children t) | None => false end)
  (* L4 base._add_dataset_from_expression_element: all_segments[0] *)
  && imp (is_type x [FEE])
         (fee_is_function_source x || nonempty (filter (fun y => negb (tyis y "keyword")) (list_child_segments x true)))
  (* L5 utils.extract_column_qualifier: list_child_segments(column_reference)[-1] *)
  && imp (tyis x "column_reference") (nonempty (list_child_segments x true))
  (* L6 models.SqlFluffTable.of: table.segments[0]; Path(table_identifier.segments[-1]) *)
  && imp (ty_in x ["table_reference"; "object_reference"; "file_reference"] ) (nonempty (children x))
  (* L7 merge.py: segments[i + 1] *)
  && imp (tyis x "merge_statement") (merge_guard (list_child_segments x true) false).

Fixpoint escape_free (s : seg) : bool :=
  match s with
  | Seg _ _ _ _ _ _ _ ch => local_ok s && forallb escape_free ch
  end.

Lemma escape_free_eq s : escape_free s = local_ok s && forallb escape_free (children s).
Proof. destruct s; reflexivity. Qed.

Lemma depth_eq s : depth s = S (fold_right Nat.max 0 (map depth (children s))).
Proof. destruct s; reflexivity. Qed.

Lemma depth_child s c : In c (children s) -> depth c < depth s.
Proof.
  rewrite (depth_eq s). induction (children s) as [|x r IH]; intros H; [destruct H|].
  cbn [map fold_right].
  pose proof (Nat.le_max_l (depth x) (fold_right Nat.max 0 (map depth r))) as M1.
  pose proof (Nat.le_max_r (depth x) (fold_right Nat.max 0 (map depth r))) as M2.
  destruct H as [<-|H]; [lia|]. specialize (IH H). lia.
Qed.

Lemma depth_pos s : 1 <= depth s.
Proof. rewrite depth_eq. lia. Qed.

(** [D s x]: x is escape-free and not deeper than s; [Ds]: strictly less deep *)
Definition D (s x : seg) : Prop := escape_free x = true /\ depth x <= depth s.
Definition Ds (s x : seg) : Prop := escape_free x = true /\ depth x < depth s.

Lemma D_refl s : escape_free s = true -> D s s.
Proof. intros H. split; [exact H|lia]. Qed.
Lemma Ds_D s x : Ds s x -> D s x.
Proof. intros [H1 H2]. split; [exact H1|lia]. Qed.
Lemma D_trans s y x : D s y -> D y x -> D s x.
Proof. intros [_ H2] [K1 K2]. split; [exact K1|lia]. Qed.
Lemma Ds_D_trans s y x : Ds s y -> D y x -> Ds s x.
Proof. intros [_ H2] [K1 K2]. split; [exact K1|lia]. Qed.
Lemma D_Ds_trans s y x : D s y -> Ds y x -> Ds s x.
Proof. intros [_ H2] [K1 K2]. split; [exact K1|lia]. Qed.
Lemma D_ef s x : D s x -> escape_free x = true. Proof. intros [H _]; exact H. Qed.
Lemma Ds_ef s x : Ds s x -> escape_free x = true. Proof. intros [H _]; exact H. Qed.

Lemma ef_local s : escape_free s = true -> local_ok s = true.
Proof. rewrite escape_free_eq. intros H. apply andb_true_iff in H. exact (proj1 H). Qed.

Lemma Ds_child s c : escape_free s = true -> In c (children s) -> Ds s c.
Proof.
  intros H Hin. split; [|exact (depth_child s c Hin)].
  rewrite escape_free_eq in H. apply andb_true_iff in H. destruct H as [_ H]. rewrite forallb_forall in H. exact (H c Hin).
Qed.

Lemma Ds_get_children s ts x : escape_free s = true -> In x (get_children s ts) -> Ds s x.
Proof. intros H Hin. apply filter_In in Hin. exact (Ds_child s x H (proj1 Hin)). Qed.

Lemma get_child_in s ts x : get_child s ts = Some x -> In x (get_children s ts).
Proof. unfold get_child. destruct (get_children s ts) as [|y r]; [discriminate|]. intros H; inversion H. left; reflexivity. Qed.

Lemma get_child_type s ts x : get_child s ts = Some x -> is_type x ts = true.
Proof. intros H. apply get_child_in in H. apply filter_In in H. exact (proj2 H). Qed.

Lemma Ds_get_child s ts x : escape_free s = true -> get_child s ts = Some x -> Ds s x.
Proof. intros H E. exact (Ds_get_children s ts x H (get_child_in s ts x E)). Qed.

Lemma D_crawl ts b s : escape_free s = true -> forall x, In x (crawl ts b s) -> D s x /\ is_type x ts = true.
Proof.
  induction s as [t g c r w cm mt ch IH] using seg_ind'. intros H x Hx.
  rewrite crawl_eq in Hx. apply in_app_or in Hx. destruct Hx as [Hx|Hx].
  - destruct (is_type (Seg t g c r w cm mt ch) ts) eqn:E; [|destruct Hx]. destruct Hx as [<-|[]]. split; [apply D_refl; exact H|exact E].
  - destruct (b || negb _); [|destruct Hx]. apply in_flat_map in Hx. destruct Hx as (y & Hy & Hin).
    rewrite Forall_forall in IH. pose proof (Ds_child _ y H Hy) as Hd.
    destruct (IH y Hy (Ds_ef _ _ Hd) x Hin) as [K1 K2]. split; [|exact K2].
    apply Ds_D. exact (Ds_D_trans _ y x Hd K1).
Qed.

Lemma Ds_iter ts s : escape_free s = true -> forall x, In x (iter_expanding ts s) -> Ds s x.
Proof.
  induction s as [t g c r w cm mt ch IH] using seg_ind'. intros H x Hx.
  rewrite iter_eq in Hx. apply in_flat_map in Hx. destruct Hx as (y & Hy & Hin).
  rewrite Forall_forall in IH. pose proof (Ds_child _ y H Hy) as Hd.
  destruct (is_type y ts).
  - apply (Ds_D_trans _ y x Hd). apply Ds_D. exact (IH y Hy (Ds_ef _ _ Hd) x Hin).
  - destruct Hin as [<-|[]]. exact Hd.
Qed.

Lemma Ds_lcs s b x : escape_free s = true -> In x (list_child_segments s b) -> Ds s x.
Proof.
  intros H Hx. unfold list_child_segments in Hx.
  destruct (tyis s "bracketed" && b).
  - destruct (is_set_expression s).
    + apply filter_In in Hx. exact (Ds_child s x H (proj1 Hx)).
    + apply in_flat_map in Hx. destruct Hx as (y & Hy & Hin). pose proof (Ds_iter _ s H y Hy) as Hd.
      destruct (ty_in y _).
      * destruct Hin as [<-|[]]. exact Hd.
      * apply filter_In in Hin. apply (Ds_D_trans _ y x Hd). apply Ds_D. exact (Ds_child y x (Ds_ef _ _ Hd) (proj1 Hin)).
  - apply filter_In in Hx. exact (Ds_child s x H (proj1 Hx)).
Qed.

Lemma D_innermost k : forall s, escape_free s = true -> D s (innermost_fuel k s).
Proof.
  induction k as [|k IH]; intros s H; cbn [innermost_fuel]; [apply D_refl; exact H|].
  destruct (get_child s ["bracketed"]) as [p|] eqn:E.
  - pose proof (Ds_get_child s _ p H E) as Hd. exact (D_trans _ p _ (Ds_D _ _ Hd) (IH p (Ds_ef _ _ Hd))).
  - destruct (flat_map _ (children s)) as [|p l] eqn:E2; [apply D_refl; exact H|].
    assert (Hin : In p (flat_map (fun bs => match get_child bs ["bracketed"] with Some x => [x] | None => [] end) (children s)))
      by (rewrite E2; left; reflexivity).
    apply in_flat_map in Hin. destruct Hin as (y & Hy & Hp).
    pose proof (Ds_child s y H Hy) as Hd. destruct (get_child y ["bracketed"]) as [p'|] eqn:E3; [|destruct Hp].
    destruct Hp as [<-|[]]. pose proof (Ds_get_child y _ p' (Ds_ef _ _ Hd) E3) as Hd2.
    apply (D_trans _ y); [apply Ds_D; exact Hd|]. apply (D_trans _ p'); [apply Ds_D; exact Hd2|]. apply IH. exact (Ds_ef _ _ Hd2).
Qed.

Lemma D_eib s : escape_free s = true -> D s (extract_innermost_bracketed s).
Proof. apply D_innermost. Qed.

Lemma D_find_fee s x : escape_free s = true -> find_from_expression_element s = Some x -> D s x /\ is_type x [FEE] = true.
Proof.
  unfold find_from_expression_element. intros H. destruct (crawl _ true s) as [|y r] eqn:E; [discriminate|].
  intros K; inversion K; subst y. apply (D_crawl ["from_expression_element"] true s H). rewrite E. left; reflexivity.
Qed.

Lemma fold_first_some {A B} (f : A -> option B) l : forall a x,
  fold_left (fun acc c => match acc with Some _ => acc | None => f c end) l a = Some x ->
  a = Some x \/ exists c, In c l /\ f c = Some x.
Proof.
  induction l as [|c r IH]; intros a x H; cbn [fold_left] in H; [left; exact H|].
  destruct (IH _ _ H) as [K|(c' & Hc & K)].
  - destruct a as [a0|]; [left; exact K|right; exists c; split; [left; reflexivity|exact K]].
  - right. exists c'. split; [right; exact Hc|exact K].
Qed.

Lemma find_ti_eq s :
  find_table_identifier s =
  if ty_in s ["table_reference"; "file_reference"; "object_reference"] then Some s
  else fold_left (fun acc c => match acc with Some _ => acc | None => find_table_identifier c end) (children s) None.
Proof. destruct s; reflexivity. Qed.

Lemma D_find_ti s : escape_free s = true -> forall x, find_table_identifier s = Some x ->
  D s x /\ ty_in x ["table_reference"; "file_reference"; "object_reference"] = true.
Proof.
  induction s as [t g c r w cm mt ch IH] using seg_ind'. intros H x Hx. rewrite find_ti_eq in Hx.
  destruct (ty_in _ _) eqn:E.
  - inversion Hx; subst x. split; [apply D_refl; exact H|exact E].
  - apply fold_first_some in Hx. destruct Hx as [Hx|(y & Hy & Hx)]; [discriminate|]. cbn [children] in Hy.
    rewrite Forall_forall in IH. pose proof (Ds_child _ y H Hy) as Hd.
    destruct (IH y Hy (Ds_ef _ _ Hd) x Hx) as [K1 K2]. split; [|exact K2]. apply Ds_D. exact (Ds_D_trans _ y x Hd K1).
Qed.

Lemma D_ljc s x : escape_free s = true -> In x (list_join_clause s) -> D s x.
Proof.
  unfold list_join_clause. intros H Hx. destruct (ty_in s _); [|destruct Hx].
  destruct (match get_child s ["from_expression"] with Some _ => _ | None => _ end); [destruct Hx|].
  exact (proj1 (D_crawl _ true s H x Hx)).
Qed.

Lemma when_scan_in w f ek : escape_free w = true -> forall cs started acc,
  (forall c, In c cs -> In c (children w)) -> (forall x, In x acc -> Ds w x) ->
  forall x, In x (when_scan f ek cs started acc) -> Ds w x.
Proof.
  intros H. induction cs as [|c r IH]; intros started acc Hcs Hacc x Hx; cbn [when_scan] in Hx; [exact (Hacc x Hx)|].
  assert (Hr : forall c0, In c0 r -> In c0 (children w)) by (intros c0 Hc0; apply Hcs; right; exact Hc0).
  destruct (tyis c "keyword" && String.eqb (raw_upper c) f); [exact (IH _ _ Hr Hacc x Hx)|].
  destruct (match ek with Some e => _ | None => false end); [exact (Hacc x Hx)|].
  destruct (started && tyis c "expression"); [|exact (IH _ _ Hr Hacc x Hx)].
  apply (IH _ _ Hr) with (x := x) in Hx; [exact Hx|]. intros y Hy.
  pose proof (Ds_child w c H (Hcs c (or_introl eq_refl))) as Hd.
  apply (Ds_D_trans _ c y Hd). apply Ds_D. exact (Ds_get_children c _ y (Ds_ef _ _ Hd) Hy).
Qed.

Lemma Ds_when w k x : escape_free w = true -> In x (list_expression_from_when_clause w k) -> Ds w x.
Proof.
  intros H Hx. unfold list_expression_from_when_clause in Hx.
  exact (when_scan_in w k _ H (children w) false [] (fun c Hc => Hc) (fun y (Hy : In y []) => match Hy with end) x Hx).
Qed.

(** string dispatch helpers *)
Lemma tyis_eq s t : tyis s t = true -> ty s = t.
Proof. unfold tyis. apply String.eqb_eq. Qed.

Lemma imp_true a b : imp a b = true -> a = true -> b = true.
Proof. intros H ->. exact H. Qed.

Lemma nonempty_true {A} (l : list A) : nonempty l = true -> l <> [].
Proof. destruct l; [discriminate|intros _ K; discriminate K]. Qed.
