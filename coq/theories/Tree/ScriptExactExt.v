(** [script_exact_on_core] for scripts that also contain plain SELECTs over base tables and no-data statements
    (DELETE ...): such statements have no column flows; their holders are plain, resolved and closed. *)
From Coq Require Import Permutation.
From SV Require Import Tree.Render Tree.LemmaA Tree.LemmaAProofs Tree.LemmaB Tree.LemmaBProofs Ident.Escape Ident.EscapeProofs
     Holder.PathProofs Holder.SortProofs Tree.ProviderProofs Tree.ScriptExact.
From SV Require Holder.RefineDefs Holder.RefineGraph Holder.CompDefs Holder.Composition.

(** * the holder of a plain SELECT over base tables *)
Lemma analyze_query_tables noise e items from cj :
  noise_ok noise = true -> env_ok e = true ->
  stmt_ok (SQuery (QSelect items from cj None)) = true -> forallb is_rtable from = true ->
  analyze e false (r_stmt noise (SQuery (QSelect items from cj None))) = Ok (fold_left add_read (map (tbl_of e) from) empty_graph).
Proof.
  intros Hn He Hok Hrt.
  assert (Hok' : tref_ok (None, "x") && frag_query (S (q_size (QSelect items from cj None))) (QSelect items from cj None)
                 && names_ok_q (S (q_size (QSelect items from cj None))) [] (QSelect items from cj None) = true) by exact Hok.
  destruct (stmt_ok_select (None, "x") items from cj Hok' Hrt) as (_ & Hit & Hne & Hrel).
  set (q := QSelect items from cj None). set (k := q_size q). set (stmt := r_stmt noise (SQuery q)).
  assert (Hst : stmt = node "select_statement" ["select_statement"] (sep noise ([r_sc noise items; r_fc noise k from cj] ++ r_wh noise k None)))
    by (unfold stmt, r_stmt; apply r_query_select).
  assert (Ea : analyze e false stmt = extract (S (S (3 * depth stmt + 8))) e XSelect stmt empty_ctx).
  { replace (S (S (3 * depth stmt + 8))) with (3 * depth stmt + 10) by lia. rewrite Hst. reflexivity. }
  assert (Hseg : sel_segments stmt = [r_sc noise items; r_fc noise k from cj]) by (rewrite Hst; apply (sel_segments_select noise Hn items k from cj None)).
  rewrite (select_tables_extract noise Hn e He _ stmt items from cj k empty_ctx Hseg Hit Hne Hrel eq_refl) in Ea.
  change (init_holder empty_ctx) with empty_graph in Ea. rewrite eoq_single in Ea. cbv zeta in Ea.
  set (ts := map (tbl_of e) from) in *. set (G := fold_left add_read ts empty_graph) in *.
  assert (Hk : forall v, In v ts -> dk v = KTable).
  { intros v Hv. apply in_map_iff in Hv. destruct Hv as (r & <- & Hr). rewrite forallb_forall in Hrt. specialize (Hrt r Hr). destruct r; try discriminate. reflexivity. }
  assert (Hw : sq_write G = []) by (unfold sq_write, G; rewrite add_reads_write by exact Hk; reflexivity).
  rewrite Hw in Ea. unfold expand_wildcard in Ea. unfold get_target_table in Ea. rewrite Hw in Ea. cbn [filter] in Ea.
  exact Ea.
Qed.

Lemma ext_add_reads l : forall g, (forall v, In v l -> dk v = KTable) ->
  ext g (fold_left add_read l g) (map (fun v => (NData v, NStr (dalias v))) l).
Proof.
  induction l as [|v r IH]; intros g H; cbn [fold_left map]; [apply ext_refl|].
  apply (ext_trans g (add_read g v) _ [(NData v, NStr (dalias v))]).
  - rewrite (add_read_table g v (H v (or_introl eq_refl))).
    apply (ext_trans g (add_node g (NData v) [("read", true)]) _ [] _ (ext_add_node g _ _) (ext_add_edge _ _ _ _)).
  - apply IH. intros w Hw. apply H. right. exact Hw.
Qed.

(** a graph without column nodes whose edges are closed: a holder satisfying the conjuncts of [c04_hyps], without
    column edges *)
Lemma no_columns_holder G :
  clean_holder G -> lits_in (fun n => is_column n = false) G ->
  (forall x y, has_edge G x y = true -> has_node G x = true /\ has_node G y = true) ->
  CompDefs.plain_holder (holder_of G) = true /\ CompDefs.resolved_holder (holder_of G) = true /\
  CompDefs.cwf_holder (holder_of G) = true /\ edges_match G [].
Proof.
  intros Hc HL Hcl. split; [exact (core_plain G Hc)|]. split; [|split].
  - apply core_resolved. apply (lits_weaken (fun n => is_column n = false)); [|exact HL].
    intros n Hn. destruct n; [reflexivity|discriminate Hn|reflexivity].
  - unfold CompDefs.cwf_holder, CompDefs.cwf_graph. cbn [hg holder_of].
    unfold CompDefs.closed_src, RefineDefs.closed_tgt, CompDefs.col_out_closed. rewrite !andb_true_iff. split; [split|]; apply forallb_forall; intros e He.
    + exact (proj1 (Hcl _ _ (edge_has_edge G e He))).
    + exact (proj2 (Hcl _ _ (edge_has_edge G e He))).
    + unfold RefineDefs.esrc. rewrite (proj1 (proj2 HL e He)). reflexivity.
  - intros x y. split; [|intros (u & v & [] & _)]. intros H. exfalso. unfold CompDefs.col_edge in H.
    apply andb_true_iff in H. destruct H as [H He]. apply andb_true_iff in H. destruct H as [Hx _].
    apply has_edge_In in He. destruct He as (e & He & E1 & _). rewrite (is_column_eqb _ _ E1), (proj1 (proj2 HL e He)) in Hx. discriminate.
Qed.

(** the statements without a target *)
Definition plain_query (s : Spec.stmt) : bool :=
  match s with SQuery (QSelect _ from _ None) => forallb is_rtable from | _ => false end.
Definition is_nodata (s : Spec.stmt) : bool := match s with SNoData _ => true | _ => false end.

Theorem query_statement : forall noise e s,
  noise_ok noise = true -> env_ok e = true -> stmt_ok s = true -> plain_query s = true ->
  exists G, analyze e false (r_stmt noise s) = Ok G /\
            CompDefs.plain_holder (holder_of G) = true /\ CompDefs.resolved_holder (holder_of G) = true /\
            CompDefs.cwf_holder (holder_of G) = true /\ edges_match G (stmt_edges (e_cfg e) s).
Proof.
  intros noise e s Hn He Hok Hq.
  destruct s as [t cols q|t q|t q|q|kind]; try discriminate. destruct q as [items from cj [wh|]| |]; try discriminate.
  cbn [plain_query] in Hq. rewrite (analyze_query_tables noise e items from cj Hn He Hok Hq).
  set (ts := map (tbl_of e) from). set (G := fold_left add_read ts empty_graph). exists G. split; [reflexivity|].
  assert (Hk : forall v, In v ts -> dk v = KTable).
  { intros v Hv. apply in_map_iff in Hv. destruct Hv as (r & <- & Hr). rewrite forallb_forall in Hq. specialize (Hq r Hr). destruct r; try discriminate. reflexivity. }
  apply no_columns_holder.
  - split.
    + intros n a Hin. destruct (attr_true "drop" a) eqn:E; [|reflexivity]. exfalso. apply attr_true_In in E.
      exact (add_reads_drop ts empty_graph Hk (fun _ _ H => match H with end) n a Hin E).
    + intros e0 He0. rewrite (add_reads_etypes ts empty_graph Hk (fun _ H => match H with end) e0 He0). reflexivity.
  - apply lits_add_reads; [apply lits_in_empty|reflexivity|reflexivity].
  - pose proof (ext_add_reads ts empty_graph Hk) as X. fold G in X. intros x y Hxy. rewrite (ext_edges _ _ _ X) in Hxy.
    cbn [orb] in Hxy. change (has_edge empty_graph x y) with false in Hxy. cbn [orb] in Hxy.
    unfold ematch in Hxy. apply existsb_exists in Hxy. destruct Hxy as (p & Hp & E). apply andb_true_iff in E. destruct E as [E1 E2].
    destruct (ext_new _ _ _ X p Hp) as [N1 N2].
    rewrite (RefineGraph.has_node_cong G x (fst p) E1), (RefineGraph.has_node_cong G y (snd p) E2). auto.
Qed.
Print Assumptions query_statement.

Theorem nodata_statement : forall noise e k,
  exists G, analyze e false (r_stmt noise (SNoData k)) = Ok G /\
            CompDefs.plain_holder (holder_of G) = true /\ CompDefs.resolved_holder (holder_of G) = true /\
            CompDefs.cwf_holder (holder_of G) = true /\ edges_match G (stmt_edges (e_cfg e) (SNoData k)).
Proof.
  intros noise e k. exists empty_graph. split; [reflexivity|]. split; [reflexivity|]. split; [reflexivity|]. split; [reflexivity|].
  intros x y. split; [|intros (u & v & [] & _)]. intros H. unfold CompDefs.col_edge in H. cbn in H. rewrite andb_false_r in H. discriminate.
Qed.
Print Assumptions nodata_statement.

(** * scripts *)
Definition core_stmt_ext (s : Spec.stmt) : Prop :=
  core_stmt s \/ (stmt_ok s = true /\ plain_query s = true) \/ is_nodata s = true.
Definition core_ok_ext (s : Spec.stmt) : bool := core_ok s || (stmt_ok s && plain_query s) || is_nodata s.

Lemma core_script_ext noise e ss :
  noise_ok noise = true -> env_ok e = true -> Forall core_stmt_ext ss ->
  exists Gs, map_res (analyze e false) (map (r_stmt noise) ss) = Ok Gs /\
             Composition.c04_hyps (map holder_of Gs) = true /\
             Forall2 edges_match Gs (map (stmt_edges (e_cfg e)) ss).
Proof.
  intros Hn He H.
  assert (K : exists Gs, map_res (analyze e false) (map (r_stmt noise) ss) = Ok Gs /\
              (forallb CompDefs.plain_holder (map holder_of Gs) = true /\
               forallb CompDefs.resolved_holder (map holder_of Gs) = true /\
               forallb CompDefs.cwf_holder (map holder_of Gs) = true) /\
              Forall2 edges_match Gs (map (stmt_edges (e_cfg e)) ss)).
  { induction H as [|s ss Hs _ IH].
    - exists []. split; [reflexivity|]. split; [auto|constructor].
    - destruct IH as (Gs & Em & (P1 & P2 & P3) & HM).
      assert (KS : exists G, analyze e false (r_stmt noise s) = Ok G /\
                CompDefs.plain_holder (holder_of G) = true /\ CompDefs.resolved_holder (holder_of G) = true /\
                CompDefs.cwf_holder (holder_of G) = true /\ edges_match G (stmt_edges (e_cfg e) s)).
      { destruct Hs as [(H1 & _ & H3 & H4 & H5)|[[H1 H2]|H1]].
        - exact (core_statement noise e s Hn He H1 H3 H4 H5).
        - exact (query_statement noise e s Hn He H1 H2).
        - destruct s; try discriminate. apply nodata_statement. }
      destruct KS as (G & Ea & Q1 & Q2 & Q3 & Q4).
      exists (G :: Gs). split; [cbn [map map_res]; rewrite Ea, Em; reflexivity|]. split.
      + cbn [map forallb]. rewrite Q1, Q2, Q3, P1, P2, P3. auto.
      + cbn [map]. constructor; assumption. }
  destruct K as (Gs & Em & (P1 & P2 & P3) & HM). exists Gs. split; [exact Em|]. split; [|exact HM].
  unfold Composition.c04_hyps. rewrite P1, P2, P3. reflexivity.
Qed.

Theorem script_exact_on_core_ext : forall noise e ss,
  noise_ok noise = true -> env_ok e = true -> Forall core_stmt_ext ss ->
  script_pairs e false [] (map (r_stmt noise) ss) = spec_script_pairs (e_cfg e) ss.
Proof.
  intros noise e ss Hn He H.
  destruct (core_script_ext noise e ss Hn He H) as (Gs & Em & Hh & HM).
  destruct (run_statements_core e _ Gs (proj1 (env_facts e He)) Em) as (sess & Er).
  unfold script_pairs, script_graph. rewrite Er. cbn [fst snd].
  set (p := {| p_truthy := p_truthy (e_provider e); p_cols := view_cols sess [] |}).
  destruct (Composition.c04_main p (map holder_of Gs) Hh) as (g & Hb & _). rewrite Hb.
  unfold spec_script_pairs, script_edges. apply us_ext. intros x.
  rewrite (lineage_match Gs (map (stmt_edges (e_cfg e)) ss) HM p g Hh Hb x). rewrite flat_map_concat_map. reflexivity.
Qed.
Print Assumptions script_exact_on_core_ext.

(** ** checker, tests, non-vacuity *)
Definition script_check_ext (noise : list seg) (e : env) (ss : list Spec.stmt) : string :=
  if negb (noise_ok noise && env_ok e && forallb core_ok_ext ss) then "outside"
  else if list_eqb (script_pairs e false [] (map (r_stmt noise) ss)) (spec_script_pairs (e_cfg e) ss) then "holds" else "FAILS".

Lemma core_ok_ext_stmt s : core_ok_ext s = true -> core_stmt_ext s.
Proof.
  unfold core_ok_ext, core_stmt_ext. intros H. apply orb_true_iff in H. destruct H as [H|H]; [apply orb_true_iff in H; destruct H as [H|H]|].
  - left. unfold core_ok in H. repeat (apply andb_true_iff in H; destruct H as [H ?]). repeat split; assumption.
  - right. left. apply andb_true_iff in H. exact H.
  - right. right. exact H.
Qed.

Corollary script_check_ext_never_fails noise e ss : script_check_ext noise e ss <> "FAILS".
Proof.
  unfold script_check_ext. destruct (noise_ok noise && env_ok e && forallb core_ok_ext ss) eqn:G; cbn [negb]; [|discriminate].
  apply andb_true_iff in G. destruct G as [G Hss]. apply andb_true_iff in G. destruct G as [Hn He].
  rewrite (script_exact_on_core_ext noise e ss Hn He), list_eqb_refl; [discriminate|].
  apply Forall_forall. intros s Hs. rewrite forallb_forall in Hss. apply core_ok_ext_stmt. apply Hss. exact Hs.
Qed.

Module TestsExt.
  Import Tests.
  Definition q (items : list item) (from : list rel) : Spec.stmt := SQuery (sel items from).
  Definition tests_ext : list (list Spec.stmt) :=
    [ [ins "b" (sel [c_ "x"; c_ "y"] [T "a"]); q [c_ "x"] [T "b"]; ins "c" (sel [c_ "x"] [T "b"])];
      [q [c_ "y"] [T "a"; T "b"]; SNoData 0; ins "b" (sel [c_ "x"] [T "a"]); SNoData 1; ins "c" (sel [c_ "x"] [T "b"]); q [IStar None] [T "c"]];
      [SNoData 0]; [q [qc "a" "x"; c_ "z"] [T "a"; TA "b" "w"]];
      [ins "b" (sel [c_ "x"] [T "a"]); q [c_ "x"] [TS "main" "b"]; ins "a" (sel [c_ "x"] [T "b"])] ].
  Example tests_ext_hold :
    map (script_check_ext [] e0) tests_ext = map (fun _ => "holds") tests_ext /\
    map (script_check_ext [ws; cm] e1) tests_ext = map (fun _ => "holds") tests_ext /\
    map (script_check_ext [ws; cm] e1) tests = map (fun _ => "holds") tests.
  Proof. vm_compute. repeat split; reflexivity. Qed.

  Definition ss_ext : list Spec.stmt := [q [c_ "y"] [T "a"; T "b"]; SNoData 0; ins "b" (sel [c_ "x"; c_ "y"] [T "a"]); SNoData 1; ins "c" (sel [c_ "x"] [T "b"]); q [IStar None] [T "c"]].
  Lemma ss_ext_core : Forall core_stmt_ext ss_ext.
  Proof. repeat (constructor; [apply core_ok_ext_stmt; reflexivity|]). constructor. Qed.
  Example script_exact_ext_nonvacuous :
    script_pairs e1 false [] (map (r_stmt [ws; cm]) ss_ext) = ["main.a.x>main.c.x"; "main.a.y>main.b.y"].
  Proof. rewrite (script_exact_on_core_ext [ws; cm] e1 ss_ext eq_refl eq_refl ss_ext_core). vm_compute. reflexivity. Qed.
  Example query_statement_nonvacuous :
    exists G, analyze e1 false (r_stmt [ws; cm] (q [c_ "y"] [T "a"; T "b"])) = Ok G /\
              CompDefs.plain_holder (holder_of G) = true /\ CompDefs.resolved_holder (holder_of G) = true /\
              CompDefs.cwf_holder (holder_of G) = true /\ edges_match G [].
  Proof. apply (query_statement [ws; cm] e1 (q [c_ "y"] [T "a"; T "b"])); reflexivity. Qed.
End TestsExt.
Print Assumptions script_check_ext_never_fails.
