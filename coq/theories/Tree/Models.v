(** L4: sqllineage/core/parser/sqlfluff/models.py (SqlFluffTable, SqlFluffSubQuery,
    SqlFluffColumn) and the entity constructors of core/models.py they call. *)
From SV Require Export Tree.Utils Holder.Build.

(** everything outside the tree an analysis depends on *)
Record env := {
  e_cfg : string;        (* SQLLineageConfig.DEFAULT_SCHEMA at analysis time *)
  e_icfg : string;       (* ... at import time (default argument of Table.__init__) *)
  e_vertica : bool;      (* the only use of the dialect name in the extractors: dialect == "vertica" *)
  e_provider : provider;
  (* oracle: SqlFluffColumn._get_column_from_subquery (nested legacy runner), keyed by the raw text of the bracket *)
  e_scalar : list (string * list (string * option string))
}.

Definition mk_env (dialect cfg icfg : string) (p : provider) (sc : list (string * list (string * option string))) : env :=
  {| e_cfg := cfg; e_icfg := icfg; e_vertica := String.eqb dialect "vertica"; e_provider := p; e_scalar := sc |}.

Definition ELineage := "SQLLineageException".

Definition mk_table (e : env) (name : string) (schema_arg : option string) (alias : option string) : res dataset :=
  match table_of (e_cfg e) (e_icfg e) name schema_arg alias with
  | TOk t => Ok {| dk := KTable; deq := table_str t; dstr := table_str t; dschema := t_schema t;
                   draw := t_raw t; dalias := t_alias t; dquery := None |}
  | TErr => Err ELineage
  end.

Definition mk_path (uri : string) : dataset :=
  {| dk := KPath; deq := escape uri; dstr := escape uri; dschema := ""; draw := ""; dalias := ""; dquery := None |}.

(** anonymous sub-queries are named after their text (the implementation uses hash(text)) *)
Definition anon_name (text : string) : string := "subquery_<" ++ text ++ ">".

Definition mk_subquery (q : seg) (alias : option string) : dataset :=
  let name := match alias with Some a => escape a | None => anon_name (raw q) end in
  {| dk := KSubq; deq := raw q; dstr := name; dschema := ""; draw := ""; dalias := name; dquery := Some q |}.

Definition with_alias (d : dataset) (alias : string) : dataset :=
  {| dk := dk d; deq := deq d; dstr := escape alias; dschema := dschema d; draw := draw d;
     dalias := escape alias; dquery := dquery d |}.

(** SqlFluffTable.of(table, alias) *)
Fixpoint find_dot (segs : list seg) (idx : nat) : option nat :=
  (* scan idx = len-2 downto 0 for a symbol; [segs] is the reversed prefix of length len-1 *)
  match segs with
  | [] => None
  | s :: r => if tyis s "symbol" then Some idx else match idx with O => None | S k => find_dot r k end
  end.

Definition table_of_seg (e : env) (t : seg) (alias : option string) : res dataset :=
  let segs := children t in
  let n := List.length segs in
  let dot_idx := if Nat.leb 2 n then find_dot (rev (firstn (n - 1) segs)) (n - 2) else None in
  let truthy_alias := match alias with Some a => if String.eqb a "" then None else Some a | None => None end in
  match dot_idx with
  | Some (S k) =>
      do rn <- nth_res segs (S (S k));
      let parent_name := concat_str (map (fun s => escape (raw s)) (firstn (S k) segs)) in
      mk_table e (raw rn) (Some (schema_of (e_cfg e) (Some parent_name))) truthy_alias
  | _ =>
      do real_name <- (if tyis t "identifier" then Ok (raw t) else do s0 <- nth_res segs 0; Ok (raw s0));
      mk_table e real_name (Some (schema_of (e_cfg e) None)) truthy_alias
  end.

(** ** columns under construction: identity + source columns + from_alias *)
Record xcol := { xc : column; xsrc : list (string * option string); xfrom_alias : bool }.

Definition esc_src (p : string * option string) : string * option string :=
  (escape (fst p), option_map escape (snd p)).

(** Column(name, source_columns=...) *)
Definition mk_xcol (name : string) (srcs : list (string * option string)) (from_alias : bool) : xcol :=
  {| xc := {| craw := escape name; cparents := [] |}; xsrc := map esc_src srcs; xfrom_alias := from_alias |}.
(** Column(name): source_columns defaults to ((raw_name, None),) *)
Definition mk_xcol_plain (name : string) : xcol :=
  {| xc := {| craw := escape name; cparents := [] |}; xsrc := [esc_src (escape name, None)]; xfrom_alias := false |}.

Definition NON_IDENT := ["partitionby_clause"; "orderby_clause"; "expression"; "case_expression"; "when_clause";
                         "else_clause"; "select_clause_element"; "cast_expression"].
Definition SOURCE_TYPES := NON_IDENT ++ ["function"] ++ ["identifier"; "column_reference"].

Fixpoint assoc_list {A} (k : string) (l : list (string * A)) : option A :=
  match l with [] => None | (k', v) :: r => if String.eqb k k' then Some v else assoc_list k r end.

Definition cq := (string * option string)%type.

(** _extract_source_columns / _get_column_from_parenthesis / _get_column_and_alias, by fuel *)
Fixpoint extract_sources (fuel : nat) (e : env) (s : seg) : res (list cq) :=
  match fuel with
  | O => Err EFuel
  | S k =>
      let col_and_alias (x : seg) (check_bracketed : bool) : res (list cq * option string) :=
        fold_left (fun acc sub =>
                     do a <- acc;
                     let '(cols, alias) := a in
                     if tyis sub "alias_expression" then do i <- extract_identifier sub; Ok (cols, Some i)
                     else if ty_in sub SOURCE_TYPES || is_wildcard sub
                          then do r <- extract_sources k e sub; Ok (cols ++ r, alias)
                          else Ok (cols, alias))
                  (list_child_segments x check_bracketed) (Ok ([], None)) in
      let from_parenthesis (x : seg) : res (list cq) :=
        let x' := match get_child x ["window_specification"] with Some w => w | None => x end in
        do ca <- col_and_alias x' false; Ok (fst ca) in
      if ty_in s ["identifier"; "column_reference"] || is_wildcard s then
        do q <- extract_column_qualifier s;
        Ok (match q with Some c => [c] | None => [] end)
      else if tyis s "function" then
        concat_res (map from_parenthesis (crawl ["bracketed"] true s))
      else if ty_in s NON_IDENT then
        concat_res (map (fun sub =>
          if tyis sub "bracketed" then
            do sq <- is_subquery sub;
            if sq then match assoc_list (raw sub) (e_scalar e) with Some l => Ok l | None => Err "ScalarOracleMissing" end
            else from_parenthesis sub
          else if ty_in sub SOURCE_TYPES || is_wildcard sub then extract_sources k e sub
          else Ok []) (list_child_segments s true))
      else Ok []
  end.

Definition get_column_and_alias (fuel : nat) (e : env) (x : seg) (check_bracketed : bool) : res (list cq * option string) :=
  fold_left (fun acc sub =>
               do a <- acc;
               let '(cols, alias) := a in
               if tyis sub "alias_expression" then do i <- extract_identifier sub; Ok (cols, Some i)
               else if ty_in sub SOURCE_TYPES || is_wildcard sub
                    then do r <- extract_sources fuel e sub; Ok (cols ++ r, alias)
                    else Ok (cols, alias))
            (list_child_segments x check_bracketed) (Ok ([], None)).

(** SqlFluffColumn.of(column) *)
Definition column_of_seg (fuel : nat) (e : env) (c : seg) : res xcol :=
  let fallback := do srcs <- extract_sources fuel e c; Ok (mk_xcol (raw c) srcs false) in
  if tyis c "select_clause_element" then
    do ca <- get_column_and_alias fuel e c true;
    let '(srcs, alias) := ca in
    match (match alias with Some a => if String.eqb a "" then None else Some a | None => None end) with
    | Some a => Ok (mk_xcol a srcs true)
    | None =>
        match srcs with
        | [] => fallback
        | _ =>
            do name <- fold_left (fun acc sub =>
                         do nm <- acc;
                         if tyis sub "column_reference" || is_wildcard sub then
                           do q <- extract_column_qualifier sub;
                           Ok (match q with Some cq0 => Some (fst cq0) | None => nm end)
                         else if tyis sub "expression" then
                           match list_child_segments sub true with
                           | [s2] =>
                               if tyis s2 "cast_expression" then
                                 match list_child_segments s2 true with
                                 | [s3; _] =>
                                     if tyis s3 "column_reference" then
                                       do q <- extract_column_qualifier s3;
                                       Ok (match q with Some cq0 => Some (fst cq0) | None => nm end)
                                     else Ok nm
                                 | _ => Ok nm
                                 end
                               else Ok nm
                           | _ => Ok nm
                           end
                         else Ok nm) (list_child_segments c true) (Ok None);
            Ok (mk_xcol (match name with Some n => n | None => raw c end) srcs false)
        end
    end
  else fallback.
