(** Lemma A (tables): proofs.

    SUMMARY
    - [lemma_A_tables_statement] (Tree/LemmaA.v) is FALSE as stated: [lemma_A_tables_statement_refuted], with the
      four counterexample shapes [cx1] .. [cx4] at the end of this file ([stmt_ok] holds, [lemma_A_check] = "FAILS").
    - It is TRUE, and proved here for an arbitrary trivia list [noise], under one more guard [sshape]
      ([lemma_A_tables_restricted]): set operations only between plain SELECTs, and WITH only as the outermost query
      (of the statement or of the INSERT / CREATE source), its definition and body being WITH-free.
      Derived tables, WHERE-IN sub-queries and unions may nest arbitrarily below that.
    - The step theorems [lemma_A_step0] .. [lemma_A_step8] are instances; steps 1 and 2 need no extra guard,
      steps 3-5 need [qshape], steps 0, 6, 7, 8 need [sshape].

    ORGANISATION
    Part S  string lists, [dedup_s], sorted printing
    Part G  the graph algebra: invariant [gok] (unique nodes, well-formed datasets, attribute discipline, parented
            columns on dataset->column edges) and the effect of every operation on the tagged datasets
    Part C  column-level operations ([end_of_query_cleanup], [expand_wildcard] ...) succeed and keep the tags
    Part I  identifiers of the fragment are fixed points of [escape]
    Part E0 unfolding equations of [extract] per extractor kind
    Part N  navigation lemmas on rendered trees with trivia (FROM elements, join clauses, select clause)
    Part N2 sub-queries, the fragment [body_ok], the main induction [body_main]
    Part N3-N5 delegation, WITH, INSERT / CREATE wrappers. *)
From Coq Require Import Permutation.
From SV Require Import Tree.Render Tree.LemmaA Ident.Escape Ident.EscapeProofs Holder.PathProofs Holder.SortProofs.
From SV Require TriviaProofs.

(* ================================================================== *)
(** * Part S: lists of strings, the specification side *)

Lemma mem_string_In x l : mem_string x l = true <-> In x l.
Proof.
  induction l as [|y r IH]; cbn [mem_string In].
  - split; [discriminate|tauto].
  - rewrite orb_true_iff, IH, String.eqb_eq. split; intros [H|H]; auto.
Qed.

Lemma mem_string_false x l : mem_string x l = false <-> ~ In x l.
Proof.
  rewrite <- mem_string_In. destruct (mem_string x l); split; intros H; try reflexivity; try discriminate.
  - exfalso. apply H. reflexivity.
Qed.

Lemma In_dedup_s x l : forall seen, In x (dedup_s l seen) <-> In x l /\ ~ In x seen.
Proof.
  induction l as [|y r IH]; intros seen; cbn [dedup_s In].
  - tauto.
  - destruct (mem_string y seen) eqn:E.
    + rewrite IH. apply mem_string_In in E. split.
      * intros [H1 H2]. auto.
      * intros [[H1|H1] H2]; [subst y; contradiction|auto].
    + apply mem_string_false in E. cbn [In]. rewrite IH. cbn [In]. split.
      * intros [H|[H1 H2]]; [subst y; auto|]. split; auto.
      * intros [[H1|H1] H2]; [auto|].
        destruct (string_dec y x) as [D|D]; [auto|]. right. split; [exact H1|].
        intros [H|H]; auto.
Qed.

Lemma NoDup_dedup_s l : forall seen, NoDup (dedup_s l seen).
Proof.
  induction l as [|y r IH]; intros seen; cbn [dedup_s].
  - constructor.
  - destruct (mem_string y seen); [apply IH|].
    constructor; [|apply IH].
    rewrite In_dedup_s. intros [_ H]. apply H. left. reflexivity.
Qed.

(** two duplicate-free lists with the same members print the same *)
Lemma sort_strings_set_eq l l' :
  NoDup l -> NoDup l' -> (forall x, In x l <-> In x l') -> sort_strings l = sort_strings l'.
Proof.
  intros H1 H2 H. apply sort_strings_canonical. apply NoDup_Permutation; assumption.
Qed.

(* ================================================================== *)
(** * Part G: the graph algebra *)

(** ** attributes *)
Lemma attr_get_set k k' v a :
  attr_get k (attr_set k' v a) = if String.eqb k k' then Some v else attr_get k a.
Proof.
  induction a as [|[k2 v2] r IH]; cbn [attr_set attr_get].
  - destruct (String.eqb k k') eqn:E; [|reflexivity].
    reflexivity.
  - destruct (String.eqb k' k2) eqn:E2; cbn [attr_get].
    + destruct (String.eqb k k') eqn:E.
      * reflexivity.
      * apply String.eqb_eq in E2. subst k2. rewrite E. reflexivity.
    + destruct (String.eqb k k2) eqn:E3.
      * destruct (String.eqb k k') eqn:E; [|reflexivity].
        apply String.eqb_eq in E. apply String.eqb_eq in E3. subst. rewrite String.eqb_refl in E2. discriminate.
      * exact IH.
Qed.

Lemma attr_true_set k k' v a :
  attr_true k (attr_set k' v a) = if String.eqb k k' then v else attr_true k a.
Proof.
  unfold attr_true. rewrite attr_get_set. destruct (String.eqb k k'); [destruct v|]; reflexivity.
Qed.

Lemma attr_true_In k a : attr_true k a = true -> In (k, true) a.
Proof.
  unfold attr_true. induction a as [|[k2 v2] r IH]; cbn [attr_get]; [discriminate|].
  destruct (String.eqb k k2) eqn:E.
  - apply String.eqb_eq in E. subst k2. destruct v2; [left; reflexivity|discriminate].
  - intros H. right. apply IH. exact H.
Qed.

Lemma In_attr_true k a : In (k, true) a -> (forall v, In (k, v) a -> v = true) -> attr_true k a = true.
Proof.
  unfold attr_true. induction a as [|[k2 v2] r IH]; cbn [attr_get In]; [tauto|].
  intros H Hall. destruct (String.eqb k k2) eqn:E.
  - apply String.eqb_eq in E. subst k2. rewrite (Hall v2 (or_introl eq_refl)). reflexivity.
  - apply IH.
    + destruct H as [H|H]; [|exact H]. inversion H. subst. rewrite String.eqb_refl in E. discriminate.
    + intros v Hv. apply Hall. right. exact Hv.
Qed.

Lemma attr_true_update_mono k a : forall b,
  (forall v, In (k, v) a -> v = true) -> attr_true k b = true -> attr_true k (attr_update b a) = true.
Proof.
  induction a as [|[k2 v2] r IH]; intros b Hall Hb; cbn [attr_update]; [exact Hb|].
  apply IH.
  - intros v Hv. apply Hall. right. exact Hv.
  - rewrite attr_true_set. destruct (String.eqb k k2) eqn:E; [|exact Hb].
    apply String.eqb_eq in E. subst k2. apply Hall. left. reflexivity.
Qed.

Lemma attr_true_update_inv k a : forall b,
  attr_true k (attr_update b a) = true -> attr_true k b = true \/ In (k, true) a.
Proof.
  induction a as [|[k2 v2] r IH]; intros b H; cbn [attr_update] in H; [left; exact H|].
  apply IH in H. destruct H as [H|H]; [|right; right; exact H].
  rewrite attr_true_set in H. destruct (String.eqb k k2) eqn:E; [|left; exact H].
  apply String.eqb_eq in E. subst k2 v2. right. left. reflexivity.
Qed.

Lemma attr_true_update_new k a : forall b,
  In (k, true) a -> (forall v, In (k, v) a -> v = true) -> attr_true k (attr_update b a) = true.
Proof.
  induction a as [|[k2 v2] r IH]; intros b Hin Hall; cbn [attr_update]; [destruct Hin|].
  destruct Hin as [Hin|Hin].
  - inversion Hin. subst k2 v2. apply attr_true_update_mono.
    + intros v Hv. apply Hall. right. exact Hv.
    + rewrite attr_true_set, String.eqb_refl. reflexivity.
  - apply IH; [exact Hin|]. intros v Hv. apply Hall. right. exact Hv.
Qed.

Lemma attr_true_update_other k a : forall b,
  (forall v, ~ In (k, v) a) -> attr_true k (attr_update b a) = attr_true k b.
Proof.
  induction a as [|[k2 v2] r IH]; intros b Hno; cbn [attr_update]; [reflexivity|].
  rewrite IH by (intros v Hv; apply (Hno v); right; exact Hv).
  rewrite attr_true_set. destruct (String.eqb k k2) eqn:E; [|reflexivity].
  apply String.eqb_eq in E. subst k2. exfalso. apply (Hno v2). left. reflexivity.
Qed.

Lemma In_attr_set kv k v a : In kv (attr_set k v a) -> kv = (k, v) \/ In kv a.
Proof.
  induction a as [|[k2 v2] r IH]; cbn [attr_set In].
  - intros [H|[]]. left. symmetry. exact H.
  - destruct (String.eqb k k2); cbn [In].
    + intros [H|H]; [left; symmetry; exact H|right; right; exact H].
    + intros [H|H]; [right; left; exact H|]. apply IH in H. destruct H; auto.
Qed.

Lemma In_attr_update kv a : forall b, In kv (attr_update b a) -> In kv b \/ In kv a.
Proof.
  induction a as [|[k2 v2] r IH]; intros b; cbn [attr_update]; [auto|].
  intros H. apply IH in H. destruct H as [H|H]; [|right; right; exact H].
  apply In_attr_set in H. destruct H as [H|H]; [right; left; symmetry; exact H|left; exact H].
Qed.

(** ** nodes *)
Lemma node_eqb_true_sym a b : node_eqb a b = true -> node_eqb b a = true.
Proof. intros H. rewrite node_eqb_sym. exact H. Qed.

Lemma node_eqb_cong_r a b x : node_eqb a b = true -> node_eqb x a = node_eqb x b.
Proof. intros H. rewrite (node_eqb_sym x a), (node_eqb_sym x b). apply node_eqb_cong_l. exact H. Qed.

Lemma has_node_l_app n l1 l2 : has_node_l n (l1 ++ l2) = has_node_l n l1 || has_node_l n l2.
Proof.
  induction l1 as [|[m b] r IH]; cbn [app has_node_l]; [reflexivity|].
  rewrite IH, orb_assoc. reflexivity.
Qed.

Lemma has_node_l_In n l : has_node_l n l = true <-> exists m a, In (m, a) l /\ node_eqb n m = true.
Proof.
  induction l as [|[m b] r IH]; cbn [has_node_l In].
  - split; [discriminate|]. intros (m & a & [] & _).
  - rewrite orb_true_iff, IH. split.
    + intros [H|(m' & a & H1 & H2)]; [exists m, b; auto|exists m', a; auto].
    + intros (m' & a & [H1|H1] & H2); [inversion H1; subst; auto|right; exists m', a; auto].
Qed.

Lemma has_node_l_cong n n' l : node_eqb n n' = true -> has_node_l n l = has_node_l n' l.
Proof.
  intros H. induction l as [|[m b] r IH]; cbn [has_node_l]; [reflexivity|].
  rewrite IH, (node_eqb_cong_l n n' m H). reflexivity.
Qed.

Lemma upsert_new n a l : has_node_l n l = false -> upsert_node n a l = l ++ [(n, a)].
Proof.
  induction l as [|[m b] r IH]; cbn [has_node_l upsert_node app]; [reflexivity|].
  intros H. apply orb_false_iff in H. destruct H as [H1 H2]. rewrite H1, (IH H2). reflexivity.
Qed.

Lemma upsert_old n a l : has_node_l n l = true ->
  exists l1 m b l2, l = l1 ++ (m, b) :: l2 /\ node_eqb n m = true /\ has_node_l n l1 = false /\
                    upsert_node n a l = l1 ++ (m, attr_update b a) :: l2.
Proof.
  induction l as [|[m b] r IH]; cbn [has_node_l upsert_node]; [discriminate|].
  destruct (node_eqb n m) eqn:E; cbn [orb].
  - intros _. exists [], m, b, r. repeat split; auto.
  - intros H. destruct (IH H) as (l1 & m' & b' & l2 & H1 & H2 & H3 & H4).
    exists ((m, b) :: l1), m', b', l2. cbn [app has_node_l]. rewrite H4, E, H3. subst r. repeat split; auto.
Qed.

Lemma keys_upsert n a l :
  map fst (upsert_node n a l) = if has_node_l n l then map fst l else map fst l ++ [n].
Proof.
  destruct (has_node_l n l) eqn:E.
  - destruct (upsert_old n a l E) as (l1 & m & b & l2 & H1 & _ & _ & H4).
    rewrite H4, H1, !map_app. reflexivity.
  - rewrite (upsert_new n a l E), map_app. reflexivity.
Qed.

Lemma has_node_l_keys n l l' : map fst l = map fst l' -> has_node_l n l = has_node_l n l'.
Proof.
  revert l'. induction l as [|[m b] r IH]; intros [|[m' b'] r'] H; cbn [map] in H; try discriminate; [reflexivity|].
  inversion H. subst m'. cbn [has_node_l]. rewrite (IH r' H2). reflexivity.
Qed.

Lemma has_node_l_upsert x n a l :
  has_node_l x (upsert_node n a l) = has_node_l x l || (negb (has_node_l n l) && node_eqb x n).
Proof.
  destruct (has_node_l n l) eqn:E; cbn [negb andb].
  - rewrite orb_false_r. apply has_node_l_keys. rewrite keys_upsert, E. reflexivity.
  - rewrite (upsert_new n a l E), has_node_l_app. cbn [has_node_l]. rewrite orb_false_r. reflexivity.
Qed.

Fixpoint uniq (l : list (Graph.node * nattrs)) : Prop :=
  match l with [] => True | p :: r => has_node_l (fst p) r = false /\ uniq r end.

Lemma uniq_upsert n a l : uniq l -> uniq (upsert_node n a l).
Proof.
  induction l as [|[m b] r IH]; cbn [upsert_node uniq fst].
  - intros _. split; [reflexivity|exact I].
  - intros [H1 H2]. destruct (node_eqb n m) eqn:E; cbn [uniq fst].
    + split; assumption.
    + split; [|apply IH; exact H2].
      rewrite has_node_l_upsert, H1. cbn [orb]. rewrite (node_eqb_sym m n), E. apply andb_false_r.
Qed.

Lemma uniq_keys l l' : map fst l = map fst l' -> uniq l -> uniq l'.
Proof.
  revert l'. induction l as [|[m b] r IH]; intros [|[m' b'] r'] H; cbn [map] in H; try discriminate; [auto|].
  inversion H. subst m'. cbn [uniq fst]. intros [H3 H4]. split; [|apply (IH r' H2 H4)].
  rewrite <- (has_node_l_keys m r r' H2). exact H3.
Qed.

Lemma has_node_l_filter n (p : Graph.node * nattrs -> bool) l : has_node_l n l = false -> has_node_l n (filter p l) = false.
Proof.
  induction l as [|[m b] r IH]; cbn [has_node_l filter]; [auto|].
  intros H. apply orb_false_iff in H. destruct H as [H1 H2].
  destruct (p (m, b)); cbn [has_node_l]; [rewrite H1, (IH H2); reflexivity|apply IH; exact H2].
Qed.

Lemma uniq_filter (p : Graph.node * nattrs -> bool) l : uniq l -> uniq (filter p l).
Proof.
  induction l as [|[m b] r IH]; cbn [uniq filter fst]; [auto|].
  intros [H1 H2]. destruct (p (m, b)); cbn [uniq fst]; [split; [apply has_node_l_filter; exact H1|apply IH; exact H2]|apply IH; exact H2].
Qed.

(** ** tagged datasets *)
Definition hn (l : list (Graph.node * nattrs)) (k : string) : list dataset :=
  flat_map (fun p => match fst p with NData d => if attr_true k (snd p) then [d] else [] | _ => [] end) l.

Lemma holder_nodes_hn g k : holder_nodes g k = hn (gnodes g) k.
Proof. reflexivity. Qed.

Lemma hn_app l1 l2 k : hn (l1 ++ l2) k = hn l1 k ++ hn l2 k.
Proof. unfold hn. apply flat_map_app. Qed.

Lemma In_hn d l k : In d (hn l k) <-> exists a, In (NData d, a) l /\ attr_true k a = true.
Proof.
  unfold hn. rewrite in_flat_map. split.
  - intros ([n a] & H1 & H2). cbn [fst snd] in H2. destruct n as [d'| |]; try contradiction.
    destruct (attr_true k a) eqn:E; [|contradiction]. destruct H2 as [H2|[]]. subst d'. exists a. auto.
  - intros (a & H1 & H2). exists (NData d, a). split; [exact H1|]. cbn [fst snd]. rewrite H2. left. reflexivity.
Qed.

Lemma hn_upsert_nil n l k : hn (upsert_node n [] l) k = hn l k.
Proof.
  destruct (has_node_l n l) eqn:E.
  - destruct (upsert_old n [] l E) as (l1 & m & b & l2 & H1 & _ & _ & H4). rewrite H4, H1. reflexivity.
  - rewrite (upsert_new n [] l E), hn_app. cbn. destruct n; apply app_nil_r.
Qed.

Lemma hn_upsert_other n a l k : (forall v, ~ In (k, v) a) -> hn (upsert_node n a l) k = hn l k.
Proof.
  intros Hno. destruct (has_node_l n l) eqn:E.
  - destruct (upsert_old n a l E) as (l1 & m & b & l2 & H1 & _ & _ & H4). rewrite H4, H1, !hn_app. f_equal.
    unfold hn. cbn [flat_map fst snd]. rewrite (attr_true_update_other k a b Hno). reflexivity.
  - rewrite (upsert_new n a l E), hn_app. unfold hn at 2. cbn [flat_map fst snd].
    assert (attr_true k a = false) as ->.
    { destruct (attr_true k a) eqn:E2; [|reflexivity]. apply attr_true_In in E2. exfalso. exact (Hno _ E2). }
    destruct n; apply app_nil_r.
Qed.

(** soundness: a tagged dataset after an upsert was tagged before, or is (up to equality) the upserted node *)
Lemma hn_upsert_sound n a l k d :
  In d (hn (upsert_node n a l) k) -> In d (hn l k) \/ (In (k, true) a /\ node_eqb n (NData d) = true).
Proof.
  destruct (has_node_l n l) eqn:E.
  - destruct (upsert_old n a l E) as (l1 & m & b & l2 & H1 & H2 & _ & H4). rewrite H4, H1, !hn_app, !in_app_iff.
    intros [H|H]; [auto|]. unfold hn in H. cbn [flat_map fst snd] in H. fold (hn l2 k) in H.
    apply in_app_iff in H. destruct H as [H|H]; [|left; right; unfold hn at 1; cbn [flat_map]; apply in_app_iff; right; exact H].
    destruct m as [d'| |]; try contradiction.
    destruct (attr_true k (attr_update b a)) eqn:E2; [|contradiction]. destruct H as [H|[]]. subst d'.
    apply attr_true_update_inv in E2. destruct E2 as [E2|E2].
    + left. right. unfold hn. cbn [flat_map fst snd]. rewrite E2. left. reflexivity.
    + right. auto.
  - rewrite (upsert_new n a l E), hn_app, in_app_iff. intros [H|H]; [auto|].
    unfold hn in H. cbn [flat_map fst snd] in H. destruct n as [d'| |]; try contradiction.
    destruct (attr_true k a) eqn:E2; [|contradiction]. destruct H as [H|[]]. subst d'.
    right. split; [apply attr_true_In; exact E2|]. apply node_eqb_refl.
Qed.

Lemma hn_upsert_mono n a l k d :
  In d (hn l k) -> (forall v, In (k, v) a -> v = true) \/ node_eqb n (NData d) = false ->
  In d (hn (upsert_node n a l) k).
Proof.
  intros Hd Hc. destruct (has_node_l n l) eqn:E.
  - destruct (upsert_old n a l E) as (l1 & m & b & l2 & H1 & H2 & _ & H4). rewrite H4. rewrite H1 in Hd.
    rewrite !hn_app, !in_app_iff in *. destruct Hd as [Hd|Hd]; [auto|]. right.
    unfold hn in Hd |- *. cbn [flat_map fst snd] in Hd |- *. apply in_app_iff in Hd. apply in_app_iff.
    destruct Hd as [Hd|Hd]; [|auto]. left.
    destruct m as [d'| |]; try contradiction. destruct (attr_true k b) eqn:E2; [|contradiction].
    destruct Hd as [Hd|[]]. subst d'. destruct Hc as [Hc|Hc]; [|congruence].
    rewrite (attr_true_update_mono k a b Hc E2). left. reflexivity.
  - rewrite (upsert_new n a l E), hn_app, in_app_iff. auto.
Qed.

Lemma hn_upsert_complete v a l k :
  In (k, true) a -> (forall x, In (k, x) a -> x = true) ->
  exists d, In d (hn (upsert_node (NData v) a l) k) /\ dataset_eqb v d = true.
Proof.
  intros Hin Hall. destruct (has_node_l (NData v) l) eqn:E.
  - destruct (upsert_old (NData v) a l E) as (l1 & m & b & l2 & H1 & H2 & _ & H4). rewrite H4.
    destruct m as [d| |]; try discriminate. exists d. split; [|exact H2].
    rewrite hn_app, in_app_iff. right. unfold hn. cbn [flat_map fst snd].
    rewrite (attr_true_update_new k a b Hin Hall). left. reflexivity.
  - exists v. split; [|apply dataset_eqb_refl]. rewrite (upsert_new _ a l E), hn_app, in_app_iff. right.
    unfold hn. cbn [flat_map fst snd]. rewrite (In_attr_true k a Hin Hall). left. reflexivity.
Qed.

(** folds of upserts (compose) *)
Definition upserts (hl l : list (Graph.node * nattrs)) : list (Graph.node * nattrs) :=
  fold_left (fun l p => upsert_node (fst p) (snd p) l) hl l.

Lemma uniq_upserts hl : forall l, uniq l -> uniq (upserts hl l).
Proof.
  induction hl as [|[n a] r IH]; intros l H; cbn [upserts fold_left]; [exact H|].
  apply IH. apply uniq_upsert. exact H.
Qed.

Lemma hn_upserts_sound hl k d : forall l,
  In d (hn (upserts hl l) k) ->
  In d (hn l k) \/ exists n a, In (n, a) hl /\ In (k, true) a /\ node_eqb n (NData d) = true.
Proof.
  induction hl as [|[n a] r IH]; intros l H; cbn [upserts fold_left] in H; [left; exact H|].
  apply IH in H. destruct H as [H|(n' & a' & H1 & H2 & H3)].
  - cbn [fst snd] in H. apply hn_upsert_sound in H. destruct H as [H|[H1 H2]]; [left; exact H|].
    right. exists n, a. split; [left; reflexivity|auto].
  - right. exists n', a'. split; [right; exact H1|auto].
Qed.

Lemma hn_upserts_mono hl k d : forall l,
  In d (hn l k) ->
  (forall n a, In (n, a) hl -> (forall v, In (k, v) a -> v = true) \/ node_eqb n (NData d) = false) ->
  In d (hn (upserts hl l) k).
Proof.
  induction hl as [|[n a] r IH]; intros l H Hc; cbn [upserts fold_left]; [exact H|].
  apply IH.
  - cbn [fst snd]. apply hn_upsert_mono; [exact H|]. apply (Hc n a). left. reflexivity.
  - intros n' a' Hin. apply Hc. right. exact Hin.
Qed.

Lemma hn_upserts_complete hl k v a : forall l,
  In (NData v, a) hl -> In (k, true) a ->
  (forall n a', In (n, a') hl -> (forall x, In (k, x) a' -> x = true) \/ node_eqb n (NData v) = false) ->
  (forall x, In (k, x) a -> x = true) ->
  exists d, In d (hn (upserts hl l) k) /\ dataset_eqb v d = true.
Proof.
  induction hl as [|[n a0] r IH]; intros l Hin Hk Hc Hall; [destruct Hin|].
  cbn [upserts fold_left fst snd]. destruct Hin as [Hin|Hin].
  - inversion Hin. subst n a0.
    destruct (hn_upsert_complete v a l k Hk Hall) as (d & H1 & H2).
    exists d. split; [|exact H2]. apply hn_upserts_mono; [exact H1|].
    intros n' a' Hin'. destruct (Hc n' a' (or_intror Hin')) as [H|H]; [left; exact H|].
    right. rewrite <- H. symmetry. apply node_eqb_cong_r. exact H2.
  - apply IH; auto. intros n' a' Hin'. apply Hc. right. exact Hin'.
Qed.

(** ** invariants of holder graphs *)
Definition data_ok (d : dataset) : Prop :=
  match dk d with KTable => deq d = dstr d | KPath => False | KSubq => dquery d <> None end.
Definition nsubq (n : Graph.node) : bool :=
  match n with NData d => match dk d with KSubq => true | _ => false end | _ => false end.
Definition nok (n : Graph.node) : Prop :=
  match n with NData d => data_ok d | NCol c => Forall data_ok (cparents c) | NStr _ => True end.
Definition aok (n : Graph.node) (a : nattrs) : Prop :=
  NoDup (map fst a) /\ forall k v, In (k, v) a -> v = true \/ (k = "write" /\ nsubq n = true).
Definition nodes_ok (l : list (Graph.node * nattrs)) : Prop :=
  uniq l /\ forall n a, In (n, a) l -> nok n /\ aok n a.
Definition shape_ok (u v : Graph.node) : Prop :=
  match u, v with
  | NData t, NCol c => exists p, cparents c = [p] /\ dataset_eqb p t = true
  | _, _ => True
  end.
Definition ends_ok (u v : Graph.node) : Prop := nok u /\ nok v /\ shape_ok u v.
Definition edge_ok (e : Graph.node * Graph.node * eattrs) : Prop := ends_ok (fst (fst e)) (snd (fst e)).
Definition gok (g : graph) : Prop := nodes_ok (gnodes g) /\ Forall edge_ok (gedges g).

Lemma dataset_eqb_true_sym a b : dataset_eqb a b = true -> dataset_eqb b a = true.
Proof. intros H. rewrite dataset_eqb_sym. exact H. Qed.

Lemma dataset_eqb_dk a b : dataset_eqb a b = true -> dk a = dk b.
Proof. unfold dataset_eqb. intros H. apply andb_true_iff in H. apply dkind_beq_eq. exact (proj1 H). Qed.
Lemma dataset_eqb_deq a b : dataset_eqb a b = true -> deq a = deq b.
Proof. unfold dataset_eqb. intros H. apply andb_true_iff in H. apply String.eqb_eq. exact (proj2 H). Qed.

Lemma nsubq_eqb n m : node_eqb n m = true -> nsubq n = nsubq m.
Proof.
  destruct n as [d| |], m as [d'| |]; cbn [node_eqb nsubq]; try discriminate; try reflexivity.
  intros H. rewrite (dataset_eqb_dk _ _ H). reflexivity.
Qed.

Lemma eqb_table_dstr v d :
  dataset_eqb v d = true -> data_ok v -> data_ok d -> dk v = KTable -> dk d = KTable /\ dstr d = dstr v.
Proof.
  intros H Hv Hd Hk. pose proof (dataset_eqb_dk _ _ H) as E1. pose proof (dataset_eqb_deq _ _ H) as E2.
  unfold data_ok in *. rewrite <- E1, Hk in Hd. rewrite Hk in Hv. split; [congruence|congruence].
Qed.

Lemma keys_attr_set k v a :
  map fst (attr_set k v a) = if mem_string k (map fst a) then map fst a else map fst a ++ [k].
Proof.
  induction a as [|[k2 v2] r IH]; cbn [attr_set map fst mem_string]; [reflexivity|].
  destruct (String.eqb k k2) eqn:E; cbn [orb map fst].
  - apply String.eqb_eq in E. subst k2. reflexivity.
  - rewrite IH. destruct (mem_string k (map fst r)); reflexivity.
Qed.


Lemma NoDup_snoc {A} (l : list A) x : NoDup l -> ~ In x l -> NoDup (l ++ [x]).
Proof.
  induction l as [|y r IH]; intros H Hx; cbn [app].
  - constructor; [intros []|constructor].
  - inversion H. subst. constructor.
    + rewrite in_app_iff. intros [H4|[H4|[]]]; [contradiction|]. subst. apply Hx. left. reflexivity.
    + apply IH; [assumption|]. intros H4. apply Hx. right. exact H4.
Qed.

Lemma NoDup_attr_set k v a : NoDup (map fst a) -> NoDup (map fst (attr_set k v a)).
Proof.
  intros H. rewrite keys_attr_set. destruct (mem_string k (map fst a)) eqn:E; [exact H|].
  apply mem_string_false in E. apply NoDup_snoc; assumption.
Qed.

Lemma NoDup_attr_update a : forall b, NoDup (map fst b) -> NoDup (map fst (attr_update b a)).
Proof.
  induction a as [|[k v] r IH]; intros b H; cbn [attr_update]; [exact H|].
  apply IH. apply NoDup_attr_set. exact H.
Qed.

Lemma NoDup_keys_In_get k v a : NoDup (map fst a) -> In (k, v) a -> attr_get k a = Some v.
Proof.
  induction a as [|[k2 v2] r IH]; cbn [map fst attr_get In]; [tauto|].
  intros H Hin. inversion H. subst. destruct Hin as [Hin|Hin].
  - inversion Hin. subst. rewrite String.eqb_refl. reflexivity.
  - destruct (String.eqb k k2) eqn:E; [|apply IH; assumption].
    apply String.eqb_eq in E. subst k2. exfalso. apply H2. apply (in_map fst) in Hin. exact Hin.
Qed.

Lemma aok_In_true n a k : aok n a -> In (k, true) a -> attr_true k a = true.
Proof. intros [H _] Hin. unfold attr_true. rewrite (NoDup_keys_In_get k true a H Hin). reflexivity. Qed.

Lemma aok_update n m b a : node_eqb n m = true -> aok m b -> aok n a -> aok m (attr_update b a).
Proof.
  intros E [Hb1 Hb2] [Ha1 Ha2]. split; [apply NoDup_attr_update; exact Hb1|].
  intros k v Hin. apply In_attr_update in Hin. destruct Hin as [Hin|Hin]; [apply Hb2; exact Hin|].
  rewrite <- (nsubq_eqb n m E). apply Ha2. exact Hin.
Qed.

Lemma aok_nil n : aok n [].
Proof. split; [constructor|intros k v []]. Qed.

Lemma aok_single n k : aok n [(k, true)].
Proof. split; [repeat constructor; intros []|]. intros k' v [H|[]]. inversion H. left. reflexivity. Qed.

Lemma nodes_ok_upsert n a l : nodes_ok l -> nok n -> aok n a -> nodes_ok (upsert_node n a l).
Proof.
  intros [Hu Hall] Hn Ha. split; [apply uniq_upsert; exact Hu|].
  intros m c Hin. destruct (has_node_l n l) eqn:E.
  - destruct (upsert_old n a l E) as (l1 & m' & b & l2 & H1 & H2 & _ & H4). rewrite H4 in Hin. subst l.
    apply in_app_iff in Hin. destruct Hin as [Hin|[Hin|Hin]].
    + apply Hall. apply in_app_iff. left. exact Hin.
    + inversion Hin. subst m c. destruct (Hall m' b) as [Hm Hb]; [apply in_app_iff; right; left; reflexivity|].
      split; [exact Hm|]. apply (aok_update n); assumption.
    + apply Hall. apply in_app_iff. right. right. exact Hin.
  - rewrite (upsert_new n a l E) in Hin. apply in_app_iff in Hin. destruct Hin as [Hin|[Hin|[]]]; [apply Hall; exact Hin|].
    inversion Hin. subst. auto.
Qed.

Lemma nodes_ok_upserts hl : forall l,
  nodes_ok l -> (forall n a, In (n, a) hl -> nok n /\ aok n a) -> nodes_ok (upserts hl l).
Proof.
  induction hl as [|[n a] r IH]; intros l H Hall; cbn [upserts fold_left]; [exact H|].
  apply IH.
  - cbn [fst snd]. destruct (Hall n a (or_introl eq_refl)). apply nodes_ok_upsert; assumption.
  - intros n' a' Hin. apply Hall. right. exact Hin.
Qed.

(** canonical representatives *)
Lemma canon_eqb n l : node_eqb n (canon_l n l) = true.
Proof.
  induction l as [|[m b] r IH]; cbn [canon_l]; [apply node_eqb_refl|].
  destruct (node_eqb n m) eqn:E; [exact E|exact IH].
Qed.

Lemma col_eqb_parent c c' p :
  col_eqb c c' = true -> cparents c = [p] -> exists p', cparents c' = [p'] /\ dataset_eqb p p' = true.
Proof.
  unfold col_eqb, col_parent. intros H Hp. apply andb_true_iff in H. destruct H as [_ H]. rewrite Hp in H.
  destruct (cparents c') as [|p' [|q r]]; cbn [opt_dataset_eqb] in H; try discriminate.
  exists p'. split; [reflexivity|exact H].
Qed.

Lemma shape_ok_eqb u v u' v' :
  node_eqb u u' = true -> node_eqb v v' = true -> shape_ok u v -> shape_ok u' v'.
Proof.
  destruct u as [t|uc|us], u' as [t'|uc'|us']; cbn [node_eqb]; try discriminate; intros Hu;
    destruct v as [d|c|s], v' as [d'|c'|s']; cbn [node_eqb shape_ok]; try discriminate; auto.
  intros Hv (p & Hp & Hpt). destruct (col_eqb_parent c c' p Hv Hp) as (p' & Hp' & Hpp').
  exists p'. split; [exact Hp'|].
  apply (dataset_eqb_trans p' p t'); [apply dataset_eqb_true_sym; exact Hpp'|].
  apply (dataset_eqb_trans p t t'); assumption.
Qed.

Lemma Forall_upsert_edge u v a es : Forall edge_ok es -> ends_ok u v -> Forall edge_ok (upsert_edge u v a es).
Proof.
  intros H Hn. induction es as [|e r IH]; cbn [upsert_edge].
  - constructor; [exact Hn|constructor].
  - inversion H. subst. destruct (edge_is u v e); constructor; auto.
Qed.

(** ** graph operations preserve the invariant *)
Lemma gok_empty : gok empty_graph.
Proof. split; [split; [exact I|intros n a []]|constructor]. Qed.

Lemma gok_add_node g n a : gok g -> nok n -> aok n a -> gok (add_node g n a).
Proof. intros [H1 H2] Hn Ha. split; [apply nodes_ok_upsert; assumption|exact H2]. Qed.

Lemma canon_nok n l : (forall m a, In (m, a) l -> nok m) -> nok n -> nok (canon_l n l).
Proof.
  intros H Hn. induction l as [|[m b] r IH]; cbn [canon_l]; [exact Hn|].
  destruct (node_eqb n m); [apply (H m b); left; reflexivity|]. apply IH. intros m' a' Hin. apply (H m' a'). right. exact Hin.
Qed.

Lemma ends_ok_canon u v l : nodes_ok l -> ends_ok u v -> ends_ok (canon_l u l) (canon_l v l).
Proof.
  intros [_ Hl] (Hu & Hv & Hs).
  assert (Hl' : forall m a, In (m, a) l -> nok m) by (intros m a Hin; exact (proj1 (Hl m a Hin))).
  split; [apply canon_nok; assumption|]. split; [apply canon_nok; assumption|].
  apply (shape_ok_eqb u v); [apply canon_eqb|apply canon_eqb|exact Hs].
Qed.

Lemma gok_add_edge g u v a : gok g -> ends_ok u v -> gok (add_edge g u v a).
Proof.
  intros [H1 H2] He. pose proof He as (Hu & Hv & _). unfold add_edge.
  assert (Hn : nodes_ok (upsert_node v [] (upsert_node u [] (gnodes g)))).
  { apply nodes_ok_upsert; [apply nodes_ok_upsert|..]; auto using aok_nil. }
  split; cbn [gnodes gedges add_node]; [exact Hn|].
  apply Forall_upsert_edge; [exact H2|]. apply ends_ok_canon; assumption.
Qed.

Lemma gok_remove_node g n : gok g -> gok (remove_node g n).
Proof.
  intros [[H1 H1'] H2]. split; cbn [remove_node gnodes gedges].
  - split; [apply uniq_filter; exact H1|]. intros m a Hin. apply filter_In in Hin. apply H1'. exact (proj1 Hin).
  - rewrite Forall_forall in *. intros e He. apply filter_In in He. apply H2. exact (proj1 He).
Qed.

Lemma gok_compose g h : gok g -> gok h -> gok (compose g h).
Proof.
  intros [H1 H2] [[H3 H3'] H4]. unfold compose.
  set (ns := fold_left (fun l p => upsert_node (fst p) (snd p) l) (gnodes h) (gnodes g)).
  split; cbn [gnodes gedges].
  - apply nodes_ok_upserts; assumption.
  - assert (Hn : nodes_ok ns) by (apply nodes_ok_upserts; assumption).
    clear H3 H3'. generalize (gedges g) H2. induction H4 as [|e r He Hr IH]; intros es Hes; cbn [fold_left]; [exact Hes|].
    apply IH. apply Forall_upsert_edge; [exact Hes|]. apply ends_ok_canon; assumption.
Qed.

Lemma gok_set_attr_write g sq : gok g -> dk sq = KSubq -> gok (set_attr g [NData sq] "write" false).
Proof.
  intros [[H1 H1'] H2] Hk. split; cbn [set_attr gnodes gedges]; [|exact H2]. split.
  - apply (uniq_keys (gnodes g)); [|exact H1]. rewrite map_map. apply map_ext. intros [n a]. cbn [fst snd].
    destruct (existsb _ _); reflexivity.
  - intros n a Hin. apply in_map_iff in Hin. destruct Hin as ([m b] & Heq & Hin). cbn [fst snd] in Heq.
    destruct (H1' m b Hin) as [Hm [Hb1 Hb2]].
    destruct (existsb (node_eqb m) [NData sq]) eqn:E; inversion Heq; subst n a; [|split; [exact Hm|split; assumption]].
    split; [exact Hm|]. split; [apply NoDup_attr_set; exact Hb1|].
    intros k v Hkv. apply In_attr_set in Hkv. destruct Hkv as [Hkv|Hkv]; [|apply Hb2; exact Hkv].
    inversion Hkv. subst k v. right. split; [reflexivity|].
    cbn [existsb] in E. rewrite orb_false_r in E. rewrite (nsubq_eqb _ _ E). cbn [nsubq]. rewrite Hk. reflexivity.
Qed.

(** ** how the operations change the tagged datasets *)
Lemma single_no_other (k k0 : string) (b : bool) : k <> k0 -> forall v, ~ In (k, v) [(k0, b)].
Proof. intros H v [E|[]]. inversion E. congruence. Qed.

Lemma tag_add_other g n k0 b k : k <> k0 -> holder_nodes (add_node g n [(k0, b)]) k = holder_nodes g k.
Proof. intros H. rewrite !holder_nodes_hn. cbn [add_node gnodes]. apply hn_upsert_other. apply single_no_other. exact H. Qed.

Lemma tag_add_sound g v k d :
  In d (holder_nodes (add_node g (NData v) [(k, true)]) k) -> In d (holder_nodes g k) \/ dataset_eqb v d = true.
Proof.
  rewrite !holder_nodes_hn. cbn [add_node gnodes]. intros H. apply hn_upsert_sound in H.
  destruct H as [H|[_ H]]; [left; exact H|right; exact H].
Qed.

Lemma tag_add_mono g n k d :
  In d (holder_nodes g k) -> In d (holder_nodes (add_node g n [(k, true)]) k).
Proof.
  rewrite !holder_nodes_hn. cbn [add_node gnodes]. intros H. apply hn_upsert_mono; [exact H|].
  left. intros v [E|[]]. inversion E. reflexivity.
Qed.

Lemma tag_add_complete g v k :
  exists d, In d (holder_nodes (add_node g (NData v) [(k, true)]) k) /\ dataset_eqb v d = true.
Proof.
  rewrite holder_nodes_hn. cbn [add_node gnodes]. apply hn_upsert_complete; [left; reflexivity|].
  intros x [E|[]]. inversion E. reflexivity.
Qed.

Lemma tag_add_edge g u v a k : holder_nodes (add_edge g u v a) k = holder_nodes g k.
Proof. rewrite !holder_nodes_hn. cbn [add_edge add_node gnodes]. rewrite !hn_upsert_nil. reflexivity. Qed.

Lemma hn_filter_data (p : Graph.node * nattrs -> bool) l k :
  (forall d a, p (NData d, a) = true) -> hn (filter p l) k = hn l k.
Proof.
  intros H. induction l as [|[n a] r IH]; cbn [filter]; [reflexivity|].
  destruct (p (n, a)) eqn:E.
  - unfold hn. cbn [flat_map]. f_equal. exact IH.
  - destruct n as [d| |]; [rewrite H in E; discriminate| |]; exact IH.
Qed.

Lemma tag_remove_col g c k : holder_nodes (remove_node g (NCol c)) k = holder_nodes g k.
Proof. rewrite !holder_nodes_hn. cbn [remove_node gnodes]. apply hn_filter_data. reflexivity. Qed.

Lemma tag_set_attr_other g ns k0 v k : k <> k0 -> holder_nodes (set_attr g ns k0 v) k = holder_nodes g k.
Proof.
  intros H. rewrite !holder_nodes_hn. cbn [set_attr gnodes]. induction (gnodes g) as [|[n a] r IH]; [reflexivity|].
  cbn [map fst snd]. unfold hn. cbn [flat_map]. f_equal; [|exact IH].
  destruct (existsb (node_eqb n) ns); cbn [fst snd]; [|reflexivity].
  rewrite attr_true_set. destruct (String.eqb k k0) eqn:E; [|reflexivity]. apply String.eqb_eq in E. contradiction.
Qed.

Lemma tag_set_attr_write g sq d :
  In d (holder_nodes (set_attr g [NData sq] "write" false) "write") ->
  In d (holder_nodes g "write") /\ dataset_eqb d sq = false.
Proof.
  rewrite !holder_nodes_hn. cbn [set_attr gnodes]. rewrite !In_hn. intros (a & Hin & Ha).
  apply in_map_iff in Hin. destruct Hin as ([m b] & Heq & Hin). cbn [fst snd] in Heq.
  destruct (existsb (node_eqb m) [NData sq]) eqn:E; inversion Heq; subst.
  - rewrite attr_true_set, String.eqb_refl in Ha. discriminate.
  - split; [exists a; auto|]. cbn [existsb node_eqb] in E. rewrite orb_false_r in E. exact E.
Qed.

Lemma nodes_ok_tag l n a k : nodes_ok l -> In (n, a) l -> In (k, true) a -> attr_true k a = true.
Proof. intros [_ H] Hin Hk. destruct (H n a Hin) as [_ Ha]. apply (aok_In_true n a k Ha Hk). Qed.

Lemma tag_compose_sound g h k d :
  gok h -> In d (holder_nodes (compose g h) k) ->
  In d (holder_nodes g k) \/ exists d', In d' (holder_nodes h k) /\ dataset_eqb d' d = true.
Proof.
  intros [Hh _]. rewrite !holder_nodes_hn. cbn [compose gnodes]. intros H.
  apply hn_upserts_sound in H. destruct H as [H|(n & a & H1 & H2 & H3)]; [left; exact H|].
  right. destruct n as [d'| |]; try discriminate. exists d'. split; [|exact H3].
  apply In_hn. exists a. split; [exact H1|]. apply (nodes_ok_tag _ _ _ _ Hh H1 H2).
Qed.

Lemma compose_side h k d :
  gok h -> k <> "write" \/ dk d <> KSubq ->
  forall n a, In (n, a) (gnodes h) -> (forall v, In (k, v) a -> v = true) \/ node_eqb n (NData d) = false.
Proof.
  intros [[_ Hh] _] Hc n a Hin. destruct (Hh n a Hin) as [_ [_ Ha]].
  destruct (node_eqb n (NData d)) eqn:E; [left|right; reflexivity].
  intros v Hv. destruct (Ha k v Hv) as [Hv'|[Hk Hs]]; [exact Hv'|].
  destruct Hc as [Hc|Hc]; [contradiction|]. rewrite (nsubq_eqb _ _ E) in Hs. cbn [nsubq] in Hs.
  destruct (dk d); try discriminate. exfalso. apply Hc. reflexivity.
Qed.

Lemma tag_compose_mono g h k d :
  gok h -> k <> "write" \/ dk d <> KSubq ->
  In d (holder_nodes g k) -> In d (holder_nodes (compose g h) k).
Proof.
  intros Hh Hc. rewrite !holder_nodes_hn. cbn [compose gnodes]. intros H.
  apply hn_upserts_mono; [exact H|]. apply compose_side; assumption.
Qed.

Lemma tag_compose_complete g h k d' :
  gok h -> k <> "write" \/ dk d' <> KSubq ->
  In d' (holder_nodes h k) -> exists d, In d (holder_nodes (compose g h) k) /\ dataset_eqb d' d = true.
Proof.
  intros Hh Hc. rewrite !holder_nodes_hn. cbn [compose gnodes]. rewrite In_hn. intros (a & Hin & Ha).
  apply (hn_upserts_complete (gnodes h) k d' a); [exact Hin|apply attr_true_In; exact Ha|apply compose_side; assumption|].
  destruct (compose_side h k d' Hh Hc (NData d') a Hin) as [H|H]; [exact H|].
  cbn [node_eqb] in H. rewrite dataset_eqb_refl in H. discriminate.
Qed.

Lemma gok_data g d k : gok g -> In d (holder_nodes g k) -> data_ok d.
Proof.
  intros [[_ H] _]. rewrite holder_nodes_hn, In_hn. intros (a & Hin & _). exact (proj1 (H _ _ Hin)).
Qed.

(** ** the read / write sets of table names *)
Definition tset (g : graph) (k : string) (x : string) : Prop :=
  exists d, In d (holder_nodes g k) /\ dk d = KTable /\ dstr d = x.

Lemma st_read_tset g x : gok g -> In x (map dstr (st_read g)) <-> tset g "read" x.
Proof.
  intros Hg. unfold st_read, sq_read, tset. rewrite in_map_iff. split.
  - intros (d & H1 & H2). apply filter_In in H2. destruct H2 as [H2 H3]. exists d. split; [exact H2|]. split; [|exact H1].
    pose proof (gok_data g d _ Hg H2) as Hd. unfold data_ok in Hd. destruct (dk d); [reflexivity|contradiction|discriminate].
  - intros (d & H1 & H2 & H3). exists d. split; [exact H3|]. apply filter_In. split; [exact H1|]. rewrite H2. reflexivity.
Qed.

Lemma st_write_tset g x : gok g -> In x (map dstr (st_write g)) <-> tset g "write" x.
Proof.
  intros Hg. unfold st_write, sq_write, tset. rewrite in_map_iff. split.
  - intros (d & H1 & H2). apply filter_In in H2. destruct H2 as [H2 H3]. exists d. split; [exact H2|]. split; [|exact H1].
    pose proof (gok_data g d _ Hg H2) as Hd. unfold data_ok in Hd. destruct (dk d); [reflexivity|contradiction|discriminate].
  - intros (d & H1 & H2 & H3). exists d. split; [exact H3|]. apply filter_In. split; [exact H1|]. rewrite H2. reflexivity.
Qed.

Lemma hn_NoDup l k : nodes_ok l -> NoDup (map dstr (filter (fun d => match dk d with KSubq => false | _ => true end) (hn l k))).
Proof.
  intros [Hu Hall]. induction l as [|[n a] r IH]; [constructor|].
  cbn [uniq fst] in Hu. destruct Hu as [Hu1 Hu2].
  assert (IH' := IH Hu2 (fun n a H => Hall n a (or_intror H))). clear IH.
  unfold hn. cbn [flat_map fst snd]. fold (hn r k).
  destruct n as [d| |]; try exact IH'. destruct (attr_true k a); [|exact IH'].
  cbn [app filter]. destruct (dk d) eqn:Ek; try exact IH'.
  - cbn [map]. constructor; [|exact IH']. intros Hin. apply in_map_iff in Hin. destruct Hin as (d2 & H1 & H2).
    apply filter_In in H2. destruct H2 as [H2 H3]. apply In_hn in H2. destruct H2 as (a2 & H2 & _).
    destruct (Hall (NData d) a (or_introl eq_refl)) as [Hd _]. destruct (Hall (NData d2) a2 (or_intror H2)) as [Hd2 _].
    cbn [nok] in Hd, Hd2. unfold data_ok in Hd, Hd2. rewrite Ek in Hd.
    destruct (dk d2) eqn:Ek2; try contradiction; try discriminate.
    assert (E : node_eqb (NData d) (NData d2) = true).
    { cbn [node_eqb]. unfold dataset_eqb. rewrite Ek, Ek2. cbn [dkind_beq]. apply String.eqb_eq. congruence. }
    assert (has_node_l (NData d) r = true) by (apply has_node_l_In; exists (NData d2), a2; auto). congruence.
  - destruct (Hall (NData d) a (or_introl eq_refl)) as [Hd _]. cbn [nok] in Hd. unfold data_ok in Hd. rewrite Ek in Hd. contradiction.
Qed.

Lemma st_read_NoDup g : gok g -> NoDup (map dstr (st_read g)).
Proof. intros [H _]. apply hn_NoDup. exact H. Qed.
Lemma st_write_NoDup g : gok g -> NoDup (map dstr (st_write g)).
Proof. intros [H _]. apply hn_NoDup. exact H. Qed.

(** the final step of every table-level statement *)
Lemma stmt_reads_spec r g (l : list string) :
  r = Ok g -> gok g -> (forall x, tset g "read" x <-> In x l) -> stmt_reads r = sort_strings (dedup_s l []).
Proof.
  intros -> Hg H. cbn [stmt_reads]. apply sort_strings_set_eq.
  - apply st_read_NoDup. exact Hg.
  - apply NoDup_dedup_s.
  - intros x. rewrite (st_read_tset g x Hg), H, In_dedup_s. cbn [In]. tauto.
Qed.

Lemma stmt_writes_spec r g (l : list string) :
  r = Ok g -> gok g -> NoDup l -> (forall x, tset g "write" x <-> In x l) -> stmt_writes r = sort_strings l.
Proof.
  intros -> Hg Hl H. cbn [stmt_writes]. apply sort_strings_set_eq.
  - apply st_write_NoDup. exact Hg.
  - exact Hl.
  - intros x. rewrite (st_write_tset g x Hg), H. tauto.
Qed.

(** ** uniqueness consequences *)
Lemma uniq_In_eq l : uniq l -> forall n1 a1 n2 a2,
  In (n1, a1) l -> In (n2, a2) l -> node_eqb n1 n2 = true -> n1 = n2.
Proof.
  induction l as [|[m b] r IH]; intros Hu n1 a1 n2 a2 H1 H2 E; [destruct H1|].
  cbn [uniq fst] in Hu. destruct Hu as [Hu1 Hu2]. destruct H1 as [H1|H1], H2 as [H2|H2].
  - inversion H1. inversion H2. subst. reflexivity.
  - inversion H1. subst. assert (has_node_l n1 r = true) by (apply has_node_l_In; exists n2, a2; auto). congruence.
  - inversion H2. subst. assert (has_node_l n2 r = true) by (apply has_node_l_In; exists n1, a1; split; [exact H1|apply node_eqb_true_sym; exact E]). congruence.
  - apply (IH Hu2 n1 a1 n2 a2); assumption.
Qed.

Lemma tagged_eqb_eq g k1 k2 d1 d2 :
  gok g -> In d1 (holder_nodes g k1) -> In d2 (holder_nodes g k2) -> dataset_eqb d1 d2 = true -> d1 = d2.
Proof.
  intros [[Hu _] _]. rewrite !holder_nodes_hn, !In_hn. intros (a1 & H1 & _) (a2 & H2 & _) E.
  assert (NData d1 = NData d2) by (apply (uniq_In_eq _ Hu _ a1 _ a2); assumption). congruence.
Qed.

Fixpoint noeqb (l : list dataset) : Prop :=
  match l with [] => True | d :: r => (forall d', In d' r -> dataset_eqb d d' = false) /\ noeqb r end.

Lemma hn_noeqb l k : uniq l -> noeqb (hn l k).
Proof.
  induction l as [|[n a] r IH]; intros Hu; [exact I|]. cbn [uniq fst] in Hu. destruct Hu as [Hu1 Hu2].
  unfold hn. cbn [flat_map fst snd]. fold (hn r k). destruct n as [d| |]; try (apply IH; exact Hu2).
  destruct (attr_true k a); [|apply IH; exact Hu2]. cbn [app noeqb]. split; [|apply IH; exact Hu2].
  intros d' Hd'. apply In_hn in Hd'. destruct Hd' as (a' & Hin & _).
  destruct (dataset_eqb d d') eqn:E; [|reflexivity].
  assert (has_node_l (NData d) r = true) by (apply has_node_l_In; exists (NData d'), a'; auto). congruence.
Qed.

Definition one_write (g : graph) : Prop :=
  forall d1 d2, In d1 (sq_write g) -> In d2 (sq_write g) -> dataset_eqb d1 d2 = true.

Lemma one_write_length g : gok g -> one_write g -> List.length (sq_write g) <= 1.
Proof.
  intros [[Hu _] _] H. pose proof (hn_noeqb (gnodes g) "write" Hu) as Hn. unfold one_write, sq_write in *.
  rewrite holder_nodes_hn in *. destruct (hn (gnodes g) "write") as [|d1 [|d2 r]]; cbn [List.length]; try lia.
  cbn [noeqb] in Hn. destruct Hn as [Hn _]. specialize (Hn d2 (or_introl eq_refl)).
  rewrite (H d1 d2 (or_introl eq_refl) (or_intror (or_introl eq_refl))) in Hn. discriminate.
Qed.

Lemma tset_compose g h k x :
  gok g -> gok h -> k <> "write" -> (tset (compose g h) k x <-> tset g k x \/ tset h k x).
Proof.
  intros Hg Hh Hk. pose proof (gok_compose g h Hg Hh) as Hc. unfold tset. split.
  - intros (d & H1 & H2 & H3). destruct (tag_compose_sound g h k d Hh H1) as [H|(d' & Hd' & E)]; [left; exists d; auto|].
    right. exists d'. split; [exact Hd'|]. pose proof (gok_data _ _ _ Hc H1) as Hd. pose proof (gok_data _ _ _ Hh Hd') as Hdd.
    apply dataset_eqb_true_sym in E. pose proof (dataset_eqb_dk _ _ E) as Ek. rewrite H2 in Ek.
    destruct (eqb_table_dstr d d' E Hd Hdd H2). split; congruence.
  - intros [(d & H1 & H2 & H3)|(d' & H1 & H2 & H3)].
    + exists d. split; [apply tag_compose_mono; auto|auto].
    + destruct (tag_compose_complete g h k d' Hh (or_introl Hk) H1) as (d & Hd & E).
      pose proof (gok_data _ _ _ Hc Hd) as Hdd. pose proof (gok_data _ _ _ Hh H1) as Hd'.
      destruct (eqb_table_dstr d' d E Hd' Hdd H2). exists d. split; [exact Hd|]. split; congruence.
Qed.

(* ================================================================== *)
(** * Part C: the column-level operations keep the invariant and the tags *)

(** [g'] has the same tagged datasets as [g] and is well-formed *)
Definition cstep (g g' : graph) : Prop := gok g' /\ forall k, holder_nodes g' k = holder_nodes g k.

Lemma cstep_refl g : gok g -> cstep g g.
Proof. intros H. split; [exact H|reflexivity]. Qed.
Lemma cstep_trans g1 g2 g3 : cstep g1 g2 -> cstep g2 g3 -> cstep g1 g3.
Proof. intros [H1 H2] [H3 H4]. split; [exact H3|]. intros k. rewrite H4, H2. reflexivity. Qed.

Lemma cstep_add_edge g u v a : gok g -> ends_ok u v -> cstep g (add_edge g u v a).
Proof. intros Hg He. split; [apply gok_add_edge; assumption|]. intros k. apply tag_add_edge. Qed.

Lemma cstep_remove_col g c : gok g -> cstep g (remove_node g (NCol c)).
Proof. intros Hg. split; [apply gok_remove_node; exact Hg|]. intros k. apply tag_remove_col. Qed.

(** generic folds in the result monad *)
Lemma fold_res_inv {A B} (P : B -> Prop) (f : B -> A -> res B) l : forall b,
  P b -> (forall b x, In x l -> P b -> exists b', f b x = Ok b' /\ P b') ->
  exists b', fold_left (fun acc x => match acc with Ok y => f y x | Err e => Err e end) l (Ok b) = Ok b' /\ P b'.
Proof.
  induction l as [|x r IH]; intros b Hb Hf; cbn [fold_left]; [exists b; auto|].
  destruct (Hf b x (or_introl eq_refl) Hb) as (b1 & E & Hb1). rewrite E.
  apply IH; [exact Hb1|]. intros b2 y Hy. apply Hf. right. exact Hy.
Qed.

Lemma fold_res_idx_inv {A B} (P : B -> Prop) (f : B -> nat -> A -> res B) l : forall b i,
  P b -> (forall b i x, In x l -> P b -> exists b', f b i x = Ok b' /\ P b') ->
  exists b', fst (fold_left (fun acc x => let '(r, idx) := acc in
                              (match r with Ok y => f y idx x | Err e => Err e end, S idx)) l (Ok b, i)) = Ok b' /\ P b'.
Proof.
  induction l as [|x r IH]; intros b i Hb Hf; cbn [fold_left]; [exists b; auto|].
  destruct (Hf b i x (or_introl eq_refl) Hb) as (b1 & E & Hb1). rewrite E.
  apply IH; [exact Hb1|]. intros b2 j y Hy. apply Hf. right. exact Hy.
Qed.

(** columns with exactly one, well-formed parent *)
Definition col1 (c : column) : Prop := nok (NCol c) /\ exists p, cparents c = [p].

Lemma col1_parent c : col1 c -> exists p, col_parent c = Some p /\ cparents c = [p] /\ data_ok p.
Proof.
  intros [Hn (p & Hp)]. exists p. unfold col_parent. rewrite Hp. split; [reflexivity|]. split; [reflexivity|].
  cbn [nok] in Hn. rewrite Hp in Hn. inversion Hn. assumption.
Qed.

Lemma col_parent_some c p : col_parent c = Some p -> cparents c = [p].
Proof. unfold col_parent. destruct (cparents c) as [|q [|q' r]]; intros H; inversion H. reflexivity. Qed.

Lemma out_edges_col1 g t e :
  gok g -> In e (out_edges g (NData t)) ->
  match snd (fst e) with NCol c => col1 c /\ exists p, cparents c = [p] /\ dataset_eqb p t = true | _ => True end.
Proof.
  intros [_ Hg] Hin. unfold out_edges in Hin. apply filter_In in Hin. destruct Hin as [Hin E].
  rewrite Forall_forall in Hg. specialize (Hg e Hin). unfold edge_ok, ends_ok in Hg.
  destruct e as [[u v] a]. cbn [fst snd] in *. destruct Hg as (Hu & Hv & Hs).
  destruct v as [d|c|s]; auto. destruct u as [t'|c'|s']; cbn [node_eqb] in E; try discriminate.
  cbn [shape_ok] in Hs. destruct Hs as (p & Hp & Hpt). split.
  - split; [exact Hv|exists p; exact Hp].
  - exists p. split; [exact Hp|]. apply (dataset_eqb_trans p t' t); [exact Hpt|apply dataset_eqb_true_sym; exact E].
Qed.

Lemma get_table_columns_col1 g t : gok g -> Forall col1 (get_table_columns g t).
Proof.
  intros Hg. apply Forall_forall. intros c Hc. unfold get_table_columns in Hc. apply in_flat_map in Hc.
  destruct Hc as (e & He & Hc). pose proof (out_edges_col1 g t e Hg He) as H.
  destruct (String.eqb (etype (snd e)) "has_column"); [|destruct Hc].
  destruct (snd (fst e)) as [d|c'|s]; [destruct Hc| |destruct Hc]. destruct (String.eqb (craw c') "*"); [destruct Hc|].
  destruct Hc as [Hc|[]]. subst c'. exact (proj1 H).
Qed.

Lemma In_insert_by_idx x y l : In x (insert_by_idx y l) <-> x = y \/ In x l.
Proof.
  induction l as [|z r IH]; cbn [insert_by_idx In].
  - split; intros [H|H]; auto.
  - destruct (Nat.ltb (snd y) (snd z)); cbn [In]; [split; intros [H|H]; auto|].
    rewrite IH. split; intros H; tauto.
Qed.

Lemma In_sort_by_idx x l : In x (sort_by_idx l) <-> In x l.
Proof.
  unfold sort_by_idx. assert (H : forall acc, In x (fold_left (fun acc x => insert_by_idx x acc) l acc) <-> In x l \/ In x acc).
  { induction l as [|y r IH]; intros acc; cbn [fold_left In]; [tauto|]. rewrite IH, In_insert_by_idx. intuition auto. }
  rewrite H. cbn [In]. tauto.
Qed.

Lemma write_columns_col1 g :
  gok g -> forall c, In c (write_columns g) ->
  col1 c /\ exists t p, get_target_table g = Some t /\ cparents c = [p] /\ dataset_eqb p t = true.
Proof.
  intros Hg c Hc. unfold write_columns in Hc. destruct (get_target_table g) as [t|] eqn:Et; [|destruct Hc].
  apply in_map_iff in Hc. destruct Hc as ([c' i] & Heq & Hc). cbn [fst] in Heq. subst c'.
  apply (proj1 (In_sort_by_idx _ _)) in Hc. apply in_flat_map in Hc. destruct Hc as (e & He & Hc).
  pose proof (out_edges_col1 g t e Hg He) as H.
  destruct (String.eqb (etype (snd e)) "has_column"); [|destruct Hc].
  destruct (snd (fst e)) as [d|c'|s]; [destruct Hc| |destruct Hc]. destruct Hc as [Hc|[]]. inversion Hc. subst c'.
  destruct H as [K1 (p & K2 & K3)]. split; [exact K1|]. exists t, p. auto.
Qed.

Lemma get_target_table_In g t : get_target_table g = Some t -> In t (holder_nodes g "write").
Proof.
  unfold get_target_table. destruct (filter _ (sq_write g)) as [|d r] eqn:E; intros H; inversion H. subst d.
  assert (Hin : In t (filter (fun d => negb (memd d (sq_read g))) (sq_write g))) by (rewrite E; left; reflexivity).
  apply filter_In in Hin. exact (proj1 Hin).
Qed.

(** add_parent on a column without parents, or whose only parent is the target *)
Definition col_for (t : dataset) (c : column) : Prop :=
  cparents c = [] \/ exists p, cparents c = [p] /\ dataset_eqb p t = true /\ data_ok p.

Lemma add_parent_col_for c t :
  col_for t c -> data_ok t ->
  nok (NCol (add_parent c t)) /\ exists p, cparents (add_parent c t) = [p] /\ dataset_eqb p t = true.
Proof.
  intros [H|(p & H1 & H2 & H3)] Ht; unfold add_parent; rewrite H || rewrite H1; cbn [memd existsb].
  - cbn [insert_parent cparents nok]. split; [constructor; [exact Ht|constructor]|]. exists t. split; [reflexivity|apply dataset_eqb_refl].
  - rewrite (dataset_eqb_sym t p), H2. cbn [orb]. cbn [nok]. rewrite H1. split; [constructor; [exact H3|constructor]|].
    exists p. auto.
Qed.

Lemma cstep_add_write_column g cols :
  gok g -> (forall t, In t (holder_nodes g "write") -> Forall (col_for t) cols) -> cstep g (add_write_column g cols).
Proof.
  intros Hg Hc. unfold add_write_column. destruct (sq_write g) as [|tgt r] eqn:E; [apply cstep_refl; exact Hg|].
  assert (Hin : In tgt (holder_nodes g "write")) by (unfold sq_write in E; rewrite E; left; reflexivity).
  specialize (Hc tgt Hin). pose proof (gok_data g tgt _ Hg Hin) as Ht.
  assert (H : forall g' i, cstep g g' ->
            cstep g (fst (fold_left (fun acc c => let '(g', idx) := acc in
                     (add_edge g' (NData tgt) (NCol (add_parent c tgt)) (e_has_column (Some idx)), S idx)) cols (g', i)))).
  { induction Hc as [|c cs Hc0 Hcs IH]; intros g' i Hs; cbn [fold_left]; [exact Hs|].
    apply IH. apply (cstep_trans g g'); [exact Hs|]. apply cstep_add_edge; [exact (proj1 Hs)|].
    destruct (add_parent_col_for c tgt Hc0 Ht) as [H1 H2]. split; [exact Ht|]. split; [exact H1|exact H2]. }
  apply H. apply cstep_refl. exact Hg.
Qed.

Lemma add_column_lineage_ok g src tgt :
  gok g -> nok (NCol src) -> col1 tgt -> exists g', add_column_lineage g src tgt = Ok g' /\ cstep g g'.
Proof.
  intros Hg Hs Ht. destruct (col1_parent tgt Ht) as (tp & E1 & E2 & Htp). unfold add_column_lineage. rewrite E1.
  eexists. split; [reflexivity|].
  assert (S1 : cstep g (add_edge g (NCol src) (NCol tgt) lineage_edge)).
  { apply cstep_add_edge; [exact Hg|]. split; [exact Hs|]. split; [exact (proj1 Ht)|exact I]. }
  assert (S2 : cstep g (add_edge (add_edge g (NCol src) (NCol tgt) lineage_edge) (NData tp) (NCol tgt) (e_has_column None))).
  { apply (cstep_trans _ _ _ S1). apply cstep_add_edge; [exact (proj1 S1)|].
    split; [exact Htp|]. split; [exact (proj1 Ht)|]. exists tp. split; [exact E2|apply dataset_eqb_refl]. }
  destruct (col_parent src) as [sp|] eqn:E3; [|exact S2].
  apply (cstep_trans _ _ _ S2). apply cstep_add_edge; [exact (proj1 S2)|].
  pose proof (col_parent_some _ _ E3) as E4. cbn [nok] in Hs. rewrite E4 in Hs. inversion Hs. subst.
  split; [assumption|]. split; [cbn [nok]; rewrite E4; exact Hs|]. exists sp. split; [exact E4|apply dataset_eqb_refl].
Qed.

Lemma add_column_lineage_fold g srcs tgt :
  gok g -> Forall (fun s => nok (NCol s)) srcs -> col1 tgt ->
  exists g', fold_left (fun acc s => do g3 <- acc; add_column_lineage g3 s tgt) srcs (Ok g) = Ok g' /\ cstep g g'.
Proof.
  intros Hg Hs Ht.
  apply (fold_res_inv (fun g' => cstep g g') (fun g3 s => add_column_lineage g3 s tgt)); [apply cstep_refl; exact Hg|].
  intros b s Hin Hb. rewrite Forall_forall in Hs.
  destruct (add_column_lineage_ok b s tgt (proj1 Hb) (Hs s Hin) Ht) as (b' & E & Hb').
  exists b'. split; [exact E|]. apply (cstep_trans _ _ _ Hb Hb').
Qed.

(** reads, writes, ctes *)
Lemma has_alias_ok v : data_ok v -> has_alias_attr v = true.
Proof. unfold data_ok, has_alias_attr. destruct (dk v); intros H; try reflexivity. contradiction. Qed.

Lemma gok_add_tag g v k : gok g -> data_ok v -> gok (add_node g (NData v) [(k, true)]).
Proof. intros Hg Hv. apply gok_add_node; [exact Hg|exact Hv|apply aok_single]. Qed.

Lemma add_read_eq g v : data_ok v ->
  add_read g v = add_edge (add_node g (NData v) [("read", true)]) (NData v) (NStr (dalias v)) e_has_alias.
Proof. intros Hv. unfold add_read. rewrite (has_alias_ok v Hv). reflexivity. Qed.

Lemma gok_add_read g v : gok g -> data_ok v -> gok (add_read g v).
Proof.
  intros Hg Hv. rewrite (add_read_eq g v Hv). apply gok_add_edge; [apply gok_add_tag; assumption|].
  split; [exact Hv|]. split; exact I.
Qed.

Lemma tag_add_read_other g v k : data_ok v -> k <> "read" -> holder_nodes (add_read g v) k = holder_nodes g k.
Proof. intros Hv Hk. rewrite (add_read_eq g v Hv), tag_add_edge. apply tag_add_other. exact Hk. Qed.

Lemma tset_add_tag g v k x :
  gok g -> data_ok v ->
  (tset (add_node g (NData v) [(k, true)]) k x <-> tset g k x \/ (dk v = KTable /\ dstr v = x)).
Proof.
  intros Hg Hv. pose proof (gok_add_tag g v k Hg Hv) as Hg'. unfold tset. split.
  - intros (d & H1 & H2 & H3). destruct (tag_add_sound g v k d H1) as [H|H]; [left; exists d; auto|].
    right. pose proof (gok_data _ _ _ Hg' H1) as Hd.
    pose proof (dataset_eqb_dk _ _ H) as E. rewrite H2 in E.
    destruct (eqb_table_dstr v d H Hv Hd E) as [_ E2]. split; congruence.
  - intros [(d & H1 & H2 & H3)|[H2 H3]].
    + exists d. split; [apply tag_add_mono; exact H1|auto].
    + destruct (tag_add_complete g v k) as (d & H1 & H). pose proof (gok_data _ _ _ Hg' H1) as Hd.
      destruct (eqb_table_dstr v d H Hv Hd H2) as [E1 E2]. exists d. split; [exact H1|]. split; congruence.
Qed.

Lemma tset_ext g g' k x : holder_nodes g' k = holder_nodes g k -> (tset g' k x <-> tset g k x).
Proof. intros H. unfold tset. rewrite H. reflexivity. Qed.

Lemma tset_add_read g v x :
  gok g -> data_ok v -> (tset (add_read g v) "read" x <-> tset g "read" x \/ (dk v = KTable /\ dstr v = x)).
Proof.
  intros Hg Hv. rewrite (add_read_eq g v Hv), (tset_ext _ _ _ _ (tag_add_edge _ _ _ _ _)). apply tset_add_tag; assumption.
Qed.

Lemma fold_add_read ts : forall g,
  gok g -> Forall data_ok ts ->
  gok (fold_left add_read ts g) /\
  (forall k, k <> "read" -> holder_nodes (fold_left add_read ts g) k = holder_nodes g k) /\
  (forall x, tset (fold_left add_read ts g) "read" x <-> tset g "read" x \/ exists v, In v ts /\ dk v = KTable /\ dstr v = x).
Proof.
  induction ts as [|v r IH]; intros g Hg Hts; cbn [fold_left].
  - split; [exact Hg|]. split; [reflexivity|]. intros x. split; [auto|]. intros [H|(v & [] & _)]. exact H.
  - inversion Hts. subst. destruct (IH (add_read g v) (gok_add_read g v Hg H1) H2) as (I1 & I2 & I3).
    split; [exact I1|]. split.
    + intros k Hk. rewrite (I2 k Hk). apply tag_add_read_other; assumption.
    + intros x. rewrite I3, (tset_add_read g v x Hg H1). cbn [In]. split.
      * intros [[H|H]|(v' & Hv' & H)]; [auto|right; exists v; auto|right; exists v'; auto].
      * intros [H|(v' & [Hv'|Hv'] & H)]; [auto|subst v'; auto|right; exists v'; auto].
Qed.

(** ** alias mapping and source columns *)
Lemma In_dict_set kv k v l : In kv (dict_set k v l) -> kv = (k, v) \/ In kv l.
Proof.
  induction l as [|[k' v'] r IH]; cbn [dict_set In].
  - intros [H|[]]. left. symmetry. exact H.
  - destruct (String.eqb k k'); cbn [In]; intros [H|H]; auto. apply IH in H. destruct H; auto.
Qed.

Lemma edges_nx_In g e : In e (edges_nx g) -> In e (gedges g).
Proof.
  unfold edges_nx. rewrite in_flat_map. intros (p & _ & H). unfold out_edges in H. apply filter_In in H. exact (proj1 H).
Qed.

Lemma alias_mapping_ok g group :
  gok g -> Forall data_ok group -> Forall data_ok (map snd (get_alias_mapping g group)).
Proof.
  intros Hg Hgr. unfold get_alias_mapping.
  assert (F1 : forall (ts : list dataset) (f : dataset -> string) m, Forall data_ok ts -> Forall data_ok (map snd m) ->
               Forall data_ok (map snd (fold_left (fun m t => dict_set (f t) t m) ts m))).
  { induction ts as [|t r IH]; intros f m Hts Hm; cbn [fold_left]; [exact Hm|]. inversion Hts. subst. apply IH; [assumption|].
    apply Forall_forall. intros d Hd. apply in_map_iff in Hd. destruct Hd as ([k v] & E & Hin). cbn [snd] in E. subst v.
    apply In_dict_set in Hin. destruct Hin as [Hin|Hin]; [inversion Hin; subst; assumption|].
    rewrite Forall_forall in Hm. apply Hm. apply in_map_iff. exists (k, d). auto. }
  assert (Ht : Forall data_ok (filter (fun d => match dk d with KTable => true | _ => false end) group)).
  { rewrite Forall_forall in *. intros d Hd. apply filter_In in Hd. apply Hgr. exact (proj1 Hd). }
  apply F1; [exact Ht|]. apply F1; [exact Ht|].
  assert (He : Forall edge_ok (edges_nx g)).
  { destruct Hg as [_ Hg]. rewrite Forall_forall in *. intros e He. apply Hg. apply edges_nx_In. exact He. }
  generalize (@nil (string * dataset)) (Forall_nil data_ok : Forall data_ok (map snd (@nil (string * dataset)))).
  induction He as [|e r He Hr IH]; intros m Hm; cbn [fold_left]; [exact Hm|].
  apply IH. destruct (String.eqb (etype (snd e)) "has_alias"); [|exact Hm].
  destruct e as [[u v] a]. cbn [fst snd]. destruct u as [src| |]; try exact Hm. destruct v as [| |al]; try exact Hm.
  destruct (memd src group); [|exact Hm].
  apply Forall_forall. intros d Hd. apply in_map_iff in Hd. destruct Hd as ([k v] & E & Hin). cbn [snd] in E. subst v.
  apply In_dict_set in Hin. destruct Hin as [Hin|Hin].
  - inversion Hin. subst. exact (proj1 He).
  - rewrite Forall_forall in Hm. apply Hm. apply in_map_iff. exists (k, d). auto.
Qed.

Lemma concat_res_map_inv {A B} (P : B -> Prop) (f : A -> res (list B)) l :
  (forall x, In x l -> exists ys, f x = Ok ys /\ Forall P ys) ->
  exists ys, concat_res (map f l) = Ok ys /\ Forall P ys.
Proof.
  induction l as [|x r IH]; intros H; cbn [map concat_res]; [exists []; auto|].
  destruct (H x (or_introl eq_refl)) as (ys & E & Hys). rewrite E.
  destruct (IH (fun y Hy => H y (or_intror Hy))) as (zs & E2 & Hzs). rewrite E2.
  exists (ys ++ zs). split; [reflexivity|]. apply Forall_app. auto.
Qed.

Lemma In_dedup_ds d l : forall seen, In d (dedup_ds l seen) -> In d l.
Proof.
  induction l as [|x r IH]; intros seen; cbn [dedup_ds]; [auto|].
  destruct (memd x seen); cbn [In]; [intros H; right; exact (IH _ H)|].
  intros [H|H]; [auto|right; exact (IH _ H)].
Qed.

Lemma In_dedup_cols c l : forall seen, In c (dedup_cols l seen) -> In c l.
Proof.
  induction l as [|x r IH]; intros seen; cbn [dedup_cols]; [auto|].
  destruct (existsb (col_eqb x) seen); cbn [In]; [intros H; right; exact (IH _ H)|].
  intros [H|H]; [auto|right; exact (IH _ H)].
Qed.

Lemma Forall_insert_parent (P : dataset -> Prop) d l : P d -> Forall P l -> Forall P (insert_parent d l).
Proof.
  intros Hd Hl. induction Hl as [|x r Hx Hr IH]; cbn [insert_parent]; [constructor; [exact Hd|constructor]|].
  destruct (_ && _); constructor; auto.
Qed.

Lemma nok_add_parent c d : nok (NCol c) -> data_ok d -> nok (NCol (add_parent c d)).
Proof.
  intros Hc Hd. unfold add_parent. destruct (memd d (cparents c)); [exact Hc|].
  cbn [nok cparents]. apply Forall_insert_parent; assumption.
Qed.

Lemma nok_fold_add_parent vs : forall c, nok (NCol c) -> Forall data_ok vs -> nok (NCol (fold_left add_parent vs c)).
Proof.
  induction vs as [|v r IH]; intros c Hc Hvs; cbn [fold_left]; [exact Hc|].
  inversion Hvs. subst. apply IH; [apply nok_add_parent; assumption|assumption].
Qed.

Definition xcol_ok (x : xcol) : Prop :=
  cparents (xc x) = [] /\ forall c q, In (c, Some q) (xsrc x) -> count_dots q = 0.

Lemma mk_table_nodots e q sch al :
  count_dots q = 0 -> exists t, mk_table e q sch al = Ok t /\ data_ok t /\ dk t = KTable.
Proof.
  intros H. unfold mk_table, table_of. rewrite (rsplit_dot_none q H).
  eexists. split; [reflexivity|]. split; [|reflexivity]. unfold data_ok. cbn [dk deq dstr]. reflexivity.
Qed.

Lemma to_source_columns_ok e x am :
  xcol_ok x -> Forall data_ok (map snd am) ->
  exists cols, to_source_columns e x am = Ok cols /\ Forall (fun s => nok (NCol s)) cols.
Proof.
  intros [_ Hx] Ham. unfold to_source_columns.
  assert (Hv : Forall data_ok (dedup_ds (map snd am) [])).
  { rewrite Forall_forall in *. intros d Hd. apply Ham. apply (In_dedup_ds d _ _ Hd). }
  match goal with |- context [concat_res (map ?f (xsrc x))] =>
    destruct (concat_res_map_inv (fun s => nok (NCol s)) f (xsrc x)) as (cols & E & Hcols) end.
  - intros [src_col [q|]] Hin.
    + destruct (assoc_list q am) as [t|] eqn:Ea.
      * eexists. split; [reflexivity|]. constructor; [|constructor]. cbn [nok cparents]. constructor; [|constructor].
        assert (Hin2 : In t (map snd am)).
        { clear - Ea. induction am as [|[k v] r IH]; cbn [assoc_list] in Ea; [discriminate|].
          destruct (String.eqb q k); [inversion Ea; left; reflexivity|right; apply IH; exact Ea]. }
        rewrite Forall_forall in Ham. apply Ham. exact Hin2.
      * destruct (mk_table_nodots e q None None (Hx _ _ Hin)) as (t & Et & Ht & _). rewrite Et.
        eexists. split; [reflexivity|]. constructor; [|constructor]. cbn [nok cparents]. constructor; [exact Ht|constructor].
    + destruct (String.eqb src_col "*").
      * eexists. split; [reflexivity|]. apply Forall_forall. intros c Hc. apply in_map_iff in Hc. destruct Hc as (t & Ec & Ht).
        subst c. cbn [nok cparents]. constructor; [|constructor]. rewrite Forall_forall in Hv. apply Hv. exact Ht.
      * eexists. split; [reflexivity|]. constructor; [|constructor]. apply nok_fold_add_parent; [constructor|exact Hv].
  - rewrite E. eexists. split; [reflexivity|]. rewrite Forall_forall in *. intros c Hc. apply Hcols. apply (In_dedup_cols c _ _ Hc).
Qed.

(** ** end_of_query_cleanup *)
Lemma In_firstn {A} (x : A) n l : In x (firstn n l) -> In x l.
Proof.
  revert l. induction n as [|n IH]; intros [|y r]; cbn [firstn In]; try tauto.
  intros [H|H]; auto.
Qed.
Lemma In_skipn' {A} (x : A) n l : In x (skipn n l) -> In x l.
Proof.
  revert l. induction n as [|n IH]; intros [|y r]; cbn [skipn In]; auto.
Qed.
Lemma In_slice {A} (x : A) l a b : In x (slice l a b) -> In x l.
Proof. unfold slice. intros H. apply In_firstn in H. apply In_skipn' in H. exact H. Qed.

Lemma eoq_ok e g tables columns barriers :
  gok g -> Forall data_ok tables -> Forall xcol_ok columns -> List.length (sq_write g) <= 1 ->
  exists g', end_of_query_cleanup e g tables columns barriers = Ok g' /\ cstep (fold_left add_read tables g) g'.
Proof.
  intros Hg Ht Hc Hw. destruct (fold_add_read tables g Hg Ht) as (G1 & G2 & _).
  assert (Hw0 : List.length (sq_write (fold_left add_read tables g)) <= 1).
  { unfold sq_write. rewrite G2 by discriminate. exact Hw. }
  unfold end_of_query_cleanup. set (g0 := fold_left add_read tables g) in *.
  match goal with |- context [fold_left ?F (?G (0, 0) ?L) (Ok g0)] => set (groups := G); set (bs := L) end.
  assert (HL : forall l prev, Forall (fun grp : list xcol * list dataset => Forall xcol_ok (fst grp) /\ Forall data_ok (snd grp)) (groups prev l)).
  { induction l as [|b r IH]; intros prev; cbn; constructor; [|apply IH]. cbn [fst snd]. split.
    - rewrite Forall_forall in *. intros x Hx. apply Hc. apply (In_slice x _ _ _ Hx).
    - rewrite Forall_forall in *. intros x Hx. apply Ht. apply (In_slice x _ _ _ Hx). }
  specialize (HL bs (0, 0)). generalize dependent (groups (0, 0) bs). clear groups bs. intros grps HL.
  apply (fold_res_inv (fun g1 => cstep g0 g1)); [apply cstep_refl; exact G1|].
  intros g1 [col_grp tbl_grp] Hin Hg1. rewrite Forall_forall in HL. destruct (HL _ Hin) as [Hcg Htg]. cbn [fst snd] in Hcg, Htg.
  assert (Hw1 : List.length (sq_write g1) <= 1) by (unfold sq_write; rewrite (proj2 Hg1); exact Hw0).
  destruct (sq_write g1) as [|tgt_tbl [|t2 r]] eqn:Ew; [exists g1; auto| |cbn [List.length] in Hw1; lia].
  assert (Htgt : data_ok tgt_tbl).
  { apply (gok_data g1 tgt_tbl "write" (proj1 Hg1)). unfold sq_write in Ew. rewrite Ew. left. reflexivity. }
  apply (fold_res_idx_inv (fun g2 => cstep g0 g2)); [exact Hg1|].
  intros g2 idx x Hx Hg2. rewrite Forall_forall in Hcg. specialize (Hcg x Hx).
  destruct (to_source_columns_ok e x (get_alias_mapping g2 tbl_grp) Hcg (alias_mapping_ok g2 tbl_grp (proj1 Hg2) Htg))
    as (srcs & Es & Hsrcs). rewrite Es.
  assert (Hown : col1 (add_parent (xc x) tgt_tbl)).
  { destruct (add_parent_col_for (xc x) tgt_tbl (or_introl (proj1 Hcg)) Htgt) as [H1 (p & H2 & _)]. split; [exact H1|exists p; exact H2]. }
  match goal with |- context [fold_left _ srcs (Ok g2)] =>
    match goal with |- context [add_column_lineage _ _ ?T] => assert (HT : col1 T) end end.
  { destruct srcs; [exact Hown|]. destruct (Nat.eqb _ _); [|exact Hown].
    destruct (nth_error (write_columns g2) idx) as [wc0|] eqn:En; [|exact Hown].
    apply nth_error_In in En. exact (proj1 (write_columns_col1 g2 (proj1 Hg2) wc0 En)). }
  destruct (add_column_lineage_fold g2 srcs _ (proj1 Hg2) Hsrcs HT) as (g3 & E3 & Hg3).
  exists g3. split; [exact E3|]. apply (cstep_trans _ _ _ Hg2 Hg3).
Qed.

(** ** expand_wildcard with a falsy provider *)
Lemma replace_wildcard_ok g tgt cols tw sw :
  gok g -> data_ok tgt -> Forall col1 cols ->
  exists g', replace_wildcard g tgt cols tw sw = Ok g' /\ cstep g g'.
Proof.
  intros Hg Ht Hc. unfold replace_wildcard.
  match goal with |- context [fold_left ?F cols (Ok g)] =>
    assert (H1 : exists g1, fold_left F cols (Ok g) = Ok g1 /\ cstep g g1) end.
  { apply (fold_res_inv (fun g1 => cstep g g1)); [apply cstep_refl; exact Hg|].
    intros b sc Hin Hb. rewrite Forall_forall in Hc. specialize (Hc sc Hin).
    destruct (_ || _); [exists b; auto|].
    destruct (col1_parent sc Hc) as (sp & E1 & E2 & Hsp). rewrite E1. eexists. split; [reflexivity|].
    set (newc := {| craw := escape (craw sc); cparents := [tgt] |}).
    assert (Hnew : nok (NCol newc)) by (cbn [nok newc cparents]; constructor; [exact Ht|constructor]).
    apply (cstep_trans _ _ _ Hb).
    assert (S1 : cstep b (add_edge b (NData tgt) (NCol newc) (e_has_column None))).
    { apply cstep_add_edge; [exact (proj1 Hb)|]. split; [exact Ht|]. split; [exact Hnew|]. exists tgt. split; [reflexivity|apply dataset_eqb_refl]. }
    apply (cstep_trans _ _ _ S1).
    assert (S2 : cstep (add_edge b (NData tgt) (NCol newc) (e_has_column None))
                       (add_edge (add_edge b (NData tgt) (NCol newc) (e_has_column None)) (NData sp) (NCol sc) (e_has_column None))).
    { apply cstep_add_edge; [exact (proj1 S1)|]. split; [exact Hsp|]. split; [exact (proj1 Hc)|]. exists sp. split; [exact E2|apply dataset_eqb_refl]. }
    apply (cstep_trans _ _ _ S2).
    apply cstep_add_edge; [exact (proj1 S2)|]. split; [exact (proj1 Hc)|]. split; [exact Hnew|exact I]. }
  destruct H1 as (g1 & E1 & Hg1). rewrite E1. eexists. split; [reflexivity|].
  apply (cstep_trans _ _ _ Hg1).
  assert (S1 : cstep g1 (if has_node g1 (NCol tw) then remove_node g1 (NCol tw) else g1)).
  { destruct (has_node g1 (NCol tw)); [apply cstep_remove_col|apply cstep_refl]; exact (proj1 Hg1). }
  apply (cstep_trans _ _ _ S1).
  destruct (has_node _ (NCol sw)); [apply cstep_remove_col|apply cstep_refl]; exact (proj1 S1).
Qed.

Lemma expand_wildcard_ok e g :
  gok g -> p_truthy (e_provider e) = false -> exists g', expand_wildcard e g = Ok g' /\ cstep g g'.
Proof.
  intros Hg Hp. unfold expand_wildcard. destruct (get_target_table g) as [tgt|] eqn:Et; [|exists g; split; [reflexivity|apply cstep_refl; exact Hg]].
  pose proof (gok_data g tgt _ Hg (get_target_table_In g tgt Et)) as Htgt.
  apply (fold_res_inv (fun g1 => cstep g g1)); [apply cstep_refl; exact Hg|].
  intros g1 c _ Hg1. destruct (String.eqb (craw c) "*"); [|exists g1; auto].
  apply (fold_res_inv (fun g2 => cstep g g2)); [exact Hg1|].
  intros g2 sw _ Hg2. destruct (col_parent sw) as [st|]; [|exists g2; auto].
  rewrite Hp.
  assert (Hcols : match dk st with KSubq => Forall col1 (get_table_columns g2 st) | _ => True end).
  { destruct (dk st); auto. apply get_table_columns_col1. exact (proj1 Hg2). }
  destruct (dk st); try (exists g2; auto; fail).
  destruct (get_table_columns g2 st) as [|c0 cs] eqn:Ec; [exists g2; auto|].
  destruct (replace_wildcard_ok g2 tgt (c0 :: cs) c sw (proj1 Hg2) Htgt Hcols) as (g3 & E3 & Hg3).
  exists g3. split; [exact E3|]. apply (cstep_trans _ _ _ Hg2 Hg3).
Qed.

(* ================================================================== *)
(** * Part I: identifiers of the fragment are fixed points of the normalisation *)
Definition idc (c : ascii) : bool := id_char c || is_dot c.

Lemma idc_facts c : idc c = true -> is_quote c = false /\ is_upper c = false /\ Ascii.eqb c "["%char = false.
Proof. destruct c as [[] [] [] [] [] [] [] []]; vm_compute; intros H; try discriminate H; repeat split; reflexivity. Qed.

Lemma id_char_nodot c : id_char c = true -> is_dot c = false.
Proof. destruct c as [[] [] [] [] [] [] [] []]; vm_compute; intros H; try discriminate H; reflexivity. Qed.

Lemma sforall_weaken (p q : ascii -> bool) s : (forall c, p c = true -> q c = true) -> sforall p s = true -> sforall q s = true.
Proof.
  intros H. induction s as [|c r IH]; cbn [sforall]; [auto|]. intros E. apply andb_true_iff in E. destruct E as [E1 E2].
  rewrite (H c E1), (IH E2). reflexivity.
Qed.

Lemma idc_no_quote s : sforall idc s = true -> has_quote s = false.
Proof.
  unfold has_quote. induction s as [|c r IH]; [reflexivity|]. cbn [sforall sexists]. intros H.
  apply andb_true_iff in H. destruct H as [H1 H2]. destruct (idc_facts c H1) as (E & _ & _). rewrite E, (IH H2). reflexivity.
Qed.
Lemma idc_no_upper s : sforall idc s = true -> no_upper s = true.
Proof.
  unfold no_upper. induction s as [|c r IH]; [reflexivity|]. cbn [sforall]. intros H.
  apply andb_true_iff in H. destruct H as [H1 H2]. destruct (idc_facts c H1) as (_ & E & _). rewrite E, (IH H2). reflexivity.
Qed.
Lemma idc_not_bracketed s : sforall idc s = true -> bracketed s = false.
Proof.
  unfold bracketed. destruct s as [|c r]; [reflexivity|]. cbn [sforall first_is]. intros H.
  apply andb_true_iff in H. destruct H as [H1 _]. destruct (idc_facts c H1) as (_ & _ & E). rewrite E. reflexivity.
Qed.

Lemma idc_escape s : sforall idc s = true -> escape s = s.
Proof.
  intros H. apply escape_stable. unfold stable. rewrite (idc_no_quote s H), (idc_not_bracketed s H), (idc_no_upper s H). reflexivity.
Qed.

Lemma id_ok_chars s : id_ok s = true -> sforall id_char s = true.
Proof. unfold id_ok. intros H. apply andb_true_iff in H. exact (proj2 H). Qed.
Lemma id_ok_idc s : id_ok s = true -> sforall idc s = true.
Proof.
  intros H. apply (sforall_weaken id_char); [|apply id_ok_chars; exact H]. intros c Hc. unfold idc. rewrite Hc. reflexivity.
Qed.
Lemma id_ok_escape s : id_ok s = true -> escape s = s.
Proof. intros H. apply idc_escape. apply id_ok_idc. exact H. Qed.
Lemma id_ok_nonempty s : id_ok s = true -> String.eqb s "" = false.
Proof. unfold id_ok. intros H. apply andb_true_iff in H. apply negb_true_iff. exact (proj1 H). Qed.
Lemma id_chars_nodot s : sforall id_char s = true -> sexists is_dot s = false.
Proof.
  induction s as [|c r IH]; [reflexivity|]. cbn [sforall sexists]. intros H. apply andb_true_iff in H. destruct H as [H1 H2].
  rewrite (id_char_nodot c H1), (IH H2). reflexivity.
Qed.
Lemma nodot_count s : sexists is_dot s = false -> count_dots s = 0.
Proof.
  induction s as [|c r IH]; [reflexivity|]. cbn [sexists count_dots]. intros H. apply orb_false_iff in H. destruct H as [H1 H2].
  rewrite H1, (IH H2). reflexivity.
Qed.
Lemma id_ok_nodot s : id_ok s = true -> sexists is_dot s = false.
Proof. intros H. apply id_chars_nodot. apply id_ok_chars. exact H. Qed.
Lemma id_ok_count s : id_ok s = true -> count_dots s = 0.
Proof. intros H. apply nodot_count. apply id_ok_nodot. exact H. Qed.

Lemma append_nil_r s : (s ++ "")%string = s.
Proof. induction s as [|c r IH]; [reflexivity|]. cbn [append]. rewrite IH. reflexivity. Qed.

Lemma append_assoc a b c : ((a ++ b) ++ c)%string = (a ++ (b ++ c))%string.
Proof. induction a as [|x r IH]; [reflexivity|]. cbn [append]. rewrite IH. reflexivity. Qed.

(** dotted schemas *)
Lemma split_dot_nonempty s : split_dot_aux s <> [].
Proof.
  destruct s as [|a r]; cbn [split_dot_aux]; [discriminate|].
  destruct (Ascii.eqb a "."%char); [discriminate|]. destruct (split_dot_aux r); discriminate.
Qed.

Lemma join_cons_nonempty sep x y r : join sep (x :: y :: r) = (x ++ sep ++ join sep (y :: r))%string.
Proof. reflexivity. Qed.

Lemma join_split_dot s : join "." (split_dot_aux s) = s.
Proof.
  induction s as [|a r IH]; [reflexivity|]. cbn [split_dot_aux].
  destruct (Ascii.eqb a "."%char) eqn:E.
  - apply Ascii.eqb_eq in E. subst a. pose proof (split_dot_nonempty r) as Hne.
    destruct (split_dot_aux r) as [|y ys]; [contradiction|]. rewrite join_cons_nonempty, IH. reflexivity.
  - pose proof (split_dot_nonempty r) as Hne. destruct (split_dot_aux r) as [|y ys]; [contradiction|].
    destruct ys as [|z zs].
    + cbn [join] in *. rewrite IH. reflexivity.
    + rewrite join_cons_nonempty. rewrite join_cons_nonempty in IH. rewrite <- IH. reflexivity.
Qed.

Lemma split_dot_chars s : forallb (sforall id_char) (split_dot_aux s) = true -> sforall idc s = true.
Proof.
  induction s as [|a r IH]; [reflexivity|]. cbn [split_dot_aux sforall].
  destruct (Ascii.eqb a "."%char) eqn:E.
  - cbn [forallb sforall]. intros H. unfold idc at 1. unfold is_dot. rewrite E, orb_true_r. cbn [andb]. apply IH. exact H.
  - pose proof (split_dot_nonempty r) as Hne. destruct (split_dot_aux r) as [|y ys]; [contradiction|].
    cbn [forallb sforall]. intros H. apply andb_true_iff in H. destruct H as [H1 H2]. apply andb_true_iff in H1. destruct H1 as [H0 H1].
    unfold idc at 1. rewrite H0. cbn [orb andb]. apply IH. cbn [forallb]. rewrite H1, H2. reflexivity.
Qed.

Lemma schema_ok_idc s : schema_ok s = true -> sforall idc s = true.
Proof.
  unfold schema_ok. intros H. apply andb_true_iff in H. destruct H as [H _]. apply split_dot_chars.
  rewrite forallb_forall in *. intros x Hx. apply id_ok_chars. apply H. exact Hx.
Qed.

Lemma split_dot_nodot x r : sexists is_dot x = false -> split_dot_aux (x ++ String "."%char r) = x :: split_dot_aux r.
Proof.
  induction x as [|a x IH]; cbn [sexists append]; intros H.
  - reflexivity.
  - apply orb_false_iff in H. destruct H as [H1 H2]. cbn [split_dot_aux]. unfold is_dot in H1. rewrite H1, (IH H2). reflexivity.
Qed.

(* ================================================================== *)
(** * Part E0: the extractor, one kind at a time *)
Definition ex_subquery (f : nat) (e : env) (subs : list dataset) (g : graph) : res graph :=
  fold_left (fun acc sq =>
    do g' <- acc;
    match dquery sq with
    | None => Err "AttributeError"
    | Some q =>
        let cls := match get_child q ["with_compound_statement"] with Some _ => XCte | None => XSelect end in
        do sh <- extract f e cls q {| c_cte := Some (sq_cte g'); c_write := Some [sq]; c_write_columns := None |};
        Ok (compose g' (set_attr sh [NData sq] "write" false))
    end) subs (Ok g).

Definition ex_delegate (f : nat) (e : env) (k' : xkind) (s : seg) (g : graph) (with_write : bool) : res graph :=
  do sub <- extract f e k' s
              (if with_write
               then {| c_cte := Some (sq_cte g); c_write := Some (sq_write g); c_write_columns := Some (write_columns g) |}
               else {| c_cte := Some (sq_cte g); c_write := None; c_write_columns := None |});
  Ok (compose g sub).

Definition sel_segments (stmt : seg) : list seg :=
  if tyis stmt "set_expression" then [stmt] else list_child_segments stmt true.

Definition sel_subq1 (s : seg) : res (list dataset) :=
  do a <- list_subquery s;
  do b <- (if is_set_expression s
           then concat_res (map (fun sub => concat_res (map list_subquery (list_child_segments sub true)))
                                (get_children s ["select_statement"; "bracketed"]))
           else Ok []);
  Ok (a ++ b).

Definition sel_subqueries (segments : list seg) : res (list dataset) := concat_res (map sel_subq1 segments).

Definition add_barrier (st2 : sel) : sel :=
  {| s_g := s_g st2; s_tables := s_tables st2; s_columns := s_columns st2;
     s_barriers := s_barriers st2 ++ [(List.length (s_columns st2), List.length (s_tables st2))] |}.

Definition sel_children (f : nat) (e : env) (st3 : sel) (sub : seg) : res sel :=
  fold_left (fun acc3 sg => do st4 <- acc3; handle_child f e st4 sg) (list_child_segments sub true) (Ok st3).

Definition sel_step (f : nat) (e : env) (st0 : sel) (s : seg) : res sel :=
  do st1 <- handle_child f e st0 s;
  if is_set_expression s then
    fst (fold_left (fun acc2 sub =>
           let '(rst, idx) := acc2 in
           (do st2 <- rst;
            sel_children f e (match idx with O => st2 | S _ => add_barrier st2 end) sub, S idx))
         (get_children s ["select_statement"; "bracketed"]) (Ok st1, 0))
  else Ok st1.

Definition sel_fold (f : nat) (e : env) (segments : list seg) (g1 : graph) : res sel :=
  fold_left (fun acc s => do st0 <- acc; sel_step f e st0 s) segments
            (Ok {| s_g := g1; s_tables := []; s_columns := []; s_barriers := [] |}).

Lemma extract_select_eq f e stmt ctx :
  extract (S f) e XSelect stmt ctx =
  (do subqueries <- sel_subqueries (sel_segments stmt);
   do g1 <- ex_subquery f e subqueries (init_holder ctx);
   do st <- sel_fold f e (sel_segments stmt) g1;
   do g2 <- end_of_query_cleanup e (s_g st) (s_tables st) (s_columns st) (s_barriers st);
   expand_wildcard e g2).
Proof. reflexivity. Qed.

Definition cte_inner (alias0 : option string) (acc2 : res (graph * list dataset) * option string) (sub : seg)
  : res (graph * list dataset) * option string :=
  let '(ra, alias) := acc2 in
  if tyis sub "identifier" then (ra, Some (raw sub))
  else if tyis sub "bracketed" then
    ((do a2 <- ra;
      let '(g2, subs2) := a2 in
      do sqs <- list_subquery sub;
      let sqs' := map (fun sq => match alias with
                                 | Some al => {| dk := dk sq; deq := deq sq; dstr := al; dschema := dschema sq;
                                                 draw := draw sq; dalias := al; dquery := dquery sq |}
                                 | None => sq end) sqs in
      Ok (add_cte g2 (mk_subquery sub alias), subs2 ++ sqs')), alias)
  else (ra, alias).

Definition cte_step (f : nat) (e : env) (acc : res (graph * list dataset)) (s : seg) : res (graph * list dataset) :=
  do a <- acc;
  let '(g, subs) := a in
  if ty_in s ["select_statement"; "set_expression"] then do g' <- ex_delegate f e XSelect s g true; Ok (g', subs)
  else if tyis s "insert_statement" then do g' <- ex_delegate f e XCreateInsert s g false; Ok (g', subs)
  else if tyis s "update_statement" then do g' <- ex_delegate f e XUpdate s g false; Ok (g', subs)
  else if tyis s "common_table_expression" then
    fst (fold_left (cte_inner None) (list_child_segments s true) (Ok (g, subs), None))
  else Ok (g, subs).

Lemma extract_cte_eq f e stmt ctx :
  extract (S f) e XCte stmt ctx =
  (do r <- fold_left (cte_step f e) (list_child_segments stmt true) (Ok (init_holder ctx, []));
   ex_subquery f e (snd r) (fst r)).
Proof. reflexivity. Qed.

Definition ci_step (f : nat) (e : env) (stmt : seg) (acc : res (graph * bool * bool)) (s : seg) : res (graph * bool * bool) :=
  do a <- acc;
            let '(g, tgt_flag, src_flag) := a in
            (* first the if / elif chain *)
            do step1 <-
              (if tyis s "with_compound_statement" then do g' <- ex_delegate f e XCte s g true; Ok (g', tgt_flag, src_flag, false)
               else if tyis s "bracketed" && existsb (fun c => tyis c "with_compound_statement") (children s) then
                 do g' <- fold_left (fun accg c => do gg <- accg;
                                                   if tyis c "with_compound_statement" then ex_delegate f e XCte s gg true else Ok gg)
                                    (children s) (Ok g);
                 Ok (g', tgt_flag, src_flag, false)
               else if ty_in s ["select_statement"; "set_expression"] then
                 do g' <- ex_delegate f e XSelect s g true; Ok (g', tgt_flag, src_flag, false)
               else if tyis s "values_clause" then
                 do g' <- fold_left (fun accg b =>
                            fold_left (fun accg2 ex =>
                              do gg <- accg2;
                              match get_child ex ["bracketed"] with
                              | Some sb =>
                                match get_child sb ["expression"] with
                                | Some se =>
                                  match get_child se ["select_statement"] with
                                  | Some ss => ex_delegate f e XSelect ss gg true
                                  | None => Ok gg
                                  end
                                | None => Ok gg
                                end
                              | None => Ok gg
                              end) (get_children b ["expression"]) accg)
                          (get_children s ["bracketed"]) (Ok g);
                 Ok (g', tgt_flag, src_flag, false)
               else if tyis s "bracketed" then
                 match flat_map (crawl ["select_statement"; "set_expression"] false) [s] with
                 | (_ :: _) as sqs =>
                     do g' <- fold_left (fun accg q => do gg <- accg; ex_delegate f e XSelect q gg true) sqs (Ok g);
                     Ok (g', tgt_flag, src_flag, false)
                 | [] =>
                     let subs := list_child_segments s true in
                     if forallb (fun x => ty_in x ["column_reference"; "column_definition"]) subs then
                       do cols <- map_res (fun x =>
                                   let x' := if tyis x "column_definition"
                                             then match get_child x ["identifier"] with Some i => i | None => x end else x in
                                   do c <- column_of_seg f e x'; Ok (xc c)) subs;
                       Ok (add_write_column g cols, tgt_flag, src_flag, false)
                     else Ok (g, tgt_flag, src_flag, false)
                 end
               else if tyis s "keyword" then
                 let u := raw_upper s in
                 if mem_string u ["INSERT"; "INTO"; "OVERWRITE"; "TABLE"; "VIEW"; "DIRECTORY"]
                    || (tgt_flag && mem_string u ["IF"; "NOT"; "EXISTS"])
                 then Ok (g, true, src_flag, true)
                 else if mem_string u ["LIKE"; "CLONE"] then Ok (g, tgt_flag, true, true)
                 else Ok (g, tgt_flag, src_flag, true)
               else Ok (g, tgt_flag, src_flag, false));
            let '(g1, tf, sf, continued) := step1 in
            if continued then Ok (g1, tf, sf)
            else
              do g2 <- (if tf then
                          if ty_in s ["table_reference"; "object_reference"] then
                            do t <- table_of_seg e s None;
                            let g' := add_write g1 t in
                            if p_truthy (e_provider e) && tyis stmt "insert_statement"
                            then Ok (add_write_column g' (provider_columns e t))
                            else Ok g'
                          else if tyis s "literal" then
                            if is_numeric (raw s) then Ok g1 else Ok (add_write g1 (mk_path (escape (raw s))))
                          else Ok g1
                        else Ok g1);
              do g3 <- (if sf then
                          if ty_in s ["table_reference"; "object_reference"]
                          then do t <- table_of_seg e s None; Ok (add_read g2 t)
                          else Ok g2
                        else Ok g2);
              Ok (g3, false, false).

Lemma extract_ci_eq f e stmt ctx :
  extract (S f) e XCreateInsert stmt ctx =
  (do r <- fold_left (ci_step f e stmt) (list_child_segments stmt true) (Ok (init_holder ctx, false, false));
   Ok (fst (fst r))).
Proof. reflexivity. Qed.

(* ================================================================== *)
(** * Part N: navigation on rendered trees *)

Definition nn (c : seg) : bool := negb (is_negligible c).
Definition not_trivia (ts : list string) : bool := forallb (fun t => negb (mem_string t TRIVIA_TYPES)) ts.

Lemma noise_seg_facts x :
  noise_seg_ok x = true ->
  is_negligible x = true /\ children x = [] /\ mem_string (ty x) TRIVIA_TYPES = true /\
  forallb (fun c => mem_string c TRIVIA_TYPES) (cls x) = true.
Proof.
  unfold noise_seg_ok. intros H. apply andb_true_iff in H. destruct H as [H H4]. apply andb_true_iff in H. destruct H as [H H3].
  apply andb_true_iff in H. destruct H as [H1 H2]. split.
  - unfold is_negligible. rewrite <- orb_assoc in H1. rewrite orb_assoc in H1. rewrite H1. reflexivity.
  - split; [destruct (children x); [reflexivity|discriminate]|]. auto.
Qed.

Lemma noise_is_type x ts : noise_seg_ok x = true -> not_trivia ts = true -> is_type x ts = false.
Proof.
  intros H Hts. destruct (noise_seg_facts x H) as (_ & _ & _ & Hc). unfold is_type.
  induction (cls x) as [|c r IH]; [reflexivity|]. cbn [forallb existsb] in *. apply andb_true_iff in Hc. destruct Hc as [Hc1 Hc2].
  rewrite (IH Hc2), orb_false_r. destruct (mem_string c ts) eqn:E; [|reflexivity].
  apply mem_string_In in E. unfold not_trivia in Hts. rewrite forallb_forall in Hts. specialize (Hts c E). rewrite Hc1 in Hts. discriminate.
Qed.

Lemma noise_ty_in x ts : noise_seg_ok x = true -> not_trivia ts = true -> ty_in x ts = false.
Proof.
  intros H Hts. destruct (noise_seg_facts x H) as (_ & _ & Ht & _). unfold ty_in.
  destruct (mem_string (ty x) ts) eqn:E; [|reflexivity].
  apply mem_string_In in E. unfold not_trivia in Hts. rewrite forallb_forall in Hts. specialize (Hts _ E). rewrite Ht in Hts. discriminate.
Qed.

Lemma noise_tyis x t : noise_seg_ok x = true -> mem_string t TRIVIA_TYPES = false -> tyis x t = false.
Proof.
  intros H Ht. pose proof (noise_ty_in x [t] H) as H1. unfold not_trivia in H1. cbn [forallb] in H1. rewrite Ht in H1.
  specialize (H1 eq_refl). unfold ty_in in H1. cbn [mem_string] in H1. rewrite orb_false_r in H1. exact H1.
Qed.

Lemma filter_none {A} (p : A -> bool) l : (forall x, In x l -> p x = false) -> filter p l = [].
Proof.
  induction l as [|a r IH]; intros H; [reflexivity|]. cbn [filter]. rewrite (H a (or_introl eq_refl)). apply IH.
  intros x Hx. apply H. right. exact Hx.
Qed.
Lemma flat_map_none {A B} (f : A -> list B) l : (forall x, In x l -> f x = []) -> flat_map f l = [].
Proof.
  induction l as [|a r IH]; intros H; [reflexivity|]. cbn [flat_map]. rewrite (H a (or_introl eq_refl)). apply IH.
  intros x Hx. apply H. right. exact Hx.
Qed.
Lemma existsb_none {A} (p : A -> bool) l : (forall x, In x l -> p x = false) -> existsb p l = false.
Proof.
  induction l as [|a r IH]; intros H; [reflexivity|]. cbn [existsb]. rewrite (H a (or_introl eq_refl)). apply IH.
  intros x Hx. apply H. right. exact Hx.
Qed.

Section Nav.
Variable noise : list seg.
Hypothesis Hnoise : noise_ok noise = true.

Lemma noise_in x : In x noise -> noise_seg_ok x = true.
Proof. intros H. unfold noise_ok in Hnoise. rewrite forallb_forall in Hnoise. apply Hnoise. exact H. Qed.

Lemma filter_sep (p : seg -> bool) l :
  (forall x, noise_seg_ok x = true -> p x = false) -> filter p (sep noise l) = filter p l.
Proof.
  intros H. induction l as [|a [|b r] IH]; [reflexivity|reflexivity|].
  change (sep noise (a :: b :: r)) with (a :: noise ++ sep noise (b :: r)).
  cbn [filter]. rewrite filter_app, (filter_none p noise), IH; [reflexivity|]. intros x Hx. apply H. apply noise_in. exact Hx.
Qed.

Lemma flat_map_sep {B} (f : seg -> list B) l :
  (forall x, noise_seg_ok x = true -> f x = []) -> flat_map f (sep noise l) = flat_map f l.
Proof.
  intros H. induction l as [|a [|b r] IH]; [reflexivity|reflexivity|].
  change (sep noise (a :: b :: r)) with (a :: noise ++ sep noise (b :: r)).
  cbn [flat_map]. rewrite flat_map_app, (flat_map_none f noise), IH; [reflexivity|]. intros x Hx. apply H. apply noise_in. exact Hx.
Qed.

Lemma existsb_sep (p : seg -> bool) l :
  (forall x, noise_seg_ok x = true -> p x = false) -> existsb p (sep noise l) = existsb p l.
Proof.
  intros H. induction l as [|a [|b r] IH]; [reflexivity|reflexivity|].
  change (sep noise (a :: b :: r)) with (a :: noise ++ sep noise (b :: r)).
  cbn [existsb]. rewrite existsb_app, (existsb_none p noise), IH; [reflexivity|]. intros x Hx. apply H. apply noise_in. exact Hx.
Qed.

Lemma In_sep x l : In x l -> In x (sep noise l).
Proof.
  induction l as [|a [|b r] IH]; [auto|auto|].
  change (sep noise (a :: b :: r)) with (a :: noise ++ sep noise (b :: r)).
  intros [H|H]; [left; exact H|]. right. apply in_app_iff. right. apply IH. exact H.
Qed.

(** the non-negligible children of a rendered node *)
Lemma nn_noise x : noise_seg_ok x = true -> nn x = false.
Proof. intros H. unfold nn. rewrite (proj1 (noise_seg_facts x H)). reflexivity. Qed.

Lemma lcs_node t c l b :
  String.eqb t "bracketed" = false -> list_child_segments (node t c (sep noise l)) b = filter nn l.
Proof.
  intros H. unfold list_child_segments, tyis. cbn [ty node]. rewrite H. cbn [andb children]. apply (filter_sep nn). exact nn_noise.
Qed.

Lemma lcs_node0 t c l b :
  String.eqb t "bracketed" = false -> list_child_segments (node t c l) b = filter nn l.
Proof. intros H. unfold list_child_segments, tyis. cbn [ty node]. rewrite H. reflexivity. Qed.

Lemma get_children_sep t c l ts :
  not_trivia ts = true -> get_children (node t c (sep noise l)) ts = filter (fun x => is_type x ts) l.
Proof.
  intros H. unfold get_children. cbn [children node]. apply (filter_sep (fun x => is_type x ts)).
  intros x Hx. apply noise_is_type; assumption.
Qed.

Lemma crawl_noise ts b x : noise_seg_ok x = true -> not_trivia ts = true -> crawl ts b x = [].
Proof.
  intros H Hts. rewrite TriviaProofs.crawl_eq, (noise_is_type x ts H Hts). rewrite (proj1 (proj2 (noise_seg_facts x H))).
  cbn [negb orb flat_map app]. destruct (b || true); reflexivity.
Qed.


(** ** names for the pieces of the rendering *)
Definition r_brq (k : nat) (q : query) : seg :=
  node "bracketed" ["bracketed"] (sep noise [lpar; r_query noise k q; rpar]).

Definition r_rel (k : nat) (r : rel) : seg :=
  node "from_expression_element" ["from_expression_element"]
       (match r with
        | RTable t al =>
            sep noise (node "table_expression" ["table_expression"] [r_tref t]
                       :: match al with Some a => [r_alias noise a] | None => [] end)
        | RDerived q' a =>
            sep noise [node "table_expression" ["table_expression"] [r_brq k q']; r_alias noise a]
        | RGroup _ _ => []
        end).

Definition r_sc (items : list item) : seg :=
  node "select_clause" ["select_clause"] (sep noise (kw "select" :: intersperse comma (map (r_item noise) items))).

Definition r_join (k : nat) (r : rel) : seg :=
  node "join_clause" ["join_clause"] (sep noise [kw "join"; r_rel k r; on_clause noise]).

Definition r_fe1 (k : nat) (r : rel) : seg := node "from_expression" ["from_expression"] [r_rel k r].

Definition r_fej (k : nat) (r0 : rel) (rest : list rel) : seg :=
  node "from_expression" ["from_expression"] (sep noise (r_rel k r0 :: map (r_join k) rest)).

Definition r_fc (k : nat) (from : list rel) (cj : bool) : seg :=
  node "from_clause" ["from_clause"]
       (sep noise (kw "from" ::
                   (if cj then intersperse comma (map (r_fe1 k) from)
                    else match from with [] => [] | r0 :: rest => [r_fej k r0 rest] end))).

Definition r_wh (k : nat) (wh : option (string * query)) : list seg :=
  match wh with
  | Some (c, sq) =>
      [node "where_clause" ["where_clause"]
            (sep noise [kw "where"; node "expression" ["expression"] (sep noise [r_colref None c; kw "in"; r_brq k sq])])]
  | None => []
  end.

Lemma r_query_select k items from cj wh :
  r_query noise (S k) (QSelect items from cj wh) =
  node "select_statement" ["select_statement"] (sep noise ([r_sc items; r_fc k from cj] ++ r_wh k wh)).
Proof. destruct wh as [[c sq]|]; reflexivity. Qed.

Lemma r_query_union k a b :
  r_query noise (S k) (QUnion a b) =
  node "set_expression" ["set_expression"]
       (sep noise [r_query noise k a; node "set_operator" ["set_operator"] (sep noise [kw "union"; kw "all"]); r_query noise k b]).
Proof. reflexivity. Qed.

Lemma r_query_with k n c b :
  r_query noise (S k) (QWith n c b) =
  node "with_compound_statement" ["with_compound_statement"]
       (sep noise [kw "with";
                   node "common_table_expression" ["common_table_expression"] (sep noise [ident n; kw "as"; r_brq k c]);
                   r_query noise k b]).
Proof. reflexivity. Qed.

Variable e : env.
Hypothesis Henv : env_ok e = true.

Lemma env_facts :
  p_truthy (e_provider e) = false /\ e_vertica e = false /\
  (String.eqb (e_cfg e) "" = true \/ id_ok (e_cfg e) = true) /\ e_icfg e = e_cfg e.
Proof.
  unfold env_ok in Henv. apply andb_true_iff in Henv. destruct Henv as [H H4]. apply andb_true_iff in H. destruct H as [H H3].
  apply andb_true_iff in H. destruct H as [H1 H2]. apply negb_true_iff in H1. apply negb_true_iff in H2.
  apply orb_true_iff in H3. apply String.eqb_eq in H4. auto.
Qed.

Lemma sep_cons x r : sep noise (x :: r) = x :: match r with [] => [] | _ => noise ++ sep noise r end.
Proof. destruct r; reflexivity. Qed.

(** *** table references *)
Definition te_of (t : tref) : seg := node "table_expression" ["table_expression"] [r_tref t].
Definition al_list (al : option string) : list seg := match al with Some a => [r_alias noise a] | None => [] end.

Lemma r_rel_table k t al :
  r_rel k (RTable t al) = node "from_expression_element" ["from_expression_element"] (sep noise (te_of t :: al_list al)).
Proof. reflexivity. Qed.

Lemma fti_some l x :
  fold_left (fun acc c => match acc with Some _ => acc | None => find_table_identifier c end) l (Some x) = Some x.
Proof. induction l as [|a r IH]; [reflexivity|]. cbn [fold_left]. exact IH. Qed.

Lemma fti_te t : find_table_identifier (te_of t) = Some (r_tref t).
Proof. reflexivity. Qed.

Lemma fti_fee_table k t al : find_table_identifier (r_rel k (RTable t al)) = Some (r_tref t).
Proof.
  rewrite r_rel_table, sep_cons. unfold node. cbn [find_table_identifier]. 
  change (ty_in _ _) with false. cbn iota. cbn [fold_left]. rewrite fti_te. apply fti_some.
Qed.

Lemma mk_table_plain name sch al :
  id_ok name = true ->
  exists d, mk_table e name (Some sch) al = Ok d /\ dk d = KTable /\ data_ok d /\ dstr d = (sch ++ "." ++ name)%string.
Proof.
  intros H. unfold mk_table, table_of. rewrite (rsplit_dot_none name (id_ok_count name H)).
  eexists. split; [reflexivity|]. split; [reflexivity|]. split; [reflexivity|].
  cbn [dstr table_str t_schema t_raw]. rewrite (id_ok_escape name H). reflexivity.
Qed.

Lemma default_schema_str : schema_of (e_cfg e) None = if String.eqb (e_cfg e) "" then Spec.placeholder else e_cfg e.
Proof.
  destruct env_facts as (_ & _ & H & _). unfold schema_of. destruct H as [H|H].
  - rewrite H. reflexivity.
  - rewrite (id_ok_nonempty _ H). cbn [negb]. apply id_ok_escape. exact H.
Qed.

Lemma concat_escape_parts parts :
  forallb id_ok parts = true ->
  concat_str (map (fun s => escape (raw s)) (intersperse dot (map ident parts))) = join "." parts.
Proof.
  induction parts as [|a [|b r] IH]; intros H; [reflexivity| |].
  - cbn [forallb] in H. apply andb_true_iff in H. cbn [map intersperse concat_str join raw ident leaf].
    rewrite (id_ok_escape a (proj1 H)). apply append_nil_r.
  - cbn [forallb] in H. apply andb_true_iff in H. destruct H as [Ha H].
    change (intersperse dot (map ident (a :: b :: r))) with (ident a :: dot :: intersperse dot (map ident (b :: r))).
    rewrite join_cons_nonempty, <- (IH H). set (X := intersperse dot (map ident (b :: r))).
    cbn [map concat_str]. cbn [raw ident leaf dot sym]. rewrite (id_ok_escape a Ha). reflexivity.
Qed.

Lemma intersperse_length_pos x (l : list seg) : l <> [] -> exists k, List.length (intersperse x l) = S k.
Proof. destruct l as [|a [|b r]]; [contradiction| |]; intros _; eexists; reflexivity. Qed.

Lemma table_of_seg_dotted L x alias :
  (exists k, List.length L = S k) ->
  table_of_seg e (node "table_reference" ["object_reference"; "table_reference"] (L ++ [dot; x])) alias =
  mk_table e (raw x) (Some (schema_of (e_cfg e) (Some (concat_str (map (fun s => escape (raw s)) L)))))
           (match alias with Some a => if String.eqb a "" then None else Some a | None => None end).
Proof.
  intros [k Hk]. unfold table_of_seg. cbn [children node]. rewrite app_length. cbn [List.length].
  replace (List.length L + 2 - 1) with (List.length L + 1) by lia.
  replace (List.length L + 2 - 2) with (List.length L) by lia.
  replace (Nat.leb 2 (List.length L + 2)) with true by (symmetry; apply Nat.leb_le; lia).
  rewrite firstn_app. replace (List.length L + 1 - List.length L) with 1 by lia.
  rewrite firstn_all2 by lia. cbn [firstn]. rewrite rev_app_distr. cbn [rev app find_dot].
  change (tyis dot "symbol") with true. cbn iota. rewrite Hk.
  unfold nth_res. replace (S (S k)) with (List.length L + 1) by lia.
  rewrite nth_error_app2 by lia. replace (List.length L + 1 - List.length L) with 1 by lia. cbn [nth_error].
  change (match L ++ [dot; x] with [] => [] | a :: l => a :: firstn k l end) with (firstn (S k) (L ++ [dot; x])).
  rewrite <- Hk. rewrite firstn_app. rewrite firstn_all, Nat.sub_diag. cbn [firstn]. rewrite app_nil_r. reflexivity.
Qed.

Lemma table_of_seg_tref t alias :
  tref_ok t = true ->
  exists d, table_of_seg e (r_tref t) alias = Ok d /\ dk d = KTable /\ data_ok d /\ dstr d = tref_str (e_cfg e) t.
Proof.
  destruct t as [[s|] name]; unfold tref_ok; cbn [fst snd]; intros H; apply andb_true_iff in H; destruct H as [Hn Hs].
  - unfold r_tref. cbn [fst snd]. rewrite table_of_seg_dotted.
    + unfold schema_ok in Hs. apply andb_true_iff in Hs. destruct Hs as [Hs _].
      rewrite (concat_escape_parts _ Hs), join_split_dot.
      cbn [raw ident leaf].
      destruct (mk_table_plain name (schema_of (e_cfg e) (Some s)) (match alias with Some a => if String.eqb a "" then None else Some a | None => None end) Hn)
        as (d & E & H1 & H2 & H3).
      exists d. split; [exact E|]. split; [exact H1|]. split; [exact H2|]. rewrite H3. unfold tref_str. cbn [fst snd].
      unfold schema_of.
      assert (Hne : String.eqb s "" = false).
      { destruct s; [|reflexivity]. cbn in Hs. discriminate. }
      rewrite Hne. cbn [negb]. rewrite (idc_escape s); [reflexivity|].
      apply split_dot_chars. rewrite forallb_forall in *. intros y Hy. apply id_ok_chars. apply Hs. exact Hy.
    + apply intersperse_length_pos. intros E. apply map_eq_nil in E. exact (split_dot_nonempty s E).
  - unfold r_tref. cbn [fst snd]. unfold table_of_seg. cbn [children node List.length Nat.leb].
    change (tyis _ "identifier") with false. cbn iota. unfold nth_res. cbn [nth_error raw ident leaf].
    destruct (mk_table_plain name (schema_of (e_cfg e) None) (match alias with Some a => if String.eqb a "" then None else Some a | None => None end) Hn)
        as (d & E & H1 & H2 & H3).
    exists d. split; [exact E|]. split; [exact H1|]. split; [exact H2|]. rewrite H3, default_schema_str. reflexivity.
Qed.

(** *** a table element of FROM *)
Lemma nn_node t c l : String.eqb t "symbol" = false -> nn (node t c l) = true.
Proof. intros H. unfold nn, is_negligible, tyis. cbn [is_ws is_cm is_mt ty node]. rewrite H. reflexivity. Qed.

Lemma lcs_fee_table k t al b : list_child_segments (r_rel k (RTable t al)) b = te_of t :: al_list al.
Proof. rewrite r_rel_table, lcs_node by reflexivity. destruct al; reflexivity. Qed.

Lemma get_child_fee_te k t al : get_child (r_rel k (RTable t al)) ["table_expression"] = Some (te_of t).
Proof. unfold get_child. rewrite r_rel_table, get_children_sep by reflexivity. destruct al; reflexivity. Qed.

Lemma get_child_fee_alias k t al : get_child (r_rel k (RTable t al)) ["alias_expression"] = match al with Some a => Some (r_alias noise a) | None => None end.
Proof. unfold get_child. rewrite r_rel_table, get_children_sep by reflexivity. destruct al; reflexivity. Qed.

Lemma is_subquery_other s : tyis s "from_expression_element" = false -> tyis s "bracketed" = false -> is_subquery s = Ok false.
Proof. intros H1 H2. unfold is_subquery. rewrite H1, H2. reflexivity. Qed.

Lemma list_subqueries_fee_table k t al : list_subqueries_fee (r_rel k (RTable t al)) = Ok [].
Proof.
  unfold list_subqueries_fee, extract_as_and_target_segment. rewrite lcs_fee_table. cbn [nth_res nth_error].
  change (tyis (te_of t) "keyword") with false. cbn [andb].
  rewrite (is_subquery_other (te_of t)) by reflexivity.
  cbn [te_of children node nth_res nth_error]. rewrite (is_subquery_other (r_tref t)) by reflexivity. reflexivity.
Qed.

Lemma raw_node t c ch : raw (node t c ch) = concat_str (map raw ch).
Proof. destruct ch; reflexivity. Qed.

Lemma concat_str_app a b : concat_str (a ++ b) = (concat_str a ++ concat_str b)%string.
Proof. induction a as [|x r IH]; [reflexivity|]. cbn [app concat_str]. rewrite IH, append_assoc. reflexivity. Qed.

Lemma raw_tref_dotted s name : sexists is_dot (raw (r_tref (Some s, name))) = true.
Proof.
  unfold r_tref. cbn [fst snd]. rewrite raw_node, map_app, concat_str_app, sexists_app.
  cbn [map concat_str raw dot sym leaf append sexists]. rewrite orb_true_r. reflexivity.
Qed.

Lemma raw_tref_bare name : raw (r_tref (None, name)) = name.
Proof. cbn. apply append_nil_r. Qed.

Lemma lcs_alias a b : list_child_segments (r_alias noise a) b = [node "alias_operator" ["alias_operator"] [kw "as"]; ident a].
Proof. unfold r_alias. rewrite lcs_node by reflexivity. reflexivity. Qed.

Definition cte_lookup (g : graph) (name : string) : option dataset :=
  fold_left (fun acc c => if String.eqb (dalias c) (escape name) then Some c else acc) (sq_cte g) None.

Lemma add_dataset_table k t al g :
  tref_ok t = true -> match al with Some a => id_ok a = true | None => True end ->
  add_dataset_from_fee e (r_rel k (RTable t al)) g =
  match (match fst t with Some _ => None | None => cte_lookup g (snd t) end) with
  | Some c => match dquery c with
              | Some q => Ok [mk_subquery q (Some (match al with Some a => a | None => raw (r_tref t) end))]
              | None => Err "AttributeError"
              end
  | None => do d <- table_of_seg e (r_tref t) al; Ok [d]
  end.
Proof.
  intros Ht Ha. unfold add_dataset_from_fee. rewrite lcs_fee_table, get_child_fee_te.
  change (get_child (te_of t) ["function"]) with (@None seg). cbn iota.
  assert (E1 : filter (fun x => negb (tyis x "keyword")) (te_of t :: al_list al) = te_of t :: al_list al) by (destruct al; reflexivity).
  rewrite E1. cbn [nth_res nth_error]. change (tyis (te_of t) "bracketed") with false. cbn [andb].
  replace (list_subqueries (r_rel k (RTable t al))) with (list_subqueries_fee (r_rel k (RTable t al))) by reflexivity.
  rewrite list_subqueries_fee_table, fti_fee_table.
  assert (E2 : (match te_of t :: al_list al with
                | _ :: a :: _ => if tyis a "alias_expression" then
                                   match list_child_segments a true with
                                   | f0 :: x :: _ => if tyis f0 "alias_operator" || (tyis f0 "keyword" && String.eqb (raw_upper f0) "AS")
                                                     then Ok (Some (raw x)) else Ok (Some (raw f0))
                                   | [x] => Ok (Some (raw x)) | [] => Err EIndex end
                                 else Ok None
                | _ => Ok None end) = Ok al).
  { destruct al as [a|]; [|reflexivity]. cbn [al_list]. change (tyis (r_alias noise a) "alias_expression") with true. cbn iota.
    rewrite lcs_alias. reflexivity. }
  rewrite E2. change (tyis (r_tref t) "file_reference") with false. cbn iota.
  destruct t as [[s|] name]; cbn [fst snd].
  - rewrite raw_tref_dotted. reflexivity.
  - rewrite raw_tref_bare. unfold tref_ok in Ht. cbn [fst snd] in Ht. rewrite andb_true_r in Ht. rewrite (id_ok_nodot name Ht).
    unfold cte_lookup. destruct (fold_left _ (sq_cte g) None) as [c|]; [|reflexivity].
    destruct (dquery c); [|reflexivity]. destruct al as [a|]; [|reflexivity]. rewrite (id_ok_nonempty a Ha). reflexivity.
Qed.

(** *** sub-trees without segments of the types looked for *)
Definition clean (ts : list string) (s : seg) : Prop := forall x, TriviaProofs.sub x s -> is_type x ts = false.

Lemma clean_child ts s c : clean ts s -> In c (children s) -> clean ts c.
Proof. intros H Hin x Hx. apply H. exact (TriviaProofs.sub_child x c s Hin Hx). Qed.

Lemma clean_crawl ts b s : clean ts s -> crawl ts b s = [].
Proof.
  induction s as [t g c r w cm mt ch IH] using TriviaProofs.seg_ind'. intros H.
  rewrite TriviaProofs.crawl_eq, (H _ (TriviaProofs.sub_refl _)). cbn [negb orb app]. rewrite orb_true_r.
  apply flat_map_none. intros x Hx. rewrite Forall_forall in IH. apply (IH x Hx). apply (clean_child ts _ x H). exact Hx.
Qed.

Lemma clean_node ts t c l : existsb (fun x => mem_string x ts) c = false -> Forall (clean ts) l -> clean ts (node t c l).
Proof.
  intros H Hl x Hx. inversion Hx as [s0|x0 c0 s0 Hin Hsub]; subst.
  - exact H.
  - cbn [children node] in Hin. rewrite Forall_forall in Hl. exact (Hl c0 Hin x Hsub).
Qed.

Lemma clean_leaf ts t g c r : existsb (fun x => mem_string x ts) c = false -> clean ts (leaf t g c r).
Proof.
  intros H x Hx. inversion Hx as [s0|x0 c0 s0 Hin Hsub]; subst; [exact H|]. destruct Hin.
Qed.

Lemma clean_noise ts : not_trivia ts = true -> Forall (clean ts) noise.
Proof.
  intros H. apply Forall_forall. intros n Hn x Hx. pose proof (noise_in n Hn) as Hok.
  inversion Hx as [s0|x0 c0 s0 Hin Hsub]; subst.
  - apply noise_is_type; assumption.
  - rewrite (proj1 (proj2 (noise_seg_facts n Hok))) in Hin. destruct Hin.
Qed.

Lemma Forall_sep (P : seg -> Prop) l : Forall P noise -> Forall P l -> Forall P (sep noise l).
Proof.
  intros Hn Hl. induction l as [|a [|b r] IH]; [constructor|exact Hl|].
  change (sep noise (a :: b :: r)) with (a :: noise ++ sep noise (b :: r)). inversion Hl. subst.
  constructor; [assumption|]. apply Forall_app. split; [exact Hn|]. apply IH. assumption.
Qed.

Lemma Forall_intersperse (P : seg -> Prop) x l : P x -> Forall P l -> Forall P (intersperse x l).
Proof.
  intros Hx Hl. induction l as [|a [|b r] IH]; [constructor|exact Hl|].
  change (intersperse x (a :: b :: r)) with (a :: x :: intersperse x (b :: r)). inversion Hl. subst.
  constructor; [assumption|]. constructor; [exact Hx|]. apply IH. assumption.
Qed.

Lemma clean_sep_node ts t c l :
  not_trivia ts = true -> existsb (fun x => mem_string x ts) c = false -> Forall (clean ts) l -> clean ts (node t c (sep noise l)).
Proof. intros H1 H2 H3. apply clean_node; [exact H2|]. apply Forall_sep; [apply clean_noise; exact H1|exact H3]. Qed.

Lemma clean_tref ts t : existsb (fun x => mem_string x ts) ["object_reference"; "table_reference"; "identifier"; "naked_identifier"; "raw"; "dot"; "symbol"] = false -> clean ts (r_tref t).
Proof.
  intros H. cbn [existsb] in H. repeat (apply orb_false_iff in H; destruct H as [?E H]).
  assert (Hi : forall n, clean ts (ident n)) by (intros n; apply clean_leaf; cbn [existsb]; rewrite E1, E2, E3; reflexivity).
  assert (Hd : clean ts dot) by (apply clean_leaf; cbn [existsb]; rewrite E3, E4, E5; reflexivity).
  apply clean_node; [cbn [existsb]; rewrite E, E0; reflexivity|].
  destruct (fst t) as [s|].
  - apply Forall_app. split.
    + apply Forall_intersperse; [exact Hd|]. apply Forall_forall. intros x Hx. apply in_map_iff in Hx. destruct Hx as (n & <- & _). apply Hi.
    + constructor; [exact Hd|]. constructor; [apply Hi|constructor].
  - constructor; [apply Hi|constructor].
Qed.

Lemma clean_alias ts a :
  not_trivia ts = true ->
  existsb (fun x => mem_string x ts) ["alias_expression"; "alias_operator"; "keyword"; "word"; "identifier"; "naked_identifier"; "raw"] = false ->
  clean ts (r_alias noise a).
Proof.
  intros Hts H. cbn [existsb] in H. repeat (apply orb_false_iff in H; destruct H as [?E H]).
  apply clean_sep_node; [exact Hts|cbn [existsb]; rewrite E; reflexivity|].
  constructor; [|constructor; [|constructor]].
  - apply clean_node; [cbn [existsb]; rewrite E0; reflexivity|]. constructor; [|constructor].
    apply clean_leaf. cbn [existsb]. rewrite E1, E5, E2. reflexivity.
  - apply clean_leaf. cbn [existsb]. rewrite E3, E4, E5. reflexivity.
Qed.

Ltac clean_tac :=
  repeat first [ apply clean_sep_node; [reflexivity|reflexivity|]
               | apply clean_node; [reflexivity|]
               | apply clean_leaf; reflexivity
               | apply clean_tref; reflexivity
               | apply clean_alias; [reflexivity|reflexivity]
               | apply Forall_cons
               | apply Forall_nil ].

Lemma crawl_node_miss ts t c l :
  not_trivia ts = true -> existsb (fun x => mem_string x ts) c = false ->
  crawl ts true (node t c (sep noise l)) = flat_map (crawl ts true) l.
Proof.
  intros H1 H2. rewrite TriviaProofs.crawl_eq. unfold is_type. cbn [cls node children]. rewrite H2. cbn [orb app].
  apply flat_map_sep. intros x Hx. apply crawl_noise; assumption.
Qed.

Lemma crawl_node0_miss ts t c l :
  existsb (fun x => mem_string x ts) c = false -> crawl ts true (node t c l) = flat_map (crawl ts true) l.
Proof. intros H2. rewrite TriviaProofs.crawl_eq. unfold is_type. cbn [cls node children]. rewrite H2. reflexivity. Qed.

Lemma crawl_node_hit ts t c l :
  not_trivia ts = true -> existsb (fun x => mem_string x ts) c = true ->
  crawl ts true (node t c (sep noise l)) = node t c (sep noise l) :: flat_map (crawl ts true) l.
Proof.
  intros H1 H2. rewrite TriviaProofs.crawl_eq. unfold is_type. cbn [cls node children]. rewrite H2. cbn [orb app]. f_equal.
  apply flat_map_sep. intros x Hx. apply crawl_noise; assumption.
Qed.

Lemma hd_crawl_rel k r : exists tl, crawl ["from_expression_element"] true (r_rel k r) = r_rel k r :: tl.
Proof. unfold r_rel. rewrite TriviaProofs.crawl_eq. eexists. reflexivity. Qed.

Lemma ffee_fe1 k r : find_from_expression_element (r_fe1 k r) = Some (r_rel k r).
Proof.
  unfold find_from_expression_element, r_fe1. rewrite crawl_node0_miss by reflexivity. cbn [flat_map].
  destruct (hd_crawl_rel k r) as (tl & ->). reflexivity.
Qed.

Lemma ffee_fc k r0 rest : find_from_expression_element (r_fc k (r0 :: rest) false) = Some (r_rel k r0).
Proof.
  unfold find_from_expression_element, r_fc, r_fej. rewrite crawl_node_miss by reflexivity. cbn [flat_map].
  change (crawl ["from_expression_element"] true (kw "from")) with (@nil seg). cbn [app].
  rewrite crawl_node_miss by reflexivity. cbn [flat_map]. destruct (hd_crawl_rel k r0) as (tl & ->). reflexivity.
Qed.

Lemma ffee_join k r : find_from_expression_element (r_join k r) = Some (r_rel k r).
Proof.
  unfold find_from_expression_element, r_join. rewrite crawl_node_miss by reflexivity. cbn [flat_map].
  change (crawl ["from_expression_element"] true (kw "join")) with (@nil seg). cbn [app].
  destruct (hd_crawl_rel k r) as (tl & ->). reflexivity.
Qed.

Lemma clean_rel_table ts k t al :
  not_trivia ts = true ->
  existsb (fun x => mem_string x ts)
    ["from_expression_element"; "table_expression"; "object_reference"; "table_reference"; "identifier"; "naked_identifier"; "raw";
     "dot"; "symbol"; "alias_expression"; "alias_operator"; "keyword"; "word"] = false ->
  clean ts (r_rel k (RTable t al)).
Proof.
  intros Hts H. cbn [existsb] in H. repeat (apply orb_false_iff in H; destruct H as [?E H]).
  rewrite r_rel_table. apply clean_sep_node; [exact Hts|cbn [existsb]; rewrite E; reflexivity|].
  constructor.
  - apply clean_node; [cbn [existsb]; rewrite E0; reflexivity|]. constructor; [|constructor].
    apply clean_tref. cbn [existsb]. rewrite E1, E2, E3, E4, E5, E6, E7. reflexivity.
  - destruct al as [a|]; [|constructor]. constructor; [|constructor]. apply clean_alias; [exact Hts|].
    cbn [existsb]. rewrite E8, E9, E10, E11, E3, E4, E5. reflexivity.
Qed.

Lemma clean_on_clause ts :
  not_trivia ts = true ->
  existsb (fun x => mem_string x ts)
    ["join_on_condition"; "keyword"; "raw"; "word"; "expression"; "literal"; "numeric_literal"; "comparison_operator";
     "raw_comparison_operator"; "symbol"] = false ->
  clean ts (on_clause noise).
Proof.
  intros Hts H. cbn [existsb] in H. repeat (apply orb_false_iff in H; destruct H as [?E H]).
  unfold on_clause. apply clean_sep_node; [exact Hts|cbn [existsb]; rewrite E; reflexivity|].
  constructor; [apply clean_leaf; cbn [existsb]; rewrite E0, E1, E2; reflexivity|]. constructor; [|constructor].
  apply clean_sep_node; [exact Hts|cbn [existsb]; rewrite E3; reflexivity|].
  assert (Hnum : clean ts (num "1")) by (apply clean_leaf; cbn [existsb]; rewrite E4, E5, E1; reflexivity).
  constructor; [exact Hnum|]. constructor; [|constructor; [exact Hnum|constructor]].
  apply clean_node; [cbn [existsb]; rewrite E6; reflexivity|]. constructor; [|constructor].
  apply clean_leaf. cbn [existsb]. rewrite E7, E1, E8. reflexivity.
Qed.

(** *** the FROM clause *)
Lemma filter_intersperse (p : seg -> bool) x l :
  p x = false -> (forall y, In y l -> p y = true) -> filter p (intersperse x l) = l.
Proof.
  intros Hx Hl. induction l as [|a [|b r] IH]; [reflexivity| |].
  - cbn [intersperse filter]. rewrite (Hl a (or_introl eq_refl)). reflexivity.
  - change (intersperse x (a :: b :: r)) with (a :: x :: intersperse x (b :: r)). cbn [filter].
    rewrite (Hl a (or_introl eq_refl)), Hx, IH; [reflexivity|]. intros y Hy. apply Hl. right. exact Hy.
Qed.

Lemma filter_intersperse_none (p : seg -> bool) x l :
  p x = false -> (forall y, In y l -> p y = false) -> filter p (intersperse x l) = [].
Proof.
  intros Hx Hl. apply filter_none. intros y Hy.
  assert (H : Forall (fun y => p y = false) (intersperse x l)).
  { apply Forall_intersperse; [exact Hx|]. apply Forall_forall. exact Hl. }
  rewrite Forall_forall in H. apply H. exact Hy.
Qed.

Lemma gc_fc_single k r0 rest : get_children (r_fc k (r0 :: rest) false) ["from_expression"] = [r_fej k r0 rest].
Proof. unfold r_fc. rewrite get_children_sep by reflexivity. reflexivity. Qed.

Lemma gc_fc_comma k from : get_children (r_fc k from true) ["from_expression"] = map (r_fe1 k) from.
Proof.
  unfold r_fc. rewrite get_children_sep by reflexivity. cbn [filter]. change (is_type (kw "from") ["from_expression"]) with false. cbn iota.
  apply filter_intersperse; [reflexivity|]. intros y Hy. apply in_map_iff in Hy. destruct Hy as (r & <- & _). reflexivity.
Qed.

Lemma gc_join_fe k r : get_children (r_join k r) ["from_expression"] = [].
Proof. unfold r_join. rewrite get_children_sep by reflexivity. reflexivity. Qed.

Lemma gc_fe1_fe k r : get_children (r_fe1 k r) ["from_expression"] = [].
Proof. reflexivity. Qed.

Definition jseg (p : nat * rel) : seg := r_join (fst p) (snd p).
Definition jfee (p : nat * rel) : seg := r_rel (fst p) (snd p).

Lemma list_tables_fc_join k r0 rest g jl :
  list_join_clause (r_fc k (r0 :: rest) false) = map jseg jl ->
  list_tables e (r_fc k (r0 :: rest) false) g =
  (do first <- add_dataset_from_fee e (r_rel k r0) g;
   do joins <- concat_res (map (fun p => add_dataset_from_fee e (jfee p) g) jl);
   Ok (first ++ joins)).
Proof.
  intros H. unfold list_tables. change (ty_in (r_fc k (r0 :: rest) false) _) with true. cbn iota.
  rewrite gc_fc_single. unfold list_tables_one at 1. rewrite ffee_fc, H, map_map.
  destruct (add_dataset_from_fee e (r_rel k r0) g) as [first|err]; [|reflexivity].
  assert (E : map (fun x => if ty_in (jseg x) ["from_clause"; "join_clause"; "update_statement"]
                            then match get_children (jseg x) ["from_expression"] with
                                 | fe1 :: fe2 :: rest0 => concat_res (map (fun fe => list_tables_one e fe g) (fe1 :: fe2 :: rest0))
                                 | _ => list_tables_one e (jseg x) g end
                            else Ok []) jl = map (fun p => add_dataset_from_fee e (jfee p) g) jl).
  { apply map_ext. intros [k' r]. unfold jseg, jfee. cbn [fst snd]. change (ty_in (r_join k' r) _) with true. cbn iota.
    rewrite gc_join_fe. unfold list_tables_one. rewrite ffee_join. reflexivity. }
  rewrite E. reflexivity.
Qed.

Lemma list_tables_fc_comma k r1 r2 rest g :
  list_tables e (r_fc k (r1 :: r2 :: rest) true) g =
  concat_res (map (fun r => add_dataset_from_fee e (r_rel k r) g) (r1 :: r2 :: rest)).
Proof.
  unfold list_tables. change (ty_in (r_fc k (r1 :: r2 :: rest) true) _) with true. cbn iota.
  rewrite gc_fc_comma. cbn [map].
  change (r_fe1 k r1 :: r_fe1 k r2 :: map (r_fe1 k) rest) with (map (r_fe1 k) (r1 :: r2 :: rest)).
  rewrite map_map. f_equal; try (apply map_ext; intros r; unfold list_tables_one; rewrite ffee_fe1; reflexivity).
Qed.

Lemma r_fc_single_comma k r : r_fc k [r] true = r_fc k [r] false.
Proof. reflexivity. Qed.

Lemma list_subqueries_fe1 k r :
  list_subqueries (r_fe1 k r) = (do first <- list_subqueries_fee (r_rel k r); Ok (first ++ [])).
Proof.
  unfold list_subqueries. change (tyis (r_fe1 k r) "select_clause") with false. change (tyis (r_fe1 k r) "from_expression_element") with false.
  change (tyis (r_fe1 k r) "where_clause") with false. change (ty_in (r_fe1 k r) ["from_clause"; "from_expression"]) with true. cbn iota.
  rewrite ffee_fe1. unfold list_join_clause. change (ty_in (r_fe1 k r) ["from_clause"; "update_statement"]) with false. cbn iota.
  cbn [map concat_res]. reflexivity.
Qed.

Lemma list_subqueries_fc_join k r0 rest jl :
  list_join_clause (r_fc k (r0 :: rest) false) = map jseg jl ->
  list_subqueries (r_fc k (r0 :: rest) false) =
  (do first <- list_subqueries_fee (r_rel k r0);
   do rest <- concat_res (map (fun p => list_subqueries_fee (jfee p)) jl);
   Ok (first ++ rest)).
Proof.
  intros H. unfold list_subqueries. set (F := r_fc k (r0 :: rest) false) in *.
  change (tyis F "select_clause") with false. change (tyis F "from_expression_element") with false.
  change (tyis F "where_clause") with false. change (ty_in F ["from_clause"; "from_expression"]) with true. cbn iota.
  unfold F at 1. rewrite ffee_fc, H, map_map.
  assert (E : map (fun x => match find_from_expression_element (jseg x) with Some fee => list_subqueries_fee fee | None => Ok [] end) jl
              = map (fun p => list_subqueries_fee (jfee p)) jl).
  { apply map_ext. intros [k' r]. unfold jseg, jfee. cbn [fst snd]. rewrite ffee_join. reflexivity. }
  rewrite E. reflexivity.
Qed.

Lemma list_subquery_fc_join k r0 rest :
  list_subquery (r_fc k (r0 :: rest) false) =
  (do l <- list_subqueries (r_fc k (r0 :: rest) false); Ok (parse_subquery l)).
Proof. unfold list_subquery. rewrite gc_fc_single. reflexivity. Qed.

Lemma list_subquery_fc_comma k r1 r2 rest :
  list_subquery (r_fc k (r1 :: r2 :: rest) true) =
  (do ls <- map_res list_subqueries (map (r_fe1 k) (r1 :: r2 :: rest)); Ok (flat_map parse_subquery ls)).
Proof. unfold list_subquery. rewrite gc_fc_comma. reflexivity. Qed.

(** tables only *)
Definition is_rtable (r : rel) : bool := match r with RTable _ _ => true | _ => false end.

Lemma ljc_tables k r0 rest :
  forallb is_rtable (r0 :: rest) = true ->
  list_join_clause (r_fc k (r0 :: rest) false) = map jseg (map (fun r => (k, r)) rest).
Proof.
  intros Hall. cbn [forallb] in Hall. apply andb_true_iff in Hall. destruct Hall as [H0 Hrest].
  destruct r0 as [t0 al0| |]; try discriminate.
  unfold list_join_clause. change (ty_in (r_fc k (RTable t0 al0 :: rest) false) _) with true. cbn iota.
  unfold get_child at 1. rewrite gc_fc_single.
  assert (Hrj : forall r, In r rest -> crawl ["join_clause"] true (r_join k r) = [r_join k r]).
  { intros r Hr. rewrite forallb_forall in Hrest. specialize (Hrest r Hr). destruct r as [t al| |]; try discriminate.
    unfold r_join. rewrite crawl_node_hit by reflexivity. f_equal. cbn [flat_map].
    change (crawl ["join_clause"] true (kw "join")) with (@nil seg).
    rewrite (clean_crawl _ _ (r_rel k (RTable t al))) by (apply clean_rel_table; reflexivity).
    rewrite (clean_crawl _ _ (on_clause noise)) by (apply clean_on_clause; reflexivity). reflexivity. }
  assert (Hc : crawl ["join_clause"] true (r_fc k (RTable t0 al0 :: rest) false) = map (r_join k) rest).
  { unfold r_fc, r_fej. rewrite crawl_node_miss by reflexivity. cbn [flat_map].
    change (crawl ["join_clause"] true (kw "from")) with (@nil seg). cbn [app]. rewrite app_nil_r.
    rewrite crawl_node_miss by reflexivity. cbn [flat_map].
    rewrite (clean_crawl _ _ (r_rel k (RTable t0 al0))) by (apply clean_rel_table; reflexivity). cbn [app].
    clear Hrest. induction rest as [|r rs IH]; [reflexivity|]. cbn [map flat_map].
    rewrite (Hrj r (or_introl eq_refl)), IH; [reflexivity|]. intros r' Hr'. apply Hrj. right. exact Hr'. }
  rewrite map_map. unfold jseg. cbn [fst snd].
  destruct rest as [|r1 rs].
  - unfold get_child, r_fej. rewrite get_children_sep by reflexivity. cbn [map filter].
    change (is_type (r_rel k (RTable t0 al0)) ["join_clause"]) with false. cbn iota.
    change (node "from_expression" ["from_expression"] (sep noise [r_rel k (RTable t0 al0)])) with (r_fe1 k (RTable t0 al0)).
    unfold r_fe1. rewrite crawl_node0_miss by reflexivity. cbn [flat_map].
    rewrite (clean_crawl _ _ (r_rel k (RTable t0 al0))) by (apply clean_rel_table; reflexivity). cbn [app]. exact Hc.
  - unfold get_child, r_fej. rewrite get_children_sep by reflexivity. cbn [map filter].
    change (is_type (r_rel k (RTable t0 al0)) ["join_clause"]) with false.
    change (is_type (r_join k r1) ["join_clause"]) with true. cbn iota. exact Hc.
Qed.

(** *** the SELECT clause *)
Definition item_ok (i : item) : bool :=
  match i with
  | IExpr (EColRef qq c) al => id_ok c && match qq with Some x => id_ok x | None => true end
                               && match al with Some a => id_ok a | None => true end
  | IStar qq => match qq with Some x => id_ok x | None => true end
  | _ => false
  end.

Definition r_wild (qq : option string) : seg :=
  node "wildcard_expression" ["wildcard_expression"]
       [node "wildcard_identifier" ["wildcard_identifier"; "object_reference"]
             (match qq with Some x => [ident x; dot; star_seg] | None => [star_seg] end)].

Lemma r_item_colref qq c al :
  r_item noise (IExpr (EColRef qq c) al) = node "select_clause_element" ["select_clause_element"] (sep noise (r_colref qq c :: al_list al)).
Proof. destruct al; reflexivity. Qed.
Lemma r_item_star qq : r_item noise (IStar qq) = node "select_clause_element" ["select_clause_element"] [r_wild qq].
Proof. reflexivity. Qed.

Lemma ecq_colref qq c : extract_column_qualifier (r_colref qq c) = Ok (Some (c, qq)).
Proof. destruct qq; reflexivity. Qed.

Lemma ecq_wild qq :
  match qq with Some x => id_ok x = true | None => True end -> extract_column_qualifier (r_wild qq) = Ok (Some ("*", qq)).
Proof.
  intros H. unfold extract_column_qualifier. change (is_wildcard (r_wild qq)) with true. cbn iota.
  destruct qq as [x|].
  - assert (E : raw (r_wild (Some x)) = (x ++ String "."%char "*")%string).
    { cbn [r_wild raw node map concat_str ident leaf dot sym star_seg]. rewrite !append_nil_r. reflexivity. }
    rewrite E, (split_dot_nodot x "*" (id_ok_nodot x H)). reflexivity.
  - reflexivity.
Qed.

Lemma map_res_inv {A B} (P : B -> Prop) (f : A -> res B) l :
  (forall x, In x l -> exists y, f x = Ok y /\ P y) -> exists ys, map_res f l = Ok ys /\ Forall P ys.
Proof.
  induction l as [|x r IH]; intros H; cbn [map_res]; [exists []; auto|].
  destruct (H x (or_introl eq_refl)) as (y & E & Hy). rewrite E.
  destruct (IH (fun z Hz => H z (or_intror Hz))) as (ys & E2 & Hys). rewrite E2. exists (y :: ys). auto.
Qed.

Lemma xcol_ok_mk name c qq fa :
  match qq with Some x => id_ok x = true | None => True end -> xcol_ok (mk_xcol name [(c, qq)] fa).
Proof.
  intros H. split; [reflexivity|]. intros c' q Hin. cbn [mk_xcol xsrc map esc_src fst snd] in Hin.
  destruct Hin as [Hin|[]]. inversion Hin. destruct qq as [x|]; [|discriminate]. cbn [option_map] in H2. inversion H2.
  rewrite (id_ok_escape x H). apply id_ok_count. exact H.
Qed.

Lemma column_of_seg_item f i :
  item_ok i = true -> exists x, column_of_seg (S f) e (r_item noise i) = Ok x /\ xcol_ok x.
Proof.
  destruct i as [[qq c| | | | | |] al|qq]; cbn [item_ok]; try discriminate; intros H.
  - apply andb_true_iff in H. destruct H as [H Ha]. apply andb_true_iff in H. destruct H as [Hc Hq].
    assert (Hq' : match qq with Some x => id_ok x = true | None => True end) by (destruct qq; auto).
    rewrite r_item_colref. unfold column_of_seg.
    match goal with |- context [tyis ?n "select_clause_element"] => change (tyis n "select_clause_element") with true end. cbn iota.
    unfold get_column_and_alias. rewrite !lcs_node by reflexivity.
    assert (E : filter nn (r_colref qq c :: al_list al) = r_colref qq c :: al_list al) by (destruct al; reflexivity).
    rewrite E. cbn [fold_left]. change (tyis (r_colref qq c) "alias_expression") with false. cbn iota.
    change (ty_in (r_colref qq c) SOURCE_TYPES) with true. cbn [orb].
    cbn [extract_sources]. change (ty_in (r_colref qq c) ["identifier"; "column_reference"]) with true. cbn [orb].
    rewrite ecq_colref. cbn [app].
    destruct al as [a|]; cbn [al_list fold_left].
    + change (tyis (r_alias noise a) "alias_expression") with true. cbn iota. unfold extract_identifier. rewrite lcs_alias.
      cbn [last_res rev app raw ident leaf]. rewrite (id_ok_nonempty a Ha).
      eexists. split; [reflexivity|]. apply xcol_ok_mk. exact Hq'.
    + change (tyis (r_colref qq c) "column_reference") with true. cbn [orb fst].
      eexists. split; [reflexivity|]. apply xcol_ok_mk. exact Hq'.
  - assert (Hq' : match qq with Some x => id_ok x = true | None => True end) by (destruct qq; auto).
    rewrite r_item_star. unfold column_of_seg.
    match goal with |- context [tyis ?n "select_clause_element"] => change (tyis n "select_clause_element") with true end. cbn iota.
    unfold get_column_and_alias. rewrite !lcs_node0 by reflexivity. cbn [filter]. change (nn (r_wild qq)) with true. cbn iota. cbn [fold_left].
    change (tyis (r_wild qq) "alias_expression") with false. cbn iota.
    change (is_wildcard (r_wild qq)) with true. rewrite !orb_true_r.
    cbn [extract_sources]. rewrite !orb_true_r. rewrite (ecq_wild qq Hq'). cbn [app fst].
    eexists. split; [reflexivity|]. apply xcol_ok_mk. exact Hq'.
Qed.

Lemma gc_sc_items items : get_children (r_sc items) ["select_clause_element"] = map (r_item noise) items.
Proof.
  unfold r_sc. rewrite get_children_sep by reflexivity. cbn [filter]. change (is_type (kw "select") ["select_clause_element"]) with false.
  cbn iota. apply filter_intersperse; [reflexivity|]. intros y Hy. apply in_map_iff in Hy. destruct Hy as (i & <- & _).
  destruct i as [[ | | | | | | ] al|qq]; reflexivity.
Qed.

Lemma swap_partition_off s g : handle_swap_partition e s g = Ok g.
Proof. unfold handle_swap_partition. rewrite (proj1 (proj2 env_facts)). reflexivity. Qed.

Lemma handle_child_sc f st items :
  forallb item_ok items = true ->
  exists cols, handle_child (S f) e st (r_sc items) =
               Ok {| s_g := s_g st; s_tables := s_tables st; s_columns := s_columns st ++ cols; s_barriers := s_barriers st |}
               /\ Forall xcol_ok cols.
Proof.
  intros H. unfold handle_child. rewrite swap_partition_off. unfold handle_select_into.
  change (ty_in (r_sc items) ["into_table_clause"; "into_clause"]) with false. cbn iota.
  unfold list_tables. change (ty_in (r_sc items) ["from_clause"; "join_clause"; "update_statement"]) with false. cbn iota.
  change (tyis (r_sc items) "select_clause") with true. cbn iota. rewrite gc_sc_items.
  destruct (map_res_inv xcol_ok (column_of_seg (S f) e) (map (r_item noise) items)) as (cols & E & Hc).
  { intros x Hx. apply in_map_iff in Hx. destruct Hx as (i & <- & Hi). apply column_of_seg_item.
    rewrite forallb_forall in H. apply H. exact Hi. }
  rewrite E. exists cols. rewrite app_nil_r. auto.
Qed.

Lemma handle_child_fc f st k from cj :
  handle_child f e st (r_fc k from cj) =
  (do ts <- list_tables e (r_fc k from cj) (s_g st);
   Ok {| s_g := s_g st; s_tables := s_tables st ++ ts; s_columns := s_columns st; s_barriers := s_barriers st |}).
Proof.
  unfold handle_child. rewrite swap_partition_off. unfold handle_select_into.
  change (ty_in (r_fc k from cj) ["into_table_clause"; "into_clause"]) with false. cbn iota.
  destruct (list_tables e (r_fc k from cj) (s_g st)); [|reflexivity].
  change (tyis (r_fc k from cj) "select_clause") with false. cbn iota. rewrite app_nil_r. reflexivity.
Qed.

Lemma item_types i : tyis (r_item noise i) "set_expression" = false /\ is_type (r_item noise i) ["from_expression"] = false.
Proof. destruct i as [[ | | | | | | ] al|qq]; split; reflexivity. Qed.

Lemma ise_sc items : is_set_expression (r_sc items) = false.
Proof.
  unfold is_set_expression. change (tyis (r_sc items) "set_expression") with false. cbn [orb]. unfold r_sc. cbn [children node].
  rewrite existsb_sep by (intros x Hx; apply noise_tyis; [exact Hx|reflexivity]). cbn [existsb]. change (tyis (kw "select") "set_expression") with false. cbn [orb].
  apply existsb_none. intros y Hy.
  assert (H : Forall (fun y => tyis y "set_expression" = false) (intersperse comma (map (r_item noise) items))).
  { apply Forall_intersperse; [reflexivity|]. apply Forall_forall. intros z Hz. apply in_map_iff in Hz. destruct Hz as (i & <- & _). apply item_types. }
  rewrite Forall_forall in H. apply H. exact Hy.
Qed.

Lemma ise_fc k from cj : is_set_expression (r_fc k from cj) = false.
Proof.
  unfold is_set_expression. change (tyis (r_fc k from cj) "set_expression") with false. cbn [orb]. unfold r_fc. cbn [children node].
  rewrite existsb_sep by (intros x Hx; apply noise_tyis; [exact Hx|reflexivity]). cbn [existsb]. change (tyis (kw "from") "set_expression") with false. cbn [orb].
  destruct cj.
  - apply existsb_none. intros y Hy.
    assert (H : Forall (fun y => tyis y "set_expression" = false) (intersperse comma (map (r_fe1 k) from))).
    { apply Forall_intersperse; [reflexivity|]. apply Forall_forall. intros z Hz. apply in_map_iff in Hz. destruct Hz as (i & <- & _). reflexivity. }
    rewrite Forall_forall in H. apply H. exact Hy.
  - destruct from; reflexivity.
Qed.

Lemma concat_res_nil {A B} (f : A -> res (list B)) l : (forall x, In x l -> f x = Ok []) -> concat_res (map f l) = Ok [].
Proof.
  induction l as [|x r IH]; intros H; [reflexivity|]. cbn [map concat_res]. rewrite (H x (or_introl eq_refl)), IH; [reflexivity|].
  intros y Hy. apply H. right. exact Hy.
Qed.

Lemma list_subquery_sc items : forallb item_ok items = true -> list_subquery (r_sc items) = Ok [].
Proof.
  intros H. unfold list_subquery.
  assert (E : get_children (r_sc items) ["from_expression"] = []).
  { unfold r_sc. rewrite get_children_sep by reflexivity. cbn [filter]. change (is_type (kw "select") ["from_expression"]) with false. cbn iota.
    apply filter_intersperse_none; [reflexivity|]. intros y Hy. apply in_map_iff in Hy. destruct Hy as (i & <- & _). apply item_types. }
  rewrite E. change (ty_in (r_sc items) ["select_clause"; "from_clause"; "where_clause"]) with true. cbn iota.
  unfold list_subqueries. change (tyis (r_sc items) "select_clause") with true. cbn iota. rewrite gc_sc_items.
  rewrite concat_res_nil; [reflexivity|]. intros x Hx. apply in_map_iff in Hx. destruct Hx as (i & <- & Hi).
  rewrite forallb_forall in H. specialize (H i Hi).
  destruct i as [[qq c| | | | | |] al|qq]; cbn [item_ok] in H; try discriminate.
  - rewrite r_item_colref. unfold get_child. rewrite !get_children_sep by reflexivity. destruct al; reflexivity.
  - reflexivity.
Qed.

Lemma sel_subq1_sc items : forallb item_ok items = true -> sel_subq1 (r_sc items) = Ok [].
Proof. intros H. unfold sel_subq1. rewrite (list_subquery_sc items H), ise_sc. reflexivity. Qed.

(** *** CTE names in scope *)
Definition cte_rel (g : graph) (ctes : list string) : Prop :=
  (forall c, In c (sq_cte g) -> In (dalias c) ctes /\ dk c = KSubq) /\
  (forall n, In n ctes -> exists c, In c (sq_cte g) /\ dalias c = n).

Lemma cte_lookup_fold l name : forall acc,
  fold_left (fun acc c => if String.eqb (dalias c) name then Some c else acc) l acc =
  match fold_left (fun acc c => if String.eqb (dalias c) name then Some c else acc) l None with
  | Some c => Some c | None => acc end.
Proof.
  induction l as [|c r IH]; intros acc; cbn [fold_left]; [reflexivity|].
  rewrite IH. rewrite (IH (if String.eqb (dalias c) name then Some c else None)).
  destruct (fold_left _ r None); [reflexivity|]. destruct (String.eqb (dalias c) name); reflexivity.
Qed.

Lemma cte_lookup_spec g name :
  match cte_lookup g name with
  | Some c => In c (sq_cte g) /\ dalias c = escape name
  | None => forall c, In c (sq_cte g) -> dalias c <> escape name
  end.
Proof.
  unfold cte_lookup. induction (sq_cte g) as [|c r IH]; cbn [fold_left]; [intros c []|].
  rewrite cte_lookup_fold. destruct (fold_left _ r None) as [c'|].
  - destruct IH as [H1 H2]. split; [right; exact H1|exact H2].
  - destruct (String.eqb (dalias c) (escape name)) eqn:E.
    + apply String.eqb_eq in E. split; [left; reflexivity|exact E].
    + intros c' [H|H]; [subst c'; apply String.eqb_neq; exact E|apply IH; exact H].
Qed.

Definition tnames (ds : list dataset) (x : string) : Prop := exists v, In v ds /\ dk v = KTable /\ dstr v = x.

Lemma tnames_app a b x : tnames (a ++ b) x <-> tnames a x \/ tnames b x.
Proof.
  unfold tnames. split.
  - intros (v & H & H2). apply in_app_iff in H. destruct H; [left|right]; exists v; auto.
  - intros [(v & H & H2)|(v & H & H2)]; exists v; rewrite in_app_iff; auto.
Qed.

Lemma tnames_nil x : tnames [] x <-> False.
Proof. unfold tnames. split; [intros (v & [] & _)|tauto]. Qed.

Definition rel_reads (ctes : list string) (r : rel) : list string :=
  match r with
  | RTable t _ => match fst t with
                  | None => if mem_string (snd t) ctes then [] else [tref_str (e_cfg e) t]
                  | Some _ => [tref_str (e_cfg e) t]
                  end
  | _ => []
  end.

Lemma add_dataset_table_spec k t al g ctes :
  tref_ok t = true -> match al with Some a => id_ok a = true | None => True end ->
  gok g -> cte_rel g ctes ->
  exists ds, add_dataset_from_fee e (r_rel k (RTable t al)) g = Ok ds /\ Forall data_ok ds /\
             forall x, tnames ds x <-> In x (rel_reads ctes (RTable t al)).
Proof.
  intros Ht Ha Hg [Hc1 Hc2]. rewrite (add_dataset_table k t al g Ht Ha). cbn [rel_reads].
  assert (Htab : exists ds, (do d <- table_of_seg e (r_tref t) al; Ok [d]) = Ok ds /\ Forall data_ok ds /\
                            forall x, tnames ds x <-> In x [tref_str (e_cfg e) t]).
  { destruct (table_of_seg_tref t al Ht) as (d & E & H1 & H2 & H3). rewrite E. exists [d]. split; [reflexivity|].
    split; [constructor; [exact H2|constructor]|]. intros x. unfold tnames. cbn [In]. split.
    - intros (v & [Hv|[]] & _ & Hx). subst v. left. congruence.
    - intros [Hx|[]]. exists d. split; [left; reflexivity|]. split; [exact H1|congruence]. }
  destruct (fst t) as [s|] eqn:Ef; [exact Htab|].
  assert (Hn : id_ok (snd t) = true).
  { unfold tref_ok in Ht. apply andb_true_iff in Ht. exact (proj1 Ht). }
  pose proof (cte_lookup_spec g (snd t)) as Hl. rewrite (id_ok_escape _ Hn) in Hl.
  destruct (cte_lookup g (snd t)) as [c|].
  - destruct Hl as [Hin Hal]. destruct (Hc1 c Hin) as [Hm Hk].
    pose proof (gok_data g c "cte" Hg Hin) as Hd. unfold data_ok in Hd. rewrite Hk in Hd.
    destruct (dquery c) as [q|]; [|contradiction].
    rewrite Hal in Hm. apply mem_string_In in Hm. rewrite Hm.
    eexists. split; [reflexivity|]. split.
    + constructor; [|constructor]. unfold data_ok, mk_subquery. cbn [dk dquery]. discriminate.
    + intros x. cbn [In]. unfold tnames. split; [|tauto]. intros (v & [Hv|[]] & Hk' & _). subst v. discriminate.
  - destruct (mem_string (snd t) ctes) eqn:Em; [|exact Htab].
    apply mem_string_In in Em. destruct (Hc2 _ Em) as (c & Hin & Hal). exfalso. exact (Hl c Hin Hal).
Qed.

Lemma concat_res_tnames {A} (f : A -> res (list dataset)) (S : A -> list string) l :
  (forall r, In r l -> exists ds, f r = Ok ds /\ Forall data_ok ds /\ forall x, tnames ds x <-> In x (S r)) ->
  exists ds, concat_res (map f l) = Ok ds /\ Forall data_ok ds /\ forall x, tnames ds x <-> In x (flat_map S l).
Proof.
  induction l as [|r rs IH]; intros H; cbn [map concat_res flat_map].
  - exists []. split; [reflexivity|]. split; [constructor|]. intros x. rewrite tnames_nil. cbn [In]. tauto.
  - destruct (H r (or_introl eq_refl)) as (ds & E & Hd & Hx). rewrite E.
    destruct (IH (fun r' Hr' => H r' (or_intror Hr'))) as (ds2 & E2 & Hd2 & Hx2). rewrite E2.
    exists (ds ++ ds2). split; [reflexivity|]. split; [apply Forall_app; auto|].
    intros x. rewrite tnames_app, in_app_iff, Hx, Hx2. tauto.
Qed.

Definition rel_ok (r : rel) : bool :=
  match r with
  | RTable t al => tref_ok t && match al with Some a => id_ok a | None => true end
  | _ => false
  end.

(** FROM with tables only *)
Lemma list_tables_all_tables k from cj g ctes :
  from <> [] -> forallb rel_ok from = true -> gok g -> cte_rel g ctes ->
  exists ds, list_tables e (r_fc k from cj) g = Ok ds /\ Forall data_ok ds /\
             forall x, tnames ds x <-> In x (flat_map (rel_reads ctes) from).
Proof.
  intros Hne Hok Hg Hc.
  assert (Hrt : forallb is_rtable from = true).
  { rewrite forallb_forall in *. intros r Hr. specialize (Hok r Hr). destruct r; try discriminate. reflexivity. }
  assert (Hper : forall r, In r from -> exists ds, add_dataset_from_fee e (r_rel k r) g = Ok ds /\ Forall data_ok ds /\
                                                   forall x, tnames ds x <-> In x (rel_reads ctes r)).
  { intros r Hr. rewrite forallb_forall in Hok. specialize (Hok r Hr). destruct r as [t al| |]; try discriminate.
    cbn [rel_ok] in Hok. apply andb_true_iff in Hok. destruct Hok as [H1 H2].
    apply add_dataset_table_spec; auto. destruct al; auto. }
  assert (Hjoin : forall r0 rest, from = r0 :: rest ->
            exists ds, list_tables e (r_fc k (r0 :: rest) false) g = Ok ds /\ Forall data_ok ds /\
                       forall x, tnames ds x <-> In x (flat_map (rel_reads ctes) from)).
  { intros r0 rest ->. rewrite (list_tables_fc_join k r0 rest g _ (ljc_tables k r0 rest Hrt)).
    destruct (Hper r0 (or_introl eq_refl)) as (d0 & E0 & Hd0 & Hx0). rewrite E0.
    destruct (concat_res_tnames (fun p => add_dataset_from_fee e (jfee p) g) (fun p => rel_reads ctes (snd p)) (map (fun r => (k, r)) rest))
      as (ds & E & Hd & Hx).
    { intros [k' r] Hin. apply in_map_iff in Hin. destruct Hin as (r' & Heq & Hr'). inversion Heq. subst k' r'.
      unfold jfee. cbn [fst snd]. apply Hper. right. exact Hr'. }
    rewrite E. exists (d0 ++ ds). split; [reflexivity|]. split; [apply Forall_app; auto|].
    intros x. rewrite tnames_app, Hx0, Hx. cbn [flat_map]. rewrite in_app_iff.
    assert (Efm : flat_map (fun p : nat * rel => rel_reads ctes (snd p)) (map (fun r => (k, r)) rest) = flat_map (rel_reads ctes) rest).
    { clear. induction rest as [|r rs IH]; [reflexivity|]. cbn [map flat_map snd]. rewrite IH. reflexivity. }
    rewrite Efm. tauto. }
  destruct cj.
  - destruct from as [|r1 [|r2 rest]]; [contradiction| |].
    + rewrite r_fc_single_comma. apply (Hjoin r1 []). reflexivity.
    + rewrite list_tables_fc_comma. apply concat_res_tnames. exact Hper.
  - destruct from as [|r0 rest]; [contradiction|]. apply (Hjoin r0 rest). reflexivity.
Qed.

Lemma map_res_all_nil {A B C} (f : A -> res (list B)) (h : list B -> list C) l :
  h [] = [] -> (forall x, In x l -> f x = Ok []) -> exists ls, map_res f l = Ok ls /\ flat_map h ls = [].
Proof.
  intros Hh. induction l as [|x r IH]; intros H; cbn [map_res]; [exists []; auto|].
  rewrite (H x (or_introl eq_refl)). destruct (IH (fun y Hy => H y (or_intror Hy))) as (ls & E & Hls). rewrite E.
  exists ([] :: ls). split; [reflexivity|]. cbn [flat_map]. rewrite Hh, Hls. reflexivity.
Qed.

Lemma sel_subq1_fc_tables k from cj :
  from <> [] -> forallb is_rtable from = true -> sel_subq1 (r_fc k from cj) = Ok [].
Proof.
  intros Hne Hrt. unfold sel_subq1. rewrite ise_fc.
  assert (Hfee : forall r, In r from -> list_subqueries_fee (r_rel k r) = Ok []).
  { intros r Hr. rewrite forallb_forall in Hrt. specialize (Hrt r Hr). destruct r; try discriminate. apply list_subqueries_fee_table. }
  assert (Hjoin : forall r0 rest, from = r0 :: rest -> list_subquery (r_fc k (r0 :: rest) false) = Ok []).
  { intros r0 rest ->. rewrite list_subquery_fc_join, (list_subqueries_fc_join k r0 rest _ (ljc_tables k r0 rest Hrt)).
    rewrite (Hfee r0 (or_introl eq_refl)). rewrite concat_res_nil; [reflexivity|].
    intros [k' r] Hin. apply in_map_iff in Hin. destruct Hin as (r' & Heq & Hr'). inversion Heq. subst. unfold jfee. cbn [fst snd].
    apply Hfee. right. exact Hr'. }
  assert (E : list_subquery (r_fc k from cj) = Ok []).
  { destruct cj.
    - destruct from as [|r1 [|r2 rest]]; [contradiction| |].
      + rewrite r_fc_single_comma. apply (Hjoin r1 []). reflexivity.
      + rewrite list_subquery_fc_comma.
        destruct (map_res_all_nil list_subqueries parse_subquery (map (r_fe1 k) (r1 :: r2 :: rest)) eq_refl) as (ls & E1 & E2).
        { intros x Hx. apply in_map_iff in Hx. destruct Hx as (r & <- & Hr). rewrite list_subqueries_fe1, (Hfee r Hr). reflexivity. }
        rewrite E1, E2. reflexivity.
    - destruct from as [|r0 rest]; [contradiction|]. apply (Hjoin r0 rest). reflexivity. }
  rewrite E. reflexivity.
Qed.

(** *** the end of a SELECT: cleanup and wildcard expansion *)
Lemma select_tail g1 ts cols bars :
  gok g1 -> Forall data_ok ts -> Forall xcol_ok cols -> List.length (sq_write g1) <= 1 ->
  exists g3, (do g2 <- end_of_query_cleanup e g1 ts cols bars; expand_wildcard e g2) = Ok g3 /\ gok g3 /\
             (forall k, k <> "read" -> holder_nodes g3 k = holder_nodes g1 k) /\
             (forall x, tset g3 "read" x <-> tset g1 "read" x \/ tnames ts x).
Proof.
  intros Hg Hts Hcols Hw. destruct (eoq_ok e g1 ts cols bars Hg Hts Hcols Hw) as (g2 & E2 & Hg2). rewrite E2.
  destruct (expand_wildcard_ok e g2 (proj1 Hg2) (proj1 env_facts)) as (g3 & E3 & Hg3). rewrite E3.
  exists g3. split; [reflexivity|]. split; [exact (proj1 Hg3)|].
  destruct (fold_add_read ts g1 Hg Hts) as (_ & F2 & F3). split.
  - intros k Hk. rewrite (proj2 Hg3), (proj2 Hg2). apply F2. exact Hk.
  - intros x. rewrite (tset_ext g2 g3 "read" x (proj2 Hg3 "read")), (tset_ext _ g2 "read" x (proj2 Hg2 "read")). apply F3.
Qed.

(** *** a SELECT over tables only, without WHERE *)
Lemma sel_segments_select items k from cj wh :
  sel_segments (node "select_statement" ["select_statement"] (sep noise ([r_sc items; r_fc k from cj] ++ r_wh k wh)))
  = [r_sc items; r_fc k from cj] ++ r_wh k wh.
Proof.
  unfold sel_segments. match goal with |- context [tyis ?n "set_expression"] => change (tyis n "set_expression") with false end. cbn iota.
  rewrite lcs_node by reflexivity. destruct wh as [[c sq]|]; reflexivity.
Qed.

Lemma select_simple f stmt items from cj k ctx ctes :
  sel_segments stmt = [r_sc items; r_fc k from cj] ->
  forallb item_ok items = true -> from <> [] -> forallb rel_ok from = true ->
  gok (init_holder ctx) -> cte_rel (init_holder ctx) ctes -> List.length (sq_write (init_holder ctx)) <= 1 ->
  exists g, extract (S (S f)) e XSelect stmt ctx = Ok g /\ gok g /\
            (forall k, k <> "read" -> holder_nodes g k = holder_nodes (init_holder ctx) k) /\
            (forall x, tset g "read" x <-> tset (init_holder ctx) "read" x \/ In x (flat_map (rel_reads ctes) from)).
Proof.
  intros Hseg Hit Hne Hrel Hg Hc Hw. rewrite extract_select_eq, Hseg.
  assert (Hrt : forallb is_rtable from = true).
  { rewrite forallb_forall in *. intros r Hr. specialize (Hrel r Hr). destruct r; try discriminate. reflexivity. }
  unfold sel_subqueries. cbn [map concat_res]. rewrite (sel_subq1_sc items Hit), (sel_subq1_fc_tables k from cj Hne Hrt).
  cbn [app ex_subquery fold_left]. unfold sel_fold. cbn [fold_left]. unfold sel_step.
  destruct (handle_child_sc f {| s_g := init_holder ctx; s_tables := []; s_columns := []; s_barriers := [] |} items Hit) as (cols & E1 & Hcols).
  rewrite E1, ise_sc. rewrite handle_child_fc. cbn [s_g s_tables s_columns s_barriers app].
  destruct (list_tables_all_tables k from cj (init_holder ctx) ctes Hne Hrel Hg Hc) as (ts & E2 & Hts & Hx).
  rewrite E2, ise_fc. cbn [s_g s_tables s_columns s_barriers].
  destruct (select_tail (init_holder ctx) ts cols [] Hg Hts Hcols Hw) as (g3 & E3 & Hg3 & Hk & Hr).
  rewrite E3. exists g3. split; [reflexivity|]. split; [exact Hg3|]. split; [exact Hk|].
  intros x. rewrite Hr, Hx. reflexivity.
Qed.

End Nav.

(* ================================================================== *)
(** * Steps 1 and 2: one SELECT over tables (explicit joins or comma joins), no WHERE, arbitrary trivia *)

Lemma rels_flat_tables from : forallb is_rtable from = true -> flat_map rels_flat from = from.
Proof.
  induction from as [|r rs IH]; [reflexivity|]. cbn [forallb flat_map]. intros H. apply andb_true_iff in H. destruct H as [H1 H2].
  destruct r; try discriminate. cbn [rels_flat app]. rewrite (IH H2). reflexivity.
Qed.

Lemma tset_empty k x : tset empty_graph k x <-> False.
Proof. unfold tset. cbn. split; [intros (d & [] & _)|tauto]. Qed.

Lemma cte_rel_empty : cte_rel empty_graph [].
Proof. split; [intros c []|intros n []]. Qed.

Lemma forallb_impl {A} (p q : A -> bool) l : (forall x, In x l -> p x = true -> q x = true) -> forallb p l = true -> forallb q l = true.
Proof. intros H. rewrite !forallb_forall. intros Hp x Hx. apply H; [exact Hx|apply Hp; exact Hx]. Qed.

Lemma flat_map_ext_in' {A B} (f g : A -> list B) l : (forall x, In x l -> f x = g x) -> flat_map f l = flat_map g l.
Proof.
  induction l as [|a r IH]; intros H; [reflexivity|]. cbn [flat_map]. rewrite (H a (or_introl eq_refl)), IH; [reflexivity|].
  intros x Hx. apply H. right. exact Hx.
Qed.

Lemma q_reads_tables e kk ctes items from cj :
  forallb is_rtable from = true ->
  q_reads (S kk) (e_cfg e) ctes (QSelect items from cj None) = flat_map (rel_reads e ctes) from.
Proof.
  intros Hrt. cbn [q_reads]. rewrite app_nil_r, (rels_flat_tables from Hrt). apply flat_map_ext_in'.
  intros r Hr. rewrite forallb_forall in Hrt. specialize (Hrt r Hr). destruct r; try discriminate. reflexivity.
Qed.

Theorem lemma_A_step2 : forall noise e items from cj,
  noise_ok noise = true -> env_ok e = true ->
  stmt_ok (SQuery (QSelect items from cj None)) = true -> forallb is_rtable from = true ->
  let s := SQuery (QSelect items from cj None) in
  stmt_reads (analyze e false (r_stmt noise s)) = sort_strings (spec_reads (e_cfg e) s) /\
  stmt_writes (analyze e false (r_stmt noise s)) = sort_strings (spec_writes (e_cfg e) s).
Proof.
  intros noise e items from cj Hn He Hok Hrt s.
  unfold stmt_ok in Hok. apply andb_true_iff in Hok. destruct Hok as [Hfrag Hnames].
  set (q := QSelect items from cj None) in *.
  assert (Hsz : exists k, q_size q = S k) by (eexists; reflexivity). destruct Hsz as [k Hk].
  rewrite Hk in Hfrag, Hnames. cbn [frag_query names_ok_q q] in Hfrag, Hnames.
  rewrite !andb_true_r in Hfrag, Hnames.
  apply andb_true_iff in Hfrag. destruct Hfrag as [Hfrag _]. apply andb_true_iff in Hfrag. destruct Hfrag as [_ Hne].
  apply andb_true_iff in Hnames. destruct Hnames as [Hitems Hrels].
  assert (Hne' : from <> []) by (destruct from; [discriminate|discriminate]).
  assert (Hrel : forallb rel_ok from = true).
  { revert Hrels. apply forallb_impl. intros r Hr. rewrite forallb_forall in Hrt. specialize (Hrt r Hr). destruct r; try discriminate. auto. }
  assert (Hst : r_stmt noise s = node "select_statement" ["select_statement"] (sep noise ([r_sc noise items; r_fc noise (S k) from cj] ++ r_wh noise (S k) None))).
  { unfold s, r_stmt. fold q. rewrite Hk. apply r_query_select. }
  set (stmt := r_stmt noise s) in *.
  assert (Ea : analyze e false stmt = extract (S (S (3 * depth stmt + 8))) e XSelect stmt empty_ctx).
  { replace (S (S (3 * depth stmt + 8))) with (3 * depth stmt + 10) by lia. rewrite Hst. reflexivity. }
  assert (Hseg : sel_segments stmt = [r_sc noise items; r_fc noise (S k) from cj]).
  { rewrite Hst. apply (sel_segments_select noise Hn items (S k) from cj None). }
  assert (Hw0 : List.length (sq_write (init_holder empty_ctx)) <= 1) by (cbn; lia).
  destruct (select_simple noise Hn e He (3 * depth stmt + 8) stmt items from cj (S k) empty_ctx [] Hseg Hitems Hne' Hrel gok_empty cte_rel_empty Hw0)
    as (g & E & Hg & Hk' & Hr).
  - rewrite Ea, E. split.
    + unfold spec_reads, s. fold q. apply (stmt_reads_spec _ g); [reflexivity|exact Hg|].
      intros x. rewrite Hr. change (init_holder empty_ctx) with empty_graph. rewrite tset_empty.
      unfold q. rewrite (q_reads_tables e _ [] items from cj Hrt). tauto.
    + unfold spec_writes, s. apply (stmt_writes_spec _ g); [reflexivity|exact Hg|constructor|].
      intros x. rewrite (tset_ext empty_graph g "write" x (Hk' "write" ltac:(discriminate))). rewrite tset_empty. cbn [In]. tauto.
Qed.

Theorem lemma_A_step1 : forall noise e items t al,
  noise_ok noise = true -> env_ok e = true ->
  stmt_ok (SQuery (QSelect items [RTable t al] false None)) = true ->
  let s := SQuery (QSelect items [RTable t al] false None) in
  stmt_reads (analyze e false (r_stmt noise s)) = sort_strings (spec_reads (e_cfg e) s) /\
  stmt_writes (analyze e false (r_stmt noise s)) = sort_strings (spec_writes (e_cfg e) s).
Proof. intros noise e items t al Hn He Hok. apply lemma_A_step2; auto. Qed.

(* ================================================================== *)
(** * Part N2: sub-queries *)
Ltac u_brq := unfold r_brq.
Ltac u_brq1 := unfold r_brq at 1.
Ltac u_jseg1 := unfold jseg at 1.
Ltac u_jseg := unfold jseg.
Ltac u_jfee := unfold jfee.
Ltac u_rjoin1 := unfold r_join at 1.
Ltac u_rjoin := unfold r_join.
Ltac u_rfc := unfold r_fc.
Ltac u_rfe1 := unfold r_fe1.
Ltac u_rfej := unfold r_fej.
Ltac u_rsc := unfold r_sc.
Ltac c_rwh := cbn [r_wh flat_map].

Section Nav2.
Variable noise : list seg.
Hypothesis Hnoise : noise_ok noise = true.
Variable e : env.
Hypothesis Henv : env_ok e = true.

Notation r_brq := (r_brq noise).
Notation r_rel := (r_rel noise).
Notation r_sc := (r_sc noise).
Notation r_fc := (r_fc noise).
Notation r_wh := (r_wh noise).
Notation r_join := (r_join noise).
Notation r_fe1 := (r_fe1 noise).
Notation r_fej := (r_fej noise).

Definition is_body (q : query) : bool := match q with QWith _ _ _ => false | _ => true end.

Lemma depth_pos s : exists d, depth s = S d.
Proof. destruct s. eexists. reflexivity. Qed.

Lemma gc_leaf t g c r ts : get_children (leaf t g c r) ts = [].
Proof. reflexivity. Qed.

Lemma brq_children_not_bracketed k q :
  get_children (r_query noise (S k) q) ["bracketed"] = [].
Proof.
  destruct q as [items from cj wh|a b|n c b].
  - rewrite r_query_select, (get_children_sep noise Hnoise) by reflexivity. destruct wh as [[c sq]|]; reflexivity.
  - rewrite r_query_union, (get_children_sep noise Hnoise) by reflexivity. cbn [filter].
    assert (H : forall k' q', is_type (r_query noise k' q') ["bracketed"] = false).
    { intros k' q'. destruct k' as [|k']; [reflexivity|]. destruct q'; reflexivity. }
    rewrite !H. reflexivity.
  - rewrite r_query_with, (get_children_sep noise Hnoise) by reflexivity. cbn [filter].
    assert (H : forall k' q', is_type (r_query noise k' q') ["bracketed"] = false).
    { intros k' q'. destruct k' as [|k']; [reflexivity|]. destruct q'; reflexivity. }
    rewrite !H. reflexivity.
Qed.

Lemma rq_not_bracketed k q : is_type (r_query noise k q) ["bracketed"] = false.
Proof. destruct k as [|k]; [reflexivity|]. destruct q; reflexivity. Qed.

Lemma innermost_brq k q : extract_innermost_bracketed (r_brq (S k) q) = r_brq (S k) q.
Proof.
  unfold extract_innermost_bracketed. destruct (depth_pos (r_brq (S k) q)) as (d & ->). cbn [innermost_fuel].
  assert (E1 : get_child (r_brq (S k) q) ["bracketed"] = None).
  { unfold get_child. u_brq. rewrite (get_children_sep noise Hnoise) by reflexivity. cbn [filter].
    rewrite rq_not_bracketed. reflexivity. }
  rewrite E1. u_brq1. cbn [children node].
  rewrite (flat_map_sep noise Hnoise).
  - cbn [flat_map]. unfold get_child. rewrite brq_children_not_bracketed. reflexivity.
  - intros x Hx. unfold get_child, get_children. rewrite (proj1 (proj2 (noise_seg_facts x Hx))). reflexivity.
Qed.

Lemma gc_brq_inner k q :
  is_body q = true ->
  get_child (r_brq (S k) q) ["select_statement"; "set_expression"; "with_compound_statement"] = Some (r_query noise (S k) q).
Proof.
  intros _. unfold get_child. u_brq. rewrite (get_children_sep noise Hnoise) by reflexivity. cbn [filter].
  change (is_type lpar _) with false. change (is_type rpar _) with false. cbn iota.
  destruct q; reflexivity.
Qed.

Lemma is_subquery_brq k q : is_body q = true -> is_subquery (r_brq (S k) q) = Ok true.
Proof.
  intros Hq. unfold is_subquery. change (tyis (r_brq (S k) q) "bracketed") with true. rewrite orb_true_r. cbn iota.
  rewrite innermost_brq, (gc_brq_inner k q Hq). reflexivity.
Qed.

(** *** a derived table *)
Definition te_brq (k : nat) (q : query) : seg := node "table_expression" ["table_expression"] [r_brq k q].

Lemma r_rel_derived k q a :
  r_rel k (RDerived q a) = node "from_expression_element" ["from_expression_element"] (sep noise [te_brq k q; r_alias noise a]).
Proof. reflexivity. Qed.

Lemma lcs_fee_derived k q a b : list_child_segments (r_rel k (RDerived q a)) b = [te_brq k q; r_alias noise a].
Proof. rewrite r_rel_derived, (lcs_node noise Hnoise) by reflexivity. reflexivity. Qed.

Lemma extract_identifier_alias a : extract_identifier (r_alias noise a) = Ok a.
Proof. unfold extract_identifier. rewrite (lcs_alias noise Hnoise). reflexivity. Qed.

Lemma list_subqueries_fee_derived k q a :
  is_body q = true -> list_subqueries_fee (r_rel (S k) (RDerived q a)) = Ok [(r_brq (S k) q, Some a)].
Proof.
  intros Hq. unfold list_subqueries_fee, extract_as_and_target_segment. rewrite lcs_fee_derived. cbn [nth_res nth_error].
  change (tyis (te_brq (S k) q) "keyword") with false. cbn [andb].
  rewrite (is_subquery_other (te_brq (S k) q)) by reflexivity.
  cbn [te_brq children node nth_res nth_error]. rewrite (is_subquery_brq k q Hq).
  assert (E : get_child (r_rel (S k) (RDerived q a)) ["alias_expression"] = Some (r_alias noise a)).
  { unfold get_child. rewrite r_rel_derived, (get_children_sep noise Hnoise) by reflexivity. reflexivity. }
  rewrite E, extract_identifier_alias, innermost_brq. destruct (negb _); reflexivity.
Qed.

Lemma add_dataset_derived k q a g :
  is_body q = true -> add_dataset_from_fee e (r_rel (S k) (RDerived q a)) g = Ok [mk_subquery (r_brq (S k) q) (Some a)].
Proof.
  intros Hq. unfold add_dataset_from_fee. rewrite lcs_fee_derived.
  assert (E : get_child (r_rel (S k) (RDerived q a)) ["table_expression"] = Some (te_brq (S k) q)).
  { unfold get_child. rewrite r_rel_derived, (get_children_sep noise Hnoise) by reflexivity. reflexivity. }
  rewrite E. change (get_child (te_brq (S k) q) ["function"]) with (@None seg). cbn iota.
  cbn [filter]. change (tyis (te_brq (S k) q) "keyword") with false. change (tyis (r_alias noise a) "keyword") with false. cbn [negb].
  cbn [nth_res nth_error]. change (tyis (te_brq (S k) q) "bracketed") with false. cbn [andb].
  replace (list_subqueries (r_rel (S k) (RDerived q a))) with (list_subqueries_fee (r_rel (S k) (RDerived q a))) by reflexivity.
  rewrite (list_subqueries_fee_derived k q a Hq). reflexivity.
Qed.

(** *** WHERE c IN (sub-query) *)
Definition r_where (k : nat) (c : string) (sq : query) : seg :=
  node "where_clause" ["where_clause"]
       (sep noise [kw "where"; node "expression" ["expression"] (sep noise [r_colref None c; kw "in"; r_brq k sq])]).

Lemma r_wh_some k c sq : r_wh k (Some (c, sq)) = [r_where k c sq].
Proof. reflexivity. Qed.

Lemma list_subquery_where k c sq :
  is_body sq = true -> list_subquery (r_where (S k) c sq) = Ok [mk_subquery (r_brq (S k) sq) None].
Proof.
  intros Hq. unfold list_subquery.
  assert (E : get_children (r_where (S k) c sq) ["from_expression"] = []).
  { unfold r_where. rewrite (get_children_sep noise Hnoise) by reflexivity. reflexivity. }
  rewrite E. change (ty_in (r_where (S k) c sq) ["select_clause"; "from_clause"; "where_clause"]) with true. cbn iota.
  unfold list_subqueries. change (tyis (r_where (S k) c sq) "select_clause") with false.
  change (tyis (r_where (S k) c sq) "from_expression_element") with false. change (tyis (r_where (S k) c sq) "where_clause") with true. cbn iota.
  unfold get_child at 1. unfold r_where at 1. rewrite (get_children_sep noise Hnoise) by reflexivity. cbn [filter].
  change (is_type (kw "where") ["expression"]) with false. cbn iota.
  match goal with |- context [is_type ?n ["expression"]] => change (is_type n ["expression"]) with true end. cbn iota.
  rewrite (get_children_sep noise Hnoise) by reflexivity. cbn [filter].
  change (is_type (r_colref None c) ["bracketed"]) with false. change (is_type (kw "in") ["bracketed"]) with false.
  change (is_type (r_brq (S k) sq) ["bracketed"]) with true. cbn iota. cbn [filter_res].
  rewrite (is_subquery_brq k sq Hq). cbn [map]. rewrite innermost_brq. reflexivity.
Qed.

Lemma ise_where k c sq : is_set_expression (r_where k c sq) = false.
Proof.
  unfold is_set_expression. change (tyis (r_where k c sq) "set_expression") with false. cbn [orb]. unfold r_where. cbn [children node].
  rewrite (existsb_sep noise Hnoise) by (intros x Hx; apply noise_tyis; [exact Hx|reflexivity]). reflexivity.
Qed.

Lemma sel_subq1_where k c sq :
  is_body sq = true -> sel_subq1 (r_where (S k) c sq) = Ok [mk_subquery (r_brq (S k) sq) None].
Proof. intros Hq. unfold sel_subq1. rewrite (list_subquery_where k c sq Hq), ise_where. reflexivity. Qed.

Lemma handle_child_where f st k c sq :
  handle_child f e st (r_where k c sq) =
  Ok {| s_g := s_g st; s_tables := s_tables st; s_columns := s_columns st; s_barriers := s_barriers st |}.
Proof.
  unfold handle_child. rewrite (swap_partition_off e Henv). unfold handle_select_into.
  change (ty_in (r_where k c sq) ["into_table_clause"; "into_clause"]) with false. cbn iota.
  unfold list_tables. change (ty_in (r_where k c sq) ["from_clause"; "join_clause"; "update_statement"]) with false. cbn iota.
  change (tyis (r_where k c sq) "select_clause") with false. cbn iota. rewrite !app_nil_r. reflexivity.
Qed.

(** *** join clauses found by the recursive crawl (they include those of nested sub-queries) *)
Fixpoint jrels (k : nat) (q : query) : list (nat * rel) :=
  match k with
  | O => []
  | S k' =>
      match q with
      | QSelect _ from cj wh =>
          (if cj then flat_map (fun r => match r with RDerived q' _ => jrels k' q' | _ => [] end) from
           else match from with
                | [] => []
                | r0 :: rest =>
                    (match r0 with RDerived q' _ => jrels k' q' | _ => [] end) ++
                    flat_map (fun r => (k', r) :: match r with RDerived q' _ => jrels k' q' | _ => [] end) rest
                end)
          ++ match wh with Some (_, sq) => jrels k' sq | None => [] end
      | QUnion a b => jrels k' a ++ jrels k' b
      | QWith _ c b => jrels k' c ++ jrels k' b
      end
  end.

Definition jr (k : nat) (r : rel) : list (nat * rel) := match r with RDerived q' _ => jrels k q' | _ => [] end.

Lemma flat_map_intersperse {B} (f : seg -> list B) x l : f x = [] -> flat_map f (intersperse x l) = flat_map f l.
Proof.
  intros Hx. induction l as [|a [|b r] IH]; [reflexivity|reflexivity|].
  change (intersperse x (a :: b :: r)) with (a :: x :: intersperse x (b :: r)). cbn [flat_map]. rewrite Hx, IH. reflexivity.
Qed.

Lemma clean_item ts i :
  not_trivia ts = true ->
  existsb (fun x => mem_string x ts)
    ["select_clause_element"; "column_reference"; "object_reference"; "identifier"; "naked_identifier"; "raw"; "dot"; "symbol";
     "alias_expression"; "alias_operator"; "keyword"; "word"; "literal"; "numeric_literal"; "wildcard_expression"; "wildcard_identifier"; "star"] = false ->
  clean ts (r_item noise i).
Proof.
  intros Hts H. cbn [existsb] in H. repeat (apply orb_false_iff in H; destruct H as [?E H]).
  assert (Hi : forall n, clean ts (ident n)) by (intros n; apply clean_leaf; cbn [existsb]; rewrite E2, E3, E4; reflexivity).
  assert (Hd : clean ts dot) by (apply clean_leaf; cbn [existsb]; rewrite E5, E4, E6; reflexivity).
  assert (Hal : forall a, clean ts (r_alias noise a)).
  { intros a. apply (clean_alias noise Hnoise); [exact Hts|]. cbn [existsb]. rewrite E7, E8, E9, E10, E2, E3, E4. reflexivity. }
  assert (Hcr : forall qq c, clean ts (r_colref qq c)).
  { intros qq c. apply clean_node; [cbn [existsb]; rewrite E0, E1; reflexivity|]. destruct qq; repeat constructor; auto. }
  assert (Hnum : clean ts (num "1")) by (apply clean_leaf; cbn [existsb]; rewrite E11, E12, E4; reflexivity).
  assert (Hall : forall x al, clean ts x -> Forall (clean ts) (x :: match al with Some a => [r_alias noise a] | None => [] end)).
  { intros x al Hx. constructor; [exact Hx|]. destruct al; repeat constructor. apply Hal. }
  destruct i as [ex al|qq].
  - assert (Hgen : forall x, clean ts x -> clean ts (node "select_clause_element" ["select_clause_element"]
                       (sep noise (x :: match al with Some a => [r_alias noise a] | None => [] end)))).
    { intros x Hx. apply (clean_sep_node noise Hnoise); [exact Hts|cbn [existsb]; rewrite E; reflexivity|]. apply Hall. exact Hx. }
    destruct ex; cbn [r_item]; try (apply Hgen; exact Hnum). apply Hgen. apply Hcr.
  - cbn [r_item]. apply clean_node; [cbn [existsb]; rewrite E; reflexivity|]. constructor; [|constructor].
    apply clean_node; [cbn [existsb]; rewrite E13; reflexivity|]. constructor; [|constructor].
    apply clean_node; [cbn [existsb]; rewrite E14, E1; reflexivity|].
    assert (Hs : clean ts star_seg) by (apply clean_leaf; cbn [existsb]; rewrite E15, E4, E6; reflexivity).
    destruct qq; repeat constructor; auto.
Qed.

Lemma clean_sc ts items :
  not_trivia ts = true ->
  existsb (fun x => mem_string x ts)
    ["select_clause"; "comma"; "select_clause_element"; "column_reference"; "object_reference"; "identifier"; "naked_identifier"; "raw"; "dot"; "symbol";
     "alias_expression"; "alias_operator"; "keyword"; "word"; "literal"; "numeric_literal"; "wildcard_expression"; "wildcard_identifier"; "star"] = false ->
  clean ts (r_sc items).
Proof.
  intros Hts H. cbn [existsb] in H. apply orb_false_iff in H. destruct H as [Esc H]. apply orb_false_iff in H. destruct H as [Ecomma H].
  pose proof H as H'. cbn [existsb] in H'. repeat (apply orb_false_iff in H'; destruct H' as [?E H']).
  apply (clean_sep_node noise Hnoise); [exact Hts|cbn [existsb]; rewrite Esc; reflexivity|].
  constructor; [apply clean_leaf; cbn [existsb]; rewrite E9, E4, E10; reflexivity|].
  apply Forall_intersperse; [apply clean_leaf; cbn [existsb]; rewrite Ecomma, E4, E6; reflexivity|].
  apply Forall_forall. intros x Hx. apply in_map_iff in Hx. destruct Hx as (i & <- & _). apply clean_item; [exact Hts|exact H].
Qed.

Notation jseg := (jseg noise).
Notation jfee := (jfee noise).
Notation JC := ["join_clause"].

Lemma crawl_kw ts w : existsb (fun x => mem_string x ts) ["keyword"; "raw"; "word"] = false -> crawl ts true (kw w) = [].
Proof. intros H. apply clean_crawl. apply clean_leaf. exact H. Qed.

Lemma crawl_jc_brq k q :
  crawl JC true (r_query noise k q) = map jseg (jrels k q) -> crawl JC true (r_brq k q) = map jseg (jrels k q).
Proof.
  intros IH. u_brq. rewrite (crawl_node_miss noise Hnoise) by reflexivity. cbn [flat_map]. rewrite IH.
  change (crawl JC true lpar) with (@nil seg). change (crawl JC true rpar) with (@nil seg). cbn [app]. apply app_nil_r.
Qed.

Lemma crawl_jc_rel k r :
  (forall q, crawl JC true (r_query noise k q) = map jseg (jrels k q)) ->
  crawl JC true (r_rel k r) = map jseg (jr k r).
Proof.
  intros IH. destruct r as [t al|q a|x y].
  - apply clean_crawl. apply (clean_rel_table noise Hnoise); reflexivity.
  - rewrite r_rel_derived, (crawl_node_miss noise Hnoise) by reflexivity. cbn [flat_map]. unfold te_brq.
    rewrite crawl_node0_miss by reflexivity. cbn [flat_map]. rewrite (crawl_jc_brq k q (IH q)).
    rewrite (clean_crawl JC true (r_alias noise a)) by (apply (clean_alias noise Hnoise); reflexivity). cbn [app jr]. rewrite !app_nil_r. reflexivity.
  - reflexivity.
Qed.

Lemma crawl_jc_join k r :
  (forall q, crawl JC true (r_query noise k q) = map jseg (jrels k q)) ->
  crawl JC true (r_join k r) = jseg (k, r) :: map jseg (jr k r).
Proof.
  intros IH. u_jseg1. cbn [fst snd]. u_rjoin1.
  rewrite (crawl_node_hit noise Hnoise) by reflexivity. f_equal. cbn [flat_map].
  rewrite (crawl_jc_rel k r IH). rewrite (clean_crawl JC true (on_clause noise)) by (apply (clean_on_clause noise Hnoise); reflexivity).
  change (crawl JC true (kw "join")) with (@nil seg). cbn [app]. apply app_nil_r.
Qed.

Lemma crawl_jc k : forall q, crawl JC true (r_query noise k q) = map jseg (jrels k q).
Proof.
  induction k as [|k IH]; intros q; [reflexivity|]. destruct q as [items from cj wh|a b|n c b].
  - rewrite r_query_select, (crawl_node_miss noise Hnoise) by reflexivity. rewrite flat_map_app. cbn [flat_map].
    rewrite (clean_crawl JC true (r_sc items)) by (apply clean_sc; reflexivity). cbn [app]. rewrite app_nil_r.
    cbn [jrels]. rewrite map_app. f_equal.
    + u_rfc. rewrite (crawl_node_miss noise Hnoise) by reflexivity. cbn [flat_map].
      change (crawl JC true (kw "from")) with (@nil seg). cbn [app]. destruct cj.
      * rewrite flat_map_intersperse by reflexivity. rewrite flat_map_concat_map, map_map, <- flat_map_concat_map.
        induction from as [|r rs IHf]; [reflexivity|]. cbn [flat_map]. rewrite map_app, IHf. f_equal.
        u_rfe1. rewrite crawl_node0_miss by reflexivity. cbn [flat_map]. rewrite app_nil_r. apply (crawl_jc_rel k r IH).
      * destruct from as [|r0 rest]; [reflexivity|]. cbn [flat_map]. rewrite app_nil_r. u_rfej.
        rewrite (crawl_node_miss noise Hnoise) by reflexivity. cbn [flat_map]. rewrite (crawl_jc_rel k r0 IH), map_app. f_equal.
        induction rest as [|r rs IHf]; [reflexivity|]. cbn [map flat_map]. rewrite (crawl_jc_join k r IH), IHf.
        cbn [app map]. rewrite map_app. reflexivity.
    + destruct wh as [[c sq]|]; [|reflexivity]. c_rwh. rewrite app_nil_r.
      rewrite (crawl_node_miss noise Hnoise) by reflexivity. cbn [flat_map]. change (crawl JC true (kw "where")) with (@nil seg). cbn [app]. rewrite app_nil_r.
      rewrite (crawl_node_miss noise Hnoise) by reflexivity. cbn [flat_map].
      rewrite (clean_crawl JC true (r_colref None c)) by (apply clean_node; [reflexivity|]; repeat constructor; apply clean_leaf; reflexivity).
      change (crawl JC true (kw "in")) with (@nil seg). cbn [app]. rewrite app_nil_r. apply crawl_jc_brq. apply IH.
  - rewrite r_query_union, (crawl_node_miss noise Hnoise) by reflexivity. cbn [flat_map jrels]. rewrite !IH, map_app.
    match goal with |- context [crawl JC true (node "set_operator" ?c ?l)] =>
      rewrite (clean_crawl JC true (node "set_operator" c l)) by (apply (clean_sep_node noise Hnoise); [reflexivity|reflexivity|]; repeat constructor; apply clean_leaf; reflexivity) end.
    cbn [app]. rewrite app_nil_r. reflexivity.
  - rewrite r_query_with, (crawl_node_miss noise Hnoise) by reflexivity. cbn [flat_map jrels]. rewrite !IH, map_app.
    change (crawl JC true (kw "with")) with (@nil seg). cbn [app]. rewrite app_nil_r. f_equal.
    rewrite (crawl_node_miss noise Hnoise) by reflexivity. cbn [flat_map].
    change (crawl JC true (ident n)) with (@nil seg). change (crawl JC true (kw "as")) with (@nil seg). cbn [app]. rewrite app_nil_r.
    apply crawl_jc_brq. apply IH.
Qed.

(** *** the fragment of queries handled by the main induction: no WITH, set operations between plain SELECTs *)
Definition is_sel (q : query) : bool := match q with QSelect _ _ _ _ => true | _ => false end.

Fixpoint body_ok (k : nat) (q : query) : bool :=
  match k with
  | O => false
  | S k' =>
      match q with
      | QSelect items from cj wh =>
          forallb item_ok items && negb (match from with [] => true | _ => false end)
          && forallb (fun r => match r with
                               | RTable t al => tref_ok t && match al with Some a => id_ok a | None => true end
                               | RDerived q' a => id_ok a && body_ok k' q'
                               | RGroup _ _ => false
                               end) from
          && match wh with Some (c, sq) => id_ok c && body_ok k' sq | None => true end
      | QUnion a b => is_sel a && is_sel b && body_ok k' a && body_ok k' b
      | QWith _ _ _ => false
      end
  end.

Definition relk_ok (k : nat) (r : rel) : bool :=
  match r with
  | RTable t al => tref_ok t && match al with Some a => id_ok a | None => true end
  | RDerived q' a => id_ok a && body_ok k q'
  | RGroup _ _ => false
  end.

Lemma body_ok_select k items from cj wh :
  body_ok (S k) (QSelect items from cj wh) = true ->
  forallb item_ok items = true /\ from <> [] /\ forallb (relk_ok k) from = true /\
  match wh with Some (c, sq) => id_ok c = true /\ body_ok k sq = true | None => True end.
Proof.
  cbn [body_ok]. intros H. apply andb_true_iff in H. destruct H as [H H4]. apply andb_true_iff in H. destruct H as [H H3].
  apply andb_true_iff in H. destruct H as [H1 H2]. split; [exact H1|]. split; [destruct from; [discriminate|discriminate]|].
  split; [exact H3|]. destruct wh as [[c sq]|]; [|exact I]. apply andb_true_iff in H4. exact H4.
Qed.

Lemma body_ok_is_body k q : body_ok k q = true -> is_body q = true.
Proof. destruct k; [discriminate|]. destruct q; [reflexivity|reflexivity|discriminate]. Qed.

Lemma body_ok_pos k q : body_ok k q = true -> exists k', k = S k'.
Proof. destruct k; [discriminate|]. eexists. reflexivity. Qed.

Lemma sc_nonempty k q : body_ok k q = true -> crawl ["select_clause"] true (r_query noise k q) <> [].
Proof.
  revert q. induction k as [|k IH]; intros q Hq; [discriminate|]. destruct q as [items from cj wh|a b|n c b]; [| |discriminate].
  - rewrite r_query_select, (crawl_node_miss noise Hnoise) by reflexivity. cbn [app flat_map]. u_rsc.
    rewrite (crawl_node_hit noise Hnoise) by reflexivity. discriminate.
  - cbn [body_ok] in Hq. apply andb_true_iff in Hq. destruct Hq as [Hq Hb]. apply andb_true_iff in Hq. destruct Hq as [Hq Ha].
    rewrite r_query_union, (crawl_node_miss noise Hnoise) by reflexivity. cbn [flat_map]. specialize (IH a Ha).
    destruct (crawl ["select_clause"] true (r_query noise k a)); [contradiction|discriminate].
Qed.

Definition jl (k : nat) (r0 : rel) (rest : list rel) : list (nat * rel) :=
  match rest with [] => [] | _ => jr k r0 ++ flat_map (fun r => (k, r) :: jr k r) rest end.

Lemma crawl_jc_fc k r0 rest :
  crawl JC true (r_fc k (r0 :: rest) false) = map jseg (jr k r0 ++ flat_map (fun r => (k, r) :: jr k r) rest).
Proof.
  u_rfc. rewrite (crawl_node_miss noise Hnoise) by reflexivity. cbn [flat_map].
  change (crawl JC true (kw "from")) with (@nil seg). cbn [app]. rewrite app_nil_r. u_rfej.
  rewrite (crawl_node_miss noise Hnoise) by reflexivity. cbn [flat_map]. rewrite (crawl_jc_rel k r0 (crawl_jc k)), map_app. f_equal.
  induction rest as [|r rs IHf]; [reflexivity|]. cbn [map flat_map]. rewrite (crawl_jc_join k r (crawl_jc k)), IHf.
  cbn [app map]. rewrite map_app. reflexivity.
Qed.

Lemma ljc_general k r0 rest :
  relk_ok k r0 = true -> list_join_clause (r_fc k (r0 :: rest) false) = map jseg (jl k r0 rest).
Proof.
  intros H0. unfold list_join_clause. change (ty_in (r_fc k (r0 :: rest) false) _) with true. cbn iota.
  unfold get_child at 1. rewrite (gc_fc_single noise Hnoise).
  destruct rest as [|r1 rs].
  - unfold get_child. u_rfej. rewrite (get_children_sep noise Hnoise) by reflexivity. cbn [map filter].
    change (is_type (r_rel k r0) ["join_clause"]) with false. cbn iota.
    change (node "from_expression" ["from_expression"] (sep noise [r_rel k r0])) with (r_fe1 k r0).
    u_rfe1. rewrite crawl_node0_miss by reflexivity. cbn [flat_map]. rewrite app_nil_r.
    destruct r0 as [t al|q a|x y]; [| |discriminate].
    + rewrite (clean_crawl _ _ (r_rel k (RTable t al))) by (apply (clean_rel_table noise Hnoise); reflexivity).
      rewrite crawl_jc_fc. reflexivity.
    + cbn [relk_ok] in H0. apply andb_true_iff in H0. destruct H0 as [_ Hq].
      assert (Hne : crawl ["select_clause"] true (r_rel k (RDerived q a)) <> []).
      { rewrite r_rel_derived, (crawl_node_miss noise Hnoise) by reflexivity. cbn [flat_map]. unfold te_brq.
        rewrite crawl_node0_miss by reflexivity. cbn [flat_map]. u_brq. rewrite (crawl_node_miss noise Hnoise) by reflexivity. cbn [flat_map].
        change (crawl ["select_clause"] true lpar) with (@nil seg). cbn [app]. pose proof (sc_nonempty k q Hq) as Hs.
        destruct (crawl ["select_clause"] true (r_query noise k q)); [contradiction|discriminate]. }
      destruct (crawl ["select_clause"] true (r_rel k (RDerived q a))); [contradiction|reflexivity].
  - unfold get_child. u_rfej. rewrite (get_children_sep noise Hnoise) by reflexivity. cbn [map filter].
    change (is_type (r_rel k r0) ["join_clause"]) with false.
    change (is_type (r_join k r1) ["join_clause"]) with true. cbn iota. apply crawl_jc_fc.
Qed.

(** *** all FROM elements the extractor looks at for one SELECT *)
Definition FL (k : nat) (from : list rel) (cj : bool) : list (nat * rel) :=
  if cj then map (fun r => (k, r)) from
  else match from with [] => [] | r0 :: rest => (k, r0) :: jl k r0 rest end.

Definition fee_ok (p : nat * rel) : Prop := relk_ok (fst p) (snd p) = true.

Definition fee_sqt (p : nat * rel) : list sqtuple :=
  match snd p with RDerived q' a => [(r_brq (fst p) q', Some a)] | _ => [] end.
Definition fee_sq (p : nat * rel) : list dataset := parse_subquery (fee_sqt p).

Lemma fee_subqueries p : fee_ok p -> list_subqueries_fee (jfee p) = Ok (fee_sqt p).
Proof.
  destruct p as [k r]. unfold fee_ok, fee_sqt. u_jfee. cbn [fst snd]. intros H. destruct r as [t al|q a|x y]; [| |discriminate].
  - apply (list_subqueries_fee_table noise Hnoise).
  - cbn [relk_ok] in H. apply andb_true_iff in H. destruct H as [_ Hq]. destruct (body_ok_pos k q Hq) as (k' & ->).
    apply list_subqueries_fee_derived. apply (body_ok_is_body _ _ Hq).
Qed.

Lemma fee_tables p g ctes :
  fee_ok p -> gok g -> cte_rel g ctes ->
  exists ds, add_dataset_from_fee e (jfee p) g = Ok ds /\ Forall data_ok ds /\
             forall x, tnames ds x <-> In x (rel_reads e ctes (snd p)).
Proof.
  destruct p as [k r]. unfold fee_ok. u_jfee. cbn [fst snd]. intros H Hg Hc. destruct r as [t al|q a|x y]; [| |discriminate].
  - cbn [relk_ok] in H. apply andb_true_iff in H. destruct H as [H1 H2].
    apply (add_dataset_table_spec noise Hnoise e Henv); auto. destruct al; auto.
  - cbn [relk_ok] in H. apply andb_true_iff in H. destruct H as [_ Hq]. destruct (body_ok_pos k q Hq) as (k' & ->).
    rewrite (add_dataset_derived k' q a g (body_ok_is_body _ _ Hq)). eexists. split; [reflexivity|]. split.
    + constructor; [|constructor]. unfold data_ok, mk_subquery. cbn [dk dquery]. discriminate.
    + intros x. cbn [rel_reads In]. unfold tnames. split; [|tauto]. intros (v & [Hv|[]] & Hk & _). subst v. discriminate.
Qed.

Lemma FL_comma k from : FL k from true = map (fun r => (k, r)) from.
Proof. reflexivity. Qed.

Lemma concat_res_ok {A B} (f : A -> res (list B)) (h : A -> list B) l :
  (forall x, In x l -> f x = Ok (h x)) -> concat_res (map f l) = Ok (flat_map h l).
Proof.
  induction l as [|x r IH]; intros H; [reflexivity|]. cbn [map concat_res flat_map].
  rewrite (H x (or_introl eq_refl)), IH; [reflexivity|]. intros y Hy. apply H. right. exact Hy.
Qed.

Lemma parse_subquery_app a b : parse_subquery (a ++ b) = parse_subquery a ++ parse_subquery b.
Proof. unfold parse_subquery. apply map_app. Qed.

Lemma parse_subquery_flat {A} (h : A -> list sqtuple) l :
  parse_subquery (flat_map h l) = flat_map (fun x => parse_subquery (h x)) l.
Proof. induction l as [|x r IH]; [reflexivity|]. cbn [flat_map]. rewrite parse_subquery_app, IH. reflexivity. Qed.

Lemma list_subquery_fc k from cj :
  from <> [] -> Forall fee_ok (FL k from cj) ->
  list_subquery (r_fc k from cj) = Ok (flat_map fee_sq (FL k from cj)).
Proof.
  intros Hne Hok.
  assert (Hjoin : forall r0 rest, Forall fee_ok ((k, r0) :: jl k r0 rest) ->
            list_subquery (r_fc k (r0 :: rest) false) = Ok (flat_map fee_sq ((k, r0) :: jl k r0 rest))).
  { intros r0 rest Hall. inversion Hall as [|p l H0 Hl]. subst.
    rewrite (list_subquery_fc_join noise Hnoise), (list_subqueries_fc_join noise Hnoise k r0 rest _ (ljc_general k r0 rest H0)).
    change (r_rel k r0) with (jfee (k, r0)). rewrite (fee_subqueries (k, r0) H0).
    rewrite (concat_res_ok (fun p => list_subqueries_fee (jfee p)) fee_sqt).
    - cbn [flat_map]. unfold fee_sq at 1. rewrite parse_subquery_app, parse_subquery_flat. reflexivity.
    - intros p Hp. apply fee_subqueries. rewrite Forall_forall in Hl. apply Hl. exact Hp. }
  destruct cj.
  - destruct from as [|r1 [|r2 rest]]; [contradiction| |].
    + rewrite r_fc_single_comma. apply (Hjoin r1 []). exact Hok.
    + rewrite (list_subquery_fc_comma noise Hnoise). rewrite FL_comma in *.
      assert (E : map_res list_subqueries (map (r_fe1 k) (r1 :: r2 :: rest)) = Ok (map (fun r => fee_sqt (k, r)) (r1 :: r2 :: rest))).
      { revert Hok. generalize (r1 :: r2 :: rest). induction l as [|r rs IH]; intros Hok; [reflexivity|]. cbn [map map_res] in *.
        inversion Hok. subst. rewrite list_subqueries_fe1. change (r_rel k r) with (jfee (k, r)). rewrite (fee_subqueries (k, r) H1).
        rewrite (IH H2), app_nil_r. reflexivity. }
      rewrite E. f_equal. generalize (r1 :: r2 :: rest). induction l as [|r rs IH]; [reflexivity|]. cbn [map flat_map]. rewrite IH. reflexivity.
  - destruct from as [|r0 rest]; [contradiction|]. apply (Hjoin r0 rest). exact Hok.
Qed.

Lemma list_tables_fc k from cj g ctes :
  from <> [] -> Forall fee_ok (FL k from cj) -> gok g -> cte_rel g ctes ->
  exists ds, list_tables e (r_fc k from cj) g = Ok ds /\ Forall data_ok ds /\
             forall x, tnames ds x <-> In x (flat_map (fun p => rel_reads e ctes (snd p)) (FL k from cj)).
Proof.
  intros Hne Hok Hg Hc.
  assert (Hper : forall p, In p (FL k from cj) -> exists ds, add_dataset_from_fee e (jfee p) g = Ok ds /\ Forall data_ok ds /\
                                                   forall x, tnames ds x <-> In x (rel_reads e ctes (snd p))).
  { intros p Hp. rewrite Forall_forall in Hok. apply fee_tables; auto. }
  assert (Hjoin : forall r0 rest, FL k from cj = (k, r0) :: jl k r0 rest ->
            exists ds, list_tables e (r_fc k (r0 :: rest) false) g = Ok ds /\ Forall data_ok ds /\
                       forall x, tnames ds x <-> In x (flat_map (fun p => rel_reads e ctes (snd p)) (FL k from cj))).
  { intros r0 rest EF. rewrite EF in *. inversion Hok as [|p l H0 Hl]. subst.
    rewrite (list_tables_fc_join noise Hnoise e k r0 rest g _ (ljc_general k r0 rest H0)).
    destruct (Hper (k, r0) (or_introl eq_refl)) as (d0 & E0 & Hd0 & Hx0). change (r_rel k r0) with (jfee (k, r0)). rewrite E0.
    destruct (concat_res_tnames (fun p => add_dataset_from_fee e (jfee p) g) (fun p => rel_reads e ctes (snd p)) (jl k r0 rest))
      as (ds & E & Hd & Hx).
    { intros p Hp. apply Hper. right. exact Hp. }
    rewrite E. exists (d0 ++ ds). split; [reflexivity|]. split; [apply Forall_app; auto|].
    intros x. rewrite tnames_app, Hx0, Hx. cbn [flat_map]. rewrite in_app_iff. reflexivity. }
  destruct cj.
  - destruct from as [|r1 [|r2 rest]]; [contradiction| |].
    + rewrite r_fc_single_comma. apply (Hjoin r1 []). reflexivity.
    + rewrite (list_tables_fc_comma noise Hnoise). rewrite FL_comma in *.
      destruct (concat_res_tnames (fun p => add_dataset_from_fee e (jfee p) g) (fun p => rel_reads e ctes (snd p)) (map (fun r => (k, r)) (r1 :: r2 :: rest)) Hper)
        as (ds & E & Hd & Hx).
      rewrite map_map in E. exists ds. split; [exact E|]. auto.
  - destruct from as [|r0 rest]; [contradiction|]. apply (Hjoin r0 rest). reflexivity.
Qed.

(** *** the specification on the fragment, and what the nested join clauses contribute *)
Fixpoint qd (k : nat) (q : query) : nat :=
  match k with
  | O => O
  | S k' =>
      match q with
      | QSelect _ from _ wh =>
          S (Nat.max (fold_right Nat.max 0 (map (fun r => match r with RDerived q' _ => qd k' q' | _ => 0 end) from))
                     (match wh with Some (_, sq) => qd k' sq | None => 0 end))
      | QUnion a b => S (Nat.max (qd k' a) (qd k' b))
      | QWith _ c b => S (Nat.max (qd k' c) (qd k' b))
      end
  end.

Section SpecSide.
Variable ctes : list string.
Notation ds := (e_cfg e).

Definition rr (k : nat) (r : rel) : list string :=
  match r with
  | RTable _ _ => rel_reads e ctes r
  | RDerived q' _ => q_reads k ds ctes q'
  | RGroup _ _ => []
  end.

Lemma rels_flat_ok k from : forallb (relk_ok k) from = true -> flat_map rels_flat from = from.
Proof.
  induction from as [|r rs IH]; [reflexivity|]. cbn [forallb flat_map]. intros H. apply andb_true_iff in H. destruct H as [H1 H2].
  rewrite (IH H2). destruct r; try discriminate; reflexivity.
Qed.

Lemma q_reads_select k items from cj wh :
  forallb (relk_ok k) from = true ->
  q_reads (S k) ds ctes (QSelect items from cj wh) =
  flat_map (rr k) from ++ match wh with Some (_, sq) => q_reads k ds ctes sq | None => [] end.
Proof.
  intros H. cbn [q_reads]. rewrite (rels_flat_ok k from H). f_equal. apply flat_map_ext_in'.
  intros r Hr. rewrite forallb_forall in H. specialize (H r Hr). destruct r as [t al|q a|x y]; try discriminate; reflexivity.
Qed.

Lemma fold_max_le (f : rel -> nat) r l : In r l -> f r <= fold_right Nat.max 0 (map f l).
Proof.
  induction l as [|a rs IH]; intros H; [destruct H|]. cbn [map fold_right]. destruct H as [H|H]; [subst; lia|]. specialize (IH H). lia.
Qed.

Definition p_props (K : nat) (Q : query) (p : nat * rel) : Prop :=
  fee_ok p /\ fst p < K /\ incl (rel_reads e ctes (snd p)) (q_reads K ds ctes Q) /\
  match snd p with
  | RDerived q'' _ => incl (q_reads (fst p) ds ctes q'') (q_reads K ds ctes Q) /\ qd (fst p) q'' < qd K Q
  | _ => True
  end.

Lemma p_props_weaken K Q K' Q' p :
  p_props K Q p -> K <= K' -> incl (q_reads K ds ctes Q) (q_reads K' ds ctes Q') -> qd K Q <= qd K' Q' -> p_props K' Q' p.
Proof.
  intros (H1 & H2 & H3 & H4) Hk Hi Hd. split; [exact H1|]. split; [lia|]. split; [intros x Hx; apply Hi; apply H3; exact Hx|].
  destruct (snd p); auto. destruct H4 as [H4 H5]. split; [intros x Hx; apply Hi; apply H4; exact Hx|lia].
Qed.

Lemma direct_props k items from cj wh r :
  forallb (relk_ok k) from = true -> In r from -> p_props (S k) (QSelect items from cj wh) (k, r).
Proof.
  intros Hall Hr. pose proof Hall as Hall'. rewrite forallb_forall in Hall. specialize (Hall r Hr).
  assert (Hi : incl (rr k r) (q_reads (S k) ds ctes (QSelect items from cj wh))).
  { rewrite (q_reads_select k items from cj wh Hall'). intros x Hx. apply in_app_iff. left. apply in_flat_map. exists r. auto. }
  split; [exact Hall|]. split; [cbn [fst]; lia|]. cbn [fst snd]. split.
  - destruct r as [t al|q a|x y]; [exact Hi|intros z []|intros z []].
  - destruct r as [t al|q a|x y]; auto. split; [exact Hi|]. cbn [qd].
    pose proof (fold_max_le (fun r => match r with RDerived q' _ => qd k q' | _ => 0 end) (RDerived q a) from Hr). cbn beta iota in H. lia.
Qed.

Lemma jrels_props : forall k q p, body_ok k q = true -> In p (jrels k q) -> p_props k q p.
Proof.
  induction k as [|k IH]; intros q p Hq Hp; [discriminate|]. destruct q as [items from cj wh|a b|n c b]; [| |discriminate].
  - destruct (body_ok_select k items from cj wh Hq) as (_ & _ & Hrels & Hwh). cbn [jrels] in Hp. apply in_app_iff in Hp.
    assert (Hjr : forall r, In r from -> In p (jr k r) -> p_props (S k) (QSelect items from cj wh) p).
    { intros r Hr Hpr. pose proof (direct_props k items from cj wh r Hrels Hr) as (D1 & _ & _ & D4). cbn [fst snd] in *.
      destruct r as [t al|q a|x y]; try destruct Hpr. cbn [jr] in Hpr. unfold fee_ok in D1. cbn [fst snd relk_ok] in D1.
      apply andb_true_iff in D1. destruct D1 as [_ D1]. destruct D4 as [D4 D5].
      apply (p_props_weaken k q); [apply IH; assumption|lia|exact D4|lia]. }
    destruct Hp as [Hp|Hp].
    + destruct cj.
      * apply in_flat_map in Hp. destruct Hp as (r & Hr & Hp). apply (Hjr r Hr). exact Hp.
      * destruct from as [|r0 rest]; [destruct Hp|]. apply in_app_iff in Hp. destruct Hp as [Hp|Hp]; [apply (Hjr r0 (or_introl eq_refl)); exact Hp|].
        apply in_flat_map in Hp. destruct Hp as (r & Hr & [Hp|Hp]).
        -- subst p. apply direct_props; [exact Hrels|right; exact Hr].
        -- apply (Hjr r (or_intror Hr)). exact Hp.
    + destruct wh as [[c sq]|]; [|destruct Hp]. destruct Hwh as [_ Hsq].
      apply (p_props_weaken k sq); [apply IH; assumption|lia| |cbn [qd]; lia].
      rewrite (q_reads_select k items from cj _ Hrels). intros x Hx. apply in_app_iff. right. exact Hx.
  - cbn [body_ok] in Hq. apply andb_true_iff in Hq. destruct Hq as [Hq Hb]. apply andb_true_iff in Hq. destruct Hq as [_ Ha].
    cbn [jrels] in Hp. apply in_app_iff in Hp. destruct Hp as [Hp|Hp].
    + apply (p_props_weaken k a); [apply IH; assumption|lia| |cbn [qd]; lia]. cbn [q_reads]. intros x Hx. apply in_app_iff. left. exact Hx.
    + apply (p_props_weaken k b); [apply IH; assumption|lia| |cbn [qd]; lia]. cbn [q_reads]. intros x Hx. apply in_app_iff. right. exact Hx.
Qed.

Lemma FL_props k items from cj wh p :
  body_ok (S k) (QSelect items from cj wh) = true -> In p (FL k from cj) -> p_props (S k) (QSelect items from cj wh) p.
Proof.
  intros Hq Hp. destruct (body_ok_select k items from cj wh Hq) as (_ & _ & Hrels & _).
  assert (Hjr : forall r, In r from -> In p (jr k r) -> p_props (S k) (QSelect items from cj wh) p).
  { intros r Hr Hpr. pose proof (direct_props k items from cj wh r Hrels Hr) as (D1 & _ & _ & D4). cbn [fst snd] in *.
    destruct r as [t al|q a|x y]; try destruct Hpr. cbn [jr] in Hpr. unfold fee_ok in D1. cbn [fst snd relk_ok] in D1.
    apply andb_true_iff in D1. destruct D1 as [_ D1]. destruct D4 as [D4 D5].
    apply (p_props_weaken k q); [apply jrels_props; assumption|lia|exact D4|lia]. }
  unfold FL in Hp. destruct cj.
  - apply in_map_iff in Hp. destruct Hp as (r & <- & Hr). apply direct_props; assumption.
  - destruct from as [|r0 rest]; [destruct Hp|]. destruct Hp as [Hp|Hp]; [subst p; apply direct_props; [exact Hrels|left; reflexivity]|].
    unfold jl in Hp. destruct rest as [|r1 rs]; [destruct Hp|]. apply in_app_iff in Hp.
    destruct Hp as [Hp|Hp]; [apply (Hjr r0 (or_introl eq_refl)); exact Hp|].
    apply in_flat_map in Hp. destruct Hp as (r & Hr & [Hp|Hp]).
    + subst p. apply direct_props; [exact Hrels|right; exact Hr].
    + apply (Hjr r (or_intror Hr)). exact Hp.
Qed.

Lemma FL_covers k from cj r : In r from -> In (k, r) (FL k from cj).
Proof.
  intros Hr. unfold FL. destruct cj; [apply in_map_iff; exists r; auto|].
  destruct from as [|r0 rest]; [destruct Hr|]. destruct Hr as [Hr|Hr]; [left; subst; reflexivity|]. right.
  unfold jl. destruct rest as [|r1 rs]; [destruct Hr|]. apply in_app_iff. right. apply in_flat_map. exists r. split; [exact Hr|left; reflexivity].
Qed.

End SpecSide.

(** *** the holder a sub-query starts from *)
Lemma fold_add_cte L : forall g,
  gok g -> Forall data_ok L -> noeqb L -> (forall c, In c L -> has_node g (NData c) = false) ->
  gok (fold_left add_cte L g) /\
  gnodes (fold_left add_cte L g) = gnodes g ++ map (fun c => (NData c, [("cte", true)])) L.
Proof.
  induction L as [|c r IH]; intros g Hg Hd Hn Hnew; cbn [fold_left map].
  - rewrite app_nil_r. auto.
  - inversion Hd. subst. cbn [noeqb] in Hn. destruct Hn as [Hn1 Hn2].
    assert (E : gnodes (add_cte g c) = gnodes g ++ [(NData c, [("cte", true)])]).
    { unfold add_cte, add_node. cbn [gnodes]. apply upsert_new. apply (Hnew c). left. reflexivity. }
    destruct (IH (add_cte g c)) as [I1 I2]; auto.
    + apply gok_add_tag; assumption.
    + intros c' Hc'. unfold has_node. rewrite E, has_node_l_app. cbn [has_node_l node_eqb]. rewrite orb_false_r.
      rewrite (dataset_eqb_sym c' c), (Hn1 c' Hc'), orb_false_r. apply (Hnew c'). right. exact Hc'.
    + split; [exact I1|]. rewrite I2, E, <- app_assoc. reflexivity.
Qed.

Lemma hn_cte_nodes L k : hn (map (fun c => (NData c, [("cte", true)])) L) k = if String.eqb k "cte" then L else [].
Proof.
  induction L as [|c r IH]; [destruct (String.eqb k "cte"); reflexivity|]. cbn [map]. unfold hn in *. cbn [flat_map fst snd]. rewrite IH.
  unfold attr_true. cbn [attr_get]. destruct (String.eqb k "cte"); reflexivity.
Qed.

Lemma init_sub L sq :
  noeqb L -> Forall data_ok L -> data_ok sq -> dk sq = KSubq ->
  let g0 := init_holder {| c_cte := Some L; c_write := Some [sq]; c_write_columns := None |} in
  gok g0 /\ sq_cte g0 = L /\ holder_nodes g0 "read" = [] /\
  (forall d, In d (holder_nodes g0 "write") -> dataset_eqb sq d = true).
Proof.
  intros Hn Hd Hsq Hk. cbn [init_holder c_cte c_write c_write_columns fold_left].
  destruct (fold_add_cte L empty_graph gok_empty Hd Hn (fun c _ => eq_refl)) as [G1 G2]. cbn [empty_graph gnodes app] in G2.
  set (g1 := fold_left add_cte L empty_graph) in *. unfold add_write.
  split; [apply gok_add_tag; assumption|]. split; [|split].
  - unfold sq_cte. rewrite tag_add_other by discriminate. rewrite holder_nodes_hn, G2, hn_cte_nodes. reflexivity.
  - rewrite tag_add_other by discriminate. rewrite holder_nodes_hn, G2, hn_cte_nodes. reflexivity.
  - intros d Hin. apply tag_add_sound in Hin. destruct Hin as [Hin|Hin]; [|exact Hin].
    rewrite holder_nodes_hn, G2, hn_cte_nodes in Hin. destruct Hin.
Qed.

Lemma one_write_eqb g w : (forall d, In d (holder_nodes g "write") -> dataset_eqb w d = true) -> one_write g.
Proof.
  intros H d1 d2 H1 H2. apply (dataset_eqb_trans d1 w d2); [apply dataset_eqb_true_sym; apply H; exact H1|apply H; exact H2].
Qed.

(** *** the clauses of one SELECT *)
Definition clauses (items : list item) (k : nat) (from : list rel) (cj : bool) (wh : option (string * query)) : list seg :=
  [r_sc items; r_fc k from cj] ++ r_wh k wh.

Definition wh_sq (k : nat) (wh : option (string * query)) : list dataset :=
  match wh with Some (_, sq) => [mk_subquery (r_brq k sq) None] | None => [] end.

Definition sel_sq (k : nat) (from : list rel) (cj : bool) (wh : option (string * query)) : list dataset :=
  flat_map fee_sq (FL k from cj) ++ wh_sq k wh.

Lemma FL_ok k items from cj wh :
  body_ok (S k) (QSelect items from cj wh) = true -> Forall fee_ok (FL k from cj).
Proof. intros Hq. apply Forall_forall. intros p Hp. exact (proj1 (FL_props [] k items from cj wh p Hq Hp)). Qed.

Lemma clauses_subq k items from cj wh :
  body_ok (S k) (QSelect items from cj wh) = true ->
  concat_res (map sel_subq1 (clauses items k from cj wh)) = Ok (sel_sq k from cj wh) /\
  concat_res (map list_subquery (clauses items k from cj wh)) = Ok (sel_sq k from cj wh).
Proof.
  intros Hq. destruct (body_ok_select k items from cj wh Hq) as (Hit & Hne & Hrels & Hwh).
  pose proof (FL_ok k items from cj wh Hq) as Hfl.
  unfold clauses, sel_sq. cbn [app map concat_res].
  rewrite (sel_subq1_sc noise Hnoise items Hit), (list_subquery_sc noise Hnoise items Hit).
  unfold sel_subq1 at 1. rewrite (ise_fc noise Hnoise), (list_subquery_fc k from cj Hne Hfl).
  destruct wh as [[c sq]|].
  - destruct Hwh as [_ Hsq]. destruct (body_ok_pos k sq Hsq) as (k' & ->). rewrite r_wh_some. cbn [map concat_res].
    rewrite (sel_subq1_where k' c sq (body_ok_is_body _ _ Hsq)), (list_subquery_where k' c sq (body_ok_is_body _ _ Hsq)).
    cbn [app wh_sq]. rewrite !app_nil_r. split; reflexivity.
  - cbn [r_wh map concat_res app wh_sq]. rewrite !app_nil_r. split; reflexivity.
Qed.

Lemma clauses_fold f st k items from cj wh ctes :
  body_ok (S k) (QSelect items from cj wh) = true -> gok (s_g st) -> cte_rel (s_g st) ctes ->
  exists ts cols,
    fold_left (fun acc sg => do st4 <- acc; handle_child (S f) e st4 sg) (clauses items k from cj wh) (Ok st) =
    Ok {| s_g := s_g st; s_tables := s_tables st ++ ts; s_columns := s_columns st ++ cols; s_barriers := s_barriers st |} /\
    Forall data_ok ts /\ Forall xcol_ok cols /\
    forall x, tnames ts x <-> In x (flat_map (fun p => rel_reads e ctes (snd p)) (FL k from cj)).
Proof.
  intros Hq Hg Hc. destruct (body_ok_select k items from cj wh Hq) as (Hit & Hne & Hrels & Hwh).
  pose proof (FL_ok k items from cj wh Hq) as Hfl.
  unfold clauses. cbn [app fold_left].
  destruct (handle_child_sc noise Hnoise e Henv f st items Hit) as (cols & E1 & Hcols). rewrite E1.
  rewrite (handle_child_fc noise e Henv). cbn [s_g s_tables s_columns s_barriers].
  destruct (list_tables_fc k from cj (s_g st) ctes Hne Hfl Hg Hc) as (ts & E2 & Hts & Hx). rewrite E2.
  exists ts, cols. split; [|auto]. destruct wh as [[c sq]|]; [|reflexivity].
  rewrite r_wh_some. cbn [fold_left]. rewrite handle_child_where. reflexivity.
Qed.

Lemma sel_fold_clauses f l : forall init,
  (forall s, In s l -> is_set_expression s = false) ->
  fold_left (fun acc s => do st0 <- acc; sel_step f e st0 s) l init =
  fold_left (fun acc sg => do st4 <- acc; handle_child f e st4 sg) l init.
Proof.
  induction l as [|s r IH]; intros init H; [reflexivity|]. cbn [fold_left]. rewrite IH by (intros s' Hs'; apply H; right; exact Hs').
  f_equal. destruct init as [st0|err]; [|reflexivity]. unfold sel_step. rewrite (H s (or_introl eq_refl)).
  destruct (handle_child f e st0 s); reflexivity.
Qed.

Lemma clauses_not_set items k from cj wh s : In s (clauses items k from cj wh) -> is_set_expression s = false.
Proof.
  unfold clauses. cbn [app In]. intros [H|[H|H]]; [subst; apply (ise_sc noise Hnoise)|subst; apply (ise_fc noise Hnoise)|].
  destruct wh as [[c sq]|]; [|destruct H]. destruct H as [H|[]]. subst. apply ise_where.
Qed.

(** *** the segments of a (possibly bracketed) query statement *)
Lemma flat_map_single {A} (f : A -> list A) l : (forall x, In x l -> f x = [x]) -> flat_map f l = l.
Proof.
  induction l as [|a r IH]; intros H; [reflexivity|]. cbn [flat_map]. rewrite (H a (or_introl eq_refl)), IH; [reflexivity|].
  intros x Hx. apply H. right. exact Hx.
Qed.

Lemma ise_brq k q : is_set_expression (r_brq k q) = tyis (r_query noise k q) "set_expression".
Proof.
  unfold is_set_expression. change (tyis (r_brq k q) "set_expression") with false. cbn [orb]. u_brq. cbn [children node].
  rewrite (existsb_sep noise Hnoise) by (intros x Hx; apply noise_tyis; [exact Hx|reflexivity]). cbn [existsb].
  change (tyis lpar "set_expression") with false. change (tyis rpar "set_expression") with false. cbn [orb]. apply orb_false_r.
Qed.

Lemma In_sep_inv x l : In x (sep noise l) -> In x l \/ In x noise.
Proof.
  induction l as [|a [|b r] IH]; [auto|auto|].
  change (sep noise (a :: b :: r)) with (a :: noise ++ sep noise (b :: r)). intros [H|H]; [left; left; exact H|].
  apply in_app_iff in H. destruct H as [H|H]; [right; exact H|]. destruct (IH H) as [H'|H']; [left; right; exact H'|right; exact H'].
Qed.

Lemma lcs_brq_select k items from cj wh :
  list_child_segments (r_brq (S k) (QSelect items from cj wh)) true = clauses items k from cj wh.
Proof.
  unfold list_child_segments. change (tyis (r_brq (S k) (QSelect items from cj wh)) "bracketed") with true. cbn [andb].
  rewrite ise_brq. rewrite r_query_select at 1. match goal with |- context [tyis (node "select_statement" ?c ?l) "set_expression"] =>
    change (tyis (node "select_statement" c l) "set_expression") with false end. cbn iota.
  assert (E : iter_expanding ["expression"] (r_brq (S k) (QSelect items from cj wh)) = sep noise [lpar; r_query noise (S k) (QSelect items from cj wh); rpar]).
  { rewrite TriviaProofs.iter_eq. u_brq. cbn [children node]. apply flat_map_single. intros x Hx.
    apply In_sep_inv in Hx. destruct Hx as [Hx|Hx].
    - cbn [In] in Hx. destruct Hx as [<-|[<-|[<-|[]]]]; reflexivity.
    - rewrite (noise_is_type x ["expression"] (noise_in noise Hnoise x Hx) eq_refl). reflexivity. }
  rewrite E. rewrite (flat_map_sep noise Hnoise).
  - cbn [flat_map]. change (ty_in lpar _) with false. change (ty_in rpar _) with false. cbn iota.
    change (children lpar) with (@nil seg). change (children rpar) with (@nil seg). cbn [filter app]. rewrite app_nil_r.
    rewrite r_query_select. match goal with |- context [ty_in (node "select_statement" ?c ?l) ?ts] =>
      change (ty_in (node "select_statement" c l) ts) with false end. cbn iota. cbn [children node].
    rewrite (filter_sep noise Hnoise) by (apply nn_noise). unfold clauses. destruct wh as [[c sq]|]; reflexivity.
  - intros x Hx. rewrite (noise_ty_in x ["column_reference"; "column_definition"] Hx eq_refl). rewrite (proj1 (proj2 (noise_seg_facts x Hx))). reflexivity.
Qed.

Lemma sel_segments_brq_select k items from cj wh :
  sel_segments (r_brq (S k) (QSelect items from cj wh)) = clauses items k from cj wh.
Proof. unfold sel_segments. change (tyis (r_brq (S k) (QSelect items from cj wh)) "set_expression") with false. cbn iota. apply lcs_brq_select. Qed.

Lemma sel_segments_top_select k items from cj wh :
  sel_segments (r_query noise (S k) (QSelect items from cj wh)) = clauses items k from cj wh.
Proof. rewrite r_query_select. apply (sel_segments_select noise Hnoise). Qed.

Lemma lcs_top_select k items from cj wh b :
  list_child_segments (r_query noise (S k) (QSelect items from cj wh)) b = clauses items k from cj wh.
Proof. rewrite r_query_select, (lcs_node noise Hnoise) by reflexivity. unfold clauses. destruct wh as [[c sq]|]; reflexivity. Qed.

Lemma sel_segments_union k a b : sel_segments (r_query noise (S k) (QUnion a b)) = [r_query noise (S k) (QUnion a b)].
Proof. reflexivity. Qed.

Lemma sel_segments_brq_union k a b : sel_segments (r_brq (S k) (QUnion a b)) = [r_query noise (S k) (QUnion a b)].
Proof.
  unfold sel_segments. change (tyis (r_brq (S k) (QUnion a b)) "set_expression") with false. cbn iota.
  unfold list_child_segments. change (tyis (r_brq (S k) (QUnion a b)) "bracketed") with true. cbn [andb].
  rewrite ise_brq. change (tyis (r_query noise (S k) (QUnion a b)) "set_expression") with true. cbn iota.
  u_brq. cbn [children node]. rewrite (filter_sep noise Hnoise) by (intros x Hx; apply noise_tyis; [exact Hx|reflexivity]). reflexivity.
Qed.

(** *** pre- and post-conditions of one extraction *)
Definition Pre (g0 : graph) (ctes : list string) : Prop := gok g0 /\ cte_rel g0 ctes /\ one_write g0.

Definition Post (g0 g : graph) (reads : list string) : Prop :=
  gok g /\
  (forall x, tset g "read" x <-> tset g0 "read" x \/ In x reads) /\
  (forall d, In d (holder_nodes g "write") -> In d (holder_nodes g0 "write")) /\
  (forall d, In d (holder_nodes g0 "write") -> dk d <> KSubq -> In d (holder_nodes g "write")) /\
  (forall d, In d (sq_cte g) <-> In d (sq_cte g0)).

Lemma Post_refl g : gok g -> Post g g [].
Proof. intros H. split; [exact H|]. split; [intros x; cbn [In]; tauto|]. split; [auto|]. split; [auto|]. intros d. reflexivity. Qed.

Lemma Post_trans g0 g1 g2 r1 r2 : Post g0 g1 r1 -> Post g1 g2 r2 -> Post g0 g2 (r1 ++ r2).
Proof.
  intros (A1 & A2 & A3 & A4 & A5) (B1 & B2 & B3 & B4 & B5). split; [exact B1|]. split; [|split; [|split]].
  - intros x. rewrite B2, A2, in_app_iff. tauto.
  - intros d Hd. apply A3. apply B3. exact Hd.
  - intros d Hd Hk. apply B4; [apply A4; assumption|exact Hk].
  - intros d. rewrite B5, A5. reflexivity.
Qed.

Lemma Post_reads_ext g0 g r1 r2 : (forall x, In x r1 <-> In x r2) -> Post g0 g r1 -> Post g0 g r2.
Proof.
  intros H (A1 & A2 & A3 & A4 & A5). split; [exact A1|]. split; [|auto]. intros x. rewrite A2, H. reflexivity.
Qed.

Lemma Pre_Post g0 g ctes r : Pre g0 ctes -> Post g0 g r -> Pre g ctes.
Proof.
  intros (P1 & [P2 P2'] & P3) (A1 & A2 & A3 & A4 & A5). split; [exact A1|]. split.
  - split.
    + intros c Hc. apply P2. apply A5. exact Hc.
    + intros n Hn. destruct (P2' n Hn) as (c & Hc & Hal). exists c. split; [apply A5; exact Hc|exact Hal].
  - intros d1 d2 H1 H2. apply P3; apply A3; assumption.
Qed.

Definition sqT := (nat * query * option string)%type.
Definition mk_sq (t : sqT) : dataset := mk_subquery (r_brq (fst (fst t)) (snd (fst t))) (snd t).

Section SubQ.
Variable ctes : list string.
Variable K : nat.
Hypothesis IHK : forall k q f ctx,
  k < K -> body_ok k q = true -> qd k q < f -> Pre (init_holder ctx) ctes ->
  exists g, extract f e XSelect (r_brq k q) ctx = Ok g /\ Post (init_holder ctx) g (q_reads k (e_cfg e) ctes q).

Lemma gc_brq_with k q : body_ok k q = true -> get_child (r_brq k q) ["with_compound_statement"] = None.
Proof.
  intros Hq. destruct (body_ok_pos k q Hq) as (k' & ->). unfold get_child. u_brq. rewrite (get_children_sep noise Hnoise) by reflexivity.
  cbn [filter]. change (is_type lpar _) with false. change (is_type rpar _) with false. cbn iota.
  destruct q; [reflexivity|reflexivity|discriminate].
Qed.

Lemma ex_subquery_cons f sq rest g :
  ex_subquery f e (sq :: rest) g =
  match (match dquery sq with
         | None => Err "AttributeError"
         | Some q =>
             let cls := match get_child q ["with_compound_statement"] with Some _ => XCte | None => XSelect end in
             do sh <- extract f e cls q {| c_cte := Some (sq_cte g); c_write := Some [sq]; c_write_columns := None |};
             Ok (compose g (set_attr sh [NData sq] "write" false))
         end) with
  | Ok g' => ex_subquery f e rest g'
  | Err x => Err x
  end.
Proof.
  unfold ex_subquery. cbn [fold_left]. destruct (match dquery sq with Some _ => _ | None => _ end) as [g'|x]; [reflexivity|].
  induction rest as [|a r IH]; [reflexivity|]. cbn [fold_left]. exact IH.
Qed.

Lemma sub_step f t g0 :
  fst (fst t) < K -> body_ok (fst (fst t)) (snd (fst t)) = true -> qd (fst (fst t)) (snd (fst t)) < f -> Pre g0 ctes ->
  exists sh, extract f e XSelect (r_brq (fst (fst t)) (snd (fst t)))
                     {| c_cte := Some (sq_cte g0); c_write := Some [mk_sq t]; c_write_columns := None |} = Ok sh /\
             Post g0 (compose g0 (set_attr sh [NData (mk_sq t)] "write" false)) (q_reads (fst (fst t)) (e_cfg e) ctes (snd (fst t))).
Proof.
  destruct t as [[k q] al]. cbn [fst snd]. intros Hk Hq Hf (P1 & P2 & P3).
  set (sq := mk_sq (k, q, al)). set (ctx := {| c_cte := Some (sq_cte g0); c_write := Some [sq]; c_write_columns := None |}).
  assert (Hsq : data_ok sq /\ dk sq = KSubq) by (split; [unfold data_ok; cbn; discriminate|reflexivity]).
  assert (HL : Forall data_ok (sq_cte g0)) by (apply Forall_forall; intros c Hc; apply (gok_data g0 c "cte" P1 Hc)).
  assert (HN : noeqb (sq_cte g0)) by (unfold sq_cte; rewrite holder_nodes_hn; apply hn_noeqb; exact (proj1 (proj1 P1))).
  destruct (init_sub (sq_cte g0) sq HN HL (proj1 Hsq) (proj2 Hsq)) as (I1 & I2 & I3 & I4). fold ctx in I1, I2, I3, I4.
  assert (Hpre : Pre (init_holder ctx) ctes).
  { split; [exact I1|]. split; [|apply (one_write_eqb _ sq); exact I4]. destruct P2 as [C1 C2]. split.
    - intros c Hc. rewrite I2 in Hc. apply C1. exact Hc.
    - intros n Hn. rewrite I2. apply C2. exact Hn. }
  destruct (IHK k q f ctx Hk Hq Hf Hpre) as (sh & E & (A1 & A2 & A3 & A4 & A5)). exists sh. split; [exact E|].
  pose proof (gok_set_attr_write sh sq A1 (proj2 Hsq)) as Hsa.
  split; [apply gok_compose; assumption|]. split; [|split; [|split]].
  - intros x. rewrite (tset_compose g0 _ "read" x P1 Hsa) by discriminate.
    rewrite (tset_ext sh _ "read" x (tag_set_attr_other sh _ "write" false "read" ltac:(discriminate))), A2.
    unfold tset at 2. rewrite I3. split; [intros [H|[(d & [] & _)|H]]; auto|intros [H|H]; auto].
  - intros d Hd. destruct (tag_compose_sound g0 _ "write" d Hsa Hd) as [H|(d' & Hd' & Ed)]; [exact H|].
    apply tag_set_attr_write in Hd'. destruct Hd' as [Hd' Hne]. apply A3 in Hd'. apply I4 in Hd'.
    rewrite dataset_eqb_sym in Hne. fold sq in Hne. congruence.
  - intros d Hd Hdk. apply tag_compose_mono; [exact Hsa|right; exact Hdk|exact Hd].
  - intros d. split.
    + intros Hd. destruct (tag_compose_sound g0 _ "cte" d Hsa Hd) as [H|(d' & Hd' & Ed)]; [exact H|].
      unfold sq_cte in *. rewrite (tag_set_attr_other sh _ "write" false "cte") in Hd' by discriminate.
      apply A5 in Hd'. rewrite I2 in Hd'.
      assert (Hd'' : In d' (holder_nodes (compose g0 (set_attr sh [NData sq] "write" false)) "cte")).
      { apply tag_compose_mono; [exact Hsa|left; discriminate|exact Hd']. }
      rewrite <- (tagged_eqb_eq _ "cte" "cte" d' d (gok_compose _ _ P1 Hsa) Hd'' Hd Ed). exact Hd'.
    + intros Hd. apply tag_compose_mono; [exact Hsa|left; discriminate|exact Hd].
Qed.

Lemma ex_subquery_ok f (T : list sqT) : forall g0,
  Forall (fun t => fst (fst t) < K /\ body_ok (fst (fst t)) (snd (fst t)) = true /\ qd (fst (fst t)) (snd (fst t)) < f) T ->
  Pre g0 ctes ->
  exists g1, ex_subquery f e (map mk_sq T) g0 = Ok g1 /\
             Post g0 g1 (flat_map (fun t => q_reads (fst (fst t)) (e_cfg e) ctes (snd (fst t))) T).
Proof.
  induction T as [|t T' IH]; intros g0 HT Hpre.
  - exists g0. split; [reflexivity|]. apply Post_refl. exact (proj1 Hpre).
  - inversion HT as [|t0 l (H1 & H2 & H3) HT']. subst. cbn [map]. rewrite ex_subquery_cons.
    assert (Edq : dquery (mk_sq t) = Some (r_brq (fst (fst t)) (snd (fst t)))) by reflexivity. rewrite Edq.
    rewrite (gc_brq_with _ _ H2). cbv zeta.
    destruct (sub_step f t g0 H1 H2 H3 Hpre) as (sh & E & HP). rewrite E.
    destruct (IH _ HT' (Pre_Post _ _ _ _ Hpre HP)) as (g1 & E1 & HP1). exists g1. split; [exact E1|].
    cbn [flat_map]. apply (Post_trans _ _ _ _ _ HP HP1).
Qed.

(** the sub-queries of one SELECT, as (fuel, query, alias) triples *)
Definition fee_T (p : nat * rel) : list sqT := match snd p with RDerived q' a => [(fst p, q', Some a)] | _ => [] end.
Definition sel_T (k : nat) (from : list rel) (cj : bool) (wh : option (string * query)) : list sqT :=
  flat_map fee_T (FL k from cj) ++ match wh with Some (_, sq) => [(k, sq, None)] | None => [] end.

Lemma sel_sq_T k from cj wh : sel_sq k from cj wh = map mk_sq (sel_T k from cj wh).
Proof.
  unfold sel_sq, sel_T. rewrite map_app. f_equal.
  - induction (FL k from cj) as [|p l IH]; [reflexivity|]. cbn [flat_map]. rewrite map_app, IH. f_equal.
    destruct p as [k' r]. destruct r; reflexivity.
  - destruct wh as [[c sq]|]; reflexivity.
Qed.

Lemma sel_T_ok k items from cj wh :
  body_ok (S k) (QSelect items from cj wh) = true ->
  Forall (fun t : sqT => fst (fst t) < S k /\ body_ok (fst (fst t)) (snd (fst t)) = true /\
                         qd (fst (fst t)) (snd (fst t)) < qd (S k) (QSelect items from cj wh)) (sel_T k from cj wh).
Proof.
  intros Hq. unfold sel_T. apply Forall_app. split.
  - apply Forall_forall. intros t Ht. apply in_flat_map in Ht. destruct Ht as (p & Hp & Ht).
    destruct (FL_props ctes k items from cj wh p Hq Hp) as (P1 & P2 & _ & P4).
    destruct p as [k' r]. unfold fee_T in Ht. cbn [fst snd] in *. destruct r as [t0 al|q' a|x y]; [destruct Ht| |destruct Ht].
    destruct Ht as [<-|[]]. cbn [fst snd]. unfold fee_ok in P1. cbn [fst snd relk_ok] in P1. apply andb_true_iff in P1.
    split; [exact P2|]. split; [exact (proj2 P1)|exact (proj2 P4)].
  - destruct (body_ok_select k items from cj wh Hq) as (_ & _ & _ & Hwh). destruct wh as [[c sq]|]; [|constructor].
    constructor; [|constructor]. cbn [fst snd]. split; [lia|]. split; [exact (proj2 Hwh)|]. cbn [qd]. lia.
Qed.

Lemma sel_reads_eq k items from cj wh :
  body_ok (S k) (QSelect items from cj wh) = true ->
  forall x, (In x (flat_map (fun t : sqT => q_reads (fst (fst t)) (e_cfg e) ctes (snd (fst t))) (sel_T k from cj wh)) \/
             In x (flat_map (fun p => rel_reads e ctes (snd p)) (FL k from cj)))
            <-> In x (q_reads (S k) (e_cfg e) ctes (QSelect items from cj wh)).
Proof.
  intros Hq x. destruct (body_ok_select k items from cj wh Hq) as (_ & _ & Hrels & Hwh). split.
  - intros [H|H].
    + apply in_flat_map in H. destruct H as (t & Ht & Hx). unfold sel_T in Ht. apply in_app_iff in Ht. destruct Ht as [Ht|Ht].
      * apply in_flat_map in Ht. destruct Ht as (p & Hp & Ht).
        destruct (FL_props ctes k items from cj wh p Hq Hp) as (_ & _ & _ & P4).
        destruct p as [k' r]. unfold fee_T in Ht. cbn [fst snd] in *. destruct r as [t0 al|q' a|x' y]; [destruct Ht| |destruct Ht].
        destruct Ht as [<-|[]]. cbn [fst snd] in Hx. apply (proj1 P4). exact Hx.
      * destruct wh as [[c sq]|]; [|destruct Ht]. destruct Ht as [<-|[]]. cbn [fst snd] in Hx.
        rewrite (q_reads_select ctes k items from cj _ Hrels). apply in_app_iff. right. exact Hx.
    + apply in_flat_map in H. destruct H as (p & Hp & Hx).
      destruct (FL_props ctes k items from cj wh p Hq Hp) as (_ & _ & P3 & _). apply P3. exact Hx.
  - rewrite (q_reads_select ctes k items from cj wh Hrels). intros H. apply in_app_iff in H. destruct H as [H|H].
    + apply in_flat_map in H. destruct H as (r & Hr & Hx). pose proof (FL_covers k from cj r Hr) as Hin.
      destruct r as [t al|q' a|x' y].
      * right. apply in_flat_map. exists (k, RTable t al). split; [exact Hin|exact Hx].
      * left. apply in_flat_map. exists (k, q', Some a). split; [|exact Hx]. unfold sel_T. apply in_app_iff. left.
        apply in_flat_map. exists (k, RDerived q' a). split; [exact Hin|left; reflexivity].
      * destruct Hx.
    + left. destruct wh as [[c sq]|]; [|destruct H]. apply in_flat_map. exists (k, sq, None). split; [|exact H].
      unfold sel_T. apply in_app_iff. right. left. reflexivity.
Qed.

Lemma select_core k items from cj wh f ctx seg0 :
  K = S k ->
  body_ok (S k) (QSelect items from cj wh) = true -> qd (S k) (QSelect items from cj wh) < f ->
  Pre (init_holder ctx) ctes -> sel_segments seg0 = clauses items k from cj wh ->
  exists g, extract f e XSelect seg0 ctx = Ok g /\
            Post (init_holder ctx) g (q_reads (S k) (e_cfg e) ctes (QSelect items from cj wh)).
Proof.
  intros HK Hq Hf Hpre Hseg. destruct f as [|[|f]]; [cbn [qd] in Hf; lia|cbn [qd] in Hf; lia|].
  rewrite extract_select_eq, Hseg. unfold sel_subqueries. rewrite (proj1 (clauses_subq k items from cj wh Hq)), sel_sq_T.
  destruct (ex_subquery_ok (S f) (sel_T k from cj wh) (init_holder ctx)) as (g1 & E1 & HP1).
  { pose proof (sel_T_ok k items from cj wh Hq) as HT. rewrite Forall_forall in *. intros t Ht. destruct (HT t Ht) as (T1 & T2 & T3).
    split; [rewrite HK; exact T1|]. split; [exact T2|lia]. }
  { exact Hpre. }
  rewrite E1. pose proof (Pre_Post _ _ _ _ Hpre HP1) as (G1 & G2 & G3).
  unfold sel_fold. rewrite (sel_fold_clauses (S f) _ _ (clauses_not_set items k from cj wh)).
  destruct (clauses_fold f {| s_g := g1; s_tables := []; s_columns := []; s_barriers := [] |} k items from cj wh ctes Hq G1 G2)
    as (ts & cols & E2 & Hts & Hcols & Hx).
  rewrite E2. cbn [s_g s_tables s_columns s_barriers app].
  destruct (select_tail e Henv g1 ts cols [] G1 Hts Hcols (one_write_length g1 G1 G3)) as (g3 & E3 & Hg3 & Hk3 & Hr3).
  rewrite E3. exists g3. split; [reflexivity|].
  assert (HP2 : Post g1 g3 (flat_map (fun p => rel_reads e ctes (snd p)) (FL k from cj))).
  { split; [exact Hg3|]. split; [intros x; rewrite Hr3, Hx; reflexivity|]. split; [|split].
    - intros d. rewrite (Hk3 "write") by discriminate. auto.
    - intros d Hd _. rewrite (Hk3 "write") by discriminate. exact Hd.
    - intros d. unfold sq_cte. rewrite (Hk3 "cte") by discriminate. reflexivity. }
  apply (Post_reads_ext _ _ _ _ (fun x => conj (fun H => proj1 (sel_reads_eq k items from cj wh Hq x) (proj1 (in_app_iff _ _ _) H))
                                                (fun H => proj2 (in_app_iff _ _ _) (proj2 (sel_reads_eq k items from cj wh Hq x) H)))).
  apply (Post_trans _ _ _ _ _ HP1 HP2).
Qed.

(** *** UNION of two SELECTs *)
Definition r_union (k : nat) (a b : query) : seg := r_query noise (S k) (QUnion a b).
Definition set_op : seg := node "set_operator" ["set_operator"] (sep noise [kw "union"; kw "all"]).

Lemma r_union_eq k a b :
  r_union k a b = node "set_expression" ["set_expression"] (sep noise [r_query noise k a; set_op; r_query noise k b]).
Proof. reflexivity. Qed.

Lemma gc_union_subs k ia fa ca wa ib fb cb wb :
  get_children (r_union (S k) (QSelect ia fa ca wa) (QSelect ib fb cb wb)) ["select_statement"; "bracketed"] =
  [r_query noise (S k) (QSelect ia fa ca wa); r_query noise (S k) (QSelect ib fb cb wb)].
Proof. rewrite r_union_eq, (get_children_sep noise Hnoise) by reflexivity. reflexivity. Qed.

Lemma sel_subq1_union k ia fa ca wa ib fb cb wb :
  body_ok (S k) (QSelect ia fa ca wa) = true -> body_ok (S k) (QSelect ib fb cb wb) = true ->
  sel_subq1 (r_union (S k) (QSelect ia fa ca wa) (QSelect ib fb cb wb)) = Ok (sel_sq k fa ca wa ++ sel_sq k fb cb wb).
Proof.
  intros Ha Hb. unfold sel_subq1. set (U := r_union (S k) (QSelect ia fa ca wa) (QSelect ib fb cb wb)).
  assert (E1 : list_subquery U = Ok []).
  { unfold list_subquery. assert (E : get_children U ["from_expression"] = []).
    { unfold U. rewrite r_union_eq, (get_children_sep noise Hnoise) by reflexivity. reflexivity. }
    rewrite E. change (ty_in U ["select_clause"; "from_clause"; "where_clause"]) with false. cbn iota.
    rewrite (is_subquery_other U) by reflexivity. reflexivity. }
  rewrite E1. change (is_set_expression U) with true. cbn iota. unfold U. rewrite gc_union_subs. cbn [map concat_res].
  rewrite !lcs_top_select. rewrite (proj2 (clauses_subq k ia fa ca wa Ha)), (proj2 (clauses_subq k ib fb cb wb Hb)).
  cbn [app]. rewrite app_nil_r. reflexivity.
Qed.

Lemma handle_child_union f st k a b :
  handle_child f e st (r_union k a b) =
  Ok {| s_g := s_g st; s_tables := s_tables st; s_columns := s_columns st; s_barriers := s_barriers st |}.
Proof.
  unfold handle_child. rewrite (swap_partition_off e Henv). unfold handle_select_into.
  change (ty_in (r_union k a b) ["into_table_clause"; "into_clause"]) with false. cbn iota.
  unfold list_tables. change (ty_in (r_union k a b) ["from_clause"; "join_clause"; "update_statement"]) with false. cbn iota.
  change (tyis (r_union k a b) "select_clause") with false. cbn iota. rewrite !app_nil_r. reflexivity.
Qed.

Lemma union_core k ia fa ca wa ib fb cb wb f ctx seg0 :
  K = S (S k) ->
  body_ok (S k) (QSelect ia fa ca wa) = true -> body_ok (S k) (QSelect ib fb cb wb) = true ->
  qd (S (S k)) (QUnion (QSelect ia fa ca wa) (QSelect ib fb cb wb)) < f ->
  Pre (init_holder ctx) ctes -> sel_segments seg0 = [r_union (S k) (QSelect ia fa ca wa) (QSelect ib fb cb wb)] ->
  exists g, extract f e XSelect seg0 ctx = Ok g /\
            Post (init_holder ctx) g (q_reads (S (S k)) (e_cfg e) ctes (QUnion (QSelect ia fa ca wa) (QSelect ib fb cb wb))).
Proof.
  intros HK Ha Hb Hf Hpre Hseg. set (qa := QSelect ia fa ca wa) in *. set (qb := QSelect ib fb cb wb) in *.
  assert (Hfa : qd (S k) qa < f - 1 /\ qd (S k) qb < f - 1 /\ 2 <= f).
  { change (qd (S (S k)) (QUnion qa qb)) with (S (Nat.max (qd (S k) qa) (qd (S k) qb))) in Hf.
    assert (1 <= qd (S k) qa) by (unfold qa; cbn [qd]; lia). lia. }
  destruct f as [|[|f]]; [lia|lia|]. replace (S (S f) - 1) with (S f) in Hfa by lia.
  rewrite extract_select_eq, Hseg. unfold sel_subqueries. cbn [map concat_res]. unfold qa, qb.
  rewrite (sel_subq1_union k ia fa ca wa ib fb cb wb Ha Hb). fold qa qb. rewrite app_nil_r, !sel_sq_T, <- map_app.
  destruct (ex_subquery_ok (S f) (sel_T k fa ca wa ++ sel_T k fb cb wb) (init_holder ctx)) as (g1 & E1 & HP1).
  { apply Forall_app. split.
    - pose proof (sel_T_ok k ia fa ca wa Ha) as HT. rewrite Forall_forall in *. intros t Ht. destruct (HT t Ht) as (T1 & T2 & T3).
      fold qa in T3. split; [lia|]. split; [exact T2|lia].
    - pose proof (sel_T_ok k ib fb cb wb Hb) as HT. rewrite Forall_forall in *. intros t Ht. destruct (HT t Ht) as (T1 & T2 & T3).
      fold qb in T3. split; [lia|]. split; [exact T2|lia]. }
  { exact Hpre. }
  rewrite E1. pose proof (Pre_Post _ _ _ _ Hpre HP1) as (G1 & G2 & G3).
  unfold sel_fold. cbn [fold_left]. unfold sel_step. rewrite handle_child_union. cbn [s_g s_tables s_columns s_barriers].
  change (is_set_expression (r_union (S k) qa qb)) with true. cbn iota. unfold qa, qb. rewrite gc_union_subs. fold qa qb.
  cbn [fold_left]. unfold sel_children. unfold qa at 1. rewrite lcs_top_select.
  destruct (clauses_fold f {| s_g := g1; s_tables := []; s_columns := []; s_barriers := [] |} k ia fa ca wa ctes Ha G1 G2)
    as (tsa & colsa & E2 & Htsa & Hcolsa & Hxa).
  rewrite E2. cbn [s_g s_tables s_columns s_barriers app]. unfold qb at 1. rewrite lcs_top_select.
  destruct (clauses_fold f (add_barrier {| s_g := g1; s_tables := tsa; s_columns := colsa; s_barriers := [] |}) k ib fb cb wb ctes Hb G1 G2)
    as (tsb & colsb & E3 & Htsb & Hcolsb & Hxb).
  rewrite E3. cbn [fst s_g s_tables s_columns s_barriers add_barrier app].
  destruct (select_tail e Henv g1 (tsa ++ tsb) (colsa ++ colsb) [(List.length colsa, List.length tsa)] G1
              (proj2 (Forall_app _ _ _) (conj Htsa Htsb)) (proj2 (Forall_app _ _ _) (conj Hcolsa Hcolsb)) (one_write_length g1 G1 G3))
    as (g3 & E4 & Hg3 & Hk3 & Hr3).
  rewrite E4. exists g3. split; [reflexivity|].
  assert (HP2 : Post g1 g3 (flat_map (fun p => rel_reads e ctes (snd p)) (FL k fa ca) ++ flat_map (fun p => rel_reads e ctes (snd p)) (FL k fb cb))).
  { split; [exact Hg3|]. split; [intros x; rewrite Hr3, tnames_app, in_app_iff, Hxa, Hxb; reflexivity|]. split; [|split].
    - intros d. rewrite (Hk3 "write") by discriminate. auto.
    - intros d Hd _. rewrite (Hk3 "write") by discriminate. exact Hd.
    - intros d. unfold sq_cte. rewrite (Hk3 "cte") by discriminate. reflexivity. }
  refine (Post_reads_ext _ _ _ _ _ (Post_trans _ _ _ _ _ HP1 HP2)).
  intros x. change (q_reads (S (S k)) (e_cfg e) ctes (QUnion qa qb)) with (q_reads (S k) (e_cfg e) ctes qa ++ q_reads (S k) (e_cfg e) ctes qb).
  rewrite flat_map_app, !in_app_iff. unfold qa, qb.
  rewrite <- (sel_reads_eq k ia fa ca wa Ha x), <- (sel_reads_eq k ib fb cb wb Hb x). tauto.
Qed.

End SubQ.

(** *** the main induction: queries without WITH *)
Lemma body_main ctes : forall k q f ctx seg0,
  body_ok k q = true -> qd k q < f -> Pre (init_holder ctx) ctes ->
  (seg0 = r_query noise k q \/ seg0 = r_brq k q) ->
  exists g, extract f e XSelect seg0 ctx = Ok g /\ Post (init_holder ctx) g (q_reads k (e_cfg e) ctes q).
Proof.
  induction k as [k IH] using lt_wf_ind. intros q f ctx seg0 Hq Hf Hpre Hseg.
  assert (IHK : forall k' q' f' ctx', k' < k -> body_ok k' q' = true -> qd k' q' < f' -> Pre (init_holder ctx') ctes ->
            exists g, extract f' e XSelect (r_brq k' q') ctx' = Ok g /\ Post (init_holder ctx') g (q_reads k' (e_cfg e) ctes q')).
  { intros k' q' f' ctx' Hk' Hq' Hf' Hpre'. apply (IH k' Hk' q' f' ctx' (r_brq k' q')); auto. }
  destruct k as [|k]; [discriminate|]. destruct q as [items from cj wh|a b|n c b]; [| |discriminate].
  - apply (select_core ctes (S k) IHK k items from cj wh f ctx seg0 eq_refl Hq Hf Hpre).
    destruct Hseg as [->| ->]; [apply sel_segments_top_select|apply sel_segments_brq_select].
  - pose proof Hq as Hq'. cbn [body_ok] in Hq'. apply andb_true_iff in Hq'. destruct Hq' as [Hq' Hb]. apply andb_true_iff in Hq'. destruct Hq' as [Hq' Ha].
    apply andb_true_iff in Hq'. destruct Hq' as [Hsa Hsb].
    destruct a as [ia fa ca wa| |]; try discriminate. destruct b as [ib fb cb wb| |]; try discriminate.
    destruct (body_ok_pos k _ Ha) as (k' & ->).
    apply (union_core ctes (S (S k')) IHK k' ia fa ca wa ib fb cb wb f ctx seg0 eq_refl Ha Hb Hf Hpre).
    destruct Hseg as [->| ->]; [apply sel_segments_union|apply sel_segments_brq_union].
Qed.

(** *** the fuel given by [analyze] is enough *)
Lemma depth_child c s : In c (children s) -> S (depth c) <= depth s.
Proof.
  destruct s as [t g cl r w cm mt ch]. cbn [children depth]. intros H. apply le_n_S.
  induction ch as [|a l IH]; [destruct H|]. cbn [map fold_right]. destruct H as [H|H]; [subst; lia|]. specialize (IH H). lia.
Qed.

Lemma depth_sub x s : TriviaProofs.sub x s -> depth x <= depth s.
Proof.
  intros H. induction H as [s|x c s Hin Hsub IH]; [lia|]. pose proof (depth_child c s Hin). lia.
Qed.

Lemma In_intersperse x y l : In x l -> In x (intersperse y l).
Proof.
  induction l as [|a [|b r] IH]; [auto|auto|]. change (intersperse y (a :: b :: r)) with (a :: y :: intersperse y (b :: r)).
  intros [H|H]; [left; exact H|right; right; apply IH; exact H].
Qed.

Lemma sub_node_sep x t c l y : In y l -> TriviaProofs.sub x y -> TriviaProofs.sub x (node t c (sep noise l)).
Proof. intros Hy Hs. apply (TriviaProofs.sub_child x y); [cbn [children node]; apply (In_sep noise); exact Hy|exact Hs]. Qed.

Lemma sub_node0 x t c l y : In y l -> TriviaProofs.sub x y -> TriviaProofs.sub x (node t c l).
Proof. intros Hy Hs. apply (TriviaProofs.sub_child x y); [exact Hy|exact Hs]. Qed.

Lemma sub_rq_brq k q : TriviaProofs.sub (r_query noise k q) (r_brq k q).
Proof. u_brq. apply (sub_node_sep _ _ _ _ (r_query noise k q)); [right; left; reflexivity|apply TriviaProofs.sub_refl]. Qed.

Lemma sub_rq_rel k q a : TriviaProofs.sub (r_query noise k q) (r_rel k (RDerived q a)).
Proof.
  rewrite r_rel_derived. apply (sub_node_sep _ _ _ _ (te_brq k q)); [left; reflexivity|].
  unfold te_brq. apply (sub_node0 _ _ _ _ (r_brq k q)); [left; reflexivity|apply sub_rq_brq].
Qed.

Lemma sub_rel_fc k from cj r : In r from -> TriviaProofs.sub (r_rel k r) (r_fc k from cj).
Proof.
  intros Hr. u_rfc. destruct cj.
  - apply (sub_node_sep _ _ _ _ (r_fe1 k r)).
    + right. apply In_intersperse. apply in_map. exact Hr.
    + u_rfe1. apply (sub_node0 _ _ _ _ (r_rel k r)); [left; reflexivity|apply TriviaProofs.sub_refl].
  - destruct from as [|r0 rest]; [destruct Hr|]. apply (sub_node_sep _ _ _ _ (r_fej k r0 rest)); [right; left; reflexivity|].
    u_rfej. destruct Hr as [Hr|Hr].
    + subst. apply (sub_node_sep _ _ _ _ (r_rel k r)); [left; reflexivity|apply TriviaProofs.sub_refl].
    + apply (sub_node_sep _ _ _ _ (r_join k r)); [right; apply in_map; exact Hr|].
      u_rjoin. apply (sub_node_sep _ _ _ _ (r_rel k r)); [right; left; reflexivity|apply TriviaProofs.sub_refl].
Qed.

Lemma fold_max_bound (f : rel -> nat) l B : (forall r, In r l -> f r <= B) -> fold_right Nat.max 0 (map f l) <= B.
Proof.
  induction l as [|a r IH]; intros H; cbn [map fold_right]; [lia|]. pose proof (H a (or_introl eq_refl)).
  specialize (IH (fun r' Hr' => H r' (or_intror Hr'))). lia.
Qed.

Lemma depth_qd : forall k q, qd k q <= depth (r_query noise k q).
Proof.
  induction k as [|k IH]; intros q; [cbn [qd]; lia|]. destruct q as [items from cj wh|a b|n c b].
  - cbn [qd]. rewrite r_query_select.
    set (S0 := node "select_statement" ["select_statement"] (sep noise ([r_sc items; r_fc k from cj] ++ r_wh k wh))).
    assert (Hfc : S (depth (r_fc k from cj)) <= depth S0).
    { apply depth_child. cbn [children S0 node]. apply (In_sep noise). right. left. reflexivity. }
    assert (H1 : fold_right Nat.max 0 (map (fun r => match r with RDerived q' _ => qd k q' | _ => 0 end) from) <= depth (r_fc k from cj)).
    { apply fold_max_bound. intros r Hr. destruct r as [t al|q' a|x y]; try lia.
      pose proof (depth_sub _ _ (sub_rel_fc k from cj _ Hr)). pose proof (depth_sub _ _ (sub_rq_rel k q' a)). specialize (IH q'). lia. }
    assert (H2 : match wh with Some (_, sq) => qd k sq | None => 0 end < depth S0).
    { destruct wh as [[c sq]|]; [|destruct (depth_pos S0) as (d & ->); lia].
      assert (Hs : TriviaProofs.sub (r_query noise k sq) (r_where k c sq)).
      { unfold r_where. eapply sub_node_sep; [right; left; reflexivity|]. eapply sub_node_sep; [right; right; left; reflexivity|]. apply sub_rq_brq. }
      assert (Hw : S (depth (r_where k c sq)) <= depth S0).
      { apply depth_child. cbn [children S0 node]. apply (In_sep noise). rewrite r_wh_some. right. right. left. reflexivity. }
      pose proof (depth_sub _ _ Hs). specialize (IH sq). lia. }
    lia.
  - cbn [qd]. rewrite r_query_union.
    match goal with |- _ <= depth ?n => set (S0 := n) end.
    assert (Ha : S (depth (r_query noise k a)) <= depth S0) by (apply depth_child; cbn [children S0 node]; apply (In_sep noise); left; reflexivity).
    assert (Hb : S (depth (r_query noise k b)) <= depth S0) by (apply depth_child; cbn [children S0 node]; apply (In_sep noise); right; right; left; reflexivity).
    pose proof (IH a). pose proof (IH b). lia.
  - cbn [qd]. rewrite r_query_with.
    match goal with |- _ <= depth ?n => set (S0 := n) end.
    assert (Hb : S (depth (r_query noise k b)) <= depth S0) by (apply depth_child; cbn [children S0 node]; apply (In_sep noise); right; right; left; reflexivity).
    assert (Hc : S (depth (r_query noise k c)) <= depth S0).
    { assert (Hs : TriviaProofs.sub (r_query noise k c) (node "common_table_expression" ["common_table_expression"] (sep noise [ident n; kw "as"; r_brq k c]))).
      { eapply sub_node_sep; [right; right; left; reflexivity|]. apply sub_rq_brq. }
      pose proof (depth_sub _ _ Hs).
      assert (S (depth (node "common_table_expression" ["common_table_expression"] (sep noise [ident n; kw "as"; r_brq k c]))) <= depth S0).
      { apply depth_child. cbn [children S0 node]. apply (In_sep noise). right. left. reflexivity. }
      lia. }
    pose proof (IH b). pose proof (IH c). lia.
Qed.

End Nav2.

(* ================================================================== *)
(** * Steps 3, 4, 5: derived tables, WHERE-IN sub-queries, UNION

    Extra hypothesis [qshape]: no WITH, and set operations only between plain SELECTs.  It is needed:
    [lemma_A_check] FAILS on [QUnion (QUnion a b) c], [QUnion (QWith ..) c] (the extractor only looks at the
    select_statement / bracketed children of a set_expression, the rendering nests set expressions) - see the
    counterexamples at the end of this file. *)
Fixpoint qshape (k : nat) (q : query) : bool :=
  match k with
  | O => false
  | S k' =>
      match q with
      | QSelect _ from _ wh =>
          forallb (fun r => match r with RDerived q' _ => qshape k' q' | _ => true end) from
          && match wh with Some (_, sq) => qshape k' sq | None => true end
      | QUnion a b => is_sel a && is_sel b && qshape k' a && qshape k' b
      | QWith _ _ _ => false
      end
  end.

Lemma body_ok_of : forall k ctes q,
  frag_query k q = true -> names_ok_q k ctes q = true -> qshape k q = true -> body_ok k q = true.
Proof.
  induction k as [|k IH]; intros ctes q Hf Hn Hs; [discriminate|]. destruct q as [items from cj wh|a b|n c b]; [| |discriminate].
  - cbn [frag_query names_ok_q qshape body_ok] in *.
    apply andb_true_iff in Hf. destruct Hf as [Hf F4]. apply andb_true_iff in Hf. destruct Hf as [Hf F3]. apply andb_true_iff in Hf. destruct Hf as [F1 F2].
    apply andb_true_iff in Hn. destruct Hn as [Hn N3]. apply andb_true_iff in Hn. destruct Hn as [N1 N2].
    apply andb_true_iff in Hs. destruct Hs as [S1 S2].
    rewrite F2. change (forallb item_ok items) with (forallb (fun i => match i with
                            | IExpr (EColRef qq c) al => id_ok c && match qq with Some x => id_ok x | None => true end
                                                         && match al with Some a => id_ok a | None => true end
                            | IStar qq => match qq with Some x => id_ok x | None => true end
                            | _ => false end) items). rewrite N1. cbn [andb].
    apply andb_true_iff. split.
    + rewrite forallb_forall in *. intros r Hr. specialize (F3 r Hr). specialize (N2 r Hr). specialize (S1 r Hr).
      destruct r as [t al|q' a|x y]; [exact N2| |discriminate].
      apply andb_true_iff in N2. destruct N2 as [N2 N2']. rewrite N2. cbn [andb]. apply (IH ctes); assumption.
    + destruct wh as [[c sq]|]; [|reflexivity]. apply andb_true_iff in N3. destruct N3 as [N3 N3']. rewrite N3. cbn [andb].
      apply (IH ctes); assumption.
  - cbn [frag_query names_ok_q qshape body_ok] in *.
    apply andb_true_iff in Hf. destruct Hf as [F1 F2]. apply andb_true_iff in Hn. destruct Hn as [N1 N2].
    apply andb_true_iff in Hs. destruct Hs as [Hs S4]. apply andb_true_iff in Hs. destruct Hs as [Hs S3]. rewrite Hs. cbn [andb].
    rewrite (IH ctes a F1 N1 S3), (IH ctes b F2 N2 S4). reflexivity.
Qed.

Lemma analyze_query noise e k q :
  is_body q = true ->
  analyze e false (r_query noise (S k) q) =
  extract (3 * depth (r_query noise (S k) q) + 10) e XSelect (r_query noise (S k) q) empty_ctx.
Proof. intros H. destruct q; [reflexivity|reflexivity|discriminate]. Qed.

Lemma Pre_empty : Pre (init_holder empty_ctx) [].
Proof.
  change (init_holder empty_ctx) with empty_graph. split; [apply gok_empty|]. split; [apply cte_rel_empty|].
  intros d1 d2 [].
Qed.

Theorem lemma_A_step5 : forall noise e q,
  noise_ok noise = true -> env_ok e = true -> stmt_ok (SQuery q) = true -> qshape (S (q_size q)) q = true ->
  stmt_reads (analyze e false (r_stmt noise (SQuery q))) = sort_strings (spec_reads (e_cfg e) (SQuery q)) /\
  stmt_writes (analyze e false (r_stmt noise (SQuery q))) = sort_strings (spec_writes (e_cfg e) (SQuery q)).
Proof.
  intros noise e q Hn He Hok Hs. unfold stmt_ok in Hok. apply andb_true_iff in Hok. destruct Hok as [Hf Hnm].
  pose proof (body_ok_of _ _ _ Hf Hnm Hs) as Hb. cbn [r_stmt].
  rewrite (analyze_query noise e (q_size q) q (body_ok_is_body _ _ Hb)).
  set (stmt := r_query noise (S (q_size q)) q).
  assert (Hfuel : qd (S (q_size q)) q < 3 * depth stmt + 10).
  { pose proof (depth_qd noise (S (q_size q)) q). fold stmt in H. lia. }
  destruct (body_main noise Hn e He [] (S (q_size q)) q _ empty_ctx stmt Hb Hfuel Pre_empty (or_introl eq_refl))
    as (g & E & (G1 & G2 & G3 & _ & _)).
  rewrite E. change (init_holder empty_ctx) with empty_graph in *. split.
  - unfold spec_reads. apply (stmt_reads_spec _ g); [reflexivity|exact G1|]. intros x. rewrite G2, tset_empty. tauto.
  - unfold spec_writes. apply (stmt_writes_spec _ g); [reflexivity|exact G1|constructor|]. intros x. cbn [In]. split; [|tauto].
    intros (d & Hd & _). apply G3 in Hd. destruct Hd.
Qed.

(** step 3: a SELECT whose FROM may contain derived tables (no WHERE at the top) *)
Theorem lemma_A_step3 : forall noise e items from cj,
  noise_ok noise = true -> env_ok e = true ->
  stmt_ok (SQuery (QSelect items from cj None)) = true ->
  qshape (S (q_size (QSelect items from cj None))) (QSelect items from cj None) = true ->
  let s := SQuery (QSelect items from cj None) in
  stmt_reads (analyze e false (r_stmt noise s)) = sort_strings (spec_reads (e_cfg e) s) /\
  stmt_writes (analyze e false (r_stmt noise s)) = sort_strings (spec_writes (e_cfg e) s).
Proof. intros. apply lemma_A_step5; assumption. Qed.

(** step 4: ... and a WHERE c IN (sub-query) *)
Theorem lemma_A_step4 : forall noise e items from cj wh,
  noise_ok noise = true -> env_ok e = true ->
  stmt_ok (SQuery (QSelect items from cj wh)) = true ->
  qshape (S (q_size (QSelect items from cj wh))) (QSelect items from cj wh) = true ->
  let s := SQuery (QSelect items from cj wh) in
  stmt_reads (analyze e false (r_stmt noise s)) = sort_strings (spec_reads (e_cfg e) s) /\
  stmt_writes (analyze e false (r_stmt noise s)) = sort_strings (spec_writes (e_cfg e) s).
Proof. intros. apply lemma_A_step5; assumption. Qed.

(* ================================================================== *)
(** * Part N3: delegation (WITH bodies, INSERT / CREATE sources) *)
Lemma fold_add_write W : forall g1,
  gok g1 -> Forall data_ok W ->
  gok (fold_left add_write W g1) /\
  (forall k, k <> "write" -> holder_nodes (fold_left add_write W g1) k = holder_nodes g1 k) /\
  (forall d, In d (holder_nodes (fold_left add_write W g1) "write") ->
             In d (holder_nodes g1 "write") \/ exists w, In w W /\ dataset_eqb w d = true).
Proof.
  induction W as [|w r IH]; intros g1 Hg Hw; cbn [fold_left].
  - split; [exact Hg|]. split; [reflexivity|]. auto.
  - inversion Hw. subst. destruct (IH (add_write g1 w) (gok_add_tag g1 w "write" Hg H1) H2) as (I1 & I2 & I3).
    split; [exact I1|]. split.
    + intros k Hk. rewrite (I2 k Hk). apply tag_add_other. exact Hk.
    + intros d Hd. destruct (I3 d Hd) as [H|(w' & Hw' & E)].
      * apply tag_add_sound in H. destruct H as [H|H]; [left; exact H|right; exists w; split; [left; reflexivity|exact H]].
      * right. exists w'. split; [right; exact Hw'|exact E].
Qed.

Definition dctx (g : graph) : context :=
  {| c_cte := Some (sq_cte g); c_write := Some (sq_write g); c_write_columns := Some (write_columns g) |}.

Lemma init_delegate g ctes :
  Pre g ctes ->
  let g0 := init_holder (dctx g) in
  Pre g0 ctes /\ sq_cte g0 = sq_cte g /\ holder_nodes g0 "read" = [] /\
  (forall d, In d (holder_nodes g0 "write") -> exists w, In w (sq_write g) /\ dataset_eqb w d = true).
Proof.
  intros (P1 & P2 & P3).
  assert (HL : Forall data_ok (sq_cte g)) by (apply Forall_forall; intros c Hc; apply (gok_data g c "cte" P1 Hc)).
  assert (HW : Forall data_ok (sq_write g)) by (apply Forall_forall; intros c Hc; apply (gok_data g c "write" P1 Hc)).
  assert (HN : noeqb (sq_cte g)) by (unfold sq_cte; rewrite holder_nodes_hn; apply hn_noeqb; exact (proj1 (proj1 P1))).
  destruct (fold_add_cte (sq_cte g) empty_graph gok_empty HL HN (fun c _ => eq_refl)) as [G1 G2]. cbn [empty_graph gnodes app] in G2.
  set (g1 := fold_left add_cte (sq_cte g) empty_graph) in *.
  destruct (fold_add_write (sq_write g) g1 G1 HW) as (W1 & W2 & W3). set (g2 := fold_left add_write (sq_write g) g1) in *.
  assert (W3' : forall d, In d (holder_nodes g2 "write") -> exists w, In w (sq_write g) /\ dataset_eqb w d = true).
  { intros d Hd. destruct (W3 d Hd) as [H|H]; [|exact H]. rewrite holder_nodes_hn, G2, hn_cte_nodes in H. destruct H. }
  assert (Hcs : cstep g2 (match write_columns g with x :: r => add_write_column g2 (x :: r) | [] => g2 end)).
  { destruct (write_columns g) as [|x r] eqn:Ewc; [apply cstep_refl; exact W1|]. apply cstep_add_write_column; [exact W1|].
    intros t Ht. apply Forall_forall. intros c Hc. rewrite <- Ewc in Hc.
    destruct (write_columns_col1 g P1 c Hc) as (C1 & t' & p & Et & Ep & Ept).
    destruct (W3' t Ht) as (w & Hw & Ewt). pose proof (get_target_table_In g t' Et) as Ht'.
    right. exists p. split; [exact Ep|]. split.
    - apply (dataset_eqb_trans p t' t); [exact Ept|]. apply (dataset_eqb_trans t' w t); [apply P3; assumption|exact Ewt].
    - destruct C1 as [C1 _]. cbn [nok] in C1. rewrite Ep in C1. inversion C1. assumption. }
  assert (E0 : init_holder (dctx g) = match write_columns g with x :: r => add_write_column g2 (x :: r) | [] => g2 end).
  { unfold init_holder, dctx. cbn [c_cte c_write c_write_columns]. fold g1. fold g2. destruct (write_columns g); reflexivity. }
  cbv zeta. rewrite E0. set (g0 := match write_columns g with x :: r => add_write_column g2 (x :: r) | [] => g2 end) in *.
  destruct Hcs as [C1 C2].
  assert (Ecte : sq_cte g0 = sq_cte g).
  { unfold sq_cte at 1. rewrite C2, W2 by discriminate. rewrite holder_nodes_hn, G2, hn_cte_nodes. reflexivity. }
  assert (Hwr : forall d, In d (holder_nodes g0 "write") -> exists w, In w (sq_write g) /\ dataset_eqb w d = true).
  { intros d Hd. rewrite C2 in Hd. apply W3'. exact Hd. }
  split; [|split; [exact Ecte|split; [|exact Hwr]]].
  - split; [exact C1|]. split.
    + destruct P2 as [Q1 Q2]. split; [intros c Hc; rewrite Ecte in Hc; apply Q1; exact Hc|intros n Hn; rewrite Ecte; apply Q2; exact Hn].
    + intros d1 d2 H1 H2. destruct (Hwr d1 H1) as (w1 & Hw1 & E1). destruct (Hwr d2 H2) as (w2 & Hw2 & E2).
      apply (dataset_eqb_trans d1 w1 d2); [apply dataset_eqb_true_sym; exact E1|]. apply (dataset_eqb_trans w1 w2 d2); [apply P3; assumption|exact E2].
  - rewrite C2, W2 by discriminate. rewrite holder_nodes_hn, G2, hn_cte_nodes. reflexivity.
Qed.

Lemma Post_delegate g sub ctes reads :
  Pre g ctes -> (forall d, In d (holder_nodes g "write") -> dk d <> KSubq) ->
  Post (init_holder (dctx g)) sub reads -> Post g (compose g sub) reads.
Proof.
  intros Hpre Hnsq (A1 & A2 & A3 & A4 & A5). destruct (init_delegate g ctes Hpre) as (I0 & I1 & I2 & I3). destruct Hpre as (P1 & P2 & P3).
  pose proof (gok_compose g sub P1 A1) as Hc. split; [exact Hc|]. split; [|split; [|split]].
  - intros x. rewrite (tset_compose g sub "read" x P1 A1) by discriminate. rewrite A2. unfold tset at 2. rewrite I2.
    split; [intros [H|[(d & [] & _)|H]]; auto|intros [H|H]; auto].
  - intros d Hd. destruct (tag_compose_sound g sub "write" d A1 Hd) as [H|(d' & Hd' & Ed)]; [exact H|].
    apply A3 in Hd'. destruct (I3 d' Hd') as (w & Hw & Ew).
    assert (Hw' : In w (holder_nodes (compose g sub) "write")).
    { apply tag_compose_mono; [exact A1|right; apply Hnsq; exact Hw|exact Hw]. }
    assert (E : dataset_eqb w d = true) by (apply (dataset_eqb_trans w d' d); assumption).
    rewrite <- (tagged_eqb_eq _ "write" "write" w d Hc Hw' Hd E). exact Hw.
  - intros d Hd Hdk. apply tag_compose_mono; [exact A1|right; exact Hdk|exact Hd].
  - intros d. split.
    + intros Hd. destruct (tag_compose_sound g sub "cte" d A1 Hd) as [H|(d' & Hd' & Ed)]; [exact H|].
      apply A5 in Hd'. rewrite I1 in Hd'.
      assert (Hd'' : In d' (holder_nodes (compose g sub) "cte")) by (apply tag_compose_mono; [exact A1|left; discriminate|exact Hd']).
      rewrite <- (tagged_eqb_eq _ "cte" "cte" d' d Hc Hd'' Hd Ed). exact Hd'.
    + intros Hd. apply tag_compose_mono; [exact A1|left; discriminate|exact Hd].
Qed.

Definition no_subq (g : graph) : Prop := forall n a, In (n, a) (gnodes g) -> nsubq n = false.

Lemma no_subq_has_node g d : no_subq g -> dk d = KSubq -> has_node g (NData d) = false.
Proof.
  intros H Hk. unfold has_node. destruct (has_node_l (NData d) (gnodes g)) eqn:E; [|reflexivity].
  apply has_node_l_In in E. destruct E as (m & a & Hin & Em).
  specialize (H m a Hin). rewrite <- (nsubq_eqb _ _ Em) in H. cbn [nsubq] in H. rewrite Hk in H. discriminate.
Qed.

Section Nav3.
Variable noise : list seg.
Hypothesis Hnoise : noise_ok noise = true.
Variable e : env.
Hypothesis Henv : env_ok e = true.

Notation r_brq := (r_brq noise).

Lemma delegate_body g ctes f k b :
  Pre g ctes -> (forall d, In d (holder_nodes g "write") -> dk d <> KSubq) ->
  body_ok k b = true -> qd k b < f ->
  exists g', ex_delegate f e XSelect (r_query noise k b) g true = Ok g' /\ Post g g' (q_reads k (e_cfg e) ctes b).
Proof.
  intros Hpre Hns Hb Hf. unfold ex_delegate. fold (dctx g).
  destruct (init_delegate g ctes Hpre) as (I0 & _).
  destruct (body_main noise Hnoise e Henv ctes k b f (dctx g) (r_query noise k b) Hb Hf I0 (or_introl eq_refl)) as (sub & E & HP).
  rewrite E. exists (compose g sub). split; [reflexivity|]. apply (Post_delegate g sub ctes _ Hpre Hns HP).
Qed.

Definition r_cte (k : nat) (n : string) (c : query) : seg :=
  node "common_table_expression" ["common_table_expression"] (sep noise [ident n; kw "as"; r_brq k c]).

Lemma r_with_eq k n c b :
  r_query noise (S k) (QWith n c b) =
  node "with_compound_statement" ["with_compound_statement"] (sep noise [kw "with"; r_cte k n c; r_query noise k b]).
Proof. reflexivity. Qed.

Lemma nn_rq k q : nn (r_query noise k q) = true.
Proof. destruct k; [reflexivity|]. destruct q; reflexivity. Qed.

Lemma lcs_with k n c b bb :
  list_child_segments (r_query noise (S k) (QWith n c b)) bb = [kw "with"; r_cte k n c; r_query noise k b].
Proof. rewrite r_with_eq, (lcs_node noise Hnoise) by reflexivity. cbn [filter]. rewrite nn_rq. reflexivity. Qed.

Lemma list_subquery_brq k c : body_ok k c = true -> list_subquery (r_brq k c) = Ok [mk_subquery (r_brq k c) None].
Proof.
  intros Hc. destruct (body_ok_pos k c Hc) as (k' & ->). unfold list_subquery.
  assert (E : get_children (r_brq (S k') c) ["from_expression"] = []).
  { u_brq. rewrite (get_children_sep noise Hnoise) by reflexivity. cbn [filter]. destruct c; reflexivity. }
  rewrite E. change (ty_in (r_brq (S k') c) ["select_clause"; "from_clause"; "where_clause"]) with false. cbn iota.
  rewrite (is_subquery_brq noise Hnoise k' c (body_ok_is_body _ _ Hc)). reflexivity.
Qed.

Lemma cte_step_cte f g subs k n c :
  body_ok k c = true -> id_ok n = true ->
  cte_step f e (Ok (g, subs)) (r_cte k n c) =
  Ok (add_cte g (mk_subquery (r_brq k c) (Some n)), subs ++ [mk_subquery (r_brq k c) (Some n)]).
Proof.
  intros Hc Hn. unfold cte_step. change (ty_in (r_cte k n c) ["select_statement"; "set_expression"]) with false.
  change (tyis (r_cte k n c) "insert_statement") with false. change (tyis (r_cte k n c) "update_statement") with false.
  change (tyis (r_cte k n c) "common_table_expression") with true. cbn iota.
  unfold r_cte. rewrite (lcs_node noise Hnoise) by reflexivity. cbn [filter].
  change (nn (ident n)) with true. change (nn (kw "as")) with true. change (nn (r_brq k c)) with true. cbn iota.
  cbn [fold_left]. unfold cte_inner at 3. change (tyis (ident n) "identifier") with true. cbn iota.
  unfold cte_inner at 2. change (tyis (kw "as") "identifier") with false. change (tyis (kw "as") "bracketed") with false. cbn iota.
  unfold cte_inner. change (tyis (r_brq k c) "identifier") with false. change (tyis (r_brq k c) "bracketed") with true. cbn iota.
  rewrite (list_subquery_brq k c Hc). cbn [fst map raw ident leaf].
  unfold mk_subquery. cbn [dk deq dschema draw dquery]. rewrite (id_ok_escape n Hn). reflexivity.
Qed.

Lemma cte_step_kw f g subs w :
  cte_step f e (Ok (g, subs)) (kw w) = Ok (g, subs).
Proof. reflexivity. Qed.

Lemma cte_step_body f g subs k b :
  body_ok k b = true ->
  cte_step f e (Ok (g, subs)) (r_query noise k b) = (do g' <- ex_delegate f e XSelect (r_query noise k b) g true; Ok (g', subs)).
Proof.
  intros Hb. destruct (body_ok_pos k b Hb) as (k' & ->). unfold cte_step.
  assert (E : ty_in (r_query noise (S k') b) ["select_statement"; "set_expression"] = true) by (destruct b; [reflexivity|reflexivity|discriminate]).
  rewrite E. reflexivity.
Qed.

End Nav3.

(** *** the guard on CTE names: the definition of a CTE does not read a table of the CTE's own name *)
Definition rels_size (from : list rel) : nat := fold_right (fun r acc => rel_size r + acc) 0 from.

Lemma q_size_select items from cj wh :
  q_size (QSelect items from cj wh) = S (rels_size from + match wh with Some (_, sq) => q_size sq | None => 0 end).
Proof.
  assert (E : forall l, (fix rs (l : list rel) : nat := match l with [] => 0 | r :: t => rel_size r + rs t end) l = rels_size l).
  { induction l as [|r rs IH]; [reflexivity|]. cbn [rels_size fold_right]. rewrite IH. reflexivity. }
  cbn [q_size]. rewrite E. reflexivity.
Qed.

Lemma rel_size_in r from : In r from -> rel_size r <= rels_size from.
Proof.
  induction from as [|a rs IH]; intros H; [destruct H|]. cbn [rels_size fold_right]. destruct H as [H|H]; [subst; lia|].
  specialize (IH H). unfold rels_size in IH. lia.
Qed.

Lemma rels_flat_body k from : forallb (relk_ok k) from = true -> flat_map rels_flat from = from.
Proof.
  induction from as [|r rs IH]; [reflexivity|]. cbn [forallb flat_map]. intros H. apply andb_true_iff in H. destruct H as [H1 H2].
  rewrite (IH H2). destruct r; try discriminate; reflexivity.
Qed.

Lemma q_reads_fuel : forall k K q ds ctes,
  body_ok k q = true -> q_size q < K -> q_reads K ds ctes q = q_reads k ds ctes q.
Proof.
  induction k as [|k IH]; intros K q ds ctes Hq HK; [discriminate|]. destruct K as [|K]; [lia|].
  destruct q as [items from cj wh|a b|n c b]; [| |discriminate].
  - destruct (body_ok_select k items from cj wh Hq) as (_ & _ & Hrels & Hwh). rewrite q_size_select in HK.
    cbn [q_reads]. rewrite (rels_flat_body k from Hrels). f_equal.
    + apply flat_map_ext_in'. intros r Hr. pose proof (rel_size_in r from Hr) as Hs.
      rewrite forallb_forall in Hrels. specialize (Hrels r Hr). destruct r as [t al|q' a|x y]; [reflexivity| |discriminate].
      cbn [relk_ok] in Hrels. apply andb_true_iff in Hrels. cbn [rel_size] in Hs. apply IH; [exact (proj2 Hrels)|lia].
    + destruct wh as [[c sq]|]; [|reflexivity]. apply IH; [exact (proj2 Hwh)|lia].
  - cbn [body_ok] in Hq. apply andb_true_iff in Hq. destruct Hq as [Hq Hb]. apply andb_true_iff in Hq. destruct Hq as [_ Ha].
    cbn [q_size] in HK. cbn [q_reads]. rewrite (IH K a ds ctes Ha), (IH K b ds ctes Hb) by lia. reflexivity.
Qed.

Lemma tref_str_bare_inj n m : tref_str "" (None, n) = tref_str "" (None, m) -> n = m.
Proof. unfold tref_str. cbn. intros H. inversion H. reflexivity. Qed.

Lemma tref_str_schema_neq s name n : schema_ok s = true -> tref_str "" (Some s, name) <> tref_str "" (None, n).
Proof.
  intros Hs H. unfold tref_str in H. cbn [fst snd String.eqb] in H.
  pose proof (schema_ok_idc s Hs) as Hc. destruct s as [|ch r]; [cbn in Hs; discriminate|].
  cbn in H. inversion H. subst ch. cbn in Hc. discriminate.
Qed.

Lemma q_reads_cte_irrelevant : forall k q ds n ctes,
  body_ok k q = true -> ~ In (tref_str "" (None, n)) (q_reads k "" ctes q) ->
  q_reads k ds (n :: ctes) q = q_reads k ds ctes q.
Proof.
  induction k as [|k IH]; intros q ds n ctes Hq Hnot; [discriminate|]. destruct q as [items from cj wh|a b|m c b]; [| |discriminate].
  - destruct (body_ok_select k items from cj wh Hq) as (_ & _ & Hrels & Hwh). cbn [q_reads] in *.
    rewrite (rels_flat_body k from Hrels) in *. f_equal.
    + apply flat_map_ext_in'. intros r Hr.
      assert (Hnr : forall x, In x (match r with
                 | RTable t _ => match fst t with None => if mem_string (snd t) ctes then [] else [tref_str "" t] | Some _ => [tref_str "" t] end
                 | RDerived q' _ => q_reads k "" ctes q' | RGroup _ _ => [] end) -> x <> tref_str "" (None, n)).
      { intros x Hx E. subst x. apply Hnot. apply in_app_iff. left. apply in_flat_map. exists r. split; [exact Hr|exact Hx]. }
      rewrite forallb_forall in Hrels. specialize (Hrels r Hr). destruct r as [t al|q' a|x y]; [| |discriminate].
      * destruct t as [[s|] name]; cbn [fst snd] in *; [reflexivity|]. cbn [mem_string].
        destruct (String.eqb name n) eqn:E; [|reflexivity]. apply String.eqb_eq in E. subst name. cbn [orb].
        destruct (mem_string n ctes) eqn:Em; [reflexivity|]. exfalso. apply (Hnr _ (or_introl eq_refl)). reflexivity.
      * cbn [relk_ok] in Hrels. apply andb_true_iff in Hrels. apply IH; [exact (proj2 Hrels)|]. intros Hin. exact (Hnr _ Hin eq_refl).
    + destruct wh as [[c sq]|]; [|reflexivity]. apply IH; [exact (proj2 Hwh)|]. intros Hin. apply Hnot. apply in_app_iff. right. exact Hin.
  - cbn [body_ok] in Hq. apply andb_true_iff in Hq. destruct Hq as [Hq Hb]. apply andb_true_iff in Hq. destruct Hq as [_ Ha].
    cbn [q_reads] in *. rewrite (IH a ds n ctes Ha), (IH b ds n ctes Hb); [reflexivity| |];
      intros Hin; apply Hnot; apply in_app_iff; [right|left]; exact Hin.
Qed.

Section Nav4.
Variable noise : list seg.
Hypothesis Hnoise : noise_ok noise = true.
Variable e : env.
Hypothesis Henv : env_ok e = true.

Lemma no_subq_writes g d : no_subq g -> In d (holder_nodes g "write") -> dk d <> KSubq.
Proof.
  intros H Hd. rewrite holder_nodes_hn, In_hn in Hd. destruct Hd as (a & Hin & _). specialize (H _ _ Hin). cbn [nsubq] in H.
  intros E. rewrite E in H. discriminate.
Qed.

Lemma xcte_ok f ctx k n c b :
  Pre (init_holder ctx) [] -> no_subq (init_holder ctx) ->
  body_ok k c = true -> body_ok k b = true -> id_ok n = true ->
  ~ In (tref_str "" (None, n)) (q_reads k "" [] c) ->
  qd (S k) (QWith n c b) < f ->
  exists g, extract f e XCte (r_query noise (S k) (QWith n c b)) ctx = Ok g /\ gok g /\
            (forall x, tset g "read" x <-> tset (init_holder ctx) "read" x \/ In x (q_reads (S k) (e_cfg e) [] (QWith n c b))) /\
            (forall d, In d (holder_nodes g "write") <-> In d (holder_nodes (init_holder ctx) "write")).
Proof.
  intros Hpre Hns Hc Hb Hn Hguard Hf. set (g0 := init_holder ctx) in *.
  destruct f as [|f]; [lia|]. cbn [qd] in Hf.
  set (D := mk_subquery (r_brq noise k c) (Some n)).
  assert (HD : data_ok D /\ dk D = KSubq) by (split; [unfold data_ok; cbn; discriminate|reflexivity]).
  destruct Hpre as (P1 & [P2 P2'] & P3).
  assert (Ecte0 : sq_cte g0 = []).
  { destruct (sq_cte g0) as [|c0 r] eqn:E; [reflexivity|]. destruct (P2 c0) as [[] _]. left. reflexivity. }
  assert (Eg1 : gnodes (add_cte g0 D) = gnodes g0 ++ [(NData D, [("cte", true)])]).
  { unfold add_cte, add_node. cbn [gnodes]. apply upsert_new. apply no_subq_has_node; [exact Hns|exact (proj2 HD)]. }
  set (g1 := add_cte g0 D) in *.
  assert (Hhn : forall k0, holder_nodes g1 k0 = holder_nodes g0 k0 ++ (if String.eqb k0 "cte" then [D] else [])).
  { intros k0. rewrite !holder_nodes_hn, Eg1, hn_app. f_equal. unfold hn. cbn [flat_map fst snd]. unfold attr_true. cbn [attr_get].
    destruct (String.eqb k0 "cte"); reflexivity. }
  assert (Hpre1 : Pre g1 [n]).
  { split; [apply gok_add_tag; [exact P1|exact (proj1 HD)]|]. split.
    - unfold cte_rel, sq_cte. rewrite Hhn. fold (sq_cte g0). rewrite Ecte0. cbn [String.eqb Ascii.eqb Bool.eqb app]. split.
      + intros c0 [<-|[]]. split; [left; unfold D; cbn [mk_subquery dalias]; symmetry; apply id_ok_escape; exact Hn|reflexivity].
      + intros m [<-|[]]. exists D. split; [left; reflexivity|]. unfold D. cbn [mk_subquery dalias]. apply id_ok_escape. exact Hn.
    - intros d1 d2 H1 H2. unfold sq_write in *. rewrite Hhn in H1, H2. cbn [String.eqb Ascii.eqb Bool.eqb] in H1, H2. rewrite app_nil_r in H1, H2.
      apply P3; assumption. }
  assert (Hns1 : forall d, In d (holder_nodes g1 "write") -> dk d <> KSubq).
  { intros d Hd. rewrite Hhn in Hd. cbn [String.eqb Ascii.eqb Bool.eqb] in Hd. rewrite app_nil_r in Hd. apply (no_subq_writes g0 d Hns Hd). }
  rewrite extract_cte_eq, (lcs_with noise Hnoise). cbn [fold_left]. fold g0. rewrite cte_step_kw.
  rewrite (cte_step_cte noise Hnoise e f g0 [] k n c Hc Hn). fold D. fold g1. cbn [app].
  rewrite (cte_step_body noise e f g1 [D] k b Hb).
  destruct (delegate_body noise Hnoise e Henv g1 [n] f k b Hpre1 Hns1 Hb ltac:(lia)) as (g2 & E2 & HP2). rewrite E2. cbn [fst snd].
  change [D] with (map (mk_sq noise) [(k, c, Some n)]).
  destruct (ex_subquery_ok noise Hnoise e [n] (S k)
              (fun k' q' f' ctx' Hk' Hq' Hf' Hp' => body_main noise Hnoise e Henv [n] k' q' f' ctx' _ Hq' Hf' Hp' (or_intror eq_refl))
              f [(k, c, Some n)] g2) as (g3 & E3 & HP3).
  { constructor; [|constructor]. cbn [fst snd]. split; [lia|]. split; [exact Hc|lia]. }
  { apply (Pre_Post _ _ _ _ Hpre1 HP2). }
  rewrite E3. exists g3. pose proof (Post_trans _ _ _ _ _ HP2 HP3) as (A1 & A2 & A3 & A4 & _).
  split; [reflexivity|]. split; [exact A1|]. split.
  - intros x. rewrite A2. rewrite (tset_ext g0 g1 "read" x) by (rewrite Hhn; cbn [String.eqb Ascii.eqb Bool.eqb]; apply app_nil_r).
    cbn [flat_map fst snd q_reads]. rewrite app_nil_r, !in_app_iff. rewrite (q_reads_cte_irrelevant k c (e_cfg e) n [] Hc Hguard). tauto.
  - intros d. split.
    + intros Hd. apply A3 in Hd. rewrite Hhn in Hd. cbn [String.eqb Ascii.eqb Bool.eqb] in Hd. rewrite app_nil_r in Hd. exact Hd.
    + intros Hd. apply A4; [rewrite Hhn; cbn [String.eqb Ascii.eqb Bool.eqb]; rewrite app_nil_r; exact Hd|apply (no_subq_writes g0 d Hns Hd)].
Qed.

End Nav4.

(* ================================================================== *)
(** * Step 6: WITH n AS (c) b at the top of the statement, c and b in the fragment of step 5

    Extra hypothesis [sshape_q]: the WITH is the outermost query, its definition and body contain no further WITH.
    It is needed: [lemma_A_check] FAILS when the body of a WITH is itself a WITH (the CTE extractor does not look at a
    with_compound_statement child) and when a WITH nested in a derived table defines a name that the enclosing query uses
    as a table (the nested CTE is visible in the enclosing holder after the sub-query was composed into it). *)
Definition sshape_q (q : query) : bool :=
  match q with
  | QWith _ c b => qshape (q_size q) c && qshape (q_size q) b
  | _ => qshape (S (q_size q)) q
  end.

Lemma no_subq_empty : no_subq empty_graph.
Proof. intros n a []. Qed.

Lemma with_facts k n c b :
  frag_query (S k) (QWith n c b) = true -> names_ok_q (S k) [] (QWith n c b) = true ->
  qshape k c = true -> qshape k b = true ->
  body_ok k c = true /\ body_ok k b = true /\ id_ok n = true /\ ~ In (tref_str "" (None, n)) (q_reads k "" [] c).
Proof.
  intros Hf Hn Hsc Hsb. cbn [frag_query names_ok_q] in Hf, Hn.
  apply andb_true_iff in Hf. destruct Hf as [F1 F2].
  apply andb_true_iff in Hn. destruct Hn as [Hn N5]. apply andb_true_iff in Hn. destruct Hn as [Hn N4].
  apply andb_true_iff in Hn. destruct Hn as [Hn N3]. apply andb_true_iff in Hn. destruct Hn as [N1 N2].
  pose proof (body_ok_of k [] c F1 N3 Hsc) as Hc. pose proof (body_ok_of k [n] b F2 N4 Hsb) as Hb.
  split; [exact Hc|]. split; [exact Hb|]. split; [exact N1|].
  apply negb_true_iff in N5. apply mem_string_false in N5.
  rewrite (q_reads_fuel k (S (q_size c)) c "" [] Hc) in N5 by lia. exact N5.
Qed.

Theorem lemma_A_step6 : forall noise e q,
  noise_ok noise = true -> env_ok e = true -> stmt_ok (SQuery q) = true -> sshape_q q = true ->
  stmt_reads (analyze e false (r_stmt noise (SQuery q))) = sort_strings (spec_reads (e_cfg e) (SQuery q)) /\
  stmt_writes (analyze e false (r_stmt noise (SQuery q))) = sort_strings (spec_writes (e_cfg e) (SQuery q)).
Proof.
  intros noise e q Hn He Hok Hs. destruct q as [items from cj wh|a b|n c b]; try (apply lemma_A_step5; assumption).
  unfold stmt_ok in Hok. apply andb_true_iff in Hok. destruct Hok as [Hf Hnm].
  unfold sshape_q in Hs. apply andb_true_iff in Hs. destruct Hs as [Hsc Hsb].
  set (k := q_size (QWith n c b)) in *.
  destruct (with_facts k n c b Hf Hnm Hsc Hsb) as (Hc & Hb & Hid & Hguard).
  cbn [r_stmt]. fold k. set (stmt := r_query noise (S k) (QWith n c b)).
  assert (Ea : analyze e false stmt = extract (3 * depth stmt + 10) e XCte stmt empty_ctx) by reflexivity.
  assert (Hfuel : qd (S k) (QWith n c b) < 3 * depth stmt + 10).
  { pose proof (depth_qd noise (S k) (QWith n c b)). fold stmt in H. lia. }
  destruct (xcte_ok noise Hn e He _ empty_ctx k n c b Pre_empty no_subq_empty Hc Hb Hid Hguard Hfuel) as (g & E & G1 & G2 & G3).
  rewrite Ea. fold stmt in E. rewrite E. change (init_holder empty_ctx) with empty_graph in *. split.
  - unfold spec_reads. fold k. apply (stmt_reads_spec _ g); [reflexivity|exact G1|]. intros x. rewrite G2, tset_empty. tauto.
  - unfold spec_writes. apply (stmt_writes_spec _ g); [reflexivity|exact G1|constructor|]. intros x. cbn [In]. split; [|tauto].
    intros (d & Hd & _). apply G3 in Hd. destruct Hd.
Qed.

(* ================================================================== *)
(** * Part N5: INSERT / CREATE TABLE AS / CREATE VIEW AS *)
Section Nav5.
Variable noise : list seg.
Hypothesis Hnoise : noise_ok noise = true.
Variable e : env.
Hypothesis Henv : env_ok e = true.

Lemma ci_kw_target f stmt g tf sf w :
  mem_string (upper w) ["INSERT"; "INTO"; "OVERWRITE"; "TABLE"; "VIEW"; "DIRECTORY"] = true ->
  ci_step f e stmt (Ok (g, tf, sf)) (kw w) = Ok (g, true, sf).
Proof.
  intros H. unfold ci_step. change (tyis (kw w) "with_compound_statement") with false.
  change (tyis (kw w) "bracketed") with false. change (ty_in (kw w) ["select_statement"; "set_expression"]) with false.
  change (tyis (kw w) "values_clause") with false. change (tyis (kw w) "keyword") with true. cbn [andb]. cbn iota.
  change (raw_upper (kw w)) with (upper w). rewrite H. reflexivity.
Qed.

Lemma ci_kw_other f stmt g sf w :
  mem_string (upper w) ["INSERT"; "INTO"; "OVERWRITE"; "TABLE"; "VIEW"; "DIRECTORY"] = false ->
  mem_string (upper w) ["LIKE"; "CLONE"] = false ->
  ci_step f e stmt (Ok (g, false, sf)) (kw w) = Ok (g, false, sf).
Proof.
  intros H H2. unfold ci_step. change (tyis (kw w) "with_compound_statement") with false.
  change (tyis (kw w) "bracketed") with false. change (ty_in (kw w) ["select_statement"; "set_expression"]) with false.
  change (tyis (kw w) "values_clause") with false. change (tyis (kw w) "keyword") with true. cbn [andb]. cbn iota.
  change (raw_upper (kw w)) with (upper w). rewrite H, H2. reflexivity.
Qed.

Lemma ci_tref f stmt g t :
  ci_step f e stmt (Ok (g, true, false)) (r_tref t) = (do d <- table_of_seg e (r_tref t) None; Ok (add_write g d, false, false)).
Proof.
  unfold ci_step. change (tyis (r_tref t) "with_compound_statement") with false.
  change (tyis (r_tref t) "bracketed") with false. change (ty_in (r_tref t) ["select_statement"; "set_expression"]) with false.
  change (tyis (r_tref t) "values_clause") with false. change (tyis (r_tref t) "keyword") with false. cbn [andb]. cbn iota.
  change (ty_in (r_tref t) ["table_reference"; "object_reference"]) with true. cbn iota.
  destruct (table_of_seg e (r_tref t) None) as [d|err]; [|reflexivity]. rewrite (proj1 (env_facts e Henv)). reflexivity.
Qed.

Lemma ci_body f stmt g k b :
  body_ok k b = true ->
  ci_step f e stmt (Ok (g, false, false)) (r_query noise k b) =
  (do g' <- ex_delegate f e XSelect (r_query noise k b) g true; Ok (g', false, false)).
Proof.
  intros Hb. destruct (body_ok_pos k b Hb) as (k' & ->). unfold ci_step.
  assert (E : tyis (r_query noise (S k') b) "with_compound_statement" = false /\ tyis (r_query noise (S k') b) "bracketed" = false /\
              ty_in (r_query noise (S k') b) ["select_statement"; "set_expression"] = true).
  { destruct b; [repeat split; reflexivity|repeat split; reflexivity|discriminate]. }
  destruct E as (E1 & E2 & E3). rewrite E1, E2, E3. cbn [andb]. cbn iota.
  destruct (ex_delegate f e XSelect (r_query noise (S k') b) g true); reflexivity.
Qed.

Lemma ci_with f stmt g k n c b :
  ci_step f e stmt (Ok (g, false, false)) (r_query noise (S k) (QWith n c b)) =
  (do g' <- ex_delegate f e XCte (r_query noise (S k) (QWith n c b)) g true; Ok (g', false, false)).
Proof.
  unfold ci_step. change (tyis (r_query noise (S k) (QWith n c b)) "with_compound_statement") with true. cbn iota.
  destruct (ex_delegate f e XCte (r_query noise (S k) (QWith n c b)) g true); reflexivity.
Qed.

(** the column list of an INSERT *)
Definition col_children (cs : list string) : list seg := lpar :: intersperse comma (map (r_colref None) cs) ++ [rpar].
Definition r_cols (cs : list string) : seg := node "bracketed" ["bracketed"] (sep noise (col_children cs)).

Lemma Forall_col_children (P : seg -> Prop) cs :
  P lpar -> P comma -> P rpar -> (forall c, P (r_colref None c)) -> Forall P (col_children cs).
Proof.
  intros H1 H2 H3 H4. unfold col_children. constructor; [exact H1|]. apply Forall_app. split.
  - apply Forall_intersperse; [exact H2|]. apply Forall_forall. intros x Hx. apply in_map_iff in Hx. destruct Hx as (c & <- & _). apply H4.
  - constructor; [exact H3|constructor].
Qed.

Lemma existsb_Forall_false (p : seg -> bool) l : Forall (fun x => p x = false) l -> existsb p l = false.
Proof. intros H. apply existsb_none. rewrite Forall_forall in H. exact H. Qed.

Lemma lcs_cols cs : list_child_segments (r_cols cs) true = map (r_colref None) cs.
Proof.
  unfold list_child_segments. change (tyis (r_cols cs) "bracketed") with true. cbn [andb].
  assert (E1 : is_set_expression (r_cols cs) = false).
  { unfold is_set_expression. change (tyis (r_cols cs) "set_expression") with false. cbn [orb]. unfold r_cols. cbn [children node].
    rewrite (existsb_sep noise Hnoise) by (intros x Hx; apply noise_tyis; [exact Hx|reflexivity]).
    apply existsb_Forall_false. apply Forall_col_children; reflexivity. }
  rewrite E1.
  assert (E2 : iter_expanding ["expression"] (r_cols cs) = sep noise (col_children cs)).
  { rewrite TriviaProofs.iter_eq. unfold r_cols. cbn [children node]. apply flat_map_single. intros x Hx.
    apply (In_sep_inv noise) in Hx. destruct Hx as [Hx|Hx].
    - assert (H : Forall (fun x => is_type x ["expression"] = false) (col_children cs)) by (apply Forall_col_children; reflexivity).
      rewrite Forall_forall in H. rewrite (H x Hx). reflexivity.
    - rewrite (noise_is_type x ["expression"] (noise_in noise Hnoise x Hx) eq_refl). reflexivity. }
  rewrite E2. rewrite (flat_map_sep noise Hnoise).
  - unfold col_children. cbn [flat_map]. change (ty_in lpar _) with false. cbn iota. change (children lpar) with (@nil seg). cbn [filter app].
    rewrite flat_map_app. cbn [flat_map]. change (ty_in rpar _) with false. cbn iota. change (children rpar) with (@nil seg). cbn [filter app].
    rewrite app_nil_r. rewrite flat_map_intersperse by reflexivity. apply flat_map_single. intros x Hx. apply in_map_iff in Hx.
    destruct Hx as (c & <- & _). reflexivity.
  - intros x Hx. rewrite (noise_ty_in x ["column_reference"; "column_definition"] Hx eq_refl). rewrite (proj1 (proj2 (noise_seg_facts x Hx))). reflexivity.
Qed.

Lemma clean_cols ts cs :
  not_trivia ts = true ->
  existsb (fun x => mem_string x ts)
    ["bracketed"; "start_bracket"; "end_bracket"; "comma"; "raw"; "symbol"; "column_reference"; "object_reference"; "identifier"; "naked_identifier"] = false ->
  clean ts (r_cols cs).
Proof.
  intros Hts H. cbn [existsb] in H. repeat (apply orb_false_iff in H; destruct H as [?E H]).
  apply (clean_sep_node noise Hnoise); [exact Hts|cbn [existsb]; rewrite E; reflexivity|].
  apply Forall_col_children.
  - apply clean_leaf. cbn [existsb]. rewrite E0, E3, E4. reflexivity.
  - apply clean_leaf. cbn [existsb]. rewrite E2, E3, E4. reflexivity.
  - apply clean_leaf. cbn [existsb]. rewrite E1, E3, E4. reflexivity.
  - intros c. apply clean_node; [cbn [existsb]; rewrite E5, E6; reflexivity|]. constructor; [|constructor].
    apply clean_leaf. cbn [existsb]. rewrite E7, E8, E3. reflexivity.
Qed.

Lemma ci_cols f stmt g cs :
  exists cols, ci_step (S f) e stmt (Ok (g, false, false)) (r_cols cs) = Ok (add_write_column g cols, false, false) /\
               Forall (fun c => cparents c = []) cols.
Proof.
  unfold ci_step. change (tyis (r_cols cs) "with_compound_statement") with false. change (tyis (r_cols cs) "bracketed") with true.
  assert (E1 : existsb (fun c => tyis c "with_compound_statement") (children (r_cols cs)) = false).
  { unfold r_cols. cbn [children node]. rewrite (existsb_sep noise Hnoise) by (intros x Hx; apply noise_tyis; [exact Hx|reflexivity]).
    apply existsb_Forall_false. apply Forall_col_children; reflexivity. }
  rewrite E1. cbn [andb]. change (ty_in (r_cols cs) ["select_statement"; "set_expression"]) with false.
  change (tyis (r_cols cs) "values_clause") with false. cbn iota. cbn [flat_map].
  rewrite (clean_crawl _ _ (r_cols cs)) by (apply clean_cols; reflexivity). cbn [app]. rewrite lcs_cols.
  assert (E2 : forallb (fun x => ty_in x ["column_reference"; "column_definition"]) (map (r_colref None) cs) = true).
  { apply forallb_forall. intros x Hx. apply in_map_iff in Hx. destruct Hx as (c & <- & _). reflexivity. }
  rewrite E2.
  match goal with |- context [map_res ?F (map (r_colref None) cs)] =>
    destruct (map_res_inv (fun c => cparents c = []) F (map (r_colref None) cs)) as (cols & E3 & Hcols) end.
  { intros x Hx. apply in_map_iff in Hx. destruct Hx as (c & <- & _). change (tyis (r_colref None c) "column_definition") with false. cbn iota.
    unfold column_of_seg. change (tyis (r_colref None c) "select_clause_element") with false. cbn iota.
    cbn [extract_sources]. change (ty_in (r_colref None c) ["identifier"; "column_reference"]) with true. cbn [orb].
    rewrite (ecq_colref None c). eexists. split; [reflexivity|reflexivity]. }
  rewrite E3. exists cols. split; [reflexivity|exact Hcols].
Qed.

(** reads and table writes of a holder relative to an earlier one *)
Definition RW (g0 g : graph) (reads : list string) : Prop :=
  gok g /\ (forall x, tset g "read" x <-> tset g0 "read" x \/ In x reads) /\ (forall x, tset g "write" x <-> tset g0 "write" x).

Lemma Post_RW g0 g r : Post g0 g r -> RW g0 g r.
Proof.
  intros (A1 & A2 & A3 & A4 & _). split; [exact A1|]. split; [exact A2|]. intros x. unfold tset. split.
  - intros (d & H1 & H2 & H3). exists d. split; [apply A3; exact H1|auto].
  - intros (d & H1 & H2 & H3). exists d. split; [apply A4; [exact H1|rewrite H2; discriminate]|auto].
Qed.

Lemma no_subq_keys g : no_subq g <-> (forall m, In m (map fst (gnodes g)) -> nsubq m = false).
Proof.
  split.
  - intros H m Hm. apply in_map_iff in Hm. destruct Hm as ([m' a] & <- & Hin). exact (H _ _ Hin).
  - intros H n a Hin. apply H. apply in_map_iff. exists (n, a). auto.
Qed.

Lemma no_subq_add_node g n a : no_subq g -> nsubq n = false -> no_subq (add_node g n a).
Proof.
  rewrite !no_subq_keys. intros H Hn m Hm. cbn [add_node gnodes] in Hm. rewrite keys_upsert in Hm.
  destruct (has_node_l n (gnodes g)); [apply H; exact Hm|]. apply in_app_iff in Hm. destruct Hm as [Hm|[<-|[]]]; [apply H; exact Hm|exact Hn].
Qed.

Lemma no_subq_add_edge g u v a : no_subq g -> nsubq u = false -> nsubq v = false -> no_subq (add_edge g u v a).
Proof.
  intros H Hu Hv. pose proof (no_subq_add_node _ v [] (no_subq_add_node g u [] H Hu) Hv) as H2.
  intros n b Hin. apply (H2 n b). exact Hin.
Qed.

Lemma no_subq_add_write_column g cols : no_subq g -> no_subq (add_write_column g cols).
Proof.
  intros H. unfold add_write_column. destruct (sq_write g) as [|tgt r] eqn:E; [exact H|].
  assert (Ht : nsubq (NData tgt) = false).
  { assert (Hin : In tgt (holder_nodes g "write")) by (unfold sq_write in E; rewrite E; left; reflexivity).
    rewrite holder_nodes_hn, In_hn in Hin. destruct Hin as (a & Hin & _). exact (H _ _ Hin). }
  assert (G : forall g' i, no_subq g' -> no_subq (fst (fold_left (fun acc c => let '(g', idx) := acc in
             (add_edge g' (NData tgt) (NCol (add_parent c tgt)) (e_has_column (Some idx)), S idx)) cols (g', i)))).
  { induction cols as [|c cs IH]; intros g' i Hg'; cbn [fold_left]; [exact Hg'|]. apply IH. apply no_subq_add_edge; [exact Hg'|exact Ht|reflexivity]. }
  apply G. exact H.
Qed.

Lemma no_subq_init_delegate g :
  sq_cte g = [] -> (forall d, In d (holder_nodes g "write") -> dk d <> KSubq) -> no_subq (init_holder (dctx g)).
Proof.
  intros Hc Hw. unfold init_holder, dctx. cbn [c_cte c_write c_write_columns]. rewrite Hc. cbn [fold_left].
  assert (H2 : no_subq (fold_left add_write (sq_write g) empty_graph)).
  { assert (G : forall W g', (forall d, In d W -> dk d <> KSubq) -> no_subq g' -> no_subq (fold_left add_write W g')).
    { induction W as [|w r IH]; intros g' HW Hg'; cbn [fold_left]; [exact Hg'|]. apply IH; [intros d Hd; apply HW; right; exact Hd|].
      apply no_subq_add_node; [exact Hg'|]. cbn [nsubq]. specialize (HW w (or_introl eq_refl)). destruct (dk w); try reflexivity. contradiction. }
    apply G; [exact Hw|apply no_subq_empty]. }
  destruct (write_columns g); [exact H2|]. apply no_subq_add_write_column. exact H2.
Qed.

Lemma compose_rw g sub reads :
  Pre g [] -> (forall d, In d (holder_nodes g "write") -> dk d <> KSubq) ->
  gok sub -> (forall x, tset sub "read" x <-> In x reads) ->
  (forall d, In d (holder_nodes sub "write") -> exists w, In w (sq_write g) /\ dataset_eqb w d = true) ->
  RW g (compose g sub) reads.
Proof.
  intros (P1 & P2 & P3) Hns A1 A2 A3. pose proof (gok_compose g sub P1 A1) as Hc. split; [exact Hc|]. split.
  - intros x. rewrite (tset_compose g sub "read" x P1 A1) by discriminate. rewrite A2. reflexivity.
  - intros x. unfold tset. split.
    + intros (d & Hd & H2 & H3). exists d. split; [|auto].
      destruct (tag_compose_sound g sub "write" d A1 Hd) as [H|(d' & Hd' & Ed)]; [exact H|].
      destruct (A3 d' Hd') as (w & Hw & Ew).
      assert (Hw' : In w (holder_nodes (compose g sub) "write")) by (apply tag_compose_mono; [exact A1|right; apply Hns; exact Hw|exact Hw]).
      assert (E : dataset_eqb w d = true) by (apply (dataset_eqb_trans w d' d); assumption).
      rewrite <- (tagged_eqb_eq _ "write" "write" w d Hc Hw' Hd E). exact Hw.
    + intros (d & Hd & H2 & H3). exists d. split; [|auto]. apply tag_compose_mono; [exact A1|right; rewrite H2; discriminate|exact Hd].
Qed.

(** the source query of INSERT / CREATE: in the fragment of step 5, or a WITH over it *)
Definition src_ok (k : nat) (q : query) : Prop :=
  body_ok (S k) q = true \/
  exists n c b, q = QWith n c b /\ body_ok k c = true /\ body_ok k b = true /\ id_ok n = true /\
                ~ In (tref_str "" (None, n)) (q_reads k "" [] c).

Lemma ci_source f stmt g k q :
  src_ok k q -> Pre g [] -> sq_cte g = [] -> (forall d, In d (holder_nodes g "write") -> dk d <> KSubq) ->
  qd (S k) q < f ->
  exists g', ci_step f e stmt (Ok (g, false, false)) (r_query noise (S k) q) = Ok (g', false, false) /\
             RW g g' (q_reads (S k) (e_cfg e) [] q).
Proof.
  intros Hsrc Hpre Hcte Hns Hf. destruct Hsrc as [Hb|(n & c & b & -> & Hc & Hb & Hn & Hguard)].
  - rewrite (ci_body f stmt g (S k) q Hb).
    destruct (delegate_body noise Hnoise e Henv g [] f (S k) q Hpre Hns Hb Hf) as (g' & E & HP). rewrite E.
    exists g'. split; [reflexivity|apply Post_RW; exact HP].
  - rewrite ci_with. unfold ex_delegate. fold (dctx g). destruct (init_delegate g [] Hpre) as (I0 & I1 & I2 & I3).
    destruct (xcte_ok noise Hnoise e Henv f (dctx g) k n c b I0 (no_subq_init_delegate g Hcte Hns) Hc Hb Hn Hguard Hf)
      as (sub & E & S1 & S2 & S3).
    rewrite E. exists (compose g sub). split; [reflexivity|]. apply compose_rw; [exact Hpre|exact Hns|exact S1| |].
    + intros x. rewrite S2. unfold tset at 1. rewrite I2. split; [intros [(d & [] & _)|H]; exact H|auto].
    + intros d Hd. apply I3. apply S3. exact Hd.
Qed.

(** the holder after the target table was recorded *)
Definition WF (g : graph) (d : dataset) : Prop :=
  gok g /\ holder_nodes g "write" = [d] /\ holder_nodes g "cte" = [] /\ holder_nodes g "read" = [].

Lemma WF_init d : data_ok d -> WF (add_write empty_graph d) d.
Proof. intros Hd. split; [apply gok_add_tag; [apply gok_empty|exact Hd]|]. repeat split; reflexivity. Qed.

Lemma WF_cstep g g' d : WF g d -> cstep g g' -> WF g' d.
Proof. intros (W1 & W2 & W3 & W4) [C1 C2]. split; [exact C1|]. rewrite !C2. auto. Qed.

Lemma WF_facts g d :
  WF g d -> dk d = KTable ->
  Pre g [] /\ sq_cte g = [] /\ (forall d', In d' (holder_nodes g "write") -> dk d' <> KSubq) /\
  (forall x, ~ tset g "read" x) /\ (forall x, tset g "write" x <-> x = dstr d).
Proof.
  intros (W1 & W2 & W3 & W4) Hk. split; [|split; [exact W3|split; [|split]]].
  - split; [exact W1|]. split.
    + unfold cte_rel, sq_cte. rewrite W3. split; [intros c []|intros n []].
    + intros d1 d2. unfold sq_write. rewrite W2. intros [<-|[]] [<-|[]]. apply dataset_eqb_refl.
  - intros d'. rewrite W2. intros [<-|[]]. rewrite Hk. discriminate.
  - intros x (d' & Hd' & _). rewrite W4 in Hd'. destruct Hd'.
  - intros x. unfold tset. rewrite W2. split.
    + intros (d' & [<-|[]] & _ & H). symmetry. exact H.
    + intros ->. exists d. split; [left; reflexivity|auto].
Qed.

Lemma ci_tail f stmt g d k q cols :
  WF g d -> dk d = KTable -> src_ok k q -> qd (S k) q < S f ->
  exists g', fold_left (ci_step (S f) e stmt)
                       (match cols with Some cs => [r_cols cs] | None => [] end ++ [r_query noise (S k) q]) (Ok (g, false, false))
             = Ok (g', false, false) /\
             gok g' /\ (forall x, tset g' "read" x <-> In x (q_reads (S k) (e_cfg e) [] q)) /\ (forall x, tset g' "write" x <-> x = dstr d).
Proof.
  intros HW Hk Hsrc Hf.
  assert (Hstep : exists g1, fold_left (ci_step (S f) e stmt) (match cols with Some cs => [r_cols cs] | None => [] end) (Ok (g, false, false))
                             = Ok (g1, false, false) /\ WF g1 d).
  { destruct cols as [cs|]; [|exists g; split; [reflexivity|exact HW]]. cbn [fold_left].
    destruct (ci_cols f stmt g cs) as (cl & E & Hcl). rewrite E. exists (add_write_column g cl). split; [reflexivity|].
    apply (WF_cstep g _ d HW). apply cstep_add_write_column; [exact (proj1 HW)|]. intros t _. apply Forall_forall. intros c Hc.
    rewrite Forall_forall in Hcl. left. apply Hcl. exact Hc. }
  destruct Hstep as (g1 & E1 & HW1). rewrite fold_left_app, E1. cbn [fold_left].
  destruct (WF_facts g1 d HW1 Hk) as (F1 & F2 & F3 & F4 & F5).
  destruct (ci_source (S f) stmt g1 k q Hsrc F1 F2 F3 Hf) as (g' & E2 & (R1 & R2 & R3)). rewrite E2.
  exists g'. split; [reflexivity|]. split; [exact R1|]. split.
  - intros x. rewrite R2. split; [intros [H|H]; [destruct (F4 x H)|exact H]|auto].
  - intros x. rewrite R3. apply F5.
Qed.

Definition cols_part (cols : option (list string)) : list seg := match cols with Some cs => [r_cols cs] | None => [] end.

Lemma filter_nn_cols cols : filter nn (cols_part cols) = cols_part cols.
Proof. destruct cols; reflexivity. Qed.

Lemma fuel_child (stmt Q : seg) k q :
  In Q (children stmt) -> Q = r_query noise (S k) q -> qd (S k) q < S (3 * depth stmt + 8).
Proof.
  intros Hin ->. pose proof (depth_child _ _ Hin). pose proof (depth_qd noise (S k) q). lia.
Qed.

(** what the three statement kinds have in common once the target is known *)
Lemma ci_finish F stmt t cols k q d rest :
  table_of_seg e (r_tref t) None = Ok d -> dk d = KTable -> data_ok d -> dstr d = tref_str (e_cfg e) t ->
  src_ok k q -> qd (S k) q < S F ->
  (forall g, fold_left (ci_step (S F) e stmt) rest (Ok (g, false, false)) =
             fold_left (ci_step (S F) e stmt) (cols_part cols ++ [r_query noise (S k) q]) (Ok (g, false, false))) ->
  exists g, (do r <- fold_left (ci_step (S F) e stmt) (r_tref t :: rest) (Ok (empty_graph, true, false)); Ok (fst (fst r))) = Ok g /\
            gok g /\ (forall x, tset g "read" x <-> In x (q_reads (S k) (e_cfg e) [] q)) /\
            (forall x, tset g "write" x <-> x = tref_str (e_cfg e) t).
Proof.
  intros Et Hk Hd Hs Hsrc Hf Hrest. cbn [fold_left]. rewrite ci_tref, Et, Hrest.
  destruct (ci_tail F stmt (add_write empty_graph d) d k q cols (WF_init d Hd) Hk Hsrc Hf) as (g' & E & G1 & G2 & G3).
  unfold cols_part. rewrite E. exists g'. split; [reflexivity|]. split; [exact G1|]. split; [exact G2|]. intros x. rewrite G3, Hs. reflexivity.
Qed.

Lemma insert_ok t cols q :
  tref_ok t = true -> src_ok (q_size q) q ->
  exists g, analyze e false (r_stmt noise (SInsert t cols q)) = Ok g /\ gok g /\
            (forall x, tset g "read" x <-> In x (q_reads (S (q_size q)) (e_cfg e) [] q)) /\
            (forall x, tset g "write" x <-> x = tref_str (e_cfg e) t).
Proof.
  intros Ht Hsrc. set (k := q_size q) in *. set (Q := r_query noise (S k) q).
  set (stmt := node "insert_statement" ["insert_statement"] (sep noise ([kw "insert"; kw "into"; r_tref t] ++ cols_part cols ++ [Q]))).
  assert (Es : r_stmt noise (SInsert t cols q) = stmt) by (destruct cols; reflexivity). rewrite Es.
  assert (Ea : analyze e false stmt = extract (S (S (3 * depth stmt + 8))) e XCreateInsert stmt empty_ctx).
  { replace (S (S (3 * depth stmt + 8))) with (3 * depth stmt + 10) by lia. reflexivity. }
  assert (HF : forall Q0 k0 q0, In Q0 (children stmt) -> Q0 = r_query noise (S k0) q0 -> qd (S k0) q0 < S (3 * depth stmt + 8))
    by (intros Q0 k0 q0; apply fuel_child).
  set (F := 3 * depth stmt + 8) in *.
  rewrite Ea, extract_ci_eq. unfold stmt at 2. rewrite (lcs_node noise Hnoise) by reflexivity.
  rewrite !filter_app, filter_nn_cols. cbn [filter]. change (nn (kw "insert")) with true. change (nn (kw "into")) with true.
  change (nn (r_tref t)) with true. unfold Q at 1. rewrite (nn_rq noise). cbn iota. fold Q.
  change (init_holder empty_ctx) with empty_graph. cbn [app fold_left].
  rewrite (ci_kw_target (S F) stmt empty_graph false false "insert" eq_refl), (ci_kw_target (S F) stmt empty_graph true false "into" eq_refl).
  destruct (table_of_seg_tref e Henv t None Ht) as (d & Et & Hk & Hd & Hs).
  apply (ci_finish F stmt t cols k q d (cols_part cols ++ [Q]) Et Hk Hd Hs Hsrc); [|reflexivity].
  apply (HF Q k q); [|reflexivity]. unfold stmt. cbn [children node]. apply (In_sep noise).
  rewrite !in_app_iff. right. right. left. reflexivity.
Qed.

Lemma create_ok (view : bool) t q :
  tref_ok t = true -> src_ok (q_size q) q ->
  exists g, analyze e false (r_stmt noise (if view then SView t q else SCtas t q)) = Ok g /\ gok g /\
            (forall x, tset g "read" x <-> In x (q_reads (S (q_size q)) (e_cfg e) [] q)) /\
            (forall x, tset g "write" x <-> x = tref_str (e_cfg e) t).
Proof.
  intros Ht Hsrc. set (k := q_size q) in *. set (Q := r_query noise (S k) q).
  set (ty0 := if view then "create_view_statement" else "create_table_statement").
  set (w0 := if view then "view" else "table").
  set (stmt := node ty0 [ty0] (sep noise [kw "create"; kw w0; r_tref t; kw "as"; Q])).
  assert (Es : r_stmt noise (if view then SView t q else SCtas t q) = stmt) by (destruct view; reflexivity). rewrite Es.
  assert (Ea : analyze e false stmt = extract (S (S (3 * depth stmt + 8))) e XCreateInsert stmt empty_ctx).
  { replace (S (S (3 * depth stmt + 8))) with (3 * depth stmt + 10) by lia. destruct view; reflexivity. }
  assert (HF : forall Q0 k0 q0, In Q0 (children stmt) -> Q0 = r_query noise (S k0) q0 -> qd (S k0) q0 < S (3 * depth stmt + 8))
    by (intros Q0 k0 q0; apply fuel_child).
  set (F := 3 * depth stmt + 8) in *.
  rewrite Ea, extract_ci_eq. unfold stmt at 2. rewrite (lcs_node noise Hnoise) by (destruct view; reflexivity).
  cbn [filter]. change (nn (kw "create")) with true. change (nn (kw w0)) with true. change (nn (kw "as")) with true.
  change (nn (r_tref t)) with true. unfold Q at 1. rewrite (nn_rq noise). cbn iota. fold Q.
  change (init_holder empty_ctx) with empty_graph. cbn [fold_left].
  rewrite (ci_kw_other (S F) stmt empty_graph false "create" eq_refl eq_refl).
  rewrite (ci_kw_target (S F) stmt empty_graph false false w0) by (destruct view; reflexivity).
  destruct (table_of_seg_tref e Henv t None Ht) as (d & Et & Hk & Hd & Hs).
  apply (ci_finish F stmt t None k q d [kw "as"; Q] Et Hk Hd Hs Hsrc).
  - apply (HF Q k q); [|reflexivity]. unfold stmt. cbn [children node]. apply (In_sep noise).
    right. right. right. right. left. reflexivity.
  - intros g. cbn [fold_left cols_part app]. rewrite (ci_kw_other (S F) stmt g false "as" eq_refl eq_refl). reflexivity.
Qed.

End Nav5.

(* ================================================================== *)
(** * Steps 7, 0, 8 and the statement as far as it is true *)
Definition sshape (s : stmt) : bool :=
  match s with
  | SInsert _ _ q | SCtas _ q | SView _ q | SQuery q => sshape_q q
  | SNoData _ => true
  end.

Lemma src_ok_of q :
  frag_query (S (q_size q)) q = true -> names_ok_q (S (q_size q)) [] q = true -> sshape_q q = true -> src_ok (q_size q) q.
Proof.
  intros Hf Hn Hs. destruct q as [items from cj wh|a b|n c b].
  - left. apply (body_ok_of _ [] _ Hf Hn Hs).
  - left. apply (body_ok_of _ [] _ Hf Hn Hs).
  - right. unfold sshape_q in Hs. apply andb_true_iff in Hs. destruct Hs as [Hsc Hsb].
    destruct (with_facts _ n c b Hf Hn Hsc Hsb) as (Hc & Hb & Hid & Hg). exists n, c, b. auto.
Qed.

Lemma wrapper_conclusion e r g t q (s : stmt) :
  r = Ok g -> gok g ->
  (forall x, tset g "read" x <-> In x (q_reads (S (q_size q)) (e_cfg e) [] q)) ->
  (forall x, tset g "write" x <-> x = tref_str (e_cfg e) t) ->
  spec_reads (e_cfg e) s = dedup_s (q_reads (S (q_size q)) (e_cfg e) [] q) [] -> spec_writes (e_cfg e) s = [tref_str (e_cfg e) t] ->
  stmt_reads r = sort_strings (spec_reads (e_cfg e) s) /\ stmt_writes r = sort_strings (spec_writes (e_cfg e) s).
Proof.
  intros Er Hg Hr Hw Esr Esw. rewrite Esr, Esw. split.
  - apply (stmt_reads_spec r g); assumption.
  - apply (stmt_writes_spec r g); [exact Er|exact Hg|repeat constructor; intros []|].
    intros x. rewrite Hw. cbn [In]. split; [intros ->; left; reflexivity|intros [H|[]]; symmetry; exact H].
Qed.

(** Lemma A (tables) on the fragment on which it holds: [stmt_ok] and [sshape] *)
Theorem lemma_A_tables_restricted : forall noise e s,
  noise_ok noise = true -> env_ok e = true -> stmt_ok s = true -> sshape s = true ->
  stmt_reads (analyze e false (r_stmt noise s)) = sort_strings (spec_reads (e_cfg e) s) /\
  stmt_writes (analyze e false (r_stmt noise s)) = sort_strings (spec_writes (e_cfg e) s).
Proof.
  intros noise e s Hn He Hok Hs. destruct s as [t cols q|t q|t q|q|kind].
  - cbn [stmt_ok sshape] in *. apply andb_true_iff in Hok. destruct Hok as [Hok _]. apply andb_true_iff in Hok. destruct Hok as [Hok Hnm].
    apply andb_true_iff in Hok. destruct Hok as [Ht Hf].
    destruct (insert_ok noise Hn e He t cols q Ht (src_ok_of q Hf Hnm Hs)) as (g & E & G1 & G2 & G3).
    apply (wrapper_conclusion e _ g t q); auto.
  - cbn [stmt_ok sshape] in *. apply andb_true_iff in Hok. destruct Hok as [Hok Hnm]. apply andb_true_iff in Hok. destruct Hok as [Ht Hf].
    destruct (create_ok noise Hn e He false t q Ht (src_ok_of q Hf Hnm Hs)) as (g & E & G1 & G2 & G3).
    apply (wrapper_conclusion e _ g t q); auto.
  - cbn [stmt_ok sshape] in *. apply andb_true_iff in Hok. destruct Hok as [Hok Hnm]. apply andb_true_iff in Hok. destruct Hok as [Ht Hf].
    destruct (create_ok noise Hn e He true t q Ht (src_ok_of q Hf Hnm Hs)) as (g & E & G1 & G2 & G3).
    apply (wrapper_conclusion e _ g t q); auto.
  - apply lemma_A_step6; assumption.
  - split; reflexivity.
Qed.

(** step 7: the INSERT / CREATE TABLE AS / CREATE VIEW AS wrappers *)
Theorem lemma_A_step7 : forall noise e s,
  noise_ok noise = true -> env_ok e = true -> stmt_ok s = true -> sshape s = true ->
  (match s with SInsert _ _ _ | SCtas _ _ | SView _ _ => True | _ => False end) ->
  stmt_reads (analyze e false (r_stmt noise s)) = sort_strings (spec_reads (e_cfg e) s) /\
  stmt_writes (analyze e false (r_stmt noise s)) = sort_strings (spec_writes (e_cfg e) s).
Proof. intros noise e s Hn He Hok Hs _. apply lemma_A_tables_restricted; assumption. Qed.

(** step 0: the written tables *)
Theorem lemma_A_step0 : forall noise e s,
  noise_ok noise = true -> env_ok e = true -> stmt_ok s = true -> sshape s = true ->
  stmt_writes (analyze e false (r_stmt noise s)) = sort_strings (spec_writes (e_cfg e) s).
Proof. intros noise e s Hn He Hok Hs. exact (proj2 (lemma_A_tables_restricted noise e s Hn He Hok Hs)). Qed.

(** step 8: arbitrary trivia - every theorem above is already stated for an arbitrary [noise] *)
Theorem lemma_A_step8 : forall noise e s,
  noise_ok noise = true -> env_ok e = true -> stmt_ok s = true -> sshape s = true ->
  stmt_reads (analyze e false (r_stmt noise s)) = sort_strings (spec_reads (e_cfg e) s) /\
  stmt_writes (analyze e false (r_stmt noise s)) = sort_strings (spec_writes (e_cfg e) s).
Proof. exact lemma_A_tables_restricted. Qed.

(* ================================================================== *)
(** * The statement of Tree/LemmaA.v is false without [sshape]: four counterexamples *)
Definition e_cx : env := mk_env "ansi" "" "" {| p_truthy := false; p_cols := [] |} [].
Definition sel_cx (t : string) : query := QSelect [IStar None] [RTable (None, t) None] false None.

(** (1) a set operation whose operand is itself a set operation: the rendering nests the set_expression,
    the extractor only visits select_statement / bracketed children *)
Definition cx1 : stmt := SQuery (QUnion (QUnion (sel_cx "a") (sel_cx "b")) (sel_cx "c")).
(** (2) a set operation with a WITH operand *)
Definition cx2 : stmt := SQuery (QUnion (QWith "n" (sel_cx "a") (sel_cx "n")) (sel_cx "c")).
(** (3) a WITH whose body is a WITH: the CTE extractor ignores a with_compound_statement child *)
Definition cx3 : stmt := SQuery (QWith "n" (sel_cx "a") (QWith "m" (sel_cx "b") (sel_cx "m"))).
(** (4) a CTE defined inside a derived table is visible, after the sub-query was composed into the holder,
    to the enclosing FROM: the table n next to the derived table is taken for the CTE *)
Definition cx4 : stmt :=
  SQuery (QSelect [IStar None] [RDerived (QWith "n" (sel_cx "t") (sel_cx "n")) "a"; RTable (None, "n") None] false None).

Lemma cx_guards : forallb (fun s => noise_ok [] && env_ok e_cx && stmt_ok s) [cx1; cx2; cx3; cx4] = true.
Proof. vm_compute. reflexivity. Qed.

Lemma cx_fail : map (lemma_A_check [] e_cx) [cx1; cx2; cx3; cx4] = ["FAILS"; "FAILS"; "FAILS"; "FAILS"].
Proof. vm_compute. reflexivity. Qed.

Theorem lemma_A_tables_statement_refuted : ~ lemma_A_tables_statement.
Proof.
  intros H. destruct (H [] e_cx cx1) as [Hr _]; try (vm_compute; reflexivity).
  vm_compute in Hr. discriminate Hr.
Qed.

Print Assumptions lemma_A_step0.
Print Assumptions lemma_A_step1.
Print Assumptions lemma_A_step2.
Print Assumptions lemma_A_step3.
Print Assumptions lemma_A_step4.
Print Assumptions lemma_A_step5.
Print Assumptions lemma_A_step6.
Print Assumptions lemma_A_step7.
Print Assumptions lemma_A_step8.
Print Assumptions lemma_A_tables_restricted.
Print Assumptions lemma_A_tables_statement_refuted.
