(** Lemma A (tables) and Lemma B (columns, single-SELECT fragment) are invariant under SPELLING
    (properties C07: letter case of keywords and unquoted identifiers, quoting of lower-case identifiers; C16: an
    identifier denotes the same entity wherever and however it is written).

    SUMMARY (definitions in Tree/RenderSpell.v)
    - [lemma_A_spelling_roles]: for every family [sp] of admissible identifier spellings, ONE PER SYNTACTIC ROLE
      ([spr_ok sp]: table name, alias, column name, qualifier, star qualifier, CTE name, schema part), every keyword
      spelling that only changes letter case ([kw_ok]), every trivia list and every statement of the fragment of
      [lemma_A_tables_restricted] ([stmt_ok], [sshape]): the tree model on [r_stmt_spr sp kwf noise s] reads / writes
      exactly [spec_reads] / [spec_writes].  [lemma_A_spelling] is the instance "one spelling [sp] everywhere"
      ([r_stmt_sp sp kwf noise s]), [lemma_A_tables_restricted_again] the instance "identity".
    - [spelling_invariance] / [spelling_invariance_roles]: two admissible spellings (and two trivia lists) report the same
      tables; [spelling_same_as_plain]: the same as the plain rendering [r_stmt] of Tree/Render.v.
    - admissible: [sp_ok_id], [sp_ok_case_only] (ANY function changing only letter case: [sp_ok_upper], [case_only_cap],
      [case_only_alt], [case_only_compose]), ["x"] [sp_ok_dq], [`x`] [sp_ok_bt], [[x]] [sp_ok_br];
      [kw_ok_iff]: [kw_ok] is exactly "only the letter case changes".
    - Column level: [analyze_spelling_roles_single_select]: on the single-SELECT fragment of Lemma B
      ([single_select_fragment] of LemmaBProofs.v; INSERT column list without repetition) the WHOLE statement holder is
      the holder of the plain rendering; hence [script_spelling_roles_single_select] (equal script graphs) and
      [lemma_B_spelling_roles_single_select] / [lemma_B_spelling_single_select]: the reported column pairs are
      [spec_pairs] under [colshape].  Beyond that fragment: [cols_spelling_invariance_statement], stated and tested
      ([cols_spelling_tests], including the eighteen counterexample classes of Lemma B), not proved.
    - FINDINGS: none against the properties on this fragment.  (a) The model reads keyword raws through [raw_upper] only
      (in the fragment: the INSERT / INTO / TABLE / VIEW flags of the create-insert extractor), no case-sensitive
      comparison of a keyword.  (b) Sub-queries are keyed by their raw text, but no step of the proof needs two
      sub-queries to be distinct, so no injectivity of the spelling is required.  (c) The sub-queries found inside a
      CTE definition get the UN-normalised CTE name as alias ([cte_inner], Tree/Extract.v): with WITH "C" AS (...) that
      dataset is called "C" (with the quotes) while the CTE itself is called c; invisible at table level and in all
      tested column pairs, visible in the holder ([mk_sq] below was generalised for it).  (d) The side condition
      "no dot in the written text" of [sp_ok] is needed: [sp_dot_counterexample].
    - MODELLING NOTE: the spelled identifier leaf keeps the instance type naked_identifier of Tree/Render.v also when it
      is written quoted (the real parser says quoted_identifier); no function of the tree model mentions either type.

    METHOD
    Parts N .. N5 of Tree/LemmaAProofs.v (navigation on rendered trees, sub-queries, the main induction [body_main],
    WITH, INSERT / CREATE wrappers) are re-run inside ONE section for the generalised renderer; the text was produced
    from LemmaAProofs.v by renaming ([r_query noise] -> [r_query_spr sp kwf noise], [ident] -> [ident_sp (sp ROLE)],
    [kw] -> [kw_sp kwf]) and dropping the explicit section arguments.  The rendering-independent definitions
    ([body_ok], [jrels], [FL], [Pre], [Post], [qshape], [sshape] ...) and the specification side (section SpecSide) are
    REUSED from LemmaAProofs.v, Parts S, G, C, I, E0 as well.  Statements that changed, because the raw text of an
    identifier leaf is now [sp r x] and only [escape (sp r x) = x] is known:
      [mk_table_plain], [raw_tref_bare], [add_dataset_table] (alias [option_map (sp R_ALIAS) al]), [ecq_colref],
      [ecq_wild], [xcol_ok_mk], [extract_identifier_alias], [list_subqueries_fee_derived], [add_dataset_derived],
      [fee_sqt], [mk_sq] (a sub-query dataset with a GIVEN name: [mk_sq_alias], [mk_sq_anon]), [sel_sq_T] (needs the
      aliases to be identifiers), [cte_step_cte], [xcte_ok]; keywords: [ci_kw_target] / [ci_kw_other] through
      [raw_upper_kw].  Everything else is verbatim.
    For the column level the "exact" lemmas of Tree/LemmaBProofs.v (Parts N, C, K) are ported the same way; their
    right-hand sides ([xcol_of], [tbl], [sel_holder], [sel_holder_cols]) do not mention the rendering, so the spelled
    and the plain rendering have the same holder. *)
From Coq Require Import Permutation.
From SV Require Import Tree.Render Tree.LemmaA Ident.Escape Ident.EscapeProofs Holder.PathProofs Holder.SortProofs.
From SV Require TriviaProofs.
From SV Require Import Tree.LemmaAProofs Tree.RenderSpell.
From SV Require Import Tree.LemmaB Tree.LemmaBProofs.

(** column level: the INSERT column list has no repeated name (a conjunct of [colshape], Tree/LemmaB.v) *)
Definition cols_nodup (s : stmt) : bool := match s with SInsert _ (Some cs) _ => nodup_s cs | _ => true end.

Section Spell.
Variable sp : nat -> string -> string.
Variable kwf : string -> string.
Hypothesis Hsp : spr_ok sp.
Hypothesis Hkw : kw_ok kwf.
Variable noise : list seg.
Hypothesis Hnoise : noise_ok noise = true.
Variable e : env.
Hypothesis Henv : env_ok e = true.

(** what the proofs use of an admissible identifier spelling *)
Lemma sp_escape r x : id_ok x = true -> escape (sp r x) = x.
Proof. intros H. exact (proj1 (Hsp r x H)). Qed.
Lemma sp_nodot r x : id_ok x = true -> sexists is_dot (sp r x) = false.
Proof. intros H. exact (proj2 (Hsp r x H)). Qed.
Lemma sp_count r x : id_ok x = true -> count_dots (sp r x) = 0.
Proof. intros H. apply nodot_count. apply sp_nodot. exact H. Qed.
Lemma sp_nonempty r x : id_ok x = true -> String.eqb (sp r x) "" = false.
Proof.
  intros H. destruct (String.eqb (sp r x) "") eqn:E; [|reflexivity]. apply String.eqb_eq in E.
  pose proof (sp_escape r x H) as H1. rewrite E in H1. change (escape "") with "" in H1. subst x. discriminate H.
Qed.
Lemma raw_ident_sp r x : raw (ident_sp (sp r) x) = sp r x.
Proof. reflexivity. Qed.
Lemma raw_upper_kw w : raw_upper (kw_sp kwf w) = upper w.
Proof. unfold raw_upper. cbn [raw kw_sp kw leaf]. apply Hkw. Qed.



Lemma noise_in x : In x noise -> noise_seg_ok x = true.
Proof. intros H. unfold noise_ok in Hnoise. rewrite forallb_forall in Hnoise. apply Hnoise. exact H. Qed.

Lemma filter_sep (p : seg -> bool) l :
  (forall x, noise_seg_ok x = true -> p x = false) -> filter p (sep noise l) = filter p l.
Proof.
  intros H. induction l as [|a [|b r] IH]; [reflexivity|reflexivity|].
  change (sep noise (a :: b :: r)) with (a :: noise ++ sep noise (b :: r)).
  cbn [filter]. rewrite filter_app, (filter_none p noise), IH; [reflexivity|]. intros x Hx. apply H. apply noise_in. exact Hx.
Qed.

Lemma flat_map_sep {B} (f : seg -> list B) l :
  (forall x, noise_seg_ok x = true -> f x = []) -> flat_map f (sep noise l) = flat_map f l.
Proof.
  intros H. induction l as [|a [|b r] IH]; [reflexivity|reflexivity|].
  change (sep noise (a :: b :: r)) with (a :: noise ++ sep noise (b :: r)).
  cbn [flat_map]. rewrite flat_map_app, (flat_map_none f noise), IH; [reflexivity|]. intros x Hx. apply H. apply noise_in. exact Hx.
Qed.

Lemma existsb_sep (p : seg -> bool) l :
  (forall x, noise_seg_ok x = true -> p x = false) -> existsb p (sep noise l) = existsb p l.
Proof.
  intros H. induction l as [|a [|b r] IH]; [reflexivity|reflexivity|].
  change (sep noise (a :: b :: r)) with (a :: noise ++ sep noise (b :: r)).
  cbn [existsb]. rewrite existsb_app, (existsb_none p noise), IH; [reflexivity|]. intros x Hx. apply H. apply noise_in. exact Hx.
Qed.

Lemma In_sep x l : In x l -> In x (sep noise l).
Proof.
  induction l as [|a [|b r] IH]; [auto|auto|].
  change (sep noise (a :: b :: r)) with (a :: noise ++ sep noise (b :: r)).
  intros [H|H]; [left; exact H|]. right. apply in_app_iff. right. apply IH. exact H.
Qed.

(** the non-negligible children of a rendered node *)
Lemma nn_noise x : noise_seg_ok x = true -> nn x = false.
Proof. intros H. unfold nn. rewrite (proj1 (noise_seg_facts x H)). reflexivity. Qed.

Lemma lcs_node t c l b :
  String.eqb t "bracketed" = false -> list_child_segments (node t c (sep noise l)) b = filter nn l.
Proof.
  intros H. unfold list_child_segments, tyis. cbn [ty node]. rewrite H. cbn [andb children]. apply (filter_sep nn). exact nn_noise.
Qed.

Lemma lcs_node0 t c l b :
  String.eqb t "bracketed" = false -> list_child_segments (node t c l) b = filter nn l.
Proof. intros H. unfold list_child_segments, tyis. cbn [ty node]. rewrite H. reflexivity. Qed.

Lemma get_children_sep t c l ts :
  not_trivia ts = true -> get_children (node t c (sep noise l)) ts = filter (fun x => is_type x ts) l.
Proof.
  intros H. unfold get_children. cbn [children node]. apply (filter_sep (fun x => is_type x ts)).
  intros x Hx. apply noise_is_type; assumption.
Qed.

Lemma crawl_noise ts b x : noise_seg_ok x = true -> not_trivia ts = true -> crawl ts b x = [].
Proof.
  intros H Hts. rewrite TriviaProofs.crawl_eq, (noise_is_type x ts H Hts). rewrite (proj1 (proj2 (noise_seg_facts x H))).
  cbn [negb orb flat_map app]. destruct (b || true); reflexivity.
Qed.


(** ** names for the pieces of the rendering *)
Definition r_brq (k : nat) (q : query) : seg :=
  node "bracketed" ["bracketed"] (sep noise [lpar; r_query_spr sp kwf noise k q; rpar]).

Definition r_rel (k : nat) (r : rel) : seg :=
  node "from_expression_element" ["from_expression_element"]
       (match r with
        | RTable t al =>
            sep noise (node "table_expression" ["table_expression"] [r_tref_spr sp t]
                       :: match al with Some a => [r_alias_spr sp kwf noise a] | None => [] end)
        | RDerived q' a =>
            sep noise [node "table_expression" ["table_expression"] [r_brq k q']; r_alias_spr sp kwf noise a]
        | RGroup _ _ => []
        end).

Definition r_sc (items : list item) : seg :=
  node "select_clause" ["select_clause"] (sep noise (kw_sp kwf "select" :: intersperse comma (map (r_item_spr sp kwf noise) items))).

Definition r_join (k : nat) (r : rel) : seg :=
  node "join_clause" ["join_clause"] (sep noise [kw_sp kwf "join"; r_rel k r; on_clause_sp kwf noise]).

Definition r_fe1 (k : nat) (r : rel) : seg := node "from_expression" ["from_expression"] [r_rel k r].

Definition r_fej (k : nat) (r0 : rel) (rest : list rel) : seg :=
  node "from_expression" ["from_expression"] (sep noise (r_rel k r0 :: map (r_join k) rest)).

Definition r_fc (k : nat) (from : list rel) (cj : bool) : seg :=
  node "from_clause" ["from_clause"]
       (sep noise (kw_sp kwf "from" ::
                   (if cj then intersperse comma (map (r_fe1 k) from)
                    else match from with [] => [] | r0 :: rest => [r_fej k r0 rest] end))).

Definition r_wh (k : nat) (wh : option (string * query)) : list seg :=
  match wh with
  | Some (c, sq) =>
      [node "where_clause" ["where_clause"]
            (sep noise [kw_sp kwf "where"; node "expression" ["expression"] (sep noise [r_colref_spr sp None c; kw_sp kwf "in"; r_brq k sq])])]
  | None => []
  end.

Lemma r_query_select k items from cj wh :
  r_query_spr sp kwf noise (S k) (QSelect items from cj wh) =
  node "select_statement" ["select_statement"] (sep noise ([r_sc items; r_fc k from cj] ++ r_wh k wh)).
Proof. destruct wh as [[c sq]|]; reflexivity. Qed.

Lemma r_query_union k a b :
  r_query_spr sp kwf noise (S k) (QUnion a b) =
  node "set_expression" ["set_expression"]
       (sep noise [r_query_spr sp kwf noise k a; node "set_operator" ["set_operator"] (sep noise [kw_sp kwf "union"; kw_sp kwf "all"]); r_query_spr sp kwf noise k b]).
Proof. reflexivity. Qed.

Lemma r_query_with k n c b :
  r_query_spr sp kwf noise (S k) (QWith n c b) =
  node "with_compound_statement" ["with_compound_statement"]
       (sep noise [kw_sp kwf "with";
                   node "common_table_expression" ["common_table_expression"] (sep noise [ident_sp (sp R_CTE) n; kw_sp kwf "as"; r_brq k c]);
                   r_query_spr sp kwf noise k b]).
Proof. reflexivity. Qed.


Lemma env_facts :
  p_truthy (e_provider e) = false /\ e_vertica e = false /\
  (String.eqb (e_cfg e) "" = true \/ id_ok (e_cfg e) = true) /\ e_icfg e = e_cfg e.
Proof.
  unfold env_ok in Henv. apply andb_true_iff in Henv. destruct Henv as [H H4]. apply andb_true_iff in H. destruct H as [H H3].
  apply andb_true_iff in H. destruct H as [H1 H2]. apply negb_true_iff in H1. apply negb_true_iff in H2.
  apply orb_true_iff in H3. apply String.eqb_eq in H4. auto.
Qed.

Lemma sep_cons x r : sep noise (x :: r) = x :: match r with [] => [] | _ => noise ++ sep noise r end.
Proof. destruct r; reflexivity. Qed.

(** *** table references *)
Definition te_of (t : tref) : seg := node "table_expression" ["table_expression"] [r_tref_spr sp t].
Definition al_list (al : option string) : list seg := match al with Some a => [r_alias_spr sp kwf noise a] | None => [] end.

Lemma r_rel_table k t al :
  r_rel k (RTable t al) = node "from_expression_element" ["from_expression_element"] (sep noise (te_of t :: al_list al)).
Proof. reflexivity. Qed.

Lemma fti_some l x :
  fold_left (fun acc c => match acc with Some _ => acc | None => find_table_identifier c end) l (Some x) = Some x.
Proof. induction l as [|a r IH]; [reflexivity|]. cbn [fold_left]. exact IH. Qed.

Lemma fti_te t : find_table_identifier (te_of t) = Some (r_tref_spr sp t).
Proof. reflexivity. Qed.

Lemma fti_fee_table k t al : find_table_identifier (r_rel k (RTable t al)) = Some (r_tref_spr sp t).
Proof.
  rewrite r_rel_table, sep_cons. unfold node. cbn [find_table_identifier]. 
  change (ty_in _ _) with false. cbn iota. cbn [fold_left]. rewrite fti_te. apply fti_some.
Qed.

Lemma mk_table_plain name sch al :
  id_ok name = true ->
  exists d, mk_table e (sp R_TABLE name) (Some sch) al = Ok d /\ dk d = KTable /\ data_ok d /\ dstr d = (sch ++ "." ++ name)%string.
Proof.
  intros H. unfold mk_table, table_of. rewrite (rsplit_dot_none (sp R_TABLE name) (sp_count _ name H)).
  eexists. split; [reflexivity|]. split; [reflexivity|]. split; [reflexivity|].
  cbn [dstr table_str t_schema t_raw]. rewrite (sp_escape _ name H). reflexivity.
Qed.

Lemma default_schema_str : schema_of (e_cfg e) None = if String.eqb (e_cfg e) "" then Spec.placeholder else e_cfg e.
Proof.
  destruct env_facts as (_ & _ & H & _). unfold schema_of. destruct H as [H|H].
  - rewrite H. reflexivity.
  - rewrite (id_ok_nonempty _ H). cbn [negb]. apply id_ok_escape. exact H.
Qed.

Lemma concat_escape_parts parts :
  forallb id_ok parts = true ->
  concat_str (map (fun s => escape (raw s)) (intersperse dot (map (ident_sp (sp R_SCHEMA)) parts))) = join "." parts.
Proof.
  induction parts as [|a [|b r] IH]; intros H; [reflexivity| |].
  - cbn [forallb] in H. apply andb_true_iff in H. cbn [map intersperse concat_str join raw ident_sp ident leaf].
    rewrite (sp_escape _ a (proj1 H)). apply append_nil_r.
  - cbn [forallb] in H. apply andb_true_iff in H. destruct H as [Ha H].
    change (intersperse dot (map (ident_sp (sp R_SCHEMA)) (a :: b :: r))) with (ident_sp (sp R_SCHEMA) a :: dot :: intersperse dot (map (ident_sp (sp R_SCHEMA)) (b :: r))).
    rewrite join_cons_nonempty, <- (IH H). set (X := intersperse dot (map (ident_sp (sp R_SCHEMA)) (b :: r))).
    cbn [map concat_str]. cbn [raw ident_sp ident leaf dot sym]. rewrite (sp_escape _ a Ha). reflexivity.
Qed.

Lemma intersperse_length_pos x (l : list seg) : l <> [] -> exists k, List.length (intersperse x l) = S k.
Proof. destruct l as [|a [|b r]]; [contradiction| |]; intros _; eexists; reflexivity. Qed.

Lemma table_of_seg_dotted L x alias :
  (exists k, List.length L = S k) ->
  table_of_seg e (node "table_reference" ["object_reference"; "table_reference"] (L ++ [dot; x])) alias =
  mk_table e (raw x) (Some (schema_of (e_cfg e) (Some (concat_str (map (fun s => escape (raw s)) L)))))
           (match alias with Some a => if String.eqb a "" then None else Some a | None => None end).
Proof.
  intros [k Hk]. unfold table_of_seg. cbn [children node]. rewrite app_length. cbn [List.length].
  replace (List.length L + 2 - 1) with (List.length L + 1) by lia.
  replace (List.length L + 2 - 2) with (List.length L) by lia.
  replace (Nat.leb 2 (List.length L + 2)) with true by (symmetry; apply Nat.leb_le; lia).
  rewrite firstn_app. replace (List.length L + 1 - List.length L) with 1 by lia.
  rewrite firstn_all2 by lia. cbn [firstn]. rewrite rev_app_distr. cbn [rev app find_dot].
  change (tyis dot "symbol") with true. cbn iota. rewrite Hk.
  unfold nth_res. replace (S (S k)) with (List.length L + 1) by lia.
  rewrite nth_error_app2 by lia. replace (List.length L + 1 - List.length L) with 1 by lia. cbn [nth_error].
  change (match L ++ [dot; x] with [] => [] | a :: l => a :: firstn k l end) with (firstn (S k) (L ++ [dot; x])).
  rewrite <- Hk. rewrite firstn_app. rewrite firstn_all, Nat.sub_diag. cbn [firstn]. rewrite app_nil_r. reflexivity.
Qed.

Lemma table_of_seg_tref t alias :
  tref_ok t = true ->
  exists d, table_of_seg e (r_tref_spr sp t) alias = Ok d /\ dk d = KTable /\ data_ok d /\ dstr d = tref_str (e_cfg e) t.
Proof.
  destruct t as [[s|] name]; unfold tref_ok; cbn [fst snd]; intros H; apply andb_true_iff in H; destruct H as [Hn Hs].
  - unfold r_tref_spr. cbn [fst snd]. rewrite table_of_seg_dotted.
    + unfold schema_ok in Hs. apply andb_true_iff in Hs. destruct Hs as [Hs _].
      rewrite (concat_escape_parts _ Hs), join_split_dot.
      cbn [raw ident_sp ident leaf].
      destruct (mk_table_plain name (schema_of (e_cfg e) (Some s)) (match alias with Some a => if String.eqb a "" then None else Some a | None => None end) Hn)
        as (d & E & H1 & H2 & H3).
      exists d. split; [exact E|]. split; [exact H1|]. split; [exact H2|]. rewrite H3. unfold tref_str. cbn [fst snd].
      unfold schema_of.
      assert (Hne : String.eqb s "" = false).
      { destruct s; [|reflexivity]. cbn in Hs. discriminate. }
      rewrite Hne. cbn [negb]. rewrite (idc_escape s); [reflexivity|].
      apply split_dot_chars. rewrite forallb_forall in *. intros y Hy. apply id_ok_chars. apply Hs. exact Hy.
    + apply intersperse_length_pos. intros E. apply map_eq_nil in E. exact (split_dot_nonempty s E).
  - unfold r_tref_spr. cbn [fst snd]. unfold table_of_seg. cbn [children node List.length Nat.leb].
    change (tyis _ "identifier") with false. cbn iota. unfold nth_res. cbn [nth_error raw ident_sp ident leaf].
    destruct (mk_table_plain name (schema_of (e_cfg e) None) (match alias with Some a => if String.eqb a "" then None else Some a | None => None end) Hn)
        as (d & E & H1 & H2 & H3).
    exists d. split; [exact E|]. split; [exact H1|]. split; [exact H2|]. rewrite H3, default_schema_str. reflexivity.
Qed.

(** *** a table element of FROM *)
Lemma nn_node t c l : String.eqb t "symbol" = false -> nn (node t c l) = true.
Proof. intros H. unfold nn, is_negligible, tyis. cbn [is_ws is_cm is_mt ty node]. rewrite H. reflexivity. Qed.

Lemma lcs_fee_table k t al b : list_child_segments (r_rel k (RTable t al)) b = te_of t :: al_list al.
Proof. rewrite r_rel_table, lcs_node by reflexivity. destruct al; reflexivity. Qed.

Lemma get_child_fee_te k t al : get_child (r_rel k (RTable t al)) ["table_expression"] = Some (te_of t).
Proof. unfold get_child. rewrite r_rel_table, get_children_sep by reflexivity. destruct al; reflexivity. Qed.

Lemma get_child_fee_alias k t al : get_child (r_rel k (RTable t al)) ["alias_expression"] = match al with Some a => Some (r_alias_spr sp kwf noise a) | None => None end.
Proof. unfold get_child. rewrite r_rel_table, get_children_sep by reflexivity. destruct al; reflexivity. Qed.

Lemma is_subquery_other s : tyis s "from_expression_element" = false -> tyis s "bracketed" = false -> is_subquery s = Ok false.
Proof. intros H1 H2. unfold is_subquery. rewrite H1, H2. reflexivity. Qed.

Lemma list_subqueries_fee_table k t al : list_subqueries_fee (r_rel k (RTable t al)) = Ok [].
Proof.
  unfold list_subqueries_fee, extract_as_and_target_segment. rewrite lcs_fee_table. cbn [nth_res nth_error].
  change (tyis (te_of t) "keyword") with false. cbn [andb].
  rewrite (is_subquery_other (te_of t)) by reflexivity.
  cbn [te_of children node nth_res nth_error]. rewrite (is_subquery_other (r_tref_spr sp t)) by reflexivity. reflexivity.
Qed.

Lemma raw_node t c ch : raw (node t c ch) = concat_str (map raw ch).
Proof. destruct ch; reflexivity. Qed.

Lemma concat_str_app a b : concat_str (a ++ b) = (concat_str a ++ concat_str b)%string.
Proof. induction a as [|x r IH]; [reflexivity|]. cbn [app concat_str]. rewrite IH, append_assoc. reflexivity. Qed.

Lemma raw_tref_dotted s name : sexists is_dot (raw (r_tref_spr sp (Some s, name))) = true.
Proof.
  unfold r_tref_spr. cbn [fst snd]. rewrite raw_node, map_app, concat_str_app, sexists_app.
  cbn [map concat_str raw dot sym leaf append sexists]. rewrite orb_true_r. reflexivity.
Qed.

Lemma raw_tref_bare name : raw (r_tref_spr sp (None, name)) = sp R_TABLE name.
Proof. cbn. apply append_nil_r. Qed.

Lemma lcs_alias a b : list_child_segments (r_alias_spr sp kwf noise a) b = [node "alias_operator" ["alias_operator"] [kw_sp kwf "as"]; ident_sp (sp R_ALIAS) a].
Proof. unfold r_alias_spr. rewrite lcs_node by reflexivity. reflexivity. Qed.


Lemma add_dataset_table k t al g :
  tref_ok t = true -> match al with Some a => id_ok a = true | None => True end ->
  add_dataset_from_fee e (r_rel k (RTable t al)) g =
  match (match fst t with Some _ => None | None => cte_lookup g (snd t) end) with
  | Some c => match dquery c with
              | Some q => Ok [mk_subquery q (Some (match al with Some a => sp R_ALIAS a | None => raw (r_tref_spr sp t) end))]
              | None => Err "AttributeError"
              end
  | None => do d <- table_of_seg e (r_tref_spr sp t) (option_map (sp R_ALIAS) al); Ok [d]
  end.
Proof.
  intros Ht Ha. unfold add_dataset_from_fee. rewrite lcs_fee_table, get_child_fee_te.
  change (get_child (te_of t) ["function"]) with (@None seg). cbn iota.
  assert (E1 : filter (fun x => negb (tyis x "keyword")) (te_of t :: al_list al) = te_of t :: al_list al) by (destruct al; reflexivity).
  rewrite E1. cbn [nth_res nth_error]. change (tyis (te_of t) "bracketed") with false. cbn [andb].
  replace (list_subqueries (r_rel k (RTable t al))) with (list_subqueries_fee (r_rel k (RTable t al))) by reflexivity.
  rewrite list_subqueries_fee_table, fti_fee_table.
  assert (E2 : (match te_of t :: al_list al with
                | _ :: a :: _ => if tyis a "alias_expression" then
                                   match list_child_segments a true with
                                   | f0 :: x :: _ => if tyis f0 "alias_operator" || (tyis f0 "keyword" && String.eqb (raw_upper f0) "AS")
                                                     then Ok (Some (raw x)) else Ok (Some (raw f0))
                                   | [x] => Ok (Some (raw x)) | [] => Err EIndex end
                                 else Ok None
                | _ => Ok None end) = Ok (option_map (sp R_ALIAS) al)).
  { destruct al as [a|]; [|reflexivity]. cbn [al_list]. change (tyis (r_alias_spr sp kwf noise a) "alias_expression") with true. cbn iota.
    rewrite lcs_alias. reflexivity. }
  rewrite E2. change (tyis (r_tref_spr sp t) "file_reference") with false. cbn iota.
  destruct t as [[s|] name]; cbn [fst snd].
  - rewrite raw_tref_dotted. reflexivity.
  - rewrite raw_tref_bare. unfold tref_ok in Ht. cbn [fst snd] in Ht. rewrite andb_true_r in Ht. rewrite (sp_nodot _ name Ht).
    unfold cte_lookup. rewrite (sp_escape _ name Ht), (id_ok_escape name Ht). destruct (fold_left _ (sq_cte g) None) as [c|]; [|reflexivity].
    destruct (dquery c); [|reflexivity]. destruct al as [a|]; [|reflexivity]. cbn [option_map]. rewrite (sp_nonempty _ a Ha). reflexivity.
Qed.

(** *** sub-trees without segments of the types looked for *)

Lemma clean_child ts s c : clean ts s -> In c (children s) -> clean ts c.
Proof. intros H Hin x Hx. apply H. exact (TriviaProofs.sub_child x c s Hin Hx). Qed.

Lemma clean_crawl ts b s : clean ts s -> crawl ts b s = [].
Proof.
  induction s as [t g c r w cm mt ch IH] using TriviaProofs.seg_ind'. intros H.
  rewrite TriviaProofs.crawl_eq, (H _ (TriviaProofs.sub_refl _)). cbn [negb orb app]. rewrite orb_true_r.
  apply flat_map_none. intros x Hx. rewrite Forall_forall in IH. apply (IH x Hx). apply (clean_child ts _ x H). exact Hx.
Qed.

Lemma clean_node ts t c l : existsb (fun x => mem_string x ts) c = false -> Forall (clean ts) l -> clean ts (node t c l).
Proof.
  intros H Hl x Hx. inversion Hx as [s0|x0 c0 s0 Hin Hsub]; subst.
  - exact H.
  - cbn [children node] in Hin. rewrite Forall_forall in Hl. exact (Hl c0 Hin x Hsub).
Qed.

Lemma clean_leaf ts t g c r : existsb (fun x => mem_string x ts) c = false -> clean ts (leaf t g c r).
Proof.
  intros H x Hx. inversion Hx as [s0|x0 c0 s0 Hin Hsub]; subst; [exact H|]. destruct Hin.
Qed.

Lemma clean_noise ts : not_trivia ts = true -> Forall (clean ts) noise.
Proof.
  intros H. apply Forall_forall. intros n Hn x Hx. pose proof (noise_in n Hn) as Hok.
  inversion Hx as [s0|x0 c0 s0 Hin Hsub]; subst.
  - apply noise_is_type; assumption.
  - rewrite (proj1 (proj2 (noise_seg_facts n Hok))) in Hin. destruct Hin.
Qed.

Lemma Forall_sep (P : seg -> Prop) l : Forall P noise -> Forall P l -> Forall P (sep noise l).
Proof.
  intros Hn Hl. induction l as [|a [|b r] IH]; [constructor|exact Hl|].
  change (sep noise (a :: b :: r)) with (a :: noise ++ sep noise (b :: r)). inversion Hl. subst.
  constructor; [assumption|]. apply Forall_app. split; [exact Hn|]. apply IH. assumption.
Qed.

Lemma Forall_intersperse (P : seg -> Prop) x l : P x -> Forall P l -> Forall P (intersperse x l).
Proof.
  intros Hx Hl. induction l as [|a [|b r] IH]; [constructor|exact Hl|].
  change (intersperse x (a :: b :: r)) with (a :: x :: intersperse x (b :: r)). inversion Hl. subst.
  constructor; [assumption|]. constructor; [exact Hx|]. apply IH. assumption.
Qed.

Lemma clean_sep_node ts t c l :
  not_trivia ts = true -> existsb (fun x => mem_string x ts) c = false -> Forall (clean ts) l -> clean ts (node t c (sep noise l)).
Proof. intros H1 H2 H3. apply clean_node; [exact H2|]. apply Forall_sep; [apply clean_noise; exact H1|exact H3]. Qed.

Lemma clean_tref ts t : existsb (fun x => mem_string x ts) ["object_reference"; "table_reference"; "identifier"; "naked_identifier"; "raw"; "dot"; "symbol"] = false -> clean ts (r_tref_spr sp t).
Proof.
  intros H. cbn [existsb] in H. repeat (apply orb_false_iff in H; destruct H as [?E H]).
  assert (Hi : forall r n, clean ts (ident_sp (sp r) n)) by (intros r n; apply clean_leaf; cbn [existsb]; rewrite E1, E2, E3; reflexivity).
  assert (Hd : clean ts dot) by (apply clean_leaf; cbn [existsb]; rewrite E3, E4, E5; reflexivity).
  apply clean_node; [cbn [existsb]; rewrite E, E0; reflexivity|].
  destruct (fst t) as [s|].
  - apply Forall_app. split.
    + apply Forall_intersperse; [exact Hd|]. apply Forall_forall. intros x Hx. apply in_map_iff in Hx. destruct Hx as (n & <- & _). apply Hi.
    + constructor; [exact Hd|]. constructor; [apply Hi|constructor].
  - constructor; [apply Hi|constructor].
Qed.

Lemma clean_alias ts a :
  not_trivia ts = true ->
  existsb (fun x => mem_string x ts) ["alias_expression"; "alias_operator"; "keyword"; "word"; "identifier"; "naked_identifier"; "raw"] = false ->
  clean ts (r_alias_spr sp kwf noise a).
Proof.
  intros Hts H. cbn [existsb] in H. repeat (apply orb_false_iff in H; destruct H as [?E H]).
  apply clean_sep_node; [exact Hts|cbn [existsb]; rewrite E; reflexivity|].
  constructor; [|constructor; [|constructor]].
  - apply clean_node; [cbn [existsb]; rewrite E0; reflexivity|]. constructor; [|constructor].
    apply clean_leaf. cbn [existsb]. rewrite E1, E5, E2. reflexivity.
  - apply clean_leaf. cbn [existsb]. rewrite E3, E4, E5. reflexivity.
Qed.

Ltac clean_tac :=
  repeat first [ apply clean_sep_node; [reflexivity|reflexivity|]
               | apply clean_node; [reflexivity|]
               | apply clean_leaf; reflexivity
               | apply clean_tref; reflexivity
               | apply clean_alias; [reflexivity|reflexivity]
               | apply Forall_cons
               | apply Forall_nil ].

Lemma crawl_node_miss ts t c l :
  not_trivia ts = true -> existsb (fun x => mem_string x ts) c = false ->
  crawl ts true (node t c (sep noise l)) = flat_map (crawl ts true) l.
Proof.
  intros H1 H2. rewrite TriviaProofs.crawl_eq. unfold is_type. cbn [cls node children]. rewrite H2. cbn [orb app].
  apply flat_map_sep. intros x Hx. apply crawl_noise; assumption.
Qed.

Lemma crawl_node0_miss ts t c l :
  existsb (fun x => mem_string x ts) c = false -> crawl ts true (node t c l) = flat_map (crawl ts true) l.
Proof. intros H2. rewrite TriviaProofs.crawl_eq. unfold is_type. cbn [cls node children]. rewrite H2. reflexivity. Qed.

Lemma crawl_node_hit ts t c l :
  not_trivia ts = true -> existsb (fun x => mem_string x ts) c = true ->
  crawl ts true (node t c (sep noise l)) = node t c (sep noise l) :: flat_map (crawl ts true) l.
Proof.
  intros H1 H2. rewrite TriviaProofs.crawl_eq. unfold is_type. cbn [cls node children]. rewrite H2. cbn [orb app]. f_equal.
  apply flat_map_sep. intros x Hx. apply crawl_noise; assumption.
Qed.

Lemma hd_crawl_rel k r : exists tl, crawl ["from_expression_element"] true (r_rel k r) = r_rel k r :: tl.
Proof. unfold r_rel. rewrite TriviaProofs.crawl_eq. eexists. reflexivity. Qed.

Lemma ffee_fe1 k r : find_from_expression_element (r_fe1 k r) = Some (r_rel k r).
Proof.
  unfold find_from_expression_element, r_fe1. rewrite crawl_node0_miss by reflexivity. cbn [flat_map].
  destruct (hd_crawl_rel k r) as (tl & ->). reflexivity.
Qed.

Lemma ffee_fc k r0 rest : find_from_expression_element (r_fc k (r0 :: rest) false) = Some (r_rel k r0).
Proof.
  unfold find_from_expression_element, r_fc, r_fej. rewrite crawl_node_miss by reflexivity. cbn [flat_map].
  change (crawl ["from_expression_element"] true (kw_sp kwf "from")) with (@nil seg). cbn [app].
  rewrite crawl_node_miss by reflexivity. cbn [flat_map]. destruct (hd_crawl_rel k r0) as (tl & ->). reflexivity.
Qed.

Lemma ffee_join k r : find_from_expression_element (r_join k r) = Some (r_rel k r).
Proof.
  unfold find_from_expression_element, r_join. rewrite crawl_node_miss by reflexivity. cbn [flat_map].
  change (crawl ["from_expression_element"] true (kw_sp kwf "join")) with (@nil seg). cbn [app].
  destruct (hd_crawl_rel k r) as (tl & ->). reflexivity.
Qed.

Lemma clean_rel_table ts k t al :
  not_trivia ts = true ->
  existsb (fun x => mem_string x ts)
    ["from_expression_element"; "table_expression"; "object_reference"; "table_reference"; "identifier"; "naked_identifier"; "raw";
     "dot"; "symbol"; "alias_expression"; "alias_operator"; "keyword"; "word"] = false ->
  clean ts (r_rel k (RTable t al)).
Proof.
  intros Hts H. cbn [existsb] in H. repeat (apply orb_false_iff in H; destruct H as [?E H]).
  rewrite r_rel_table. apply clean_sep_node; [exact Hts|cbn [existsb]; rewrite E; reflexivity|].
  constructor.
  - apply clean_node; [cbn [existsb]; rewrite E0; reflexivity|]. constructor; [|constructor].
    apply clean_tref. cbn [existsb]. rewrite E1, E2, E3, E4, E5, E6, E7. reflexivity.
  - destruct al as [a|]; [|constructor]. constructor; [|constructor]. apply clean_alias; [exact Hts|].
    cbn [existsb]. rewrite E8, E9, E10, E11, E3, E4, E5. reflexivity.
Qed.

Lemma clean_on_clause ts :
  not_trivia ts = true ->
  existsb (fun x => mem_string x ts)
    ["join_on_condition"; "keyword"; "raw"; "word"; "expression"; "literal"; "numeric_literal"; "comparison_operator";
     "raw_comparison_operator"; "symbol"] = false ->
  clean ts (on_clause_sp kwf noise).
Proof.
  intros Hts H. cbn [existsb] in H. repeat (apply orb_false_iff in H; destruct H as [?E H]).
  unfold on_clause_sp. apply clean_sep_node; [exact Hts|cbn [existsb]; rewrite E; reflexivity|].
  constructor; [apply clean_leaf; cbn [existsb]; rewrite E0, E1, E2; reflexivity|]. constructor; [|constructor].
  apply clean_sep_node; [exact Hts|cbn [existsb]; rewrite E3; reflexivity|].
  assert (Hnum : clean ts (num "1")) by (apply clean_leaf; cbn [existsb]; rewrite E4, E5, E1; reflexivity).
  constructor; [exact Hnum|]. constructor; [|constructor; [exact Hnum|constructor]].
  apply clean_node; [cbn [existsb]; rewrite E6; reflexivity|]. constructor; [|constructor].
  apply clean_leaf. cbn [existsb]. rewrite E7, E1, E8. reflexivity.
Qed.

(** *** the FROM clause *)
Lemma filter_intersperse (p : seg -> bool) x l :
  p x = false -> (forall y, In y l -> p y = true) -> filter p (intersperse x l) = l.
Proof.
  intros Hx Hl. induction l as [|a [|b r] IH]; [reflexivity| |].
  - cbn [intersperse filter]. rewrite (Hl a (or_introl eq_refl)). reflexivity.
  - change (intersperse x (a :: b :: r)) with (a :: x :: intersperse x (b :: r)). cbn [filter].
    rewrite (Hl a (or_introl eq_refl)), Hx, IH; [reflexivity|]. intros y Hy. apply Hl. right. exact Hy.
Qed.

Lemma filter_intersperse_none (p : seg -> bool) x l :
  p x = false -> (forall y, In y l -> p y = false) -> filter p (intersperse x l) = [].
Proof.
  intros Hx Hl. apply filter_none. intros y Hy.
  assert (H : Forall (fun y => p y = false) (intersperse x l)).
  { apply Forall_intersperse; [exact Hx|]. apply Forall_forall. exact Hl. }
  rewrite Forall_forall in H. apply H. exact Hy.
Qed.

Lemma gc_fc_single k r0 rest : get_children (r_fc k (r0 :: rest) false) ["from_expression"] = [r_fej k r0 rest].
Proof. unfold r_fc. rewrite get_children_sep by reflexivity. reflexivity. Qed.

Lemma gc_fc_comma k from : get_children (r_fc k from true) ["from_expression"] = map (r_fe1 k) from.
Proof.
  unfold r_fc. rewrite get_children_sep by reflexivity. cbn [filter]. change (is_type (kw_sp kwf "from") ["from_expression"]) with false. cbn iota.
  apply filter_intersperse; [reflexivity|]. intros y Hy. apply in_map_iff in Hy. destruct Hy as (r & <- & _). reflexivity.
Qed.

Lemma gc_join_fe k r : get_children (r_join k r) ["from_expression"] = [].
Proof. unfold r_join. rewrite get_children_sep by reflexivity. reflexivity. Qed.

Lemma gc_fe1_fe k r : get_children (r_fe1 k r) ["from_expression"] = [].
Proof. reflexivity. Qed.

Definition jseg (p : nat * rel) : seg := r_join (fst p) (snd p).
Definition jfee (p : nat * rel) : seg := r_rel (fst p) (snd p).

Lemma list_tables_fc_join k r0 rest g jl :
  list_join_clause (r_fc k (r0 :: rest) false) = map jseg jl ->
  list_tables e (r_fc k (r0 :: rest) false) g =
  (do first <- add_dataset_from_fee e (r_rel k r0) g;
   do joins <- concat_res (map (fun p => add_dataset_from_fee e (jfee p) g) jl);
   Ok (first ++ joins)).
Proof.
  intros H. unfold list_tables. change (ty_in (r_fc k (r0 :: rest) false) _) with true. cbn iota.
  rewrite gc_fc_single. unfold list_tables_one at 1. rewrite ffee_fc, H, map_map.
  destruct (add_dataset_from_fee e (r_rel k r0) g) as [first|err]; [|reflexivity].
  assert (E : map (fun x => if ty_in (jseg x) ["from_clause"; "join_clause"; "update_statement"]
                            then match get_children (jseg x) ["from_expression"] with
                                 | fe1 :: fe2 :: rest0 => concat_res (map (fun fe => list_tables_one e fe g) (fe1 :: fe2 :: rest0))
                                 | _ => list_tables_one e (jseg x) g end
                            else Ok []) jl = map (fun p => add_dataset_from_fee e (jfee p) g) jl).
  { apply map_ext. intros [k' r]. unfold jseg, jfee. cbn [fst snd]. change (ty_in (r_join k' r) _) with true. cbn iota.
    rewrite gc_join_fe. unfold list_tables_one. rewrite ffee_join. reflexivity. }
  rewrite E. reflexivity.
Qed.

Lemma list_tables_fc_comma k r1 r2 rest g :
  list_tables e (r_fc k (r1 :: r2 :: rest) true) g =
  concat_res (map (fun r => add_dataset_from_fee e (r_rel k r) g) (r1 :: r2 :: rest)).
Proof.
  unfold list_tables. change (ty_in (r_fc k (r1 :: r2 :: rest) true) _) with true. cbn iota.
  rewrite gc_fc_comma. cbn [map].
  change (r_fe1 k r1 :: r_fe1 k r2 :: map (r_fe1 k) rest) with (map (r_fe1 k) (r1 :: r2 :: rest)).
  rewrite map_map. f_equal; try (apply map_ext; intros r; unfold list_tables_one; rewrite ffee_fe1; reflexivity).
Qed.

Lemma r_fc_single_comma k r : r_fc k [r] true = r_fc k [r] false.
Proof. reflexivity. Qed.

Lemma list_subqueries_fe1 k r :
  list_subqueries (r_fe1 k r) = (do first <- list_subqueries_fee (r_rel k r); Ok (first ++ [])).
Proof.
  unfold list_subqueries. change (tyis (r_fe1 k r) "select_clause") with false. change (tyis (r_fe1 k r) "from_expression_element") with false.
  change (tyis (r_fe1 k r) "where_clause") with false. change (ty_in (r_fe1 k r) ["from_clause"; "from_expression"]) with true. cbn iota.
  rewrite ffee_fe1. unfold list_join_clause. change (ty_in (r_fe1 k r) ["from_clause"; "update_statement"]) with false. cbn iota.
  cbn [map concat_res]. reflexivity.
Qed.

Lemma list_subqueries_fc_join k r0 rest jl :
  list_join_clause (r_fc k (r0 :: rest) false) = map jseg jl ->
  list_subqueries (r_fc k (r0 :: rest) false) =
  (do first <- list_subqueries_fee (r_rel k r0);
   do rest <- concat_res (map (fun p => list_subqueries_fee (jfee p)) jl);
   Ok (first ++ rest)).
Proof.
  intros H. unfold list_subqueries. set (F := r_fc k (r0 :: rest) false) in *.
  change (tyis F "select_clause") with false. change (tyis F "from_expression_element") with false.
  change (tyis F "where_clause") with false. change (ty_in F ["from_clause"; "from_expression"]) with true. cbn iota.
  unfold F at 1. rewrite ffee_fc, H, map_map.
  assert (E : map (fun x => match find_from_expression_element (jseg x) with Some fee => list_subqueries_fee fee | None => Ok [] end) jl
              = map (fun p => list_subqueries_fee (jfee p)) jl).
  { apply map_ext. intros [k' r]. unfold jseg, jfee. cbn [fst snd]. rewrite ffee_join. reflexivity. }
  rewrite E. reflexivity.
Qed.

Lemma list_subquery_fc_join k r0 rest :
  list_subquery (r_fc k (r0 :: rest) false) =
  (do l <- list_subqueries (r_fc k (r0 :: rest) false); Ok (parse_subquery l)).
Proof. unfold list_subquery. rewrite gc_fc_single. reflexivity. Qed.

Lemma list_subquery_fc_comma k r1 r2 rest :
  list_subquery (r_fc k (r1 :: r2 :: rest) true) =
  (do ls <- map_res list_subqueries (map (r_fe1 k) (r1 :: r2 :: rest)); Ok (flat_map parse_subquery ls)).
Proof. unfold list_subquery. rewrite gc_fc_comma. reflexivity. Qed.

(** tables only *)

Lemma ljc_tables k r0 rest :
  forallb is_rtable (r0 :: rest) = true ->
  list_join_clause (r_fc k (r0 :: rest) false) = map jseg (map (fun r => (k, r)) rest).
Proof.
  intros Hall. cbn [forallb] in Hall. apply andb_true_iff in Hall. destruct Hall as [H0 Hrest].
  destruct r0 as [t0 al0| |]; try discriminate.
  unfold list_join_clause. change (ty_in (r_fc k (RTable t0 al0 :: rest) false) _) with true. cbn iota.
  unfold get_child at 1. rewrite gc_fc_single.
  assert (Hrj : forall r, In r rest -> crawl ["join_clause"] true (r_join k r) = [r_join k r]).
  { intros r Hr. rewrite forallb_forall in Hrest. specialize (Hrest r Hr). destruct r as [t al| |]; try discriminate.
    unfold r_join. rewrite crawl_node_hit by reflexivity. f_equal. cbn [flat_map].
    change (crawl ["join_clause"] true (kw_sp kwf "join")) with (@nil seg).
    rewrite (clean_crawl _ _ (r_rel k (RTable t al))) by (apply clean_rel_table; reflexivity).
    rewrite (clean_crawl _ _ (on_clause_sp kwf noise)) by (apply clean_on_clause; reflexivity). reflexivity. }
  assert (Hc : crawl ["join_clause"] true (r_fc k (RTable t0 al0 :: rest) false) = map (r_join k) rest).
  { unfold r_fc, r_fej. rewrite crawl_node_miss by reflexivity. cbn [flat_map].
    change (crawl ["join_clause"] true (kw_sp kwf "from")) with (@nil seg). cbn [app]. rewrite app_nil_r.
    rewrite crawl_node_miss by reflexivity. cbn [flat_map].
    rewrite (clean_crawl _ _ (r_rel k (RTable t0 al0))) by (apply clean_rel_table; reflexivity). cbn [app].
    clear Hrest. induction rest as [|r rs IH]; [reflexivity|]. cbn [map flat_map].
    rewrite (Hrj r (or_introl eq_refl)), IH; [reflexivity|]. intros r' Hr'. apply Hrj. right. exact Hr'. }
  rewrite map_map. unfold jseg. cbn [fst snd].
  destruct rest as [|r1 rs].
  - unfold get_child, r_fej. rewrite get_children_sep by reflexivity. cbn [map filter].
    change (is_type (r_rel k (RTable t0 al0)) ["join_clause"]) with false. cbn iota.
    change (node "from_expression" ["from_expression"] (sep noise [r_rel k (RTable t0 al0)])) with (r_fe1 k (RTable t0 al0)).
    unfold r_fe1. rewrite crawl_node0_miss by reflexivity. cbn [flat_map].
    rewrite (clean_crawl _ _ (r_rel k (RTable t0 al0))) by (apply clean_rel_table; reflexivity). cbn [app]. exact Hc.
  - unfold get_child, r_fej. rewrite get_children_sep by reflexivity. cbn [map filter].
    change (is_type (r_rel k (RTable t0 al0)) ["join_clause"]) with false.
    change (is_type (r_join k r1) ["join_clause"]) with true. cbn iota. exact Hc.
Qed.

(** *** the SELECT clause *)

Definition r_wild (qq : option string) : seg :=
  node "wildcard_expression" ["wildcard_expression"]
       [node "wildcard_identifier" ["wildcard_identifier"; "object_reference"]
             (match qq with Some x => [ident_sp (sp R_STARQ) x; dot; star_seg] | None => [star_seg] end)].

Lemma r_item_colref qq c al :
  r_item_spr sp kwf noise (IExpr (EColRef qq c) al) = node "select_clause_element" ["select_clause_element"] (sep noise (r_colref_spr sp qq c :: al_list al)).
Proof. destruct al; reflexivity. Qed.
Lemma r_item_star qq : r_item_spr sp kwf noise (IStar qq) = node "select_clause_element" ["select_clause_element"] [r_wild qq].
Proof. reflexivity. Qed.

Lemma ecq_colref qq c : extract_column_qualifier (r_colref_spr sp qq c) = Ok (Some (sp R_COL c, option_map (sp R_QUAL) qq)).
Proof. destruct qq; reflexivity. Qed.

Lemma ecq_wild qq :
  match qq with Some x => id_ok x = true | None => True end -> extract_column_qualifier (r_wild qq) = Ok (Some ("*", option_map (sp R_STARQ) qq)).
Proof.
  intros H. unfold extract_column_qualifier. change (is_wildcard (r_wild qq)) with true. cbn iota.
  destruct qq as [x|].
  - assert (E : raw (r_wild (Some x)) = (sp R_STARQ x ++ String "."%char "*")%string).
    { cbn [r_wild raw node map concat_str ident_sp ident leaf dot sym star_seg]. rewrite !append_nil_r. reflexivity. }
    rewrite E, (split_dot_nodot (sp R_STARQ x) "*" (sp_nodot _ x H)). reflexivity.
  - reflexivity.
Qed.

Lemma map_res_inv {A B} (P : B -> Prop) (f : A -> res B) l :
  (forall x, In x l -> exists y, f x = Ok y /\ P y) -> exists ys, map_res f l = Ok ys /\ Forall P ys.
Proof.
  induction l as [|x r IH]; intros H; cbn [map_res]; [exists []; auto|].
  destruct (H x (or_introl eq_refl)) as (y & E & Hy). rewrite E.
  destruct (IH (fun z Hz => H z (or_intror Hz))) as (ys & E2 & Hys). rewrite E2. exists (y :: ys). auto.
Qed.

Lemma xcol_ok_mk r name c qq fa :
  match qq with Some x => id_ok x = true | None => True end -> xcol_ok (mk_xcol name [(c, option_map (sp r) qq)] fa).
Proof.
  intros H. split; [reflexivity|]. intros c' q Hin. cbn [mk_xcol xsrc map esc_src fst snd] in Hin.
  destruct Hin as [Hin|[]]. inversion Hin. destruct qq as [x|]; [|discriminate]. cbn [option_map] in H2. inversion H2.
  rewrite (sp_escape _ x H). apply id_ok_count. exact H.
Qed.

Lemma column_of_seg_item f i :
  item_ok i = true -> exists x, column_of_seg (S f) e (r_item_spr sp kwf noise i) = Ok x /\ xcol_ok x.
Proof.
  destruct i as [[qq c| | | | | |] al|qq]; cbn [item_ok]; try discriminate; intros H.
  - apply andb_true_iff in H. destruct H as [H Ha]. apply andb_true_iff in H. destruct H as [Hc Hq].
    assert (Hq' : match qq with Some x => id_ok x = true | None => True end) by (destruct qq; auto).
    rewrite r_item_colref. unfold column_of_seg.
    match goal with |- context [tyis ?n "select_clause_element"] => change (tyis n "select_clause_element") with true end. cbn iota.
    unfold get_column_and_alias. rewrite !lcs_node by reflexivity.
    assert (E : filter nn (r_colref_spr sp qq c :: al_list al) = r_colref_spr sp qq c :: al_list al) by (destruct al; reflexivity).
    rewrite E. cbn [fold_left]. change (tyis (r_colref_spr sp qq c) "alias_expression") with false. cbn iota.
    change (ty_in (r_colref_spr sp qq c) SOURCE_TYPES) with true. cbn [orb].
    cbn [extract_sources]. change (ty_in (r_colref_spr sp qq c) ["identifier"; "column_reference"]) with true. cbn [orb].
    rewrite ecq_colref. cbn [app].
    destruct al as [a|]; cbn [al_list fold_left].
    + change (tyis (r_alias_spr sp kwf noise a) "alias_expression") with true. cbn iota. unfold extract_identifier. rewrite lcs_alias.
      cbn [last_res rev app raw ident_sp ident leaf]. rewrite (sp_nonempty _ a Ha).
      eexists. split; [reflexivity|]. apply xcol_ok_mk. exact Hq'.
    + change (tyis (r_colref_spr sp qq c) "column_reference") with true. cbn [orb fst].
      eexists. split; [reflexivity|]. apply xcol_ok_mk. exact Hq'.
  - assert (Hq' : match qq with Some x => id_ok x = true | None => True end) by (destruct qq; auto).
    rewrite r_item_star. unfold column_of_seg.
    match goal with |- context [tyis ?n "select_clause_element"] => change (tyis n "select_clause_element") with true end. cbn iota.
    unfold get_column_and_alias. rewrite !lcs_node0 by reflexivity. cbn [filter]. change (nn (r_wild qq)) with true. cbn iota. cbn [fold_left].
    change (tyis (r_wild qq) "alias_expression") with false. cbn iota.
    change (is_wildcard (r_wild qq)) with true. rewrite !orb_true_r.
    cbn [extract_sources]. rewrite !orb_true_r. rewrite (ecq_wild qq Hq'). cbn [app fst].
    eexists. split; [reflexivity|]. apply xcol_ok_mk. exact Hq'.
Qed.

Lemma gc_sc_items items : get_children (r_sc items) ["select_clause_element"] = map (r_item_spr sp kwf noise) items.
Proof.
  unfold r_sc. rewrite get_children_sep by reflexivity. cbn [filter]. change (is_type (kw_sp kwf "select") ["select_clause_element"]) with false.
  cbn iota. apply filter_intersperse; [reflexivity|]. intros y Hy. apply in_map_iff in Hy. destruct Hy as (i & <- & _).
  destruct i as [[ | | | | | | ] al|qq]; reflexivity.
Qed.

Lemma swap_partition_off s g : handle_swap_partition e s g = Ok g.
Proof. unfold handle_swap_partition. rewrite (proj1 (proj2 env_facts)). reflexivity. Qed.

Lemma handle_child_sc f st items :
  forallb item_ok items = true ->
  exists cols, handle_child (S f) e st (r_sc items) =
               Ok {| s_g := s_g st; s_tables := s_tables st; s_columns := s_columns st ++ cols; s_barriers := s_barriers st |}
               /\ Forall xcol_ok cols.
Proof.
  intros H. unfold handle_child. rewrite swap_partition_off. unfold handle_select_into.
  change (ty_in (r_sc items) ["into_table_clause"; "into_clause"]) with false. cbn iota.
  unfold list_tables. change (ty_in (r_sc items) ["from_clause"; "join_clause"; "update_statement"]) with false. cbn iota.
  change (tyis (r_sc items) "select_clause") with true. cbn iota. rewrite gc_sc_items.
  destruct (map_res_inv xcol_ok (column_of_seg (S f) e) (map (r_item_spr sp kwf noise) items)) as (cols & E & Hc).
  { intros x Hx. apply in_map_iff in Hx. destruct Hx as (i & <- & Hi). apply column_of_seg_item.
    rewrite forallb_forall in H. apply H. exact Hi. }
  rewrite E. exists cols. rewrite app_nil_r. auto.
Qed.

Lemma handle_child_fc f st k from cj :
  handle_child f e st (r_fc k from cj) =
  (do ts <- list_tables e (r_fc k from cj) (s_g st);
   Ok {| s_g := s_g st; s_tables := s_tables st ++ ts; s_columns := s_columns st; s_barriers := s_barriers st |}).
Proof.
  unfold handle_child. rewrite swap_partition_off. unfold handle_select_into.
  change (ty_in (r_fc k from cj) ["into_table_clause"; "into_clause"]) with false. cbn iota.
  destruct (list_tables e (r_fc k from cj) (s_g st)); [|reflexivity].
  change (tyis (r_fc k from cj) "select_clause") with false. cbn iota. rewrite app_nil_r. reflexivity.
Qed.

Lemma item_types i : tyis (r_item_spr sp kwf noise i) "set_expression" = false /\ is_type (r_item_spr sp kwf noise i) ["from_expression"] = false.
Proof. destruct i as [[ | | | | | | ] al|qq]; split; reflexivity. Qed.

Lemma ise_sc items : is_set_expression (r_sc items) = false.
Proof.
  unfold is_set_expression. change (tyis (r_sc items) "set_expression") with false. cbn [orb]. unfold r_sc. cbn [children node].
  rewrite existsb_sep by (intros x Hx; apply noise_tyis; [exact Hx|reflexivity]). cbn [existsb]. change (tyis (kw_sp kwf "select") "set_expression") with false. cbn [orb].
  apply existsb_none. intros y Hy.
  assert (H : Forall (fun y => tyis y "set_expression" = false) (intersperse comma (map (r_item_spr sp kwf noise) items))).
  { apply Forall_intersperse; [reflexivity|]. apply Forall_forall. intros z Hz. apply in_map_iff in Hz. destruct Hz as (i & <- & _). apply item_types. }
  rewrite Forall_forall in H. apply H. exact Hy.
Qed.

Lemma ise_fc k from cj : is_set_expression (r_fc k from cj) = false.
Proof.
  unfold is_set_expression. change (tyis (r_fc k from cj) "set_expression") with false. cbn [orb]. unfold r_fc. cbn [children node].
  rewrite existsb_sep by (intros x Hx; apply noise_tyis; [exact Hx|reflexivity]). cbn [existsb]. change (tyis (kw_sp kwf "from") "set_expression") with false. cbn [orb].
  destruct cj.
  - apply existsb_none. intros y Hy.
    assert (H : Forall (fun y => tyis y "set_expression" = false) (intersperse comma (map (r_fe1 k) from))).
    { apply Forall_intersperse; [reflexivity|]. apply Forall_forall. intros z Hz. apply in_map_iff in Hz. destruct Hz as (i & <- & _). reflexivity. }
    rewrite Forall_forall in H. apply H. exact Hy.
  - destruct from; reflexivity.
Qed.

Lemma concat_res_nil {A B} (f : A -> res (list B)) l : (forall x, In x l -> f x = Ok []) -> concat_res (map f l) = Ok [].
Proof.
  induction l as [|x r IH]; intros H; [reflexivity|]. cbn [map concat_res]. rewrite (H x (or_introl eq_refl)), IH; [reflexivity|].
  intros y Hy. apply H. right. exact Hy.
Qed.

Lemma list_subquery_sc items : forallb item_ok items = true -> list_subquery (r_sc items) = Ok [].
Proof.
  intros H. unfold list_subquery.
  assert (E : get_children (r_sc items) ["from_expression"] = []).
  { unfold r_sc. rewrite get_children_sep by reflexivity. cbn [filter]. change (is_type (kw_sp kwf "select") ["from_expression"]) with false. cbn iota.
    apply filter_intersperse_none; [reflexivity|]. intros y Hy. apply in_map_iff in Hy. destruct Hy as (i & <- & _). apply item_types. }
  rewrite E. change (ty_in (r_sc items) ["select_clause"; "from_clause"; "where_clause"]) with true. cbn iota.
  unfold list_subqueries. change (tyis (r_sc items) "select_clause") with true. cbn iota. rewrite gc_sc_items.
  rewrite concat_res_nil; [reflexivity|]. intros x Hx. apply in_map_iff in Hx. destruct Hx as (i & <- & Hi).
  rewrite forallb_forall in H. specialize (H i Hi).
  destruct i as [[qq c| | | | | |] al|qq]; cbn [item_ok] in H; try discriminate.
  - rewrite r_item_colref. unfold get_child. rewrite !get_children_sep by reflexivity. destruct al; reflexivity.
  - reflexivity.
Qed.

Lemma sel_subq1_sc items : forallb item_ok items = true -> sel_subq1 (r_sc items) = Ok [].
Proof. intros H. unfold sel_subq1. rewrite (list_subquery_sc items H), ise_sc. reflexivity. Qed.

(** *** CTE names in scope *)

Lemma cte_lookup_fold l name : forall acc,
  fold_left (fun acc c => if String.eqb (dalias c) name then Some c else acc) l acc =
  match fold_left (fun acc c => if String.eqb (dalias c) name then Some c else acc) l None with
  | Some c => Some c | None => acc end.
Proof.
  induction l as [|c r IH]; intros acc; cbn [fold_left]; [reflexivity|].
  rewrite IH. rewrite (IH (if String.eqb (dalias c) name then Some c else None)).
  destruct (fold_left _ r None); [reflexivity|]. destruct (String.eqb (dalias c) name); reflexivity.
Qed.

Lemma cte_lookup_spec g name :
  match cte_lookup g name with
  | Some c => In c (sq_cte g) /\ dalias c = escape name
  | None => forall c, In c (sq_cte g) -> dalias c <> escape name
  end.
Proof.
  unfold cte_lookup. induction (sq_cte g) as [|c r IH]; cbn [fold_left]; [intros c []|].
  rewrite cte_lookup_fold. destruct (fold_left _ r None) as [c'|].
  - destruct IH as [H1 H2]. split; [right; exact H1|exact H2].
  - destruct (String.eqb (dalias c) (escape name)) eqn:E.
    + apply String.eqb_eq in E. split; [left; reflexivity|exact E].
    + intros c' [H|H]; [subst c'; apply String.eqb_neq; exact E|apply IH; exact H].
Qed.


Lemma tnames_app a b x : tnames (a ++ b) x <-> tnames a x \/ tnames b x.
Proof.
  unfold tnames. split.
  - intros (v & H & H2). apply in_app_iff in H. destruct H; [left|right]; exists v; auto.
  - intros [(v & H & H2)|(v & H & H2)]; exists v; rewrite in_app_iff; auto.
Qed.

Lemma tnames_nil x : tnames [] x <-> False.
Proof. unfold tnames. split; [intros (v & [] & _)|tauto]. Qed.


Lemma add_dataset_table_spec k t al g ctes :
  tref_ok t = true -> match al with Some a => id_ok a = true | None => True end ->
  gok g -> cte_rel g ctes ->
  exists ds, add_dataset_from_fee e (r_rel k (RTable t al)) g = Ok ds /\ Forall data_ok ds /\
             forall x, tnames ds x <-> In x (rel_reads e ctes (RTable t al)).
Proof.
  intros Ht Ha Hg [Hc1 Hc2]. rewrite (add_dataset_table k t al g Ht Ha). cbn [rel_reads].
  assert (Htab : exists ds, (do d <- table_of_seg e (r_tref_spr sp t) (option_map (sp R_ALIAS) al); Ok [d]) = Ok ds /\ Forall data_ok ds /\
                            forall x, tnames ds x <-> In x [tref_str (e_cfg e) t]).
  { destruct (table_of_seg_tref t (option_map (sp R_ALIAS) al) Ht) as (d & E & H1 & H2 & H3). rewrite E. exists [d]. split; [reflexivity|].
    split; [constructor; [exact H2|constructor]|]. intros x. unfold tnames. cbn [In]. split.
    - intros (v & [Hv|[]] & _ & Hx). subst v. left. congruence.
    - intros [Hx|[]]. exists d. split; [left; reflexivity|]. split; [exact H1|congruence]. }
  destruct (fst t) as [s|] eqn:Ef; [exact Htab|].
  assert (Hn : id_ok (snd t) = true).
  { unfold tref_ok in Ht. apply andb_true_iff in Ht. exact (proj1 Ht). }
  pose proof (cte_lookup_spec g (snd t)) as Hl. rewrite (id_ok_escape _ Hn) in Hl.
  destruct (cte_lookup g (snd t)) as [c|].
  - destruct Hl as [Hin Hal]. destruct (Hc1 c Hin) as [Hm Hk].
    pose proof (gok_data g c "cte" Hg Hin) as Hd. unfold data_ok in Hd. rewrite Hk in Hd.
    destruct (dquery c) as [q|]; [|contradiction].
    rewrite Hal in Hm. apply mem_string_In in Hm. rewrite Hm.
    eexists. split; [reflexivity|]. split.
    + constructor; [|constructor]. unfold data_ok, mk_subquery. cbn [dk dquery]. discriminate.
    + intros x. cbn [In]. unfold tnames. split; [|tauto]. intros (v & [Hv|[]] & Hk' & _). subst v. discriminate.
  - destruct (mem_string (snd t) ctes) eqn:Em; [|exact Htab].
    apply mem_string_In in Em. destruct (Hc2 _ Em) as (c & Hin & Hal). exfalso. exact (Hl c Hin Hal).
Qed.

Lemma concat_res_tnames {A} (f : A -> res (list dataset)) (S : A -> list string) l :
  (forall r, In r l -> exists ds, f r = Ok ds /\ Forall data_ok ds /\ forall x, tnames ds x <-> In x (S r)) ->
  exists ds, concat_res (map f l) = Ok ds /\ Forall data_ok ds /\ forall x, tnames ds x <-> In x (flat_map S l).
Proof.
  induction l as [|r rs IH]; intros H; cbn [map concat_res flat_map].
  - exists []. split; [reflexivity|]. split; [constructor|]. intros x. rewrite tnames_nil. cbn [In]. tauto.
  - destruct (H r (or_introl eq_refl)) as (ds & E & Hd & Hx). rewrite E.
    destruct (IH (fun r' Hr' => H r' (or_intror Hr'))) as (ds2 & E2 & Hd2 & Hx2). rewrite E2.
    exists (ds ++ ds2). split; [reflexivity|]. split; [apply Forall_app; auto|].
    intros x. rewrite tnames_app, in_app_iff, Hx, Hx2. tauto.
Qed.


(** FROM with tables only *)
Lemma list_tables_all_tables k from cj g ctes :
  from <> [] -> forallb rel_ok from = true -> gok g -> cte_rel g ctes ->
  exists ds, list_tables e (r_fc k from cj) g = Ok ds /\ Forall data_ok ds /\
             forall x, tnames ds x <-> In x (flat_map (rel_reads e ctes) from).
Proof.
  intros Hne Hok Hg Hc.
  assert (Hrt : forallb is_rtable from = true).
  { rewrite forallb_forall in *. intros r Hr. specialize (Hok r Hr). destruct r; try discriminate. reflexivity. }
  assert (Hper : forall r, In r from -> exists ds, add_dataset_from_fee e (r_rel k r) g = Ok ds /\ Forall data_ok ds /\
                                                   forall x, tnames ds x <-> In x (rel_reads e ctes r)).
  { intros r Hr. rewrite forallb_forall in Hok. specialize (Hok r Hr). destruct r as [t al| |]; try discriminate.
    cbn [rel_ok] in Hok. apply andb_true_iff in Hok. destruct Hok as [H1 H2].
    apply add_dataset_table_spec; auto. destruct al; auto. }
  assert (Hjoin : forall r0 rest, from = r0 :: rest ->
            exists ds, list_tables e (r_fc k (r0 :: rest) false) g = Ok ds /\ Forall data_ok ds /\
                       forall x, tnames ds x <-> In x (flat_map (rel_reads e ctes) from)).
  { intros r0 rest ->. rewrite (list_tables_fc_join k r0 rest g _ (ljc_tables k r0 rest Hrt)).
    destruct (Hper r0 (or_introl eq_refl)) as (d0 & E0 & Hd0 & Hx0). rewrite E0.
    destruct (concat_res_tnames (fun p => add_dataset_from_fee e (jfee p) g) (fun p => rel_reads e ctes (snd p)) (map (fun r => (k, r)) rest))
      as (ds & E & Hd & Hx).
    { intros [k' r] Hin. apply in_map_iff in Hin. destruct Hin as (r' & Heq & Hr'). inversion Heq. subst k' r'.
      unfold jfee. cbn [fst snd]. apply Hper. right. exact Hr'. }
    rewrite E. exists (d0 ++ ds). split; [reflexivity|]. split; [apply Forall_app; auto|].
    intros x. rewrite tnames_app, Hx0, Hx. cbn [flat_map]. rewrite in_app_iff.
    assert (Efm : flat_map (fun p : nat * rel => rel_reads e ctes (snd p)) (map (fun r => (k, r)) rest) = flat_map (rel_reads e ctes) rest).
    { clear. induction rest as [|r rs IH]; [reflexivity|]. cbn [map flat_map snd]. rewrite IH. reflexivity. }
    rewrite Efm. tauto. }
  destruct cj.
  - destruct from as [|r1 [|r2 rest]]; [contradiction| |].
    + rewrite r_fc_single_comma. apply (Hjoin r1 []). reflexivity.
    + rewrite list_tables_fc_comma. apply concat_res_tnames. exact Hper.
  - destruct from as [|r0 rest]; [contradiction|]. apply (Hjoin r0 rest). reflexivity.
Qed.

Lemma map_res_all_nil {A B C} (f : A -> res (list B)) (h : list B -> list C) l :
  h [] = [] -> (forall x, In x l -> f x = Ok []) -> exists ls, map_res f l = Ok ls /\ flat_map h ls = [].
Proof.
  intros Hh. induction l as [|x r IH]; intros H; cbn [map_res]; [exists []; auto|].
  rewrite (H x (or_introl eq_refl)). destruct (IH (fun y Hy => H y (or_intror Hy))) as (ls & E & Hls). rewrite E.
  exists ([] :: ls). split; [reflexivity|]. cbn [flat_map]. rewrite Hh, Hls. reflexivity.
Qed.

Lemma sel_subq1_fc_tables k from cj :
  from <> [] -> forallb is_rtable from = true -> sel_subq1 (r_fc k from cj) = Ok [].
Proof.
  intros Hne Hrt. unfold sel_subq1. rewrite ise_fc.
  assert (Hfee : forall r, In r from -> list_subqueries_fee (r_rel k r) = Ok []).
  { intros r Hr. rewrite forallb_forall in Hrt. specialize (Hrt r Hr). destruct r; try discriminate. apply list_subqueries_fee_table. }
  assert (Hjoin : forall r0 rest, from = r0 :: rest -> list_subquery (r_fc k (r0 :: rest) false) = Ok []).
  { intros r0 rest ->. rewrite list_subquery_fc_join, (list_subqueries_fc_join k r0 rest _ (ljc_tables k r0 rest Hrt)).
    rewrite (Hfee r0 (or_introl eq_refl)). rewrite concat_res_nil; [reflexivity|].
    intros [k' r] Hin. apply in_map_iff in Hin. destruct Hin as (r' & Heq & Hr'). inversion Heq. subst. unfold jfee. cbn [fst snd].
    apply Hfee. right. exact Hr'. }
  assert (E : list_subquery (r_fc k from cj) = Ok []).
  { destruct cj.
    - destruct from as [|r1 [|r2 rest]]; [contradiction| |].
      + rewrite r_fc_single_comma. apply (Hjoin r1 []). reflexivity.
      + rewrite list_subquery_fc_comma.
        destruct (map_res_all_nil list_subqueries parse_subquery (map (r_fe1 k) (r1 :: r2 :: rest)) eq_refl) as (ls & E1 & E2).
        { intros x Hx. apply in_map_iff in Hx. destruct Hx as (r & <- & Hr). rewrite list_subqueries_fe1, (Hfee r Hr). reflexivity. }
        rewrite E1, E2. reflexivity.
    - destruct from as [|r0 rest]; [contradiction|]. apply (Hjoin r0 rest). reflexivity. }
  rewrite E. reflexivity.
Qed.

(** *** the end of a SELECT: cleanup and wildcard expansion *)
Lemma select_tail g1 ts cols bars :
  gok g1 -> Forall data_ok ts -> Forall xcol_ok cols -> List.length (sq_write g1) <= 1 ->
  exists g3, (do g2 <- end_of_query_cleanup e g1 ts cols bars; expand_wildcard e g2) = Ok g3 /\ gok g3 /\
             (forall k, k <> "read" -> holder_nodes g3 k = holder_nodes g1 k) /\
             (forall x, tset g3 "read" x <-> tset g1 "read" x \/ tnames ts x).
Proof.
  intros Hg Hts Hcols Hw. destruct (eoq_ok e g1 ts cols bars Hg Hts Hcols Hw) as (g2 & E2 & Hg2). rewrite E2.
  destruct (expand_wildcard_ok e g2 (proj1 Hg2) (proj1 env_facts)) as (g3 & E3 & Hg3). rewrite E3.
  exists g3. split; [reflexivity|]. split; [exact (proj1 Hg3)|].
  destruct (fold_add_read ts g1 Hg Hts) as (_ & F2 & F3). split.
  - intros k Hk. rewrite (proj2 Hg3), (proj2 Hg2). apply F2. exact Hk.
  - intros x. rewrite (tset_ext g2 g3 "read" x (proj2 Hg3 "read")), (tset_ext _ g2 "read" x (proj2 Hg2 "read")). apply F3.
Qed.

(** *** a SELECT over tables only, without WHERE *)
Lemma sel_segments_select items k from cj wh :
  sel_segments (node "select_statement" ["select_statement"] (sep noise ([r_sc items; r_fc k from cj] ++ r_wh k wh)))
  = [r_sc items; r_fc k from cj] ++ r_wh k wh.
Proof.
  unfold sel_segments. match goal with |- context [tyis ?n "set_expression"] => change (tyis n "set_expression") with false end. cbn iota.
  rewrite lcs_node by reflexivity. destruct wh as [[c sq]|]; reflexivity.
Qed.

Lemma select_simple f stmt items from cj k ctx ctes :
  sel_segments stmt = [r_sc items; r_fc k from cj] ->
  forallb item_ok items = true -> from <> [] -> forallb rel_ok from = true ->
  gok (init_holder ctx) -> cte_rel (init_holder ctx) ctes -> List.length (sq_write (init_holder ctx)) <= 1 ->
  exists g, extract (S (S f)) e XSelect stmt ctx = Ok g /\ gok g /\
            (forall k, k <> "read" -> holder_nodes g k = holder_nodes (init_holder ctx) k) /\
            (forall x, tset g "read" x <-> tset (init_holder ctx) "read" x \/ In x (flat_map (rel_reads e ctes) from)).
Proof.
  intros Hseg Hit Hne Hrel Hg Hc Hw. rewrite extract_select_eq, Hseg.
  assert (Hrt : forallb is_rtable from = true).
  { rewrite forallb_forall in *. intros r Hr. specialize (Hrel r Hr). destruct r; try discriminate. reflexivity. }
  unfold sel_subqueries. cbn [map concat_res]. rewrite (sel_subq1_sc items Hit), (sel_subq1_fc_tables k from cj Hne Hrt).
  cbn [app ex_subquery fold_left]. unfold sel_fold. cbn [fold_left]. unfold sel_step.
  destruct (handle_child_sc f {| s_g := init_holder ctx; s_tables := []; s_columns := []; s_barriers := [] |} items Hit) as (cols & E1 & Hcols).
  rewrite E1, ise_sc. rewrite handle_child_fc. cbn [s_g s_tables s_columns s_barriers app].
  destruct (list_tables_all_tables k from cj (init_holder ctx) ctes Hne Hrel Hg Hc) as (ts & E2 & Hts & Hx).
  rewrite E2, ise_fc. cbn [s_g s_tables s_columns s_barriers].
  destruct (select_tail (init_holder ctx) ts cols [] Hg Hts Hcols Hw) as (g3 & E3 & Hg3 & Hk & Hr).
  rewrite E3. exists g3. split; [reflexivity|]. split; [exact Hg3|]. split; [exact Hk|].
  intros x. rewrite Hr, Hx. reflexivity.
Qed.


(* ================================================================== *)
(** * Steps 1 and 2: one SELECT over tables (explicit joins or comma joins), no WHERE, arbitrary trivia *)

Lemma rels_flat_tables from : forallb is_rtable from = true -> flat_map rels_flat from = from.
Proof.
  induction from as [|r rs IH]; [reflexivity|]. cbn [forallb flat_map]. intros H. apply andb_true_iff in H. destruct H as [H1 H2].
  destruct r; try discriminate. cbn [rels_flat app]. rewrite (IH H2). reflexivity.
Qed.

Lemma tset_empty k x : tset empty_graph k x <-> False.
Proof. unfold tset. cbn. split; [intros (d & [] & _)|tauto]. Qed.

Lemma cte_rel_empty : cte_rel empty_graph [].
Proof. split; [intros c []|intros n []]. Qed.

Lemma forallb_impl {A} (p q : A -> bool) l : (forall x, In x l -> p x = true -> q x = true) -> forallb p l = true -> forallb q l = true.
Proof. intros H. rewrite !forallb_forall. intros Hp x Hx. apply H; [exact Hx|apply Hp; exact Hx]. Qed.

Lemma flat_map_ext_in' {A B} (f g : A -> list B) l : (forall x, In x l -> f x = g x) -> flat_map f l = flat_map g l.
Proof.
  induction l as [|a r IH]; intros H; [reflexivity|]. cbn [flat_map]. rewrite (H a (or_introl eq_refl)), IH; [reflexivity|].
  intros x Hx. apply H. right. exact Hx.
Qed.




(* ================================================================== *)
(** * Part N2: sub-queries *)
Ltac u_brq := unfold r_brq.
Ltac u_brq1 := unfold r_brq at 1.
Ltac u_jseg1 := unfold jseg at 1.
Ltac u_jseg := unfold jseg.
Ltac u_jfee := unfold jfee.
Ltac u_rjoin1 := unfold r_join at 1.
Ltac u_rjoin := unfold r_join.
Ltac u_rfc := unfold r_fc.
Ltac u_rfe1 := unfold r_fe1.
Ltac u_rfej := unfold r_fej.
Ltac u_rsc := unfold r_sc.
Ltac c_rwh := cbn [r_wh flat_map].




Lemma depth_pos s : exists d, depth s = S d.
Proof. destruct s. eexists. reflexivity. Qed.

Lemma gc_leaf t g c r ts : get_children (leaf t g c r) ts = [].
Proof. reflexivity. Qed.

Lemma brq_children_not_bracketed k q :
  get_children (r_query_spr sp kwf noise (S k) q) ["bracketed"] = [].
Proof.
  destruct q as [items from cj wh|a b|n c b].
  - rewrite r_query_select, (get_children_sep) by reflexivity. destruct wh as [[c sq]|]; reflexivity.
  - rewrite r_query_union, (get_children_sep) by reflexivity. cbn [filter].
    assert (H : forall k' q', is_type (r_query_spr sp kwf noise k' q') ["bracketed"] = false).
    { intros k' q'. destruct k' as [|k']; [reflexivity|]. destruct q'; reflexivity. }
    rewrite !H. reflexivity.
  - rewrite r_query_with, (get_children_sep) by reflexivity. cbn [filter].
    assert (H : forall k' q', is_type (r_query_spr sp kwf noise k' q') ["bracketed"] = false).
    { intros k' q'. destruct k' as [|k']; [reflexivity|]. destruct q'; reflexivity. }
    rewrite !H. reflexivity.
Qed.

Lemma rq_not_bracketed k q : is_type (r_query_spr sp kwf noise k q) ["bracketed"] = false.
Proof. destruct k as [|k]; [reflexivity|]. destruct q; reflexivity. Qed.

Lemma innermost_brq k q : extract_innermost_bracketed (r_brq (S k) q) = r_brq (S k) q.
Proof.
  unfold extract_innermost_bracketed. destruct (depth_pos (r_brq (S k) q)) as (d & ->). cbn [innermost_fuel].
  assert (E1 : get_child (r_brq (S k) q) ["bracketed"] = None).
  { unfold get_child. u_brq. rewrite (get_children_sep) by reflexivity. cbn [filter].
    rewrite rq_not_bracketed. reflexivity. }
  rewrite E1. u_brq1. cbn [children node].
  rewrite (flat_map_sep).
  - cbn [flat_map]. unfold get_child. rewrite brq_children_not_bracketed. reflexivity.
  - intros x Hx. unfold get_child, get_children. rewrite (proj1 (proj2 (noise_seg_facts x Hx))). reflexivity.
Qed.

Lemma gc_brq_inner k q :
  is_body q = true ->
  get_child (r_brq (S k) q) ["select_statement"; "set_expression"; "with_compound_statement"] = Some (r_query_spr sp kwf noise (S k) q).
Proof.
  intros _. unfold get_child. u_brq. rewrite (get_children_sep) by reflexivity. cbn [filter].
  change (is_type lpar _) with false. change (is_type rpar _) with false. cbn iota.
  destruct q; reflexivity.
Qed.

Lemma is_subquery_brq k q : is_body q = true -> is_subquery (r_brq (S k) q) = Ok true.
Proof.
  intros Hq. unfold is_subquery. change (tyis (r_brq (S k) q) "bracketed") with true. rewrite orb_true_r. cbn iota.
  rewrite innermost_brq, (gc_brq_inner k q Hq). reflexivity.
Qed.

(** *** a derived table *)
Definition te_brq (k : nat) (q : query) : seg := node "table_expression" ["table_expression"] [r_brq k q].

Lemma r_rel_derived k q a :
  r_rel k (RDerived q a) = node "from_expression_element" ["from_expression_element"] (sep noise [te_brq k q; r_alias_spr sp kwf noise a]).
Proof. reflexivity. Qed.

Lemma lcs_fee_derived k q a b : list_child_segments (r_rel k (RDerived q a)) b = [te_brq k q; r_alias_spr sp kwf noise a].
Proof. rewrite r_rel_derived, (lcs_node) by reflexivity. reflexivity. Qed.

Lemma extract_identifier_alias a : extract_identifier (r_alias_spr sp kwf noise a) = Ok (sp R_ALIAS a).
Proof. unfold extract_identifier. rewrite (lcs_alias). reflexivity. Qed.

Lemma list_subqueries_fee_derived k q a :
  is_body q = true -> list_subqueries_fee (r_rel (S k) (RDerived q a)) = Ok [(r_brq (S k) q, Some (sp R_ALIAS a))].
Proof.
  intros Hq. unfold list_subqueries_fee, extract_as_and_target_segment. rewrite lcs_fee_derived. cbn [nth_res nth_error].
  change (tyis (te_brq (S k) q) "keyword") with false. cbn [andb].
  rewrite (is_subquery_other (te_brq (S k) q)) by reflexivity.
  cbn [te_brq children node nth_res nth_error]. rewrite (is_subquery_brq k q Hq).
  assert (E : get_child (r_rel (S k) (RDerived q a)) ["alias_expression"] = Some (r_alias_spr sp kwf noise a)).
  { unfold get_child. rewrite r_rel_derived, (get_children_sep) by reflexivity. reflexivity. }
  rewrite E, extract_identifier_alias, innermost_brq. destruct (negb _); reflexivity.
Qed.

Lemma add_dataset_derived k q a g :
  is_body q = true -> add_dataset_from_fee e (r_rel (S k) (RDerived q a)) g = Ok [mk_subquery (r_brq (S k) q) (Some (sp R_ALIAS a))].
Proof.
  intros Hq. unfold add_dataset_from_fee. rewrite lcs_fee_derived.
  assert (E : get_child (r_rel (S k) (RDerived q a)) ["table_expression"] = Some (te_brq (S k) q)).
  { unfold get_child. rewrite r_rel_derived, (get_children_sep) by reflexivity. reflexivity. }
  rewrite E. change (get_child (te_brq (S k) q) ["function"]) with (@None seg). cbn iota.
  cbn [filter]. change (tyis (te_brq (S k) q) "keyword") with false. change (tyis (r_alias_spr sp kwf noise a) "keyword") with false. cbn [negb].
  cbn [nth_res nth_error]. change (tyis (te_brq (S k) q) "bracketed") with false. cbn [andb].
  replace (list_subqueries (r_rel (S k) (RDerived q a))) with (list_subqueries_fee (r_rel (S k) (RDerived q a))) by reflexivity.
  rewrite (list_subqueries_fee_derived k q a Hq). reflexivity.
Qed.

(** *** WHERE c IN (sub-query) *)
Definition r_where (k : nat) (c : string) (sq : query) : seg :=
  node "where_clause" ["where_clause"]
       (sep noise [kw_sp kwf "where"; node "expression" ["expression"] (sep noise [r_colref_spr sp None c; kw_sp kwf "in"; r_brq k sq])]).

Lemma r_wh_some k c sq : r_wh k (Some (c, sq)) = [r_where k c sq].
Proof. reflexivity. Qed.

Lemma list_subquery_where k c sq :
  is_body sq = true -> list_subquery (r_where (S k) c sq) = Ok [mk_subquery (r_brq (S k) sq) None].
Proof.
  intros Hq. unfold list_subquery.
  assert (E : get_children (r_where (S k) c sq) ["from_expression"] = []).
  { unfold r_where. rewrite (get_children_sep) by reflexivity. reflexivity. }
  rewrite E. change (ty_in (r_where (S k) c sq) ["select_clause"; "from_clause"; "where_clause"]) with true. cbn iota.
  unfold list_subqueries. change (tyis (r_where (S k) c sq) "select_clause") with false.
  change (tyis (r_where (S k) c sq) "from_expression_element") with false. change (tyis (r_where (S k) c sq) "where_clause") with true. cbn iota.
  unfold get_child at 1. unfold r_where at 1. rewrite (get_children_sep) by reflexivity. cbn [filter].
  change (is_type (kw_sp kwf "where") ["expression"]) with false. cbn iota.
  match goal with |- context [is_type ?n ["expression"]] => change (is_type n ["expression"]) with true end. cbn iota.
  rewrite (get_children_sep) by reflexivity. cbn [filter].
  change (is_type (r_colref_spr sp None c) ["bracketed"]) with false. change (is_type (kw_sp kwf "in") ["bracketed"]) with false.
  change (is_type (r_brq (S k) sq) ["bracketed"]) with true. cbn iota. cbn [filter_res].
  rewrite (is_subquery_brq k sq Hq). cbn [map]. rewrite innermost_brq. reflexivity.
Qed.

Lemma ise_where k c sq : is_set_expression (r_where k c sq) = false.
Proof.
  unfold is_set_expression. change (tyis (r_where k c sq) "set_expression") with false. cbn [orb]. unfold r_where. cbn [children node].
  rewrite (existsb_sep) by (intros x Hx; apply noise_tyis; [exact Hx|reflexivity]). reflexivity.
Qed.

Lemma sel_subq1_where k c sq :
  is_body sq = true -> sel_subq1 (r_where (S k) c sq) = Ok [mk_subquery (r_brq (S k) sq) None].
Proof. intros Hq. unfold sel_subq1. rewrite (list_subquery_where k c sq Hq), ise_where. reflexivity. Qed.

Lemma handle_child_where f st k c sq :
  handle_child f e st (r_where k c sq) =
  Ok {| s_g := s_g st; s_tables := s_tables st; s_columns := s_columns st; s_barriers := s_barriers st |}.
Proof.
  unfold handle_child. rewrite (swap_partition_off). unfold handle_select_into.
  change (ty_in (r_where k c sq) ["into_table_clause"; "into_clause"]) with false. cbn iota.
  unfold list_tables. change (ty_in (r_where k c sq) ["from_clause"; "join_clause"; "update_statement"]) with false. cbn iota.
  change (tyis (r_where k c sq) "select_clause") with false. cbn iota. rewrite !app_nil_r. reflexivity.
Qed.

(** *** join clauses found by the recursive crawl (they include those of nested sub-queries) *)


Lemma flat_map_intersperse {B} (f : seg -> list B) x l : f x = [] -> flat_map f (intersperse x l) = flat_map f l.
Proof.
  intros Hx. induction l as [|a [|b r] IH]; [reflexivity|reflexivity|].
  change (intersperse x (a :: b :: r)) with (a :: x :: intersperse x (b :: r)). cbn [flat_map]. rewrite Hx, IH. reflexivity.
Qed.

Lemma clean_item ts i :
  not_trivia ts = true ->
  existsb (fun x => mem_string x ts)
    ["select_clause_element"; "column_reference"; "object_reference"; "identifier"; "naked_identifier"; "raw"; "dot"; "symbol";
     "alias_expression"; "alias_operator"; "keyword"; "word"; "literal"; "numeric_literal"; "wildcard_expression"; "wildcard_identifier"; "star"] = false ->
  clean ts (r_item_spr sp kwf noise i).
Proof.
  intros Hts H. cbn [existsb] in H. repeat (apply orb_false_iff in H; destruct H as [?E H]).
  assert (Hi : forall r n, clean ts (ident_sp (sp r) n)) by (intros r n; apply clean_leaf; cbn [existsb]; rewrite E2, E3, E4; reflexivity).
  assert (Hd : clean ts dot) by (apply clean_leaf; cbn [existsb]; rewrite E5, E4, E6; reflexivity).
  assert (Hal : forall a, clean ts (r_alias_spr sp kwf noise a)).
  { intros a. apply (clean_alias); [exact Hts|]. cbn [existsb]. rewrite E7, E8, E9, E10, E2, E3, E4. reflexivity. }
  assert (Hcr : forall qq c, clean ts (r_colref_spr sp qq c)).
  { intros qq c. apply clean_node; [cbn [existsb]; rewrite E0, E1; reflexivity|]. destruct qq; repeat constructor; auto. }
  assert (Hnum : clean ts (num "1")) by (apply clean_leaf; cbn [existsb]; rewrite E11, E12, E4; reflexivity).
  assert (Hall : forall x al, clean ts x -> Forall (clean ts) (x :: match al with Some a => [r_alias_spr sp kwf noise a] | None => [] end)).
  { intros x al Hx. constructor; [exact Hx|]. destruct al; repeat constructor. apply Hal. }
  destruct i as [ex al|qq].
  - assert (Hgen : forall x, clean ts x -> clean ts (node "select_clause_element" ["select_clause_element"]
                       (sep noise (x :: match al with Some a => [r_alias_spr sp kwf noise a] | None => [] end)))).
    { intros x Hx. apply (clean_sep_node); [exact Hts|cbn [existsb]; rewrite E; reflexivity|]. apply Hall. exact Hx. }
    destruct ex; cbn [r_item_spr]; try (apply Hgen; exact Hnum). apply Hgen. apply Hcr.
  - cbn [r_item_spr]. apply clean_node; [cbn [existsb]; rewrite E; reflexivity|]. constructor; [|constructor].
    apply clean_node; [cbn [existsb]; rewrite E13; reflexivity|]. constructor; [|constructor].
    apply clean_node; [cbn [existsb]; rewrite E14, E1; reflexivity|].
    assert (Hs : clean ts star_seg) by (apply clean_leaf; cbn [existsb]; rewrite E15, E4, E6; reflexivity).
    destruct qq; repeat constructor; auto.
Qed.

Lemma clean_sc ts items :
  not_trivia ts = true ->
  existsb (fun x => mem_string x ts)
    ["select_clause"; "comma"; "select_clause_element"; "column_reference"; "object_reference"; "identifier"; "naked_identifier"; "raw"; "dot"; "symbol";
     "alias_expression"; "alias_operator"; "keyword"; "word"; "literal"; "numeric_literal"; "wildcard_expression"; "wildcard_identifier"; "star"] = false ->
  clean ts (r_sc items).
Proof.
  intros Hts H. cbn [existsb] in H. apply orb_false_iff in H. destruct H as [Esc H]. apply orb_false_iff in H. destruct H as [Ecomma H].
  pose proof H as H'. cbn [existsb] in H'. repeat (apply orb_false_iff in H'; destruct H' as [?E H']).
  apply (clean_sep_node); [exact Hts|cbn [existsb]; rewrite Esc; reflexivity|].
  constructor; [apply clean_leaf; cbn [existsb]; rewrite E9, E4, E10; reflexivity|].
  apply Forall_intersperse; [apply clean_leaf; cbn [existsb]; rewrite Ecomma, E4, E6; reflexivity|].
  apply Forall_forall. intros x Hx. apply in_map_iff in Hx. destruct Hx as (i & <- & _). apply clean_item; [exact Hts|exact H].
Qed.

Notation JC := ["join_clause"].

Lemma crawl_kw ts w : existsb (fun x => mem_string x ts) ["keyword"; "raw"; "word"] = false -> crawl ts true (kw_sp kwf w) = [].
Proof. intros H. apply clean_crawl. apply clean_leaf. exact H. Qed.

Lemma crawl_jc_brq k q :
  crawl JC true (r_query_spr sp kwf noise k q) = map jseg (jrels k q) -> crawl JC true (r_brq k q) = map jseg (jrels k q).
Proof.
  intros IH. u_brq. rewrite (crawl_node_miss) by reflexivity. cbn [flat_map]. rewrite IH.
  change (crawl JC true lpar) with (@nil seg). change (crawl JC true rpar) with (@nil seg). cbn [app]. apply app_nil_r.
Qed.

Lemma crawl_jc_rel k r :
  (forall q, crawl JC true (r_query_spr sp kwf noise k q) = map jseg (jrels k q)) ->
  crawl JC true (r_rel k r) = map jseg (jr k r).
Proof.
  intros IH. destruct r as [t al|q a|x y].
  - apply clean_crawl. apply (clean_rel_table); reflexivity.
  - rewrite r_rel_derived, (crawl_node_miss) by reflexivity. cbn [flat_map]. unfold te_brq.
    rewrite crawl_node0_miss by reflexivity. cbn [flat_map]. rewrite (crawl_jc_brq k q (IH q)).
    rewrite (clean_crawl JC true (r_alias_spr sp kwf noise a)) by (apply (clean_alias); reflexivity). cbn [app jr]. rewrite !app_nil_r. reflexivity.
  - reflexivity.
Qed.

Lemma crawl_jc_join k r :
  (forall q, crawl JC true (r_query_spr sp kwf noise k q) = map jseg (jrels k q)) ->
  crawl JC true (r_join k r) = jseg (k, r) :: map jseg (jr k r).
Proof.
  intros IH. u_jseg1. cbn [fst snd]. u_rjoin1.
  rewrite (crawl_node_hit) by reflexivity. f_equal. cbn [flat_map].
  rewrite (crawl_jc_rel k r IH). rewrite (clean_crawl JC true (on_clause_sp kwf noise)) by (apply (clean_on_clause); reflexivity).
  change (crawl JC true (kw_sp kwf "join")) with (@nil seg). cbn [app]. apply app_nil_r.
Qed.

Lemma crawl_jc k : forall q, crawl JC true (r_query_spr sp kwf noise k q) = map jseg (jrels k q).
Proof.
  induction k as [|k IH]; intros q; [reflexivity|]. destruct q as [items from cj wh|a b|n c b].
  - rewrite r_query_select, (crawl_node_miss) by reflexivity. rewrite flat_map_app. cbn [flat_map].
    rewrite (clean_crawl JC true (r_sc items)) by (apply clean_sc; reflexivity). cbn [app]. rewrite app_nil_r.
    cbn [jrels]. rewrite map_app. f_equal.
    + u_rfc. rewrite (crawl_node_miss) by reflexivity. cbn [flat_map].
      change (crawl JC true (kw_sp kwf "from")) with (@nil seg). cbn [app]. destruct cj.
      * rewrite flat_map_intersperse by reflexivity. rewrite flat_map_concat_map, map_map, <- flat_map_concat_map.
        induction from as [|r rs IHf]; [reflexivity|]. cbn [flat_map]. rewrite map_app, IHf. f_equal.
        u_rfe1. rewrite crawl_node0_miss by reflexivity. cbn [flat_map]. rewrite app_nil_r. apply (crawl_jc_rel k r IH).
      * destruct from as [|r0 rest]; [reflexivity|]. cbn [flat_map]. rewrite app_nil_r. u_rfej.
        rewrite (crawl_node_miss) by reflexivity. cbn [flat_map]. rewrite (crawl_jc_rel k r0 IH), map_app. f_equal.
        induction rest as [|r rs IHf]; [reflexivity|]. cbn [map flat_map]. rewrite (crawl_jc_join k r IH), IHf.
        cbn [app map]. rewrite map_app. reflexivity.
    + destruct wh as [[c sq]|]; [|reflexivity]. c_rwh. rewrite app_nil_r.
      rewrite (crawl_node_miss) by reflexivity. cbn [flat_map]. change (crawl JC true (kw_sp kwf "where")) with (@nil seg). cbn [app]. rewrite app_nil_r.
      rewrite (crawl_node_miss) by reflexivity. cbn [flat_map].
      rewrite (clean_crawl JC true (r_colref_spr sp None c)) by (apply clean_node; [reflexivity|]; repeat constructor; apply clean_leaf; reflexivity).
      change (crawl JC true (kw_sp kwf "in")) with (@nil seg). cbn [app]. rewrite app_nil_r. apply crawl_jc_brq. apply IH.
  - rewrite r_query_union, (crawl_node_miss) by reflexivity. cbn [flat_map jrels]. rewrite !IH, map_app.
    match goal with |- context [crawl JC true (node "set_operator" ?c ?l)] =>
      rewrite (clean_crawl JC true (node "set_operator" c l)) by (apply (clean_sep_node); [reflexivity|reflexivity|]; repeat constructor; apply clean_leaf; reflexivity) end.
    cbn [app]. rewrite app_nil_r. reflexivity.
  - rewrite r_query_with, (crawl_node_miss) by reflexivity. cbn [flat_map jrels]. rewrite !IH, map_app.
    change (crawl JC true (kw_sp kwf "with")) with (@nil seg). cbn [app]. rewrite app_nil_r. f_equal.
    rewrite (crawl_node_miss) by reflexivity. cbn [flat_map].
    change (crawl JC true (ident_sp (sp R_CTE) n)) with (@nil seg). change (crawl JC true (kw_sp kwf "as")) with (@nil seg). cbn [app]. rewrite app_nil_r.
    apply crawl_jc_brq. apply IH.
Qed.

(** *** the fragment of queries handled by the main induction: no WITH, set operations between plain SELECTs *)



Lemma body_ok_select k items from cj wh :
  body_ok (S k) (QSelect items from cj wh) = true ->
  forallb item_ok items = true /\ from <> [] /\ forallb (relk_ok k) from = true /\
  match wh with Some (c, sq) => id_ok c = true /\ body_ok k sq = true | None => True end.
Proof.
  cbn [body_ok]. intros H. apply andb_true_iff in H. destruct H as [H H4]. apply andb_true_iff in H. destruct H as [H H3].
  apply andb_true_iff in H. destruct H as [H1 H2]. split; [exact H1|]. split; [destruct from; [discriminate|discriminate]|].
  split; [exact H3|]. destruct wh as [[c sq]|]; [|exact I]. apply andb_true_iff in H4. exact H4.
Qed.

Lemma body_ok_is_body k q : body_ok k q = true -> is_body q = true.
Proof. destruct k; [discriminate|]. destruct q; [reflexivity|reflexivity|discriminate]. Qed.

Lemma body_ok_pos k q : body_ok k q = true -> exists k', k = S k'.
Proof. destruct k; [discriminate|]. eexists. reflexivity. Qed.

Lemma sc_nonempty k q : body_ok k q = true -> crawl ["select_clause"] true (r_query_spr sp kwf noise k q) <> [].
Proof.
  revert q. induction k as [|k IH]; intros q Hq; [discriminate|]. destruct q as [items from cj wh|a b|n c b]; [| |discriminate].
  - rewrite r_query_select, (crawl_node_miss) by reflexivity. cbn [app flat_map]. u_rsc.
    rewrite (crawl_node_hit) by reflexivity. discriminate.
  - cbn [body_ok] in Hq. apply andb_true_iff in Hq. destruct Hq as [Hq Hb]. apply andb_true_iff in Hq. destruct Hq as [Hq Ha].
    rewrite r_query_union, (crawl_node_miss) by reflexivity. cbn [flat_map]. specialize (IH a Ha).
    destruct (crawl ["select_clause"] true (r_query_spr sp kwf noise k a)); [contradiction|discriminate].
Qed.


Lemma crawl_jc_fc k r0 rest :
  crawl JC true (r_fc k (r0 :: rest) false) = map jseg (jr k r0 ++ flat_map (fun r => (k, r) :: jr k r) rest).
Proof.
  u_rfc. rewrite (crawl_node_miss) by reflexivity. cbn [flat_map].
  change (crawl JC true (kw_sp kwf "from")) with (@nil seg). cbn [app]. rewrite app_nil_r. u_rfej.
  rewrite (crawl_node_miss) by reflexivity. cbn [flat_map]. rewrite (crawl_jc_rel k r0 (crawl_jc k)), map_app. f_equal.
  induction rest as [|r rs IHf]; [reflexivity|]. cbn [map flat_map]. rewrite (crawl_jc_join k r (crawl_jc k)), IHf.
  cbn [app map]. rewrite map_app. reflexivity.
Qed.

Lemma ljc_general k r0 rest :
  relk_ok k r0 = true -> list_join_clause (r_fc k (r0 :: rest) false) = map jseg (jl k r0 rest).
Proof.
  intros H0. unfold list_join_clause. change (ty_in (r_fc k (r0 :: rest) false) _) with true. cbn iota.
  unfold get_child at 1. rewrite (gc_fc_single).
  destruct rest as [|r1 rs].
  - unfold get_child. u_rfej. rewrite (get_children_sep) by reflexivity. cbn [map filter].
    change (is_type (r_rel k r0) ["join_clause"]) with false. cbn iota.
    change (node "from_expression" ["from_expression"] (sep noise [r_rel k r0])) with (r_fe1 k r0).
    u_rfe1. rewrite crawl_node0_miss by reflexivity. cbn [flat_map]. rewrite app_nil_r.
    destruct r0 as [t al|q a|x y]; [| |discriminate].
    + rewrite (clean_crawl _ _ (r_rel k (RTable t al))) by (apply (clean_rel_table); reflexivity).
      rewrite crawl_jc_fc. reflexivity.
    + cbn [relk_ok] in H0. apply andb_true_iff in H0. destruct H0 as [_ Hq].
      assert (Hne : crawl ["select_clause"] true (r_rel k (RDerived q a)) <> []).
      { rewrite r_rel_derived, (crawl_node_miss) by reflexivity. cbn [flat_map]. unfold te_brq.
        rewrite crawl_node0_miss by reflexivity. cbn [flat_map]. u_brq. rewrite (crawl_node_miss) by reflexivity. cbn [flat_map].
        change (crawl ["select_clause"] true lpar) with (@nil seg). cbn [app]. pose proof (sc_nonempty k q Hq) as Hs.
        destruct (crawl ["select_clause"] true (r_query_spr sp kwf noise k q)); [contradiction|discriminate]. }
      destruct (crawl ["select_clause"] true (r_rel k (RDerived q a))); [contradiction|reflexivity].
  - unfold get_child. u_rfej. rewrite (get_children_sep) by reflexivity. cbn [map filter].
    change (is_type (r_rel k r0) ["join_clause"]) with false.
    change (is_type (r_join k r1) ["join_clause"]) with true. cbn iota. apply crawl_jc_fc.
Qed.

(** *** all FROM elements the extractor looks at for one SELECT *)


Definition fee_sqt (p : nat * rel) : list sqtuple :=
  match snd p with RDerived q' a => [(r_brq (fst p) q', Some (sp R_ALIAS a))] | _ => [] end.
Definition fee_sq (p : nat * rel) : list dataset := parse_subquery (fee_sqt p).

Lemma fee_subqueries p : fee_ok p -> list_subqueries_fee (jfee p) = Ok (fee_sqt p).
Proof.
  destruct p as [k r]. unfold fee_ok, fee_sqt. u_jfee. cbn [fst snd]. intros H. destruct r as [t al|q a|x y]; [| |discriminate].
  - apply (list_subqueries_fee_table).
  - cbn [relk_ok] in H. apply andb_true_iff in H. destruct H as [_ Hq]. destruct (body_ok_pos k q Hq) as (k' & ->).
    apply list_subqueries_fee_derived. apply (body_ok_is_body _ _ Hq).
Qed.

Lemma fee_tables p g ctes :
  fee_ok p -> gok g -> cte_rel g ctes ->
  exists ds, add_dataset_from_fee e (jfee p) g = Ok ds /\ Forall data_ok ds /\
             forall x, tnames ds x <-> In x (rel_reads e ctes (snd p)).
Proof.
  destruct p as [k r]. unfold fee_ok. u_jfee. cbn [fst snd]. intros H Hg Hc. destruct r as [t al|q a|x y]; [| |discriminate].
  - cbn [relk_ok] in H. apply andb_true_iff in H. destruct H as [H1 H2].
    apply (add_dataset_table_spec); auto. destruct al; auto.
  - cbn [relk_ok] in H. apply andb_true_iff in H. destruct H as [_ Hq]. destruct (body_ok_pos k q Hq) as (k' & ->).
    rewrite (add_dataset_derived k' q a g (body_ok_is_body _ _ Hq)). eexists. split; [reflexivity|]. split.
    + constructor; [|constructor]. unfold data_ok, mk_subquery. cbn [dk dquery]. discriminate.
    + intros x. cbn [rel_reads In]. unfold tnames. split; [|tauto]. intros (v & [Hv|[]] & Hk & _). subst v. discriminate.
Qed.

Lemma FL_comma k from : FL k from true = map (fun r => (k, r)) from.
Proof. reflexivity. Qed.

Lemma concat_res_ok {A B} (f : A -> res (list B)) (h : A -> list B) l :
  (forall x, In x l -> f x = Ok (h x)) -> concat_res (map f l) = Ok (flat_map h l).
Proof.
  induction l as [|x r IH]; intros H; [reflexivity|]. cbn [map concat_res flat_map].
  rewrite (H x (or_introl eq_refl)), IH; [reflexivity|]. intros y Hy. apply H. right. exact Hy.
Qed.

Lemma parse_subquery_app a b : parse_subquery (a ++ b) = parse_subquery a ++ parse_subquery b.
Proof. unfold parse_subquery. apply map_app. Qed.

Lemma parse_subquery_flat {A} (h : A -> list sqtuple) l :
  parse_subquery (flat_map h l) = flat_map (fun x => parse_subquery (h x)) l.
Proof. induction l as [|x r IH]; [reflexivity|]. cbn [flat_map]. rewrite parse_subquery_app, IH. reflexivity. Qed.

Lemma list_subquery_fc k from cj :
  from <> [] -> Forall fee_ok (FL k from cj) ->
  list_subquery (r_fc k from cj) = Ok (flat_map fee_sq (FL k from cj)).
Proof.
  intros Hne Hok.
  assert (Hjoin : forall r0 rest, Forall fee_ok ((k, r0) :: jl k r0 rest) ->
            list_subquery (r_fc k (r0 :: rest) false) = Ok (flat_map fee_sq ((k, r0) :: jl k r0 rest))).
  { intros r0 rest Hall. inversion Hall as [|p l H0 Hl]. subst.
    rewrite (list_subquery_fc_join), (list_subqueries_fc_join k r0 rest _ (ljc_general k r0 rest H0)).
    change (r_rel k r0) with (jfee (k, r0)). rewrite (fee_subqueries (k, r0) H0).
    rewrite (concat_res_ok (fun p => list_subqueries_fee (jfee p)) fee_sqt).
    - cbn [flat_map]. unfold fee_sq at 1. rewrite parse_subquery_app, parse_subquery_flat. reflexivity.
    - intros p Hp. apply fee_subqueries. rewrite Forall_forall in Hl. apply Hl. exact Hp. }
  destruct cj.
  - destruct from as [|r1 [|r2 rest]]; [contradiction| |].
    + rewrite r_fc_single_comma. apply (Hjoin r1 []). exact Hok.
    + rewrite (list_subquery_fc_comma). rewrite FL_comma in *.
      assert (E : map_res list_subqueries (map (r_fe1 k) (r1 :: r2 :: rest)) = Ok (map (fun r => fee_sqt (k, r)) (r1 :: r2 :: rest))).
      { revert Hok. generalize (r1 :: r2 :: rest). induction l as [|r rs IH]; intros Hok; [reflexivity|]. cbn [map map_res] in *.
        inversion Hok. subst. rewrite list_subqueries_fe1. change (r_rel k r) with (jfee (k, r)). rewrite (fee_subqueries (k, r) H1).
        rewrite (IH H2), app_nil_r. reflexivity. }
      rewrite E. f_equal. generalize (r1 :: r2 :: rest). induction l as [|r rs IH]; [reflexivity|]. cbn [map flat_map]. rewrite IH. reflexivity.
  - destruct from as [|r0 rest]; [contradiction|]. apply (Hjoin r0 rest). exact Hok.
Qed.

Lemma list_tables_fc k from cj g ctes :
  from <> [] -> Forall fee_ok (FL k from cj) -> gok g -> cte_rel g ctes ->
  exists ds, list_tables e (r_fc k from cj) g = Ok ds /\ Forall data_ok ds /\
             forall x, tnames ds x <-> In x (flat_map (fun p => rel_reads e ctes (snd p)) (FL k from cj)).
Proof.
  intros Hne Hok Hg Hc.
  assert (Hper : forall p, In p (FL k from cj) -> exists ds, add_dataset_from_fee e (jfee p) g = Ok ds /\ Forall data_ok ds /\
                                                   forall x, tnames ds x <-> In x (rel_reads e ctes (snd p))).
  { intros p Hp. rewrite Forall_forall in Hok. apply fee_tables; auto. }
  assert (Hjoin : forall r0 rest, FL k from cj = (k, r0) :: jl k r0 rest ->
            exists ds, list_tables e (r_fc k (r0 :: rest) false) g = Ok ds /\ Forall data_ok ds /\
                       forall x, tnames ds x <-> In x (flat_map (fun p => rel_reads e ctes (snd p)) (FL k from cj))).
  { intros r0 rest EF. rewrite EF in *. inversion Hok as [|p l H0 Hl]. subst.
    rewrite (list_tables_fc_join k r0 rest g _ (ljc_general k r0 rest H0)).
    destruct (Hper (k, r0) (or_introl eq_refl)) as (d0 & E0 & Hd0 & Hx0). change (r_rel k r0) with (jfee (k, r0)). rewrite E0.
    destruct (concat_res_tnames (fun p => add_dataset_from_fee e (jfee p) g) (fun p => rel_reads e ctes (snd p)) (jl k r0 rest))
      as (ds & E & Hd & Hx).
    { intros p Hp. apply Hper. right. exact Hp. }
    rewrite E. exists (d0 ++ ds). split; [reflexivity|]. split; [apply Forall_app; auto|].
    intros x. rewrite tnames_app, Hx0, Hx. cbn [flat_map]. rewrite in_app_iff. reflexivity. }
  destruct cj.
  - destruct from as [|r1 [|r2 rest]]; [contradiction| |].
    + rewrite r_fc_single_comma. apply (Hjoin r1 []). reflexivity.
    + rewrite (list_tables_fc_comma). rewrite FL_comma in *.
      destruct (concat_res_tnames (fun p => add_dataset_from_fee e (jfee p) g) (fun p => rel_reads e ctes (snd p)) (map (fun r => (k, r)) (r1 :: r2 :: rest)) Hper)
        as (ds & E & Hd & Hx).
      rewrite map_map in E. exists ds. split; [exact E|]. auto.
  - destruct from as [|r0 rest]; [contradiction|]. apply (Hjoin r0 rest). reflexivity.
Qed.

(** *** the specification on the fragment, and what the nested join clauses contribute *)

(* the specification side (section SpecSide of LemmaAProofs.v) does not depend on the rendering: reused *)
Let FL_props := LemmaAProofs.FL_props e.
Let q_reads_select := LemmaAProofs.q_reads_select e.


(** *** the holder a sub-query starts from *)
Lemma fold_add_cte L : forall g,
  gok g -> Forall data_ok L -> noeqb L -> (forall c, In c L -> has_node g (NData c) = false) ->
  gok (fold_left add_cte L g) /\
  gnodes (fold_left add_cte L g) = gnodes g ++ map (fun c => (NData c, [("cte", true)])) L.
Proof.
  induction L as [|c r IH]; intros g Hg Hd Hn Hnew; cbn [fold_left map].
  - rewrite app_nil_r. auto.
  - inversion Hd. subst. cbn [noeqb] in Hn. destruct Hn as [Hn1 Hn2].
    assert (E : gnodes (add_cte g c) = gnodes g ++ [(NData c, [("cte", true)])]).
    { unfold add_cte, add_node. cbn [gnodes]. apply upsert_new. apply (Hnew c). left. reflexivity. }
    destruct (IH (add_cte g c)) as [I1 I2]; auto.
    + apply gok_add_tag; assumption.
    + intros c' Hc'. unfold has_node. rewrite E, has_node_l_app. cbn [has_node_l node_eqb]. rewrite orb_false_r.
      rewrite (dataset_eqb_sym c' c), (Hn1 c' Hc'), orb_false_r. apply (Hnew c'). right. exact Hc'.
    + split; [exact I1|]. rewrite I2, E, <- app_assoc. reflexivity.
Qed.

Lemma hn_cte_nodes L k : hn (map (fun c => (NData c, [("cte", true)])) L) k = if String.eqb k "cte" then L else [].
Proof.
  induction L as [|c r IH]; [destruct (String.eqb k "cte"); reflexivity|]. cbn [map]. unfold hn in *. cbn [flat_map fst snd]. rewrite IH.
  unfold attr_true. cbn [attr_get]. destruct (String.eqb k "cte"); reflexivity.
Qed.

Lemma init_sub L sq :
  noeqb L -> Forall data_ok L -> data_ok sq -> dk sq = KSubq ->
  let g0 := init_holder {| c_cte := Some L; c_write := Some [sq]; c_write_columns := None |} in
  gok g0 /\ sq_cte g0 = L /\ holder_nodes g0 "read" = [] /\
  (forall d, In d (holder_nodes g0 "write") -> dataset_eqb sq d = true).
Proof.
  intros Hn Hd Hsq Hk. cbn [init_holder c_cte c_write c_write_columns fold_left].
  destruct (fold_add_cte L empty_graph gok_empty Hd Hn (fun c _ => eq_refl)) as [G1 G2]. cbn [empty_graph gnodes app] in G2.
  set (g1 := fold_left add_cte L empty_graph) in *. unfold add_write.
  split; [apply gok_add_tag; assumption|]. split; [|split].
  - unfold sq_cte. rewrite tag_add_other by discriminate. rewrite holder_nodes_hn, G2, hn_cte_nodes. reflexivity.
  - rewrite tag_add_other by discriminate. rewrite holder_nodes_hn, G2, hn_cte_nodes. reflexivity.
  - intros d Hin. apply tag_add_sound in Hin. destruct Hin as [Hin|Hin]; [|exact Hin].
    rewrite holder_nodes_hn, G2, hn_cte_nodes in Hin. destruct Hin.
Qed.

Lemma one_write_eqb g w : (forall d, In d (holder_nodes g "write") -> dataset_eqb w d = true) -> one_write g.
Proof.
  intros H d1 d2 H1 H2. apply (dataset_eqb_trans d1 w d2); [apply dataset_eqb_true_sym; apply H; exact H1|apply H; exact H2].
Qed.

(** *** the clauses of one SELECT *)
Definition clauses (items : list item) (k : nat) (from : list rel) (cj : bool) (wh : option (string * query)) : list seg :=
  [r_sc items; r_fc k from cj] ++ r_wh k wh.

Definition wh_sq (k : nat) (wh : option (string * query)) : list dataset :=
  match wh with Some (_, sq) => [mk_subquery (r_brq k sq) None] | None => [] end.

Definition sel_sq (k : nat) (from : list rel) (cj : bool) (wh : option (string * query)) : list dataset :=
  flat_map fee_sq (FL k from cj) ++ wh_sq k wh.

Lemma FL_ok k items from cj wh :
  body_ok (S k) (QSelect items from cj wh) = true -> Forall fee_ok (FL k from cj).
Proof. intros Hq. apply Forall_forall. intros p Hp. exact (proj1 (FL_props [] k items from cj wh p Hq Hp)). Qed.

Lemma clauses_subq k items from cj wh :
  body_ok (S k) (QSelect items from cj wh) = true ->
  concat_res (map sel_subq1 (clauses items k from cj wh)) = Ok (sel_sq k from cj wh) /\
  concat_res (map list_subquery (clauses items k from cj wh)) = Ok (sel_sq k from cj wh).
Proof.
  intros Hq. destruct (body_ok_select k items from cj wh Hq) as (Hit & Hne & Hrels & Hwh).
  pose proof (FL_ok k items from cj wh Hq) as Hfl.
  unfold clauses, sel_sq. cbn [app map concat_res].
  rewrite (sel_subq1_sc items Hit), (list_subquery_sc items Hit).
  unfold sel_subq1 at 1. rewrite (ise_fc), (list_subquery_fc k from cj Hne Hfl).
  destruct wh as [[c sq]|].
  - destruct Hwh as [_ Hsq]. destruct (body_ok_pos k sq Hsq) as (k' & ->). rewrite r_wh_some. cbn [map concat_res].
    rewrite (sel_subq1_where k' c sq (body_ok_is_body _ _ Hsq)), (list_subquery_where k' c sq (body_ok_is_body _ _ Hsq)).
    cbn [app wh_sq]. rewrite !app_nil_r. split; reflexivity.
  - cbn [r_wh map concat_res app wh_sq]. rewrite !app_nil_r. split; reflexivity.
Qed.

Lemma clauses_fold f st k items from cj wh ctes :
  body_ok (S k) (QSelect items from cj wh) = true -> gok (s_g st) -> cte_rel (s_g st) ctes ->
  exists ts cols,
    fold_left (fun acc sg => do st4 <- acc; handle_child (S f) e st4 sg) (clauses items k from cj wh) (Ok st) =
    Ok {| s_g := s_g st; s_tables := s_tables st ++ ts; s_columns := s_columns st ++ cols; s_barriers := s_barriers st |} /\
    Forall data_ok ts /\ Forall xcol_ok cols /\
    forall x, tnames ts x <-> In x (flat_map (fun p => rel_reads e ctes (snd p)) (FL k from cj)).
Proof.
  intros Hq Hg Hc. destruct (body_ok_select k items from cj wh Hq) as (Hit & Hne & Hrels & Hwh).
  pose proof (FL_ok k items from cj wh Hq) as Hfl.
  unfold clauses. cbn [app fold_left].
  destruct (handle_child_sc f st items Hit) as (cols & E1 & Hcols). rewrite E1.
  rewrite (handle_child_fc). cbn [s_g s_tables s_columns s_barriers].
  destruct (list_tables_fc k from cj (s_g st) ctes Hne Hfl Hg Hc) as (ts & E2 & Hts & Hx). rewrite E2.
  exists ts, cols. split; [|auto]. destruct wh as [[c sq]|]; [|reflexivity].
  rewrite r_wh_some. cbn [fold_left]. rewrite handle_child_where. reflexivity.
Qed.

Lemma sel_fold_clauses f l : forall init,
  (forall s, In s l -> is_set_expression s = false) ->
  fold_left (fun acc s => do st0 <- acc; sel_step f e st0 s) l init =
  fold_left (fun acc sg => do st4 <- acc; handle_child f e st4 sg) l init.
Proof.
  induction l as [|s r IH]; intros init H; [reflexivity|]. cbn [fold_left]. rewrite IH by (intros s' Hs'; apply H; right; exact Hs').
  f_equal. destruct init as [st0|err]; [|reflexivity]. unfold sel_step. rewrite (H s (or_introl eq_refl)).
  destruct (handle_child f e st0 s); reflexivity.
Qed.

Lemma clauses_not_set items k from cj wh s : In s (clauses items k from cj wh) -> is_set_expression s = false.
Proof.
  unfold clauses. cbn [app In]. intros [H|[H|H]]; [subst; apply (ise_sc)|subst; apply (ise_fc)|].
  destruct wh as [[c sq]|]; [|destruct H]. destruct H as [H|[]]. subst. apply ise_where.
Qed.

(** *** the segments of a (possibly bracketed) query statement *)
Lemma flat_map_single {A} (f : A -> list A) l : (forall x, In x l -> f x = [x]) -> flat_map f l = l.
Proof.
  induction l as [|a r IH]; intros H; [reflexivity|]. cbn [flat_map]. rewrite (H a (or_introl eq_refl)), IH; [reflexivity|].
  intros x Hx. apply H. right. exact Hx.
Qed.

Lemma ise_brq k q : is_set_expression (r_brq k q) = tyis (r_query_spr sp kwf noise k q) "set_expression".
Proof.
  unfold is_set_expression. change (tyis (r_brq k q) "set_expression") with false. cbn [orb]. u_brq. cbn [children node].
  rewrite (existsb_sep) by (intros x Hx; apply noise_tyis; [exact Hx|reflexivity]). cbn [existsb].
  change (tyis lpar "set_expression") with false. change (tyis rpar "set_expression") with false. cbn [orb]. apply orb_false_r.
Qed.

Lemma In_sep_inv x l : In x (sep noise l) -> In x l \/ In x noise.
Proof.
  induction l as [|a [|b r] IH]; [auto|auto|].
  change (sep noise (a :: b :: r)) with (a :: noise ++ sep noise (b :: r)). intros [H|H]; [left; left; exact H|].
  apply in_app_iff in H. destruct H as [H|H]; [right; exact H|]. destruct (IH H) as [H'|H']; [left; right; exact H'|right; exact H'].
Qed.

Lemma lcs_brq_select k items from cj wh :
  list_child_segments (r_brq (S k) (QSelect items from cj wh)) true = clauses items k from cj wh.
Proof.
  unfold list_child_segments. change (tyis (r_brq (S k) (QSelect items from cj wh)) "bracketed") with true. cbn [andb].
  rewrite ise_brq. rewrite r_query_select at 1. match goal with |- context [tyis (node "select_statement" ?c ?l) "set_expression"] =>
    change (tyis (node "select_statement" c l) "set_expression") with false end. cbn iota.
  assert (E : iter_expanding ["expression"] (r_brq (S k) (QSelect items from cj wh)) = sep noise [lpar; r_query_spr sp kwf noise (S k) (QSelect items from cj wh); rpar]).
  { rewrite TriviaProofs.iter_eq. u_brq. cbn [children node]. apply flat_map_single. intros x Hx.
    apply In_sep_inv in Hx. destruct Hx as [Hx|Hx].
    - cbn [In] in Hx. destruct Hx as [<-|[<-|[<-|[]]]]; reflexivity.
    - rewrite (noise_is_type x ["expression"] (noise_in x Hx) eq_refl). reflexivity. }
  rewrite E. rewrite (flat_map_sep).
  - cbn [flat_map]. change (ty_in lpar _) with false. change (ty_in rpar _) with false. cbn iota.
    change (children lpar) with (@nil seg). change (children rpar) with (@nil seg). cbn [filter app]. rewrite app_nil_r.
    rewrite r_query_select. match goal with |- context [ty_in (node "select_statement" ?c ?l) ?ts] =>
      change (ty_in (node "select_statement" c l) ts) with false end. cbn iota. cbn [children node].
    rewrite (filter_sep) by (apply nn_noise). unfold clauses. destruct wh as [[c sq]|]; reflexivity.
  - intros x Hx. rewrite (noise_ty_in x ["column_reference"; "column_definition"] Hx eq_refl). rewrite (proj1 (proj2 (noise_seg_facts x Hx))). reflexivity.
Qed.

Lemma sel_segments_brq_select k items from cj wh :
  sel_segments (r_brq (S k) (QSelect items from cj wh)) = clauses items k from cj wh.
Proof. unfold sel_segments. change (tyis (r_brq (S k) (QSelect items from cj wh)) "set_expression") with false. cbn iota. apply lcs_brq_select. Qed.

Lemma sel_segments_top_select k items from cj wh :
  sel_segments (r_query_spr sp kwf noise (S k) (QSelect items from cj wh)) = clauses items k from cj wh.
Proof. rewrite r_query_select. apply (sel_segments_select). Qed.

Lemma lcs_top_select k items from cj wh b :
  list_child_segments (r_query_spr sp kwf noise (S k) (QSelect items from cj wh)) b = clauses items k from cj wh.
Proof. rewrite r_query_select, (lcs_node) by reflexivity. unfold clauses. destruct wh as [[c sq]|]; reflexivity. Qed.

Lemma sel_segments_union k a b : sel_segments (r_query_spr sp kwf noise (S k) (QUnion a b)) = [r_query_spr sp kwf noise (S k) (QUnion a b)].
Proof. reflexivity. Qed.

Lemma sel_segments_brq_union k a b : sel_segments (r_brq (S k) (QUnion a b)) = [r_query_spr sp kwf noise (S k) (QUnion a b)].
Proof.
  unfold sel_segments. change (tyis (r_brq (S k) (QUnion a b)) "set_expression") with false. cbn iota.
  unfold list_child_segments. change (tyis (r_brq (S k) (QUnion a b)) "bracketed") with true. cbn [andb].
  rewrite ise_brq. change (tyis (r_query_spr sp kwf noise (S k) (QUnion a b)) "set_expression") with true. cbn iota.
  u_brq. cbn [children node]. rewrite (filter_sep) by (intros x Hx; apply noise_tyis; [exact Hx|reflexivity]). reflexivity.
Qed.

(** *** pre- and post-conditions of one extraction *)


Lemma Post_refl g : gok g -> Post g g [].
Proof. intros H. split; [exact H|]. split; [intros x; cbn [In]; tauto|]. split; [auto|]. split; [auto|]. intros d. reflexivity. Qed.

Lemma Post_trans g0 g1 g2 r1 r2 : Post g0 g1 r1 -> Post g1 g2 r2 -> Post g0 g2 (r1 ++ r2).
Proof.
  intros (A1 & A2 & A3 & A4 & A5) (B1 & B2 & B3 & B4 & B5). split; [exact B1|]. split; [|split; [|split]].
  - intros x. rewrite B2, A2, in_app_iff. tauto.
  - intros d Hd. apply A3. apply B3. exact Hd.
  - intros d Hd Hk. apply B4; [apply A4; assumption|exact Hk].
  - intros d. rewrite B5, A5. reflexivity.
Qed.

Lemma Post_reads_ext g0 g r1 r2 : (forall x, In x r1 <-> In x r2) -> Post g0 g r1 -> Post g0 g r2.
Proof.
  intros H (A1 & A2 & A3 & A4 & A5). split; [exact A1|]. split; [|auto]. intros x. rewrite A2, H. reflexivity.
Qed.

Lemma Pre_Post g0 g ctes r : Pre g0 ctes -> Post g0 g r -> Pre g ctes.
Proof.
  intros (P1 & [P2 P2'] & P3) (A1 & A2 & A3 & A4 & A5). split; [exact A1|]. split.
  - split.
    + intros c Hc. apply P2. apply A5. exact Hc.
    + intros n Hn. destruct (P2' n Hn) as (c & Hc & Hal). exists c. split; [apply A5; exact Hc|exact Hal].
  - intros d1 d2 H1 H2. apply P3; apply A3; assumption.
Qed.

(** a sub-query dataset with a GIVEN name (no normalisation): [mk_subquery q (Some (sp R_ALIAS a))] is [mk_sq (_, _, Some a)]
    for an admissible spelling, and the sub-query recorded for a CTE, whose name is the raw text, is
    [mk_sq (_, _, Some (sp R_CTE n))] *)
Definition mk_sq (t : sqT) : dataset :=
  let q := r_brq (fst (fst t)) (snd (fst t)) in
  let name := match snd t with Some a => a | None => anon_name (raw q) end in
  {| dk := KSubq; deq := raw q; dstr := name; dschema := ""; draw := ""; dalias := name; dquery := Some q |}.

Lemma mk_sq_alias k q a : id_ok a = true -> mk_subquery (r_brq k q) (Some (sp R_ALIAS a)) = mk_sq (k, q, Some a).
Proof. intros H. unfold mk_subquery, mk_sq. cbn [fst snd]. rewrite (sp_escape _ a H). reflexivity. Qed.
Lemma mk_sq_anon k q : mk_subquery (r_brq k q) None = mk_sq (k, q, None).
Proof. reflexivity. Qed.

Section SubQ.
Variable ctes : list string.
Variable K : nat.
Hypothesis IHK : forall k q f ctx,
  k < K -> body_ok k q = true -> qd k q < f -> Pre (init_holder ctx) ctes ->
  exists g, extract f e XSelect (r_brq k q) ctx = Ok g /\ Post (init_holder ctx) g (q_reads k (e_cfg e) ctes q).

Lemma gc_brq_with k q : body_ok k q = true -> get_child (r_brq k q) ["with_compound_statement"] = None.
Proof.
  intros Hq. destruct (body_ok_pos k q Hq) as (k' & ->). unfold get_child. u_brq. rewrite (get_children_sep) by reflexivity.
  cbn [filter]. change (is_type lpar _) with false. change (is_type rpar _) with false. cbn iota.
  destruct q; [reflexivity|reflexivity|discriminate].
Qed.

Lemma ex_subquery_cons f sq rest g :
  ex_subquery f e (sq :: rest) g =
  match (match dquery sq with
         | None => Err "AttributeError"
         | Some q =>
             let cls := match get_child q ["with_compound_statement"] with Some _ => XCte | None => XSelect end in
             do sh <- extract f e cls q {| c_cte := Some (sq_cte g); c_write := Some [sq]; c_write_columns := None |};
             Ok (compose g (set_attr sh [NData sq] "write" false))
         end) with
  | Ok g' => ex_subquery f e rest g'
  | Err x => Err x
  end.
Proof.
  unfold ex_subquery. cbn [fold_left]. destruct (match dquery sq with Some _ => _ | None => _ end) as [g'|x]; [reflexivity|].
  induction rest as [|a r IH]; [reflexivity|]. cbn [fold_left]. exact IH.
Qed.

Lemma sub_step f t g0 :
  fst (fst t) < K -> body_ok (fst (fst t)) (snd (fst t)) = true -> qd (fst (fst t)) (snd (fst t)) < f -> Pre g0 ctes ->
  exists sh, extract f e XSelect (r_brq (fst (fst t)) (snd (fst t)))
                     {| c_cte := Some (sq_cte g0); c_write := Some [mk_sq t]; c_write_columns := None |} = Ok sh /\
             Post g0 (compose g0 (set_attr sh [NData (mk_sq t)] "write" false)) (q_reads (fst (fst t)) (e_cfg e) ctes (snd (fst t))).
Proof.
  destruct t as [[k q] al]. cbn [fst snd]. intros Hk Hq Hf (P1 & P2 & P3).
  set (sq := mk_sq (k, q, al)). set (ctx := {| c_cte := Some (sq_cte g0); c_write := Some [sq]; c_write_columns := None |}).
  assert (Hsq : data_ok sq /\ dk sq = KSubq) by (split; [unfold data_ok; cbn; discriminate|reflexivity]).
  assert (HL : Forall data_ok (sq_cte g0)) by (apply Forall_forall; intros c Hc; apply (gok_data g0 c "cte" P1 Hc)).
  assert (HN : noeqb (sq_cte g0)) by (unfold sq_cte; rewrite holder_nodes_hn; apply hn_noeqb; exact (proj1 (proj1 P1))).
  destruct (init_sub (sq_cte g0) sq HN HL (proj1 Hsq) (proj2 Hsq)) as (I1 & I2 & I3 & I4). fold ctx in I1, I2, I3, I4.
  assert (Hpre : Pre (init_holder ctx) ctes).
  { split; [exact I1|]. split; [|apply (one_write_eqb _ sq); exact I4]. destruct P2 as [C1 C2]. split.
    - intros c Hc. rewrite I2 in Hc. apply C1. exact Hc.
    - intros n Hn. rewrite I2. apply C2. exact Hn. }
  destruct (IHK k q f ctx Hk Hq Hf Hpre) as (sh & E & (A1 & A2 & A3 & A4 & A5)). exists sh. split; [exact E|].
  pose proof (gok_set_attr_write sh sq A1 (proj2 Hsq)) as Hsa.
  split; [apply gok_compose; assumption|]. split; [|split; [|split]].
  - intros x. rewrite (tset_compose g0 _ "read" x P1 Hsa) by discriminate.
    rewrite (tset_ext sh _ "read" x (tag_set_attr_other sh _ "write" false "read" ltac:(discriminate))), A2.
    unfold tset at 2. rewrite I3. split; [intros [H|[(d & [] & _)|H]]; auto|intros [H|H]; auto].
  - intros d Hd. destruct (tag_compose_sound g0 _ "write" d Hsa Hd) as [H|(d' & Hd' & Ed)]; [exact H|].
    apply tag_set_attr_write in Hd'. destruct Hd' as [Hd' Hne]. apply A3 in Hd'. apply I4 in Hd'.
    rewrite dataset_eqb_sym in Hne. fold sq in Hne. congruence.
  - intros d Hd Hdk. apply tag_compose_mono; [exact Hsa|right; exact Hdk|exact Hd].
  - intros d. split.
    + intros Hd. destruct (tag_compose_sound g0 _ "cte" d Hsa Hd) as [H|(d' & Hd' & Ed)]; [exact H|].
      unfold sq_cte in *. rewrite (tag_set_attr_other sh _ "write" false "cte") in Hd' by discriminate.
      apply A5 in Hd'. rewrite I2 in Hd'.
      assert (Hd'' : In d' (holder_nodes (compose g0 (set_attr sh [NData sq] "write" false)) "cte")).
      { apply tag_compose_mono; [exact Hsa|left; discriminate|exact Hd']. }
      rewrite <- (tagged_eqb_eq _ "cte" "cte" d' d (gok_compose _ _ P1 Hsa) Hd'' Hd Ed). exact Hd'.
    + intros Hd. apply tag_compose_mono; [exact Hsa|left; discriminate|exact Hd].
Qed.

Lemma ex_subquery_ok f (T : list sqT) : forall g0,
  Forall (fun t => fst (fst t) < K /\ body_ok (fst (fst t)) (snd (fst t)) = true /\ qd (fst (fst t)) (snd (fst t)) < f) T ->
  Pre g0 ctes ->
  exists g1, ex_subquery f e (map mk_sq T) g0 = Ok g1 /\
             Post g0 g1 (flat_map (fun t => q_reads (fst (fst t)) (e_cfg e) ctes (snd (fst t))) T).
Proof.
  induction T as [|t T' IH]; intros g0 HT Hpre.
  - exists g0. split; [reflexivity|]. apply Post_refl. exact (proj1 Hpre).
  - inversion HT as [|t0 l (H1 & H2 & H3) HT']. subst. cbn [map]. rewrite ex_subquery_cons.
    assert (Edq : dquery (mk_sq t) = Some (r_brq (fst (fst t)) (snd (fst t)))) by reflexivity. rewrite Edq.
    rewrite (gc_brq_with _ _ H2). cbv zeta.
    destruct (sub_step f t g0 H1 H2 H3 Hpre) as (sh & E & HP). rewrite E.
    destruct (IH _ HT' (Pre_Post _ _ _ _ Hpre HP)) as (g1 & E1 & HP1). exists g1. split; [exact E1|].
    cbn [flat_map]. apply (Post_trans _ _ _ _ _ HP HP1).
Qed.

(** the sub-queries of one SELECT, as (fuel, query, alias) triples *)

Lemma sel_sq_T k from cj wh : Forall fee_ok (FL k from cj) -> sel_sq k from cj wh = map mk_sq (sel_T k from cj wh).
Proof.
  intros Hok. unfold sel_sq, sel_T. rewrite map_app. f_equal.
  - induction (FL k from cj) as [|p l IH]; [reflexivity|]. inversion Hok as [|p0 l0 Hp Hl]. subst. cbn [flat_map]. rewrite map_app, (IH Hl). f_equal.
    destruct p as [k' r]. destruct r as [t al|q a|x y]; [reflexivity| |reflexivity].
    unfold fee_ok in Hp. cbn [fst snd relk_ok] in Hp. apply andb_true_iff in Hp.
    unfold fee_sq, fee_sqt, fee_T, parse_subquery. cbn [fst snd map]. rewrite (mk_sq_alias k' q a (proj1 Hp)). reflexivity.
  - destruct wh as [[c sq]|]; reflexivity.
Qed.

Lemma sel_T_ok k items from cj wh :
  body_ok (S k) (QSelect items from cj wh) = true ->
  Forall (fun t : sqT => fst (fst t) < S k /\ body_ok (fst (fst t)) (snd (fst t)) = true /\
                         qd (fst (fst t)) (snd (fst t)) < qd (S k) (QSelect items from cj wh)) (sel_T k from cj wh).
Proof.
  intros Hq. unfold sel_T. apply Forall_app. split.
  - apply Forall_forall. intros t Ht. apply in_flat_map in Ht. destruct Ht as (p & Hp & Ht).
    destruct (FL_props ctes k items from cj wh p Hq Hp) as (P1 & P2 & _ & P4).
    destruct p as [k' r]. unfold fee_T in Ht. cbn [fst snd] in *. destruct r as [t0 al|q' a|x y]; [destruct Ht| |destruct Ht].
    destruct Ht as [<-|[]]. cbn [fst snd]. unfold fee_ok in P1. cbn [fst snd relk_ok] in P1. apply andb_true_iff in P1.
    split; [exact P2|]. split; [exact (proj2 P1)|exact (proj2 P4)].
  - destruct (body_ok_select k items from cj wh Hq) as (_ & _ & _ & Hwh). destruct wh as [[c sq]|]; [|constructor].
    constructor; [|constructor]. cbn [fst snd]. split; [lia|]. split; [exact (proj2 Hwh)|]. cbn [qd]. lia.
Qed.

Lemma sel_reads_eq k items from cj wh :
  body_ok (S k) (QSelect items from cj wh) = true ->
  forall x, (In x (flat_map (fun t : sqT => q_reads (fst (fst t)) (e_cfg e) ctes (snd (fst t))) (sel_T k from cj wh)) \/
             In x (flat_map (fun p => rel_reads e ctes (snd p)) (FL k from cj)))
            <-> In x (q_reads (S k) (e_cfg e) ctes (QSelect items from cj wh)).
Proof.
  intros Hq x. destruct (body_ok_select k items from cj wh Hq) as (_ & _ & Hrels & Hwh). split.
  - intros [H|H].
    + apply in_flat_map in H. destruct H as (t & Ht & Hx). unfold sel_T in Ht. apply in_app_iff in Ht. destruct Ht as [Ht|Ht].
      * apply in_flat_map in Ht. destruct Ht as (p & Hp & Ht).
        destruct (FL_props ctes k items from cj wh p Hq Hp) as (_ & _ & _ & P4).
        destruct p as [k' r]. unfold fee_T in Ht. cbn [fst snd] in *. destruct r as [t0 al|q' a|x' y]; [destruct Ht| |destruct Ht].
        destruct Ht as [<-|[]]. cbn [fst snd] in Hx. apply (proj1 P4). exact Hx.
      * destruct wh as [[c sq]|]; [|destruct Ht]. destruct Ht as [<-|[]]. cbn [fst snd] in Hx.
        rewrite (q_reads_select ctes k items from cj _ Hrels). apply in_app_iff. right. exact Hx.
    + apply in_flat_map in H. destruct H as (p & Hp & Hx).
      destruct (FL_props ctes k items from cj wh p Hq Hp) as (_ & _ & P3 & _). apply P3. exact Hx.
  - rewrite (q_reads_select ctes k items from cj wh Hrels). intros H. apply in_app_iff in H. destruct H as [H|H].
    + apply in_flat_map in H. destruct H as (r & Hr & Hx). pose proof (FL_covers k from cj r Hr) as Hin.
      destruct r as [t al|q' a|x' y].
      * right. apply in_flat_map. exists (k, RTable t al). split; [exact Hin|exact Hx].
      * left. apply in_flat_map. exists (k, q', Some a). split; [|exact Hx]. unfold sel_T. apply in_app_iff. left.
        apply in_flat_map. exists (k, RDerived q' a). split; [exact Hin|left; reflexivity].
      * destruct Hx.
    + left. destruct wh as [[c sq]|]; [|destruct H]. apply in_flat_map. exists (k, sq, None). split; [|exact H].
      unfold sel_T. apply in_app_iff. right. left. reflexivity.
Qed.

Lemma select_core k items from cj wh f ctx seg0 :
  K = S k ->
  body_ok (S k) (QSelect items from cj wh) = true -> qd (S k) (QSelect items from cj wh) < f ->
  Pre (init_holder ctx) ctes -> sel_segments seg0 = clauses items k from cj wh ->
  exists g, extract f e XSelect seg0 ctx = Ok g /\
            Post (init_holder ctx) g (q_reads (S k) (e_cfg e) ctes (QSelect items from cj wh)).
Proof.
  intros HK Hq Hf Hpre Hseg. destruct f as [|[|f]]; [cbn [qd] in Hf; lia|cbn [qd] in Hf; lia|].
  rewrite extract_select_eq, Hseg. unfold sel_subqueries. rewrite (proj1 (clauses_subq k items from cj wh Hq)), (sel_sq_T k from cj wh (FL_ok k items from cj wh Hq)).
  destruct (ex_subquery_ok (S f) (sel_T k from cj wh) (init_holder ctx)) as (g1 & E1 & HP1).
  { pose proof (sel_T_ok k items from cj wh Hq) as HT. rewrite Forall_forall in *. intros t Ht. destruct (HT t Ht) as (T1 & T2 & T3).
    split; [rewrite HK; exact T1|]. split; [exact T2|lia]. }
  { exact Hpre. }
  rewrite E1. pose proof (Pre_Post _ _ _ _ Hpre HP1) as (G1 & G2 & G3).
  unfold sel_fold. rewrite (sel_fold_clauses (S f) _ _ (clauses_not_set items k from cj wh)).
  destruct (clauses_fold f {| s_g := g1; s_tables := []; s_columns := []; s_barriers := [] |} k items from cj wh ctes Hq G1 G2)
    as (ts & cols & E2 & Hts & Hcols & Hx).
  rewrite E2. cbn [s_g s_tables s_columns s_barriers app].
  destruct (select_tail g1 ts cols [] G1 Hts Hcols (one_write_length g1 G1 G3)) as (g3 & E3 & Hg3 & Hk3 & Hr3).
  rewrite E3. exists g3. split; [reflexivity|].
  assert (HP2 : Post g1 g3 (flat_map (fun p => rel_reads e ctes (snd p)) (FL k from cj))).
  { split; [exact Hg3|]. split; [intros x; rewrite Hr3, Hx; reflexivity|]. split; [|split].
    - intros d. rewrite (Hk3 "write") by discriminate. auto.
    - intros d Hd _. rewrite (Hk3 "write") by discriminate. exact Hd.
    - intros d. unfold sq_cte. rewrite (Hk3 "cte") by discriminate. reflexivity. }
  apply (Post_reads_ext _ _ _ _ (fun x => conj (fun H => proj1 (sel_reads_eq k items from cj wh Hq x) (proj1 (in_app_iff _ _ _) H))
                                                (fun H => proj2 (in_app_iff _ _ _) (proj2 (sel_reads_eq k items from cj wh Hq x) H)))).
  apply (Post_trans _ _ _ _ _ HP1 HP2).
Qed.

(** *** UNION of two SELECTs *)
Definition r_union (k : nat) (a b : query) : seg := r_query_spr sp kwf noise (S k) (QUnion a b).
Definition set_op : seg := node "set_operator" ["set_operator"] (sep noise [kw_sp kwf "union"; kw_sp kwf "all"]).

Lemma r_union_eq k a b :
  r_union k a b = node "set_expression" ["set_expression"] (sep noise [r_query_spr sp kwf noise k a; set_op; r_query_spr sp kwf noise k b]).
Proof. reflexivity. Qed.

Lemma gc_union_subs k ia fa ca wa ib fb cb wb :
  get_children (r_union (S k) (QSelect ia fa ca wa) (QSelect ib fb cb wb)) ["select_statement"; "bracketed"] =
  [r_query_spr sp kwf noise (S k) (QSelect ia fa ca wa); r_query_spr sp kwf noise (S k) (QSelect ib fb cb wb)].
Proof. rewrite r_union_eq, (get_children_sep) by reflexivity. reflexivity. Qed.

Lemma sel_subq1_union k ia fa ca wa ib fb cb wb :
  body_ok (S k) (QSelect ia fa ca wa) = true -> body_ok (S k) (QSelect ib fb cb wb) = true ->
  sel_subq1 (r_union (S k) (QSelect ia fa ca wa) (QSelect ib fb cb wb)) = Ok (sel_sq k fa ca wa ++ sel_sq k fb cb wb).
Proof.
  intros Ha Hb. unfold sel_subq1. set (U := r_union (S k) (QSelect ia fa ca wa) (QSelect ib fb cb wb)).
  assert (E1 : list_subquery U = Ok []).
  { unfold list_subquery. assert (E : get_children U ["from_expression"] = []).
    { unfold U. rewrite r_union_eq, (get_children_sep) by reflexivity. reflexivity. }
    rewrite E. change (ty_in U ["select_clause"; "from_clause"; "where_clause"]) with false. cbn iota.
    rewrite (is_subquery_other U) by reflexivity. reflexivity. }
  rewrite E1. change (is_set_expression U) with true. cbn iota. unfold U. rewrite gc_union_subs. cbn [map concat_res].
  rewrite !lcs_top_select. rewrite (proj2 (clauses_subq k ia fa ca wa Ha)), (proj2 (clauses_subq k ib fb cb wb Hb)).
  cbn [app]. rewrite app_nil_r. reflexivity.
Qed.

Lemma handle_child_union f st k a b :
  handle_child f e st (r_union k a b) =
  Ok {| s_g := s_g st; s_tables := s_tables st; s_columns := s_columns st; s_barriers := s_barriers st |}.
Proof.
  unfold handle_child. rewrite (swap_partition_off). unfold handle_select_into.
  change (ty_in (r_union k a b) ["into_table_clause"; "into_clause"]) with false. cbn iota.
  unfold list_tables. change (ty_in (r_union k a b) ["from_clause"; "join_clause"; "update_statement"]) with false. cbn iota.
  change (tyis (r_union k a b) "select_clause") with false. cbn iota. rewrite !app_nil_r. reflexivity.
Qed.

Lemma union_core k ia fa ca wa ib fb cb wb f ctx seg0 :
  K = S (S k) ->
  body_ok (S k) (QSelect ia fa ca wa) = true -> body_ok (S k) (QSelect ib fb cb wb) = true ->
  qd (S (S k)) (QUnion (QSelect ia fa ca wa) (QSelect ib fb cb wb)) < f ->
  Pre (init_holder ctx) ctes -> sel_segments seg0 = [r_union (S k) (QSelect ia fa ca wa) (QSelect ib fb cb wb)] ->
  exists g, extract f e XSelect seg0 ctx = Ok g /\
            Post (init_holder ctx) g (q_reads (S (S k)) (e_cfg e) ctes (QUnion (QSelect ia fa ca wa) (QSelect ib fb cb wb))).
Proof.
  intros HK Ha Hb Hf Hpre Hseg. set (qa := QSelect ia fa ca wa) in *. set (qb := QSelect ib fb cb wb) in *.
  assert (Hfa : qd (S k) qa < f - 1 /\ qd (S k) qb < f - 1 /\ 2 <= f).
  { change (qd (S (S k)) (QUnion qa qb)) with (S (Nat.max (qd (S k) qa) (qd (S k) qb))) in Hf.
    assert (1 <= qd (S k) qa) by (unfold qa; cbn [qd]; lia). lia. }
  destruct f as [|[|f]]; [lia|lia|]. replace (S (S f) - 1) with (S f) in Hfa by lia.
  rewrite extract_select_eq, Hseg. unfold sel_subqueries. cbn [map concat_res]. unfold qa, qb.
  rewrite (sel_subq1_union k ia fa ca wa ib fb cb wb Ha Hb). fold qa qb. rewrite app_nil_r, (sel_sq_T k fa ca wa (FL_ok k ia fa ca wa Ha)), (sel_sq_T k fb cb wb (FL_ok k ib fb cb wb Hb)), <- map_app.
  destruct (ex_subquery_ok (S f) (sel_T k fa ca wa ++ sel_T k fb cb wb) (init_holder ctx)) as (g1 & E1 & HP1).
  { apply Forall_app. split.
    - pose proof (sel_T_ok k ia fa ca wa Ha) as HT. rewrite Forall_forall in *. intros t Ht. destruct (HT t Ht) as (T1 & T2 & T3).
      fold qa in T3. split; [lia|]. split; [exact T2|lia].
    - pose proof (sel_T_ok k ib fb cb wb Hb) as HT. rewrite Forall_forall in *. intros t Ht. destruct (HT t Ht) as (T1 & T2 & T3).
      fold qb in T3. split; [lia|]. split; [exact T2|lia]. }
  { exact Hpre. }
  rewrite E1. pose proof (Pre_Post _ _ _ _ Hpre HP1) as (G1 & G2 & G3).
  unfold sel_fold. cbn [fold_left]. unfold sel_step. rewrite handle_child_union. cbn [s_g s_tables s_columns s_barriers].
  change (is_set_expression (r_union (S k) qa qb)) with true. cbn iota. unfold qa, qb. rewrite gc_union_subs. fold qa qb.
  cbn [fold_left]. unfold sel_children. unfold qa at 1. rewrite lcs_top_select.
  destruct (clauses_fold f {| s_g := g1; s_tables := []; s_columns := []; s_barriers := [] |} k ia fa ca wa ctes Ha G1 G2)
    as (tsa & colsa & E2 & Htsa & Hcolsa & Hxa).
  rewrite E2. cbn [s_g s_tables s_columns s_barriers app]. unfold qb at 1. rewrite lcs_top_select.
  destruct (clauses_fold f (add_barrier {| s_g := g1; s_tables := tsa; s_columns := colsa; s_barriers := [] |}) k ib fb cb wb ctes Hb G1 G2)
    as (tsb & colsb & E3 & Htsb & Hcolsb & Hxb).
  rewrite E3. cbn [fst s_g s_tables s_columns s_barriers add_barrier app].
  destruct (select_tail g1 (tsa ++ tsb) (colsa ++ colsb) [(List.length colsa, List.length tsa)] G1
              (proj2 (Forall_app _ _ _) (conj Htsa Htsb)) (proj2 (Forall_app _ _ _) (conj Hcolsa Hcolsb)) (one_write_length g1 G1 G3))
    as (g3 & E4 & Hg3 & Hk3 & Hr3).
  rewrite E4. exists g3. split; [reflexivity|].
  assert (HP2 : Post g1 g3 (flat_map (fun p => rel_reads e ctes (snd p)) (FL k fa ca) ++ flat_map (fun p => rel_reads e ctes (snd p)) (FL k fb cb))).
  { split; [exact Hg3|]. split; [intros x; rewrite Hr3, tnames_app, in_app_iff, Hxa, Hxb; reflexivity|]. split; [|split].
    - intros d. rewrite (Hk3 "write") by discriminate. auto.
    - intros d Hd _. rewrite (Hk3 "write") by discriminate. exact Hd.
    - intros d. unfold sq_cte. rewrite (Hk3 "cte") by discriminate. reflexivity. }
  refine (Post_reads_ext _ _ _ _ _ (Post_trans _ _ _ _ _ HP1 HP2)).
  intros x. change (q_reads (S (S k)) (e_cfg e) ctes (QUnion qa qb)) with (q_reads (S k) (e_cfg e) ctes qa ++ q_reads (S k) (e_cfg e) ctes qb).
  rewrite flat_map_app, !in_app_iff. unfold qa, qb.
  rewrite <- (sel_reads_eq k ia fa ca wa Ha x), <- (sel_reads_eq k ib fb cb wb Hb x). tauto.
Qed.

End SubQ.

(** *** the main induction: queries without WITH *)
Lemma body_main ctes : forall k q f ctx seg0,
  body_ok k q = true -> qd k q < f -> Pre (init_holder ctx) ctes ->
  (seg0 = r_query_spr sp kwf noise k q \/ seg0 = r_brq k q) ->
  exists g, extract f e XSelect seg0 ctx = Ok g /\ Post (init_holder ctx) g (q_reads k (e_cfg e) ctes q).
Proof.
  induction k as [k IH] using lt_wf_ind. intros q f ctx seg0 Hq Hf Hpre Hseg.
  assert (IHK : forall k' q' f' ctx', k' < k -> body_ok k' q' = true -> qd k' q' < f' -> Pre (init_holder ctx') ctes ->
            exists g, extract f' e XSelect (r_brq k' q') ctx' = Ok g /\ Post (init_holder ctx') g (q_reads k' (e_cfg e) ctes q')).
  { intros k' q' f' ctx' Hk' Hq' Hf' Hpre'. apply (IH k' Hk' q' f' ctx' (r_brq k' q')); auto. }
  destruct k as [|k]; [discriminate|]. destruct q as [items from cj wh|a b|n c b]; [| |discriminate].
  - apply (select_core ctes (S k) IHK k items from cj wh f ctx seg0 eq_refl Hq Hf Hpre).
    destruct Hseg as [->| ->]; [apply sel_segments_top_select|apply sel_segments_brq_select].
  - pose proof Hq as Hq'. cbn [body_ok] in Hq'. apply andb_true_iff in Hq'. destruct Hq' as [Hq' Hb]. apply andb_true_iff in Hq'. destruct Hq' as [Hq' Ha].
    apply andb_true_iff in Hq'. destruct Hq' as [Hsa Hsb].
    destruct a as [ia fa ca wa| |]; try discriminate. destruct b as [ib fb cb wb| |]; try discriminate.
    destruct (body_ok_pos k _ Ha) as (k' & ->).
    apply (union_core ctes (S (S k')) IHK k' ia fa ca wa ib fb cb wb f ctx seg0 eq_refl Ha Hb Hf Hpre).
    destruct Hseg as [->| ->]; [apply sel_segments_union|apply sel_segments_brq_union].
Qed.

(** *** the fuel given by [analyze] is enough *)
Lemma depth_child c s : In c (children s) -> S (depth c) <= depth s.
Proof.
  destruct s as [t g cl r w cm mt ch]. cbn [children depth]. intros H. apply le_n_S.
  induction ch as [|a l IH]; [destruct H|]. cbn [map fold_right]. destruct H as [H|H]; [subst; lia|]. specialize (IH H). lia.
Qed.

Lemma depth_sub x s : TriviaProofs.sub x s -> depth x <= depth s.
Proof.
  intros H. induction H as [s|x c s Hin Hsub IH]; [lia|]. pose proof (depth_child c s Hin). lia.
Qed.

Lemma In_intersperse x y l : In x l -> In x (intersperse y l).
Proof.
  induction l as [|a [|b r] IH]; [auto|auto|]. change (intersperse y (a :: b :: r)) with (a :: y :: intersperse y (b :: r)).
  intros [H|H]; [left; exact H|right; right; apply IH; exact H].
Qed.

Lemma sub_node_sep x t c l y : In y l -> TriviaProofs.sub x y -> TriviaProofs.sub x (node t c (sep noise l)).
Proof. intros Hy Hs. apply (TriviaProofs.sub_child x y); [cbn [children node]; apply (In_sep); exact Hy|exact Hs]. Qed.

Lemma sub_node0 x t c l y : In y l -> TriviaProofs.sub x y -> TriviaProofs.sub x (node t c l).
Proof. intros Hy Hs. apply (TriviaProofs.sub_child x y); [exact Hy|exact Hs]. Qed.

Lemma sub_rq_brq k q : TriviaProofs.sub (r_query_spr sp kwf noise k q) (r_brq k q).
Proof. u_brq. apply (sub_node_sep _ _ _ _ (r_query_spr sp kwf noise k q)); [right; left; reflexivity|apply TriviaProofs.sub_refl]. Qed.

Lemma sub_rq_rel k q a : TriviaProofs.sub (r_query_spr sp kwf noise k q) (r_rel k (RDerived q a)).
Proof.
  rewrite r_rel_derived. apply (sub_node_sep _ _ _ _ (te_brq k q)); [left; reflexivity|].
  unfold te_brq. apply (sub_node0 _ _ _ _ (r_brq k q)); [left; reflexivity|apply sub_rq_brq].
Qed.

Lemma sub_rel_fc k from cj r : In r from -> TriviaProofs.sub (r_rel k r) (r_fc k from cj).
Proof.
  intros Hr. u_rfc. destruct cj.
  - apply (sub_node_sep _ _ _ _ (r_fe1 k r)).
    + right. apply In_intersperse. apply in_map. exact Hr.
    + u_rfe1. apply (sub_node0 _ _ _ _ (r_rel k r)); [left; reflexivity|apply TriviaProofs.sub_refl].
  - destruct from as [|r0 rest]; [destruct Hr|]. apply (sub_node_sep _ _ _ _ (r_fej k r0 rest)); [right; left; reflexivity|].
    u_rfej. destruct Hr as [Hr|Hr].
    + subst. apply (sub_node_sep _ _ _ _ (r_rel k r)); [left; reflexivity|apply TriviaProofs.sub_refl].
    + apply (sub_node_sep _ _ _ _ (r_join k r)); [right; apply in_map; exact Hr|].
      u_rjoin. apply (sub_node_sep _ _ _ _ (r_rel k r)); [right; left; reflexivity|apply TriviaProofs.sub_refl].
Qed.

Lemma fold_max_bound (f : rel -> nat) l B : (forall r, In r l -> f r <= B) -> fold_right Nat.max 0 (map f l) <= B.
Proof.
  induction l as [|a r IH]; intros H; cbn [map fold_right]; [lia|]. pose proof (H a (or_introl eq_refl)).
  specialize (IH (fun r' Hr' => H r' (or_intror Hr'))). lia.
Qed.

Lemma depth_qd : forall k q, qd k q <= depth (r_query_spr sp kwf noise k q).
Proof.
  induction k as [|k IH]; intros q; [cbn [qd]; lia|]. destruct q as [items from cj wh|a b|n c b].
  - cbn [qd]. rewrite r_query_select.
    set (S0 := node "select_statement" ["select_statement"] (sep noise ([r_sc items; r_fc k from cj] ++ r_wh k wh))).
    assert (Hfc : S (depth (r_fc k from cj)) <= depth S0).
    { apply depth_child. cbn [children S0 node]. apply (In_sep). right. left. reflexivity. }
    assert (H1 : fold_right Nat.max 0 (map (fun r => match r with RDerived q' _ => qd k q' | _ => 0 end) from) <= depth (r_fc k from cj)).
    { apply fold_max_bound. intros r Hr. destruct r as [t al|q' a|x y]; try lia.
      pose proof (depth_sub _ _ (sub_rel_fc k from cj _ Hr)). pose proof (depth_sub _ _ (sub_rq_rel k q' a)). specialize (IH q'). lia. }
    assert (H2 : match wh with Some (_, sq) => qd k sq | None => 0 end < depth S0).
    { destruct wh as [[c sq]|]; [|destruct (depth_pos S0) as (d & ->); lia].
      assert (Hs : TriviaProofs.sub (r_query_spr sp kwf noise k sq) (r_where k c sq)).
      { unfold r_where. eapply sub_node_sep; [right; left; reflexivity|]. eapply sub_node_sep; [right; right; left; reflexivity|]. apply sub_rq_brq. }
      assert (Hw : S (depth (r_where k c sq)) <= depth S0).
      { apply depth_child. cbn [children S0 node]. apply (In_sep). rewrite r_wh_some. right. right. left. reflexivity. }
      pose proof (depth_sub _ _ Hs). specialize (IH sq). lia. }
    lia.
  - cbn [qd]. rewrite r_query_union.
    match goal with |- _ <= depth ?n => set (S0 := n) end.
    assert (Ha : S (depth (r_query_spr sp kwf noise k a)) <= depth S0) by (apply depth_child; cbn [children S0 node]; apply (In_sep); left; reflexivity).
    assert (Hb : S (depth (r_query_spr sp kwf noise k b)) <= depth S0) by (apply depth_child; cbn [children S0 node]; apply (In_sep); right; right; left; reflexivity).
    pose proof (IH a). pose proof (IH b). lia.
  - cbn [qd]. rewrite r_query_with.
    match goal with |- _ <= depth ?n => set (S0 := n) end.
    assert (Hb : S (depth (r_query_spr sp kwf noise k b)) <= depth S0) by (apply depth_child; cbn [children S0 node]; apply (In_sep); right; right; left; reflexivity).
    assert (Hc : S (depth (r_query_spr sp kwf noise k c)) <= depth S0).
    { assert (Hs : TriviaProofs.sub (r_query_spr sp kwf noise k c) (node "common_table_expression" ["common_table_expression"] (sep noise [ident_sp (sp R_CTE) n; kw_sp kwf "as"; r_brq k c]))).
      { eapply sub_node_sep; [right; right; left; reflexivity|]. apply sub_rq_brq. }
      pose proof (depth_sub _ _ Hs).
      assert (S (depth (node "common_table_expression" ["common_table_expression"] (sep noise [ident_sp (sp R_CTE) n; kw_sp kwf "as"; r_brq k c]))) <= depth S0).
      { apply depth_child. cbn [children S0 node]. apply (In_sep). right. left. reflexivity. }
      lia. }
    pose proof (IH b). pose proof (IH c). lia.
Qed.


(* ================================================================== *)
(** * Steps 3, 4, 5: derived tables, WHERE-IN sub-queries, UNION

    Extra hypothesis [qshape]: no WITH, and set operations only between plain SELECTs.  It is needed:
    [lemma_A_check] FAILS on [QUnion (QUnion a b) c], [QUnion (QWith ..) c] (the extractor only looks at the
    select_statement / bracketed children of a set_expression, the rendering nests set expressions) - see the
    counterexamples at the end of this file. *)

Lemma body_ok_of : forall k ctes q,
  frag_query k q = true -> names_ok_q k ctes q = true -> qshape k q = true -> body_ok k q = true.
Proof.
  induction k as [|k IH]; intros ctes q Hf Hn Hs; [discriminate|]. destruct q as [items from cj wh|a b|n c b]; [| |discriminate].
  - cbn [frag_query names_ok_q qshape body_ok] in *.
    apply andb_true_iff in Hf. destruct Hf as [Hf F4]. apply andb_true_iff in Hf. destruct Hf as [Hf F3]. apply andb_true_iff in Hf. destruct Hf as [F1 F2].
    apply andb_true_iff in Hn. destruct Hn as [Hn N3]. apply andb_true_iff in Hn. destruct Hn as [N1 N2].
    apply andb_true_iff in Hs. destruct Hs as [S1 S2].
    rewrite F2. change (forallb item_ok items) with (forallb (fun i => match i with
                            | IExpr (EColRef qq c) al => id_ok c && match qq with Some x => id_ok x | None => true end
                                                         && match al with Some a => id_ok a | None => true end
                            | IStar qq => match qq with Some x => id_ok x | None => true end
                            | _ => false end) items). rewrite N1. cbn [andb].
    apply andb_true_iff. split.
    + rewrite forallb_forall in *. intros r Hr. specialize (F3 r Hr). specialize (N2 r Hr). specialize (S1 r Hr).
      destruct r as [t al|q' a|x y]; [exact N2| |discriminate].
      apply andb_true_iff in N2. destruct N2 as [N2 N2']. rewrite N2. cbn [andb]. apply (IH ctes); assumption.
    + destruct wh as [[c sq]|]; [|reflexivity]. apply andb_true_iff in N3. destruct N3 as [N3 N3']. rewrite N3. cbn [andb].
      apply (IH ctes); assumption.
  - cbn [frag_query names_ok_q qshape body_ok] in *.
    apply andb_true_iff in Hf. destruct Hf as [F1 F2]. apply andb_true_iff in Hn. destruct Hn as [N1 N2].
    apply andb_true_iff in Hs. destruct Hs as [Hs S4]. apply andb_true_iff in Hs. destruct Hs as [Hs S3]. rewrite Hs. cbn [andb].
    rewrite (IH ctes a F1 N1 S3), (IH ctes b F2 N2 S4). reflexivity.
Qed.

Lemma analyze_query k q :
  is_body q = true ->
  analyze e false (r_query_spr sp kwf noise (S k) q) =
  extract (3 * depth (r_query_spr sp kwf noise (S k) q) + 10) e XSelect (r_query_spr sp kwf noise (S k) q) empty_ctx.
Proof. intros H. destruct q; [reflexivity|reflexivity|discriminate]. Qed.

Lemma Pre_empty : Pre (init_holder empty_ctx) [].
Proof.
  change (init_holder empty_ctx) with empty_graph. split; [apply gok_empty|]. split; [apply cte_rel_empty|].
  intros d1 d2 [].
Qed.


(** step 3: a SELECT whose FROM may contain derived tables (no WHERE at the top) *)

(** step 4: ... and a WHERE c IN (sub-query) *)

(* ================================================================== *)
(** * Part N3: delegation (WITH bodies, INSERT / CREATE sources) *)
Lemma fold_add_write W : forall g1,
  gok g1 -> Forall data_ok W ->
  gok (fold_left add_write W g1) /\
  (forall k, k <> "write" -> holder_nodes (fold_left add_write W g1) k = holder_nodes g1 k) /\
  (forall d, In d (holder_nodes (fold_left add_write W g1) "write") ->
             In d (holder_nodes g1 "write") \/ exists w, In w W /\ dataset_eqb w d = true).
Proof.
  induction W as [|w r IH]; intros g1 Hg Hw; cbn [fold_left].
  - split; [exact Hg|]. split; [reflexivity|]. auto.
  - inversion Hw. subst. destruct (IH (add_write g1 w) (gok_add_tag g1 w "write" Hg H1) H2) as (I1 & I2 & I3).
    split; [exact I1|]. split.
    + intros k Hk. rewrite (I2 k Hk). apply tag_add_other. exact Hk.
    + intros d Hd. destruct (I3 d Hd) as [H|(w' & Hw' & E)].
      * apply tag_add_sound in H. destruct H as [H|H]; [left; exact H|right; exists w; split; [left; reflexivity|exact H]].
      * right. exists w'. split; [right; exact Hw'|exact E].
Qed.


Lemma init_delegate g ctes :
  Pre g ctes ->
  let g0 := init_holder (dctx g) in
  Pre g0 ctes /\ sq_cte g0 = sq_cte g /\ holder_nodes g0 "read" = [] /\
  (forall d, In d (holder_nodes g0 "write") -> exists w, In w (sq_write g) /\ dataset_eqb w d = true).
Proof.
  intros (P1 & P2 & P3).
  assert (HL : Forall data_ok (sq_cte g)) by (apply Forall_forall; intros c Hc; apply (gok_data g c "cte" P1 Hc)).
  assert (HW : Forall data_ok (sq_write g)) by (apply Forall_forall; intros c Hc; apply (gok_data g c "write" P1 Hc)).
  assert (HN : noeqb (sq_cte g)) by (unfold sq_cte; rewrite holder_nodes_hn; apply hn_noeqb; exact (proj1 (proj1 P1))).
  destruct (fold_add_cte (sq_cte g) empty_graph gok_empty HL HN (fun c _ => eq_refl)) as [G1 G2]. cbn [empty_graph gnodes app] in G2.
  set (g1 := fold_left add_cte (sq_cte g) empty_graph) in *.
  destruct (fold_add_write (sq_write g) g1 G1 HW) as (W1 & W2 & W3). set (g2 := fold_left add_write (sq_write g) g1) in *.
  assert (W3' : forall d, In d (holder_nodes g2 "write") -> exists w, In w (sq_write g) /\ dataset_eqb w d = true).
  { intros d Hd. destruct (W3 d Hd) as [H|H]; [|exact H]. rewrite holder_nodes_hn, G2, hn_cte_nodes in H. destruct H. }
  assert (Hcs : cstep g2 (match write_columns g with x :: r => add_write_column g2 (x :: r) | [] => g2 end)).
  { destruct (write_columns g) as [|x r] eqn:Ewc; [apply cstep_refl; exact W1|]. apply cstep_add_write_column; [exact W1|].
    intros t Ht. apply Forall_forall. intros c Hc. rewrite <- Ewc in Hc.
    destruct (write_columns_col1 g P1 c Hc) as (C1 & t' & p & Et & Ep & Ept).
    destruct (W3' t Ht) as (w & Hw & Ewt). pose proof (get_target_table_In g t' Et) as Ht'.
    right. exists p. split; [exact Ep|]. split.
    - apply (dataset_eqb_trans p t' t); [exact Ept|]. apply (dataset_eqb_trans t' w t); [apply P3; assumption|exact Ewt].
    - destruct C1 as [C1 _]. cbn [nok] in C1. rewrite Ep in C1. inversion C1. assumption. }
  assert (E0 : init_holder (dctx g) = match write_columns g with x :: r => add_write_column g2 (x :: r) | [] => g2 end).
  { unfold init_holder, dctx. cbn [c_cte c_write c_write_columns]. fold g1. fold g2. destruct (write_columns g); reflexivity. }
  cbv zeta. rewrite E0. set (g0 := match write_columns g with x :: r => add_write_column g2 (x :: r) | [] => g2 end) in *.
  destruct Hcs as [C1 C2].
  assert (Ecte : sq_cte g0 = sq_cte g).
  { unfold sq_cte at 1. rewrite C2, W2 by discriminate. rewrite holder_nodes_hn, G2, hn_cte_nodes. reflexivity. }
  assert (Hwr : forall d, In d (holder_nodes g0 "write") -> exists w, In w (sq_write g) /\ dataset_eqb w d = true).
  { intros d Hd. rewrite C2 in Hd. apply W3'. exact Hd. }
  split; [|split; [exact Ecte|split; [|exact Hwr]]].
  - split; [exact C1|]. split.
    + destruct P2 as [Q1 Q2]. split; [intros c Hc; rewrite Ecte in Hc; apply Q1; exact Hc|intros n Hn; rewrite Ecte; apply Q2; exact Hn].
    + intros d1 d2 H1 H2. destruct (Hwr d1 H1) as (w1 & Hw1 & E1). destruct (Hwr d2 H2) as (w2 & Hw2 & E2).
      apply (dataset_eqb_trans d1 w1 d2); [apply dataset_eqb_true_sym; exact E1|]. apply (dataset_eqb_trans w1 w2 d2); [apply P3; assumption|exact E2].
  - rewrite C2, W2 by discriminate. rewrite holder_nodes_hn, G2, hn_cte_nodes. reflexivity.
Qed.

Lemma Post_delegate g sub ctes reads :
  Pre g ctes -> (forall d, In d (holder_nodes g "write") -> dk d <> KSubq) ->
  Post (init_holder (dctx g)) sub reads -> Post g (compose g sub) reads.
Proof.
  intros Hpre Hnsq (A1 & A2 & A3 & A4 & A5). destruct (init_delegate g ctes Hpre) as (I0 & I1 & I2 & I3). destruct Hpre as (P1 & P2 & P3).
  pose proof (gok_compose g sub P1 A1) as Hc. split; [exact Hc|]. split; [|split; [|split]].
  - intros x. rewrite (tset_compose g sub "read" x P1 A1) by discriminate. rewrite A2. unfold tset at 2. rewrite I2.
    split; [intros [H|[(d & [] & _)|H]]; auto|intros [H|H]; auto].
  - intros d Hd. destruct (tag_compose_sound g sub "write" d A1 Hd) as [H|(d' & Hd' & Ed)]; [exact H|].
    apply A3 in Hd'. destruct (I3 d' Hd') as (w & Hw & Ew).
    assert (Hw' : In w (holder_nodes (compose g sub) "write")).
    { apply tag_compose_mono; [exact A1|right; apply Hnsq; exact Hw|exact Hw]. }
    assert (E : dataset_eqb w d = true) by (apply (dataset_eqb_trans w d' d); assumption).
    rewrite <- (tagged_eqb_eq _ "write" "write" w d Hc Hw' Hd E). exact Hw.
  - intros d Hd Hdk. apply tag_compose_mono; [exact A1|right; exact Hdk|exact Hd].
  - intros d. split.
    + intros Hd. destruct (tag_compose_sound g sub "cte" d A1 Hd) as [H|(d' & Hd' & Ed)]; [exact H|].
      apply A5 in Hd'. rewrite I1 in Hd'.
      assert (Hd'' : In d' (holder_nodes (compose g sub) "cte")) by (apply tag_compose_mono; [exact A1|left; discriminate|exact Hd']).
      rewrite <- (tagged_eqb_eq _ "cte" "cte" d' d Hc Hd'' Hd Ed). exact Hd'.
    + intros Hd. apply tag_compose_mono; [exact A1|left; discriminate|exact Hd].
Qed.


Lemma no_subq_has_node g d : no_subq g -> dk d = KSubq -> has_node g (NData d) = false.
Proof.
  intros H Hk. unfold has_node. destruct (has_node_l (NData d) (gnodes g)) eqn:E; [|reflexivity].
  apply has_node_l_In in E. destruct E as (m & a & Hin & Em).
  specialize (H m a Hin). rewrite <- (nsubq_eqb _ _ Em) in H. cbn [nsubq] in H. rewrite Hk in H. discriminate.
Qed.



Lemma delegate_body g ctes f k b :
  Pre g ctes -> (forall d, In d (holder_nodes g "write") -> dk d <> KSubq) ->
  body_ok k b = true -> qd k b < f ->
  exists g', ex_delegate f e XSelect (r_query_spr sp kwf noise k b) g true = Ok g' /\ Post g g' (q_reads k (e_cfg e) ctes b).
Proof.
  intros Hpre Hns Hb Hf. unfold ex_delegate. fold (dctx g).
  destruct (init_delegate g ctes Hpre) as (I0 & _).
  destruct (body_main ctes k b f (dctx g) (r_query_spr sp kwf noise k b) Hb Hf I0 (or_introl eq_refl)) as (sub & E & HP).
  rewrite E. exists (compose g sub). split; [reflexivity|]. apply (Post_delegate g sub ctes _ Hpre Hns HP).
Qed.

Definition r_cte (k : nat) (n : string) (c : query) : seg :=
  node "common_table_expression" ["common_table_expression"] (sep noise [ident_sp (sp R_CTE) n; kw_sp kwf "as"; r_brq k c]).

Lemma r_with_eq k n c b :
  r_query_spr sp kwf noise (S k) (QWith n c b) =
  node "with_compound_statement" ["with_compound_statement"] (sep noise [kw_sp kwf "with"; r_cte k n c; r_query_spr sp kwf noise k b]).
Proof. reflexivity. Qed.

Lemma nn_rq k q : nn (r_query_spr sp kwf noise k q) = true.
Proof. destruct k; [reflexivity|]. destruct q; reflexivity. Qed.

Lemma lcs_with k n c b bb :
  list_child_segments (r_query_spr sp kwf noise (S k) (QWith n c b)) bb = [kw_sp kwf "with"; r_cte k n c; r_query_spr sp kwf noise k b].
Proof. rewrite r_with_eq, (lcs_node) by reflexivity. cbn [filter]. rewrite nn_rq. reflexivity. Qed.

Lemma list_subquery_brq k c : body_ok k c = true -> list_subquery (r_brq k c) = Ok [mk_subquery (r_brq k c) None].
Proof.
  intros Hc. destruct (body_ok_pos k c Hc) as (k' & ->). unfold list_subquery.
  assert (E : get_children (r_brq (S k') c) ["from_expression"] = []).
  { u_brq. rewrite (get_children_sep) by reflexivity. cbn [filter]. destruct c; reflexivity. }
  rewrite E. change (ty_in (r_brq (S k') c) ["select_clause"; "from_clause"; "where_clause"]) with false. cbn iota.
  rewrite (is_subquery_brq k' c (body_ok_is_body _ _ Hc)). reflexivity.
Qed.

Lemma cte_step_cte f g subs k n c :
  body_ok k c = true -> id_ok n = true ->
  cte_step f e (Ok (g, subs)) (r_cte k n c) =
  Ok (add_cte g (mk_sq (k, c, Some n)), subs ++ [mk_sq (k, c, Some (sp R_CTE n))]).
Proof.
  intros Hc Hn. unfold cte_step. change (ty_in (r_cte k n c) ["select_statement"; "set_expression"]) with false.
  change (tyis (r_cte k n c) "insert_statement") with false. change (tyis (r_cte k n c) "update_statement") with false.
  change (tyis (r_cte k n c) "common_table_expression") with true. cbn iota.
  unfold r_cte. rewrite (lcs_node) by reflexivity. cbn [filter].
  change (nn (ident_sp (sp R_CTE) n)) with true. change (nn (kw_sp kwf "as")) with true. change (nn (r_brq k c)) with true. cbn iota.
  cbn [fold_left]. unfold cte_inner at 3. change (tyis (ident_sp (sp R_CTE) n) "identifier") with true. cbn iota.
  unfold cte_inner at 2. change (tyis (kw_sp kwf "as") "identifier") with false. change (tyis (kw_sp kwf "as") "bracketed") with false. cbn iota.
  unfold cte_inner. change (tyis (r_brq k c) "identifier") with false. change (tyis (r_brq k c) "bracketed") with true. cbn iota.
  rewrite (list_subquery_brq k c Hc). cbn [fst map raw ident_sp ident leaf].
  unfold mk_subquery, mk_sq. cbn [dk deq dschema draw dquery fst snd]. rewrite (sp_escape _ n Hn). reflexivity.
Qed.

Lemma cte_step_kw f g subs w :
  cte_step f e (Ok (g, subs)) (kw_sp kwf w) = Ok (g, subs).
Proof. reflexivity. Qed.

Lemma cte_step_body f g subs k b :
  body_ok k b = true ->
  cte_step f e (Ok (g, subs)) (r_query_spr sp kwf noise k b) = (do g' <- ex_delegate f e XSelect (r_query_spr sp kwf noise k b) g true; Ok (g', subs)).
Proof.
  intros Hb. destruct (body_ok_pos k b Hb) as (k' & ->). unfold cte_step.
  assert (E : ty_in (r_query_spr sp kwf noise (S k') b) ["select_statement"; "set_expression"] = true) by (destruct b; [reflexivity|reflexivity|discriminate]).
  rewrite E. reflexivity.
Qed.


(** *** the guard on CTE names: the definition of a CTE does not read a table of the CTE's own name *)

Lemma q_size_select items from cj wh :
  q_size (QSelect items from cj wh) = S (rels_size from + match wh with Some (_, sq) => q_size sq | None => 0 end).
Proof.
  assert (E : forall l, (fix rs (l : list rel) : nat := match l with [] => 0 | r :: t => rel_size r + rs t end) l = rels_size l).
  { induction l as [|r rs IH]; [reflexivity|]. cbn [rels_size fold_right]. rewrite IH. reflexivity. }
  cbn [q_size]. rewrite E. reflexivity.
Qed.

Lemma rel_size_in r from : In r from -> rel_size r <= rels_size from.
Proof.
  induction from as [|a rs IH]; intros H; [destruct H|]. cbn [rels_size fold_right]. destruct H as [H|H]; [subst; lia|].
  specialize (IH H). unfold rels_size in IH. lia.
Qed.

Lemma rels_flat_body k from : forallb (relk_ok k) from = true -> flat_map rels_flat from = from.
Proof.
  induction from as [|r rs IH]; [reflexivity|]. cbn [forallb flat_map]. intros H. apply andb_true_iff in H. destruct H as [H1 H2].
  rewrite (IH H2). destruct r; try discriminate; reflexivity.
Qed.

Lemma q_reads_fuel : forall k K q ds ctes,
  body_ok k q = true -> q_size q < K -> q_reads K ds ctes q = q_reads k ds ctes q.
Proof.
  induction k as [|k IH]; intros K q ds ctes Hq HK; [discriminate|]. destruct K as [|K]; [lia|].
  destruct q as [items from cj wh|a b|n c b]; [| |discriminate].
  - destruct (body_ok_select k items from cj wh Hq) as (_ & _ & Hrels & Hwh). rewrite q_size_select in HK.
    cbn [q_reads]. rewrite (rels_flat_body k from Hrels). f_equal.
    + apply flat_map_ext_in'. intros r Hr. pose proof (rel_size_in r from Hr) as Hs.
      rewrite forallb_forall in Hrels. specialize (Hrels r Hr). destruct r as [t al|q' a|x y]; [reflexivity| |discriminate].
      cbn [relk_ok] in Hrels. apply andb_true_iff in Hrels. cbn [rel_size] in Hs. apply IH; [exact (proj2 Hrels)|lia].
    + destruct wh as [[c sq]|]; [|reflexivity]. apply IH; [exact (proj2 Hwh)|lia].
  - cbn [body_ok] in Hq. apply andb_true_iff in Hq. destruct Hq as [Hq Hb]. apply andb_true_iff in Hq. destruct Hq as [_ Ha].
    cbn [q_size] in HK. cbn [q_reads]. rewrite (IH K a ds ctes Ha), (IH K b ds ctes Hb) by lia. reflexivity.
Qed.

Lemma tref_str_bare_inj n m : tref_str "" (None, n) = tref_str "" (None, m) -> n = m.
Proof. unfold tref_str. cbn. intros H. inversion H. reflexivity. Qed.

Lemma tref_str_schema_neq s name n : schema_ok s = true -> tref_str "" (Some s, name) <> tref_str "" (None, n).
Proof.
  intros Hs H. unfold tref_str in H. cbn [fst snd String.eqb] in H.
  pose proof (schema_ok_idc s Hs) as Hc. destruct s as [|ch r]; [cbn in Hs; discriminate|].
  cbn in H. inversion H. subst ch. cbn in Hc. discriminate.
Qed.

Lemma q_reads_cte_irrelevant : forall k q ds n ctes,
  body_ok k q = true -> ~ In (tref_str "" (None, n)) (q_reads k "" ctes q) ->
  q_reads k ds (n :: ctes) q = q_reads k ds ctes q.
Proof.
  induction k as [|k IH]; intros q ds n ctes Hq Hnot; [discriminate|]. destruct q as [items from cj wh|a b|m c b]; [| |discriminate].
  - destruct (body_ok_select k items from cj wh Hq) as (_ & _ & Hrels & Hwh). cbn [q_reads] in *.
    rewrite (rels_flat_body k from Hrels) in *. f_equal.
    + apply flat_map_ext_in'. intros r Hr.
      assert (Hnr : forall x, In x (match r with
                 | RTable t _ => match fst t with None => if mem_string (snd t) ctes then [] else [tref_str "" t] | Some _ => [tref_str "" t] end
                 | RDerived q' _ => q_reads k "" ctes q' | RGroup _ _ => [] end) -> x <> tref_str "" (None, n)).
      { intros x Hx E. subst x. apply Hnot. apply in_app_iff. left. apply in_flat_map. exists r. split; [exact Hr|exact Hx]. }
      rewrite forallb_forall in Hrels. specialize (Hrels r Hr). destruct r as [t al|q' a|x y]; [| |discriminate].
      * destruct t as [[s|] name]; cbn [fst snd] in *; [reflexivity|]. cbn [mem_string].
        destruct (String.eqb name n) eqn:E; [|reflexivity]. apply String.eqb_eq in E. subst name. cbn [orb].
        destruct (mem_string n ctes) eqn:Em; [reflexivity|]. exfalso. apply (Hnr _ (or_introl eq_refl)). reflexivity.
      * cbn [relk_ok] in Hrels. apply andb_true_iff in Hrels. apply IH; [exact (proj2 Hrels)|]. intros Hin. exact (Hnr _ Hin eq_refl).
    + destruct wh as [[c sq]|]; [|reflexivity]. apply IH; [exact (proj2 Hwh)|]. intros Hin. apply Hnot. apply in_app_iff. right. exact Hin.
  - cbn [body_ok] in Hq. apply andb_true_iff in Hq. destruct Hq as [Hq Hb]. apply andb_true_iff in Hq. destruct Hq as [_ Ha].
    cbn [q_reads] in *. rewrite (IH a ds n ctes Ha), (IH b ds n ctes Hb); [reflexivity| |];
      intros Hin; apply Hnot; apply in_app_iff; [right|left]; exact Hin.
Qed.


Lemma no_subq_writes g d : no_subq g -> In d (holder_nodes g "write") -> dk d <> KSubq.
Proof.
  intros H Hd. rewrite holder_nodes_hn, In_hn in Hd. destruct Hd as (a & Hin & _). specialize (H _ _ Hin). cbn [nsubq] in H.
  intros E. rewrite E in H. discriminate.
Qed.

Lemma xcte_ok f ctx k n c b :
  Pre (init_holder ctx) [] -> no_subq (init_holder ctx) ->
  body_ok k c = true -> body_ok k b = true -> id_ok n = true ->
  ~ In (tref_str "" (None, n)) (q_reads k "" [] c) ->
  qd (S k) (QWith n c b) < f ->
  exists g, extract f e XCte (r_query_spr sp kwf noise (S k) (QWith n c b)) ctx = Ok g /\ gok g /\
            (forall x, tset g "read" x <-> tset (init_holder ctx) "read" x \/ In x (q_reads (S k) (e_cfg e) [] (QWith n c b))) /\
            (forall d, In d (holder_nodes g "write") <-> In d (holder_nodes (init_holder ctx) "write")).
Proof.
  intros Hpre Hns Hc Hb Hn Hguard Hf. set (g0 := init_holder ctx) in *.
  destruct f as [|f]; [lia|]. cbn [qd] in Hf.
  set (D := mk_sq (k, c, Some n)). set (D' := mk_sq (k, c, Some (sp R_CTE n))).
  assert (HD : data_ok D /\ dk D = KSubq) by (split; [unfold data_ok; cbn; discriminate|reflexivity]).
  destruct Hpre as (P1 & [P2 P2'] & P3).
  assert (Ecte0 : sq_cte g0 = []).
  { destruct (sq_cte g0) as [|c0 r] eqn:E; [reflexivity|]. destruct (P2 c0) as [[] _]. left. reflexivity. }
  assert (Eg1 : gnodes (add_cte g0 D) = gnodes g0 ++ [(NData D, [("cte", true)])]).
  { unfold add_cte, add_node. cbn [gnodes]. apply upsert_new. apply no_subq_has_node; [exact Hns|exact (proj2 HD)]. }
  set (g1 := add_cte g0 D) in *.
  assert (Hhn : forall k0, holder_nodes g1 k0 = holder_nodes g0 k0 ++ (if String.eqb k0 "cte" then [D] else [])).
  { intros k0. rewrite !holder_nodes_hn, Eg1, hn_app. f_equal. unfold hn. cbn [flat_map fst snd]. unfold attr_true. cbn [attr_get].
    destruct (String.eqb k0 "cte"); reflexivity. }
  assert (Hpre1 : Pre g1 [n]).
  { split; [apply gok_add_tag; [exact P1|exact (proj1 HD)]|]. split.
    - unfold cte_rel, sq_cte. rewrite Hhn. fold (sq_cte g0). rewrite Ecte0. cbn [String.eqb Ascii.eqb Bool.eqb app]. split.
      + intros c0 [<-|[]]. split; [left; reflexivity|reflexivity].
      + intros m [<-|[]]. exists D. split; [left; reflexivity|]. reflexivity.
    - intros d1 d2 H1 H2. unfold sq_write in *. rewrite Hhn in H1, H2. cbn [String.eqb Ascii.eqb Bool.eqb] in H1, H2. rewrite app_nil_r in H1, H2.
      apply P3; assumption. }
  assert (Hns1 : forall d, In d (holder_nodes g1 "write") -> dk d <> KSubq).
  { intros d Hd. rewrite Hhn in Hd. cbn [String.eqb Ascii.eqb Bool.eqb] in Hd. rewrite app_nil_r in Hd. apply (no_subq_writes g0 d Hns Hd). }
  rewrite extract_cte_eq, (lcs_with). cbn [fold_left]. fold g0. rewrite cte_step_kw.
  rewrite (cte_step_cte f g0 [] k n c Hc Hn). fold D. fold D'. fold g1. cbn [app].
  rewrite (cte_step_body f g1 [D'] k b Hb).
  destruct (delegate_body g1 [n] f k b Hpre1 Hns1 Hb ltac:(lia)) as (g2 & E2 & HP2). rewrite E2. cbn [fst snd].
  change [D'] with (map (mk_sq) [(k, c, Some (sp R_CTE n))]).
  destruct (ex_subquery_ok [n] (S k)
              (fun k' q' f' ctx' Hk' Hq' Hf' Hp' => body_main [n] k' q' f' ctx' _ Hq' Hf' Hp' (or_intror eq_refl))
              f [(k, c, Some (sp R_CTE n))] g2) as (g3 & E3 & HP3).
  { constructor; [|constructor]. cbn [fst snd]. split; [lia|]. split; [exact Hc|lia]. }
  { apply (Pre_Post _ _ _ _ Hpre1 HP2). }
  rewrite E3. exists g3. pose proof (Post_trans _ _ _ _ _ HP2 HP3) as (A1 & A2 & A3 & A4 & _).
  split; [reflexivity|]. split; [exact A1|]. split.
  - intros x. rewrite A2. rewrite (tset_ext g0 g1 "read" x) by (rewrite Hhn; cbn [String.eqb Ascii.eqb Bool.eqb]; apply app_nil_r).
    cbn [flat_map fst snd q_reads]. rewrite app_nil_r, !in_app_iff. rewrite (q_reads_cte_irrelevant k c (e_cfg e) n [] Hc Hguard). tauto.
  - intros d. split.
    + intros Hd. apply A3 in Hd. rewrite Hhn in Hd. cbn [String.eqb Ascii.eqb Bool.eqb] in Hd. rewrite app_nil_r in Hd. exact Hd.
    + intros Hd. apply A4; [rewrite Hhn; cbn [String.eqb Ascii.eqb Bool.eqb]; rewrite app_nil_r; exact Hd|apply (no_subq_writes g0 d Hns Hd)].
Qed.


(* ================================================================== *)
(** * Step 6: WITH n AS (c) b at the top of the statement, c and b in the fragment of step 5

    Extra hypothesis [sshape_q]: the WITH is the outermost query, its definition and body contain no further WITH.
    It is needed: [lemma_A_check] FAILS when the body of a WITH is itself a WITH (the CTE extractor does not look at a
    with_compound_statement child) and when a WITH nested in a derived table defines a name that the enclosing query uses
    as a table (the nested CTE is visible in the enclosing holder after the sub-query was composed into it). *)

Lemma no_subq_empty : no_subq empty_graph.
Proof. intros n a []. Qed.

Lemma with_facts k n c b :
  frag_query (S k) (QWith n c b) = true -> names_ok_q (S k) [] (QWith n c b) = true ->
  qshape k c = true -> qshape k b = true ->
  body_ok k c = true /\ body_ok k b = true /\ id_ok n = true /\ ~ In (tref_str "" (None, n)) (q_reads k "" [] c).
Proof.
  intros Hf Hn Hsc Hsb. cbn [frag_query names_ok_q] in Hf, Hn.
  apply andb_true_iff in Hf. destruct Hf as [F1 F2].
  apply andb_true_iff in Hn. destruct Hn as [Hn N5]. apply andb_true_iff in Hn. destruct Hn as [Hn N4].
  apply andb_true_iff in Hn. destruct Hn as [Hn N3]. apply andb_true_iff in Hn. destruct Hn as [N1 N2].
  pose proof (body_ok_of k [] c F1 N3 Hsc) as Hc. pose proof (body_ok_of k [n] b F2 N4 Hsb) as Hb.
  split; [exact Hc|]. split; [exact Hb|]. split; [exact N1|].
  apply negb_true_iff in N5. apply mem_string_false in N5.
  rewrite (q_reads_fuel k (S (q_size c)) c "" [] Hc) in N5 by lia. exact N5.
Qed.


(* ================================================================== *)
(** * Part N5: INSERT / CREATE TABLE AS / CREATE VIEW AS *)

Lemma ci_kw_target f stmt g tf sf w :
  mem_string (upper w) ["INSERT"; "INTO"; "OVERWRITE"; "TABLE"; "VIEW"; "DIRECTORY"] = true ->
  ci_step f e stmt (Ok (g, tf, sf)) (kw_sp kwf w) = Ok (g, true, sf).
Proof.
  intros H. unfold ci_step. change (tyis (kw_sp kwf w) "with_compound_statement") with false.
  change (tyis (kw_sp kwf w) "bracketed") with false. change (ty_in (kw_sp kwf w) ["select_statement"; "set_expression"]) with false.
  change (tyis (kw_sp kwf w) "values_clause") with false. change (tyis (kw_sp kwf w) "keyword") with true. cbn [andb]. cbn iota.
  rewrite raw_upper_kw, H. reflexivity.
Qed.

Lemma ci_kw_other f stmt g sf w :
  mem_string (upper w) ["INSERT"; "INTO"; "OVERWRITE"; "TABLE"; "VIEW"; "DIRECTORY"] = false ->
  mem_string (upper w) ["LIKE"; "CLONE"] = false ->
  ci_step f e stmt (Ok (g, false, sf)) (kw_sp kwf w) = Ok (g, false, sf).
Proof.
  intros H H2. unfold ci_step. change (tyis (kw_sp kwf w) "with_compound_statement") with false.
  change (tyis (kw_sp kwf w) "bracketed") with false. change (ty_in (kw_sp kwf w) ["select_statement"; "set_expression"]) with false.
  change (tyis (kw_sp kwf w) "values_clause") with false. change (tyis (kw_sp kwf w) "keyword") with true. cbn [andb]. cbn iota.
  rewrite raw_upper_kw, H, H2. reflexivity.
Qed.

Lemma ci_tref f stmt g t :
  ci_step f e stmt (Ok (g, true, false)) (r_tref_spr sp t) = (do d <- table_of_seg e (r_tref_spr sp t) None; Ok (add_write g d, false, false)).
Proof.
  unfold ci_step. change (tyis (r_tref_spr sp t) "with_compound_statement") with false.
  change (tyis (r_tref_spr sp t) "bracketed") with false. change (ty_in (r_tref_spr sp t) ["select_statement"; "set_expression"]) with false.
  change (tyis (r_tref_spr sp t) "values_clause") with false. change (tyis (r_tref_spr sp t) "keyword") with false. cbn [andb]. cbn iota.
  change (ty_in (r_tref_spr sp t) ["table_reference"; "object_reference"]) with true. cbn iota.
  destruct (table_of_seg e (r_tref_spr sp t) None) as [d|err]; [|reflexivity]. rewrite (proj1 (env_facts)). reflexivity.
Qed.

Lemma ci_body f stmt g k b :
  body_ok k b = true ->
  ci_step f e stmt (Ok (g, false, false)) (r_query_spr sp kwf noise k b) =
  (do g' <- ex_delegate f e XSelect (r_query_spr sp kwf noise k b) g true; Ok (g', false, false)).
Proof.
  intros Hb. destruct (body_ok_pos k b Hb) as (k' & ->). unfold ci_step.
  assert (E : tyis (r_query_spr sp kwf noise (S k') b) "with_compound_statement" = false /\ tyis (r_query_spr sp kwf noise (S k') b) "bracketed" = false /\
              ty_in (r_query_spr sp kwf noise (S k') b) ["select_statement"; "set_expression"] = true).
  { destruct b; [repeat split; reflexivity|repeat split; reflexivity|discriminate]. }
  destruct E as (E1 & E2 & E3). rewrite E1, E2, E3. cbn [andb]. cbn iota.
  destruct (ex_delegate f e XSelect (r_query_spr sp kwf noise (S k') b) g true); reflexivity.
Qed.

Lemma ci_with f stmt g k n c b :
  ci_step f e stmt (Ok (g, false, false)) (r_query_spr sp kwf noise (S k) (QWith n c b)) =
  (do g' <- ex_delegate f e XCte (r_query_spr sp kwf noise (S k) (QWith n c b)) g true; Ok (g', false, false)).
Proof.
  unfold ci_step. change (tyis (r_query_spr sp kwf noise (S k) (QWith n c b)) "with_compound_statement") with true. cbn iota.
  destruct (ex_delegate f e XCte (r_query_spr sp kwf noise (S k) (QWith n c b)) g true); reflexivity.
Qed.

(** the column list of an INSERT *)
Definition col_children (cs : list string) : list seg := lpar :: intersperse comma (map (r_colref_spr sp None) cs) ++ [rpar].
Definition r_cols (cs : list string) : seg := node "bracketed" ["bracketed"] (sep noise (col_children cs)).

Lemma Forall_col_children (P : seg -> Prop) cs :
  P lpar -> P comma -> P rpar -> (forall c, P (r_colref_spr sp None c)) -> Forall P (col_children cs).
Proof.
  intros H1 H2 H3 H4. unfold col_children. constructor; [exact H1|]. apply Forall_app. split.
  - apply Forall_intersperse; [exact H2|]. apply Forall_forall. intros x Hx. apply in_map_iff in Hx. destruct Hx as (c & <- & _). apply H4.
  - constructor; [exact H3|constructor].
Qed.

Lemma existsb_Forall_false (p : seg -> bool) l : Forall (fun x => p x = false) l -> existsb p l = false.
Proof. intros H. apply existsb_none. rewrite Forall_forall in H. exact H. Qed.

Lemma lcs_cols cs : list_child_segments (r_cols cs) true = map (r_colref_spr sp None) cs.
Proof.
  unfold list_child_segments. change (tyis (r_cols cs) "bracketed") with true. cbn [andb].
  assert (E1 : is_set_expression (r_cols cs) = false).
  { unfold is_set_expression. change (tyis (r_cols cs) "set_expression") with false. cbn [orb]. unfold r_cols. cbn [children node].
    rewrite (existsb_sep) by (intros x Hx; apply noise_tyis; [exact Hx|reflexivity]).
    apply existsb_Forall_false. apply Forall_col_children; reflexivity. }
  rewrite E1.
  assert (E2 : iter_expanding ["expression"] (r_cols cs) = sep noise (col_children cs)).
  { rewrite TriviaProofs.iter_eq. unfold r_cols. cbn [children node]. apply flat_map_single. intros x Hx.
    apply (In_sep_inv) in Hx. destruct Hx as [Hx|Hx].
    - assert (H : Forall (fun x => is_type x ["expression"] = false) (col_children cs)) by (apply Forall_col_children; reflexivity).
      rewrite Forall_forall in H. rewrite (H x Hx). reflexivity.
    - rewrite (noise_is_type x ["expression"] (noise_in x Hx) eq_refl). reflexivity. }
  rewrite E2. rewrite (flat_map_sep).
  - unfold col_children. cbn [flat_map]. change (ty_in lpar _) with false. cbn iota. change (children lpar) with (@nil seg). cbn [filter app].
    rewrite flat_map_app. cbn [flat_map]. change (ty_in rpar _) with false. cbn iota. change (children rpar) with (@nil seg). cbn [filter app].
    rewrite app_nil_r. rewrite flat_map_intersperse by reflexivity. apply flat_map_single. intros x Hx. apply in_map_iff in Hx.
    destruct Hx as (c & <- & _). reflexivity.
  - intros x Hx. rewrite (noise_ty_in x ["column_reference"; "column_definition"] Hx eq_refl). rewrite (proj1 (proj2 (noise_seg_facts x Hx))). reflexivity.
Qed.

Lemma clean_cols ts cs :
  not_trivia ts = true ->
  existsb (fun x => mem_string x ts)
    ["bracketed"; "start_bracket"; "end_bracket"; "comma"; "raw"; "symbol"; "column_reference"; "object_reference"; "identifier"; "naked_identifier"] = false ->
  clean ts (r_cols cs).
Proof.
  intros Hts H. cbn [existsb] in H. repeat (apply orb_false_iff in H; destruct H as [?E H]).
  apply (clean_sep_node); [exact Hts|cbn [existsb]; rewrite E; reflexivity|].
  apply Forall_col_children.
  - apply clean_leaf. cbn [existsb]. rewrite E0, E3, E4. reflexivity.
  - apply clean_leaf. cbn [existsb]. rewrite E2, E3, E4. reflexivity.
  - apply clean_leaf. cbn [existsb]. rewrite E1, E3, E4. reflexivity.
  - intros c. apply clean_node; [cbn [existsb]; rewrite E5, E6; reflexivity|]. constructor; [|constructor].
    apply clean_leaf. cbn [existsb]. rewrite E7, E8, E3. reflexivity.
Qed.

Lemma ci_cols f stmt g cs :
  exists cols, ci_step (S f) e stmt (Ok (g, false, false)) (r_cols cs) = Ok (add_write_column g cols, false, false) /\
               Forall (fun c => cparents c = []) cols.
Proof.
  unfold ci_step. change (tyis (r_cols cs) "with_compound_statement") with false. change (tyis (r_cols cs) "bracketed") with true.
  assert (E1 : existsb (fun c => tyis c "with_compound_statement") (children (r_cols cs)) = false).
  { unfold r_cols. cbn [children node]. rewrite (existsb_sep) by (intros x Hx; apply noise_tyis; [exact Hx|reflexivity]).
    apply existsb_Forall_false. apply Forall_col_children; reflexivity. }
  rewrite E1. cbn [andb]. change (ty_in (r_cols cs) ["select_statement"; "set_expression"]) with false.
  change (tyis (r_cols cs) "values_clause") with false. cbn iota. cbn [flat_map].
  rewrite (clean_crawl _ _ (r_cols cs)) by (apply clean_cols; reflexivity). cbn [app]. rewrite lcs_cols.
  assert (E2 : forallb (fun x => ty_in x ["column_reference"; "column_definition"]) (map (r_colref_spr sp None) cs) = true).
  { apply forallb_forall. intros x Hx. apply in_map_iff in Hx. destruct Hx as (c & <- & _). reflexivity. }
  rewrite E2.
  match goal with |- context [map_res ?F (map (r_colref_spr sp None) cs)] =>
    destruct (map_res_inv (fun c => cparents c = []) F (map (r_colref_spr sp None) cs)) as (cols & E3 & Hcols) end.
  { intros x Hx. apply in_map_iff in Hx. destruct Hx as (c & <- & _). change (tyis (r_colref_spr sp None c) "column_definition") with false. cbn iota.
    unfold column_of_seg. change (tyis (r_colref_spr sp None c) "select_clause_element") with false. cbn iota.
    cbn [extract_sources]. change (ty_in (r_colref_spr sp None c) ["identifier"; "column_reference"]) with true. cbn [orb].
    rewrite (ecq_colref None c). eexists. split; [reflexivity|reflexivity]. }
  rewrite E3. exists cols. split; [reflexivity|exact Hcols].
Qed.

(** reads and table writes of a holder relative to an earlier one *)

Lemma Post_RW g0 g r : Post g0 g r -> RW g0 g r.
Proof.
  intros (A1 & A2 & A3 & A4 & _). split; [exact A1|]. split; [exact A2|]. intros x. unfold tset. split.
  - intros (d & H1 & H2 & H3). exists d. split; [apply A3; exact H1|auto].
  - intros (d & H1 & H2 & H3). exists d. split; [apply A4; [exact H1|rewrite H2; discriminate]|auto].
Qed.

Lemma no_subq_keys g : no_subq g <-> (forall m, In m (map fst (gnodes g)) -> nsubq m = false).
Proof.
  split.
  - intros H m Hm. apply in_map_iff in Hm. destruct Hm as ([m' a] & <- & Hin). exact (H _ _ Hin).
  - intros H n a Hin. apply H. apply in_map_iff. exists (n, a). auto.
Qed.

Lemma no_subq_add_node g n a : no_subq g -> nsubq n = false -> no_subq (add_node g n a).
Proof.
  rewrite !no_subq_keys. intros H Hn m Hm. cbn [add_node gnodes] in Hm. rewrite keys_upsert in Hm.
  destruct (has_node_l n (gnodes g)); [apply H; exact Hm|]. apply in_app_iff in Hm. destruct Hm as [Hm|[<-|[]]]; [apply H; exact Hm|exact Hn].
Qed.

Lemma no_subq_add_edge g u v a : no_subq g -> nsubq u = false -> nsubq v = false -> no_subq (add_edge g u v a).
Proof.
  intros H Hu Hv. pose proof (no_subq_add_node _ v [] (no_subq_add_node g u [] H Hu) Hv) as H2.
  intros n b Hin. apply (H2 n b). exact Hin.
Qed.

Lemma no_subq_add_write_column g cols : no_subq g -> no_subq (add_write_column g cols).
Proof.
  intros H. unfold add_write_column. destruct (sq_write g) as [|tgt r] eqn:E; [exact H|].
  assert (Ht : nsubq (NData tgt) = false).
  { assert (Hin : In tgt (holder_nodes g "write")) by (unfold sq_write in E; rewrite E; left; reflexivity).
    rewrite holder_nodes_hn, In_hn in Hin. destruct Hin as (a & Hin & _). exact (H _ _ Hin). }
  assert (G : forall g' i, no_subq g' -> no_subq (fst (fold_left (fun acc c => let '(g', idx) := acc in
             (add_edge g' (NData tgt) (NCol (add_parent c tgt)) (e_has_column (Some idx)), S idx)) cols (g', i)))).
  { induction cols as [|c cs IH]; intros g' i Hg'; cbn [fold_left]; [exact Hg'|]. apply IH. apply no_subq_add_edge; [exact Hg'|exact Ht|reflexivity]. }
  apply G. exact H.
Qed.

Lemma no_subq_init_delegate g :
  sq_cte g = [] -> (forall d, In d (holder_nodes g "write") -> dk d <> KSubq) -> no_subq (init_holder (dctx g)).
Proof.
  intros Hc Hw. unfold init_holder, dctx. cbn [c_cte c_write c_write_columns]. rewrite Hc. cbn [fold_left].
  assert (H2 : no_subq (fold_left add_write (sq_write g) empty_graph)).
  { assert (G : forall W g', (forall d, In d W -> dk d <> KSubq) -> no_subq g' -> no_subq (fold_left add_write W g')).
    { induction W as [|w r IH]; intros g' HW Hg'; cbn [fold_left]; [exact Hg'|]. apply IH; [intros d Hd; apply HW; right; exact Hd|].
      apply no_subq_add_node; [exact Hg'|]. cbn [nsubq]. specialize (HW w (or_introl eq_refl)). destruct (dk w); try reflexivity. contradiction. }
    apply G; [exact Hw|apply no_subq_empty]. }
  destruct (write_columns g); [exact H2|]. apply no_subq_add_write_column. exact H2.
Qed.

Lemma compose_rw g sub reads :
  Pre g [] -> (forall d, In d (holder_nodes g "write") -> dk d <> KSubq) ->
  gok sub -> (forall x, tset sub "read" x <-> In x reads) ->
  (forall d, In d (holder_nodes sub "write") -> exists w, In w (sq_write g) /\ dataset_eqb w d = true) ->
  RW g (compose g sub) reads.
Proof.
  intros (P1 & P2 & P3) Hns A1 A2 A3. pose proof (gok_compose g sub P1 A1) as Hc. split; [exact Hc|]. split.
  - intros x. rewrite (tset_compose g sub "read" x P1 A1) by discriminate. rewrite A2. reflexivity.
  - intros x. unfold tset. split.
    + intros (d & Hd & H2 & H3). exists d. split; [|auto].
      destruct (tag_compose_sound g sub "write" d A1 Hd) as [H|(d' & Hd' & Ed)]; [exact H|].
      destruct (A3 d' Hd') as (w & Hw & Ew).
      assert (Hw' : In w (holder_nodes (compose g sub) "write")) by (apply tag_compose_mono; [exact A1|right; apply Hns; exact Hw|exact Hw]).
      assert (E : dataset_eqb w d = true) by (apply (dataset_eqb_trans w d' d); assumption).
      rewrite <- (tagged_eqb_eq _ "write" "write" w d Hc Hw' Hd E). exact Hw.
    + intros (d & Hd & H2 & H3). exists d. split; [|auto]. apply tag_compose_mono; [exact A1|right; rewrite H2; discriminate|exact Hd].
Qed.

(** the source query of INSERT / CREATE: in the fragment of step 5, or a WITH over it *)

Lemma ci_source f stmt g k q :
  src_ok k q -> Pre g [] -> sq_cte g = [] -> (forall d, In d (holder_nodes g "write") -> dk d <> KSubq) ->
  qd (S k) q < f ->
  exists g', ci_step f e stmt (Ok (g, false, false)) (r_query_spr sp kwf noise (S k) q) = Ok (g', false, false) /\
             RW g g' (q_reads (S k) (e_cfg e) [] q).
Proof.
  intros Hsrc Hpre Hcte Hns Hf. destruct Hsrc as [Hb|(n & c & b & -> & Hc & Hb & Hn & Hguard)].
  - rewrite (ci_body f stmt g (S k) q Hb).
    destruct (delegate_body g [] f (S k) q Hpre Hns Hb Hf) as (g' & E & HP). rewrite E.
    exists g'. split; [reflexivity|apply Post_RW; exact HP].
  - rewrite ci_with. unfold ex_delegate. fold (dctx g). destruct (init_delegate g [] Hpre) as (I0 & I1 & I2 & I3).
    destruct (xcte_ok f (dctx g) k n c b I0 (no_subq_init_delegate g Hcte Hns) Hc Hb Hn Hguard Hf)
      as (sub & E & S1 & S2 & S3).
    rewrite E. exists (compose g sub). split; [reflexivity|]. apply compose_rw; [exact Hpre|exact Hns|exact S1| |].
    + intros x. rewrite S2. unfold tset at 1. rewrite I2. split; [intros [(d & [] & _)|H]; exact H|auto].
    + intros d Hd. apply I3. apply S3. exact Hd.
Qed.

(** the holder after the target table was recorded *)

Lemma WF_init d : data_ok d -> WF (add_write empty_graph d) d.
Proof. intros Hd. split; [apply gok_add_tag; [apply gok_empty|exact Hd]|]. repeat split; reflexivity. Qed.

Lemma WF_cstep g g' d : WF g d -> cstep g g' -> WF g' d.
Proof. intros (W1 & W2 & W3 & W4) [C1 C2]. split; [exact C1|]. rewrite !C2. auto. Qed.

Lemma WF_facts g d :
  WF g d -> dk d = KTable ->
  Pre g [] /\ sq_cte g = [] /\ (forall d', In d' (holder_nodes g "write") -> dk d' <> KSubq) /\
  (forall x, ~ tset g "read" x) /\ (forall x, tset g "write" x <-> x = dstr d).
Proof.
  intros (W1 & W2 & W3 & W4) Hk. split; [|split; [exact W3|split; [|split]]].
  - split; [exact W1|]. split.
    + unfold cte_rel, sq_cte. rewrite W3. split; [intros c []|intros n []].
    + intros d1 d2. unfold sq_write. rewrite W2. intros [<-|[]] [<-|[]]. apply dataset_eqb_refl.
  - intros d'. rewrite W2. intros [<-|[]]. rewrite Hk. discriminate.
  - intros x (d' & Hd' & _). rewrite W4 in Hd'. destruct Hd'.
  - intros x. unfold tset. rewrite W2. split.
    + intros (d' & [<-|[]] & _ & H). symmetry. exact H.
    + intros ->. exists d. split; [left; reflexivity|auto].
Qed.

Lemma ci_tail f stmt g d k q cols :
  WF g d -> dk d = KTable -> src_ok k q -> qd (S k) q < S f ->
  exists g', fold_left (ci_step (S f) e stmt)
                       (match cols with Some cs => [r_cols cs] | None => [] end ++ [r_query_spr sp kwf noise (S k) q]) (Ok (g, false, false))
             = Ok (g', false, false) /\
             gok g' /\ (forall x, tset g' "read" x <-> In x (q_reads (S k) (e_cfg e) [] q)) /\ (forall x, tset g' "write" x <-> x = dstr d).
Proof.
  intros HW Hk Hsrc Hf.
  assert (Hstep : exists g1, fold_left (ci_step (S f) e stmt) (match cols with Some cs => [r_cols cs] | None => [] end) (Ok (g, false, false))
                             = Ok (g1, false, false) /\ WF g1 d).
  { destruct cols as [cs|]; [|exists g; split; [reflexivity|exact HW]]. cbn [fold_left].
    destruct (ci_cols f stmt g cs) as (cl & E & Hcl). rewrite E. exists (add_write_column g cl). split; [reflexivity|].
    apply (WF_cstep g _ d HW). apply cstep_add_write_column; [exact (proj1 HW)|]. intros t _. apply Forall_forall. intros c Hc.
    rewrite Forall_forall in Hcl. left. apply Hcl. exact Hc. }
  destruct Hstep as (g1 & E1 & HW1). rewrite fold_left_app, E1. cbn [fold_left].
  destruct (WF_facts g1 d HW1 Hk) as (F1 & F2 & F3 & F4 & F5).
  destruct (ci_source (S f) stmt g1 k q Hsrc F1 F2 F3 Hf) as (g' & E2 & (R1 & R2 & R3)). rewrite E2.
  exists g'. split; [reflexivity|]. split; [exact R1|]. split.
  - intros x. rewrite R2. split; [intros [H|H]; [destruct (F4 x H)|exact H]|auto].
  - intros x. rewrite R3. apply F5.
Qed.

Definition cols_part (cols : option (list string)) : list seg := match cols with Some cs => [r_cols cs] | None => [] end.

Lemma filter_nn_cols cols : filter nn (cols_part cols) = cols_part cols.
Proof. destruct cols; reflexivity. Qed.

Lemma fuel_child (stmt Q : seg) k q :
  In Q (children stmt) -> Q = r_query_spr sp kwf noise (S k) q -> qd (S k) q < S (3 * depth stmt + 8).
Proof.
  intros Hin ->. pose proof (depth_child _ _ Hin). pose proof (depth_qd (S k) q). lia.
Qed.

(** what the three statement kinds have in common once the target is known *)
Lemma ci_finish F stmt t cols k q d rest :
  table_of_seg e (r_tref_spr sp t) None = Ok d -> dk d = KTable -> data_ok d -> dstr d = tref_str (e_cfg e) t ->
  src_ok k q -> qd (S k) q < S F ->
  (forall g, fold_left (ci_step (S F) e stmt) rest (Ok (g, false, false)) =
             fold_left (ci_step (S F) e stmt) (cols_part cols ++ [r_query_spr sp kwf noise (S k) q]) (Ok (g, false, false))) ->
  exists g, (do r <- fold_left (ci_step (S F) e stmt) (r_tref_spr sp t :: rest) (Ok (empty_graph, true, false)); Ok (fst (fst r))) = Ok g /\
            gok g /\ (forall x, tset g "read" x <-> In x (q_reads (S k) (e_cfg e) [] q)) /\
            (forall x, tset g "write" x <-> x = tref_str (e_cfg e) t).
Proof.
  intros Et Hk Hd Hs Hsrc Hf Hrest. cbn [fold_left]. rewrite ci_tref, Et, Hrest.
  destruct (ci_tail F stmt (add_write empty_graph d) d k q cols (WF_init d Hd) Hk Hsrc Hf) as (g' & E & G1 & G2 & G3).
  unfold cols_part. rewrite E. exists g'. split; [reflexivity|]. split; [exact G1|]. split; [exact G2|]. intros x. rewrite G3, Hs. reflexivity.
Qed.

Lemma insert_ok t cols q :
  tref_ok t = true -> src_ok (q_size q) q ->
  exists g, analyze e false (r_stmt_spr sp kwf noise (SInsert t cols q)) = Ok g /\ gok g /\
            (forall x, tset g "read" x <-> In x (q_reads (S (q_size q)) (e_cfg e) [] q)) /\
            (forall x, tset g "write" x <-> x = tref_str (e_cfg e) t).
Proof.
  intros Ht Hsrc. set (k := q_size q) in *. set (Q := r_query_spr sp kwf noise (S k) q).
  set (stmt := node "insert_statement" ["insert_statement"] (sep noise ([kw_sp kwf "insert"; kw_sp kwf "into"; r_tref_spr sp t] ++ cols_part cols ++ [Q]))).
  assert (Es : r_stmt_spr sp kwf noise (SInsert t cols q) = stmt) by (destruct cols; reflexivity). rewrite Es.
  assert (Ea : analyze e false stmt = extract (S (S (3 * depth stmt + 8))) e XCreateInsert stmt empty_ctx).
  { replace (S (S (3 * depth stmt + 8))) with (3 * depth stmt + 10) by lia. reflexivity. }
  assert (HF : forall Q0 k0 q0, In Q0 (children stmt) -> Q0 = r_query_spr sp kwf noise (S k0) q0 -> qd (S k0) q0 < S (3 * depth stmt + 8))
    by (intros Q0 k0 q0; apply fuel_child).
  set (F := 3 * depth stmt + 8) in *.
  rewrite Ea, extract_ci_eq. unfold stmt at 2. rewrite (lcs_node) by reflexivity.
  rewrite !filter_app, filter_nn_cols. cbn [filter]. change (nn (kw_sp kwf "insert")) with true. change (nn (kw_sp kwf "into")) with true.
  change (nn (r_tref_spr sp t)) with true. unfold Q at 1. rewrite (nn_rq). cbn iota. fold Q.
  change (init_holder empty_ctx) with empty_graph. cbn [app fold_left].
  rewrite (ci_kw_target (S F) stmt empty_graph false false "insert" eq_refl), (ci_kw_target (S F) stmt empty_graph true false "into" eq_refl).
  destruct (table_of_seg_tref t None Ht) as (d & Et & Hk & Hd & Hs).
  apply (ci_finish F stmt t cols k q d (cols_part cols ++ [Q]) Et Hk Hd Hs Hsrc); [|reflexivity].
  apply (HF Q k q); [|reflexivity]. unfold stmt. cbn [children node]. apply (In_sep).
  rewrite !in_app_iff. right. right. left. reflexivity.
Qed.

Lemma create_ok (view : bool) t q :
  tref_ok t = true -> src_ok (q_size q) q ->
  exists g, analyze e false (r_stmt_spr sp kwf noise (if view then SView t q else SCtas t q)) = Ok g /\ gok g /\
            (forall x, tset g "read" x <-> In x (q_reads (S (q_size q)) (e_cfg e) [] q)) /\
            (forall x, tset g "write" x <-> x = tref_str (e_cfg e) t).
Proof.
  intros Ht Hsrc. set (k := q_size q) in *. set (Q := r_query_spr sp kwf noise (S k) q).
  set (ty0 := if view then "create_view_statement" else "create_table_statement").
  set (w0 := if view then "view" else "table").
  set (stmt := node ty0 [ty0] (sep noise [kw_sp kwf "create"; kw_sp kwf w0; r_tref_spr sp t; kw_sp kwf "as"; Q])).
  assert (Es : r_stmt_spr sp kwf noise (if view then SView t q else SCtas t q) = stmt) by (destruct view; reflexivity). rewrite Es.
  assert (Ea : analyze e false stmt = extract (S (S (3 * depth stmt + 8))) e XCreateInsert stmt empty_ctx).
  { replace (S (S (3 * depth stmt + 8))) with (3 * depth stmt + 10) by lia. destruct view; reflexivity. }
  assert (HF : forall Q0 k0 q0, In Q0 (children stmt) -> Q0 = r_query_spr sp kwf noise (S k0) q0 -> qd (S k0) q0 < S (3 * depth stmt + 8))
    by (intros Q0 k0 q0; apply fuel_child).
  set (F := 3 * depth stmt + 8) in *.
  rewrite Ea, extract_ci_eq. unfold stmt at 2. rewrite (lcs_node) by (destruct view; reflexivity).
  cbn [filter]. change (nn (kw_sp kwf "create")) with true. change (nn (kw_sp kwf w0)) with true. change (nn (kw_sp kwf "as")) with true.
  change (nn (r_tref_spr sp t)) with true. unfold Q at 1. rewrite (nn_rq). cbn iota. fold Q.
  change (init_holder empty_ctx) with empty_graph. cbn [fold_left].
  rewrite (ci_kw_other (S F) stmt empty_graph false "create" eq_refl eq_refl).
  rewrite (ci_kw_target (S F) stmt empty_graph false false w0) by (destruct view; reflexivity).
  destruct (table_of_seg_tref t None Ht) as (d & Et & Hk & Hd & Hs).
  apply (ci_finish F stmt t None k q d [kw_sp kwf "as"; Q] Et Hk Hd Hs Hsrc).
  - apply (HF Q k q); [|reflexivity]. unfold stmt. cbn [children node]. apply (In_sep).
    right. right. right. right. left. reflexivity.
  - intros g. cbn [fold_left cols_part app]. rewrite (ci_kw_other (S F) stmt g false "as" eq_refl eq_refl). reflexivity.
Qed.


(* ================================================================== *)
(** * Steps 7, 0, 8 and the statement as far as it is true *)

Lemma src_ok_of q :
  frag_query (S (q_size q)) q = true -> names_ok_q (S (q_size q)) [] q = true -> sshape_q q = true -> src_ok (q_size q) q.
Proof.
  intros Hf Hn Hs. destruct q as [items from cj wh|a b|n c b].
  - left. apply (body_ok_of _ [] _ Hf Hn Hs).
  - left. apply (body_ok_of _ [] _ Hf Hn Hs).
  - right. unfold sshape_q in Hs. apply andb_true_iff in Hs. destruct Hs as [Hsc Hsb].
    destruct (with_facts _ n c b Hf Hn Hsc Hsb) as (Hc & Hb & Hid & Hg). exists n, c, b. auto.
Qed.


(** Lemma A (tables) on the fragment on which it holds: [stmt_ok] and [sshape] *)

(** step 7: the INSERT / CREATE TABLE AS / CREATE VIEW AS wrappers *)

(** step 0: the written tables *)

(** step 8: arbitrary trivia - every theorem above is already stated for an arbitrary [noise] *)


(* ================================================================== *)
(** * Column level (Lemma B, single-SELECT fragment): the exact holder does not depend on the spelling.
    Ported from Tree/LemmaBProofs.v, Parts N, C, K ([..._exact] lemmas, [analyze_insert_select] ...): the right-hand
    sides ([xcol_of], [tbl], [sel_holder], [sel_holder_cols] of LemmaBProofs.v) are the SAME as for the plain rendering. *)
Lemma mk_xcol_esc n n' c c' q q' fa :
  escape n = escape n' -> escape c = escape c' -> option_map escape q = option_map escape q' ->
  mk_xcol n [(c, q)] fa = mk_xcol n' [(c', q')] fa.
Proof.
  intros H1 H2 H3. unfold mk_xcol. cbn [map]. unfold esc_src. cbn [fst snd]. rewrite H1, H2, H3. reflexivity.
Qed.

Lemma sp_escape' r x : id_ok x = true -> escape (sp r x) = escape x.
Proof. intros H. rewrite (sp_escape _ x H), (id_ok_escape x H). reflexivity. Qed.
Lemma sp_escape_opt r qq : match qq with Some x => id_ok x = true | None => True end -> option_map escape (option_map (sp r) qq) = option_map escape qq.
Proof. destruct qq as [x|]; [|reflexivity]. intros H. cbn [option_map]. rewrite (sp_escape' r x H). reflexivity. Qed.

Lemma column_of_seg_exact f i : item_ok i = true -> column_of_seg (S f) e (r_item_spr sp kwf noise i) = Ok (xcol_of i).
Proof.
  destruct i as [[qq c| | | | | |] al|qq]; cbn [item_ok]; try discriminate; intros H.
  - apply andb_true_iff in H. destruct H as [H Ha]. apply andb_true_iff in H. destruct H as [Hc Hq].
    assert (Hq' : match qq with Some x => id_ok x = true | None => True end) by (destruct qq; auto).
    rewrite r_item_colref. unfold column_of_seg.
    match goal with |- context [tyis ?n "select_clause_element"] => change (tyis n "select_clause_element") with true end. cbn iota.
    unfold get_column_and_alias. rewrite !(lcs_node) by reflexivity.
    assert (E : filter nn (r_colref_spr sp qq c :: al_list al) = r_colref_spr sp qq c :: al_list al) by (destruct al; reflexivity).
    rewrite E. cbn [fold_left]. change (tyis (r_colref_spr sp qq c) "alias_expression") with false. cbn iota.
    change (ty_in (r_colref_spr sp qq c) SOURCE_TYPES) with true. cbn [orb].
    cbn [extract_sources]. change (ty_in (r_colref_spr sp qq c) ["identifier"; "column_reference"]) with true. cbn [orb].
    rewrite ecq_colref. cbn [app].
    destruct al as [a|]; cbn [al_list fold_left].
    + change (tyis (r_alias_spr sp kwf noise a) "alias_expression") with true. cbn iota. unfold extract_identifier. rewrite (lcs_alias).
      cbn [last_res rev app raw ident_sp ident leaf]. rewrite (sp_nonempty _ a Ha). cbn [xcol_of]. f_equal.
      apply mk_xcol_esc; [apply sp_escape'; exact Ha|apply sp_escape'; exact Hc|apply sp_escape_opt; exact Hq'].
    + change (tyis (r_colref_spr sp qq c) "column_reference") with true. cbn [orb fst xcol_of]. f_equal.
      apply mk_xcol_esc; [apply sp_escape'; exact Hc|apply sp_escape'; exact Hc|apply sp_escape_opt; exact Hq'].
  - assert (Hq' : match qq with Some x => id_ok x = true | None => True end) by (destruct qq; auto).
    rewrite r_item_star. unfold column_of_seg.
    match goal with |- context [tyis ?n "select_clause_element"] => change (tyis n "select_clause_element") with true end. cbn iota.
    unfold get_column_and_alias. rewrite !lcs_node0 by reflexivity. cbn [filter]. change (nn (r_wild qq)) with true. cbn iota. cbn [fold_left].
    change (tyis (r_wild qq) "alias_expression") with false. cbn iota.
    change (is_wildcard (r_wild qq)) with true. rewrite !orb_true_r.
    cbn [extract_sources]. rewrite !orb_true_r. rewrite (ecq_wild qq Hq'). cbn [app fst xcol_of]. f_equal.
    apply mk_xcol_esc; [reflexivity|reflexivity|apply sp_escape_opt; exact Hq'].
Qed.

Lemma handle_child_sc_exact f st items :
  forallb item_ok items = true ->
  handle_child (S f) e st (r_sc items) =
  Ok {| s_g := s_g st; s_tables := s_tables st; s_columns := s_columns st ++ map xcol_of items; s_barriers := s_barriers st |}.
Proof.
  intros H. unfold handle_child. rewrite (swap_partition_off). unfold handle_select_into.
  change (ty_in (r_sc items) ["into_table_clause"; "into_clause"]) with false. cbn iota.
  unfold list_tables. change (ty_in (r_sc items) ["from_clause"; "join_clause"; "update_statement"]) with false. cbn iota.
  change (tyis (r_sc items) "select_clause") with true. cbn iota. rewrite (gc_sc_items).
  assert (E : map_res (column_of_seg (S f) e) (map (r_item_spr sp kwf noise) items) = Ok (map xcol_of items)).
  { clear -H Hnoise Hsp. induction items as [|i r IH]; [reflexivity|]. cbn [forallb] in H. apply andb_true_iff in H. destruct H as [H1 H2].
    cbn [map map_res]. rewrite (column_of_seg_exact f i H1), (IH H2). reflexivity. }
  rewrite E. rewrite app_nil_r. reflexivity.
Qed.

Lemma mk_table_exact name sch (al : option string) :
  id_ok name = true -> alias_okp al ->
  mk_table e (sp R_TABLE name) (Some sch) (match option_map (sp R_ALIAS) al with Some a => if String.eqb a "" then None else Some a | None => None end) =
  Ok {| dk := KTable; deq := sch ++ "." ++ name; dstr := sch ++ "." ++ name; dschema := sch; draw := name;
        dalias := match al with Some a => a | None => name end; dquery := None |}.
Proof.
  intros Hn Ha. unfold mk_table, table_of. rewrite (rsplit_dot_none (sp R_TABLE name) (sp_count _ name Hn)).
  destruct al as [a|]; cbn [alias_okp option_map] in *.
  - rewrite (sp_nonempty _ a Ha). unfold table_str. cbn [t_schema t_raw t_alias]. rewrite (sp_escape _ name Hn), (sp_escape _ a Ha). reflexivity.
  - unfold table_str. cbn [t_schema t_raw t_alias]. rewrite (sp_escape _ name Hn), (id_ok_escape name Hn). reflexivity.
Qed.

Lemma table_of_seg_exact t al : tref_ok t = true -> alias_okp al -> table_of_seg e (r_tref_spr sp t) (option_map (sp R_ALIAS) al) = Ok (tbl e t al).
Proof.
  destruct t as [[s|] name]; unfold tref_ok; cbn [fst snd]; intros H Ha; apply andb_true_iff in H; destruct H as [Hn Hs].
  - unfold r_tref_spr. cbn [fst snd]. rewrite table_of_seg_dotted.
    + unfold schema_ok in Hs. apply andb_true_iff in Hs. destruct Hs as [Hs _].
      rewrite (concat_escape_parts _ Hs), join_split_dot. cbn [raw ident_sp ident leaf].
      assert (Esch : schema_of (e_cfg e) (Some s) = s).
      { unfold schema_of. assert (Hne : String.eqb s "" = false) by (destruct s; [cbn in Hs; discriminate|reflexivity]).
        rewrite Hne. cbn [negb]. apply idc_escape. apply split_dot_chars. rewrite forallb_forall in *. intros y Hy. apply id_ok_chars. apply Hs. exact Hy. }
      rewrite Esch. rewrite (mk_table_exact name s al Hn Ha). reflexivity.
    + apply intersperse_length_pos. intros E. apply map_eq_nil in E. exact (split_dot_nonempty s E).
  - unfold r_tref_spr. cbn [fst snd]. unfold table_of_seg. cbn [children node List.length Nat.leb].
    change (tyis _ "identifier") with false. cbn iota. unfold nth_res. cbn [nth_error raw ident_sp ident leaf].
    rewrite (mk_table_exact name _ al Hn Ha), (default_schema_str). reflexivity.
Qed.

Lemma add_dataset_exact k t al g :
  tref_ok t = true -> alias_okp al -> sq_cte g = [] ->
  add_dataset_from_fee e (r_rel k (RTable t al)) g = Ok [tbl e t al].
Proof.
  intros Ht Ha Hc. rewrite (add_dataset_table k t al g Ht Ha).
  assert (El : cte_lookup g (snd t) = None) by (unfold cte_lookup; rewrite Hc; reflexivity).
  rewrite El. destruct (fst t); rewrite (table_of_seg_exact t al Ht Ha); reflexivity.
Qed.

Lemma list_tables_exact k from cj g :
  from <> [] -> forallb rel_ok from = true -> sq_cte g = [] ->
  list_tables e (r_fc k from cj) g = Ok (map (tbl_of e) from).
Proof.
  intros Hne Hok Hc.
  assert (Hrt : forallb is_rtable from = true).
  { rewrite forallb_forall in *. intros r Hr. specialize (Hok r Hr). destruct r; try discriminate. reflexivity. }
  assert (Hper : forall r, In r from -> add_dataset_from_fee e (r_rel k r) g = Ok [tbl_of e r]).
  { intros r Hr. rewrite forallb_forall in Hok. specialize (Hok r Hr). destruct r as [t al| |]; try discriminate.
    cbn [rel_ok] in Hok. apply andb_true_iff in Hok. destruct Hok as [H1 H2].
    apply add_dataset_exact; auto. destruct al; cbn; auto. }
  assert (Hjoin : forall r0 rest, from = r0 :: rest -> list_tables e (r_fc k (r0 :: rest) false) g = Ok (map (tbl_of e) from)).
  { intros r0 rest ->. rewrite (list_tables_fc_join k r0 rest g _ (ljc_tables k r0 rest Hrt)).
    rewrite (Hper r0 (or_introl eq_refl)).
    rewrite (concat_res_singletons (fun p => add_dataset_from_fee e (jfee p) g) (fun p => tbl_of e (snd p))).
    - cbn [app map]. rewrite map_map. reflexivity.
    - intros [k' r] Hin. apply in_map_iff in Hin. destruct Hin as (r' & Heq & Hr'). inversion Heq. subst k' r'.
      unfold jfee. cbn [fst snd]. apply Hper. right. exact Hr'. }
  destruct cj.
  - destruct from as [|r1 [|r2 rest]]; [contradiction| |].
    + rewrite r_fc_single_comma. apply (Hjoin r1 []). reflexivity.
    + rewrite (list_tables_fc_comma). apply concat_res_singletons. exact Hper.
  - destruct from as [|r0 rest]; [contradiction|]. apply (Hjoin r0 rest). reflexivity.
Qed.

Lemma select_tables_extract f stmt items from cj k ctx :
  sel_segments stmt = [r_sc items; r_fc k from cj] ->
  forallb item_ok items = true -> from <> [] -> forallb rel_ok from = true ->
  sq_cte (init_holder ctx) = [] ->
  extract (S (S f)) e XSelect stmt ctx =
  (do g2 <- end_of_query_cleanup e (init_holder ctx) (map (tbl_of e) from) (map xcol_of items) []; expand_wildcard e g2).
Proof.
  intros Hseg Hit Hne Hrel Hc. rewrite extract_select_eq, Hseg.
  assert (Hrt : forallb is_rtable from = true).
  { rewrite forallb_forall in *. intros r Hr. specialize (Hrel r Hr). destruct r; try discriminate. reflexivity. }
  unfold sel_subqueries. cbn [map concat_res]. rewrite (sel_subq1_sc items Hit), (sel_subq1_fc_tables k from cj Hne Hrt).
  cbn [app ex_subquery fold_left]. unfold sel_fold. cbn [fold_left]. unfold sel_step.
  rewrite (handle_child_sc_exact f _ items Hit), (ise_sc). rewrite (handle_child_fc).
  cbn [s_g s_tables s_columns s_barriers app].
  rewrite (list_tables_exact k from cj (init_holder ctx) Hne Hrel Hc), (ise_fc). cbn [s_g s_tables s_columns s_barriers]. reflexivity.
Qed.

Lemma ci_select f stmt g k items from cj wh :
  ci_step f e stmt (Ok (g, false, false)) (r_query_spr sp kwf noise (S k) (QSelect items from cj wh)) =
  (do g' <- ex_delegate f e XSelect (r_query_spr sp kwf noise (S k) (QSelect items from cj wh)) g true; Ok (g', false, false)).
Proof.
  unfold ci_step. set (Q := r_query_spr sp kwf noise (S k) (QSelect items from cj wh)).
  assert (E : tyis Q "with_compound_statement" = false /\ tyis Q "bracketed" = false /\
              ty_in Q ["select_statement"; "set_expression"] = true) by (unfold Q; rewrite r_query_select; repeat split; reflexivity).
  destruct E as (E1 & E2 & E3). rewrite E1, E2, E3. cbn [andb]. cbn iota.
  destruct (ex_delegate f e XSelect Q g true); reflexivity.
Qed.

Lemma delegate_select F stmt t items from cj k :
  forallb item_ok items = true -> from <> [] -> forallb rel_ok from = true ->
  (do r <- ci_step (S (S (S F))) e stmt (Ok (add_write empty_graph (tbl e t None), false, false))
                   (r_query_spr sp kwf noise (S k) (QSelect items from cj None));
   Ok (fst (fst r))) = sel_holder e t items from.
Proof.
  intros Hit Hne Hrel. rewrite ci_select. unfold ex_delegate. fold (dctx (add_write empty_graph (tbl e t None))).
  rewrite (select_tables_extract (S F) _ items from cj k (dctx (add_write empty_graph (tbl e t None)))); try assumption.
  - rewrite init_delegate_write. unfold sel_holder.
    destruct (end_of_query_cleanup e _ _ _ []) as [g2|err]; [|reflexivity]. destruct (expand_wildcard e g2); reflexivity.
  - rewrite r_query_select. apply (sel_segments_select items k from cj None).
  - reflexivity.
Qed.

Lemma analyze_insert_select t items from cj :
  tref_ok t = true -> forallb item_ok items = true -> from <> [] -> forallb rel_ok from = true ->
  analyze e false (r_stmt_spr sp kwf noise (SInsert t None (QSelect items from cj None))) = sel_holder e t items from.
Proof.
  intros Ht Hit Hne Hrel. set (q := QSelect items from cj None). set (k := q_size q). set (Q := r_query_spr sp kwf noise (S k) q).
  set (stmt := node "insert_statement" ["insert_statement"] (sep noise ([kw_sp kwf "insert"; kw_sp kwf "into"; r_tref_spr sp t] ++ cols_part None ++ [Q]))).
  assert (Es : r_stmt_spr sp kwf noise (SInsert t None q) = stmt) by reflexivity. rewrite Es.
  assert (Ea : analyze e false stmt = extract (S (S (S (S (3 * depth stmt + 6))))) e XCreateInsert stmt empty_ctx).
  { replace (S (S (S (S (3 * depth stmt + 6))))) with (3 * depth stmt + 10) by lia. reflexivity. }
  set (F := 3 * depth stmt + 6) in *.
  rewrite Ea, extract_ci_eq. unfold stmt at 2. rewrite (lcs_node) by reflexivity.
  rewrite !filter_app. cbn [cols_part filter app]. change (nn (kw_sp kwf "insert")) with true. change (nn (kw_sp kwf "into")) with true.
  change (nn (r_tref_spr sp t)) with true. unfold Q at 1. rewrite (nn_rq). cbn iota. fold Q.
  change (init_holder empty_ctx) with empty_graph. cbn [app fold_left].
  rewrite (ci_kw_target (S (S (S F))) stmt empty_graph false false "insert" eq_refl), (ci_kw_target (S (S (S F))) stmt empty_graph true false "into" eq_refl).
  rewrite (ci_tref), (table_of_seg_exact t None Ht I : table_of_seg e (r_tref_spr sp t) None = _).
  unfold Q, q. apply (delegate_select F stmt t items from cj k Hit Hne Hrel).
Qed.

Lemma analyze_create_select (view : bool) t items from cj :
  tref_ok t = true -> forallb item_ok items = true -> from <> [] -> forallb rel_ok from = true ->
  analyze e false (r_stmt_spr sp kwf noise (if view then SView t (QSelect items from cj None) else SCtas t (QSelect items from cj None)))
  = sel_holder e t items from.
Proof.
  intros Ht Hit Hne Hrel. set (q := QSelect items from cj None). set (k := q_size q). set (Q := r_query_spr sp kwf noise (S k) q).
  set (ty0 := if view then "create_view_statement" else "create_table_statement").
  set (w0 := if view then "view" else "table").
  set (stmt := node ty0 [ty0] (sep noise [kw_sp kwf "create"; kw_sp kwf w0; r_tref_spr sp t; kw_sp kwf "as"; Q])).
  assert (Es : r_stmt_spr sp kwf noise (if view then SView t q else SCtas t q) = stmt) by (destruct view; reflexivity). rewrite Es.
  assert (Ea : analyze e false stmt = extract (S (S (S (S (3 * depth stmt + 6))))) e XCreateInsert stmt empty_ctx).
  { replace (S (S (S (S (3 * depth stmt + 6))))) with (3 * depth stmt + 10) by lia. destruct view; reflexivity. }
  set (F := 3 * depth stmt + 6) in *.
  rewrite Ea, extract_ci_eq. unfold stmt at 2. rewrite (lcs_node) by (destruct view; reflexivity).
  cbn [filter]. change (nn (kw_sp kwf "create")) with true. change (nn (kw_sp kwf w0)) with true. change (nn (kw_sp kwf "as")) with true.
  change (nn (r_tref_spr sp t)) with true. unfold Q at 1. rewrite (nn_rq). cbn iota. fold Q.
  change (init_holder empty_ctx) with empty_graph. cbn [fold_left].
  rewrite (ci_kw_other (S (S (S F))) stmt empty_graph false "create" eq_refl eq_refl).
  rewrite (ci_kw_target (S (S (S F))) stmt empty_graph false false w0) by (destruct view; reflexivity).
  rewrite (ci_tref), (table_of_seg_exact t None Ht I : table_of_seg e (r_tref_spr sp t) None = _).
  rewrite (ci_kw_other (S (S (S F))) stmt _ false "as" eq_refl eq_refl).
  unfold Q, q. apply (delegate_select F stmt t items from cj k Hit Hne Hrel).
Qed.

Lemma ci_cols_exact f stmt g cs :
  forallb id_ok cs = true ->
  ci_step (S f) e stmt (Ok (g, false, false)) (r_cols cs) = Ok (add_write_column g (cl_of cs), false, false).
Proof.
  intros Hcs. unfold ci_step. change (tyis (r_cols cs) "with_compound_statement") with false. change (tyis (r_cols cs) "bracketed") with true.
  assert (E1 : existsb (fun c => tyis c "with_compound_statement") (children (r_cols cs)) = false).
  { unfold r_cols. cbn [children node]. rewrite (existsb_sep) by (intros x Hx; apply noise_tyis; [exact Hx|reflexivity]).
    apply existsb_Forall_false. apply Forall_col_children; reflexivity. }
  rewrite E1. cbn [andb]. change (ty_in (r_cols cs) ["select_statement"; "set_expression"]) with false.
  change (tyis (r_cols cs) "values_clause") with false. cbn iota. cbn [flat_map].
  rewrite (clean_crawl _ _ (r_cols cs)) by (apply (clean_cols); reflexivity). cbn [app]. rewrite (lcs_cols).
  assert (E2 : forallb (fun x => ty_in x ["column_reference"; "column_definition"]) (map (r_colref_spr sp None) cs) = true).
  { apply forallb_forall. intros x Hx. apply in_map_iff in Hx. destruct Hx as (c & <- & _). reflexivity. }
  rewrite E2.
  match goal with |- context [map_res ?F (map (r_colref_spr sp None) cs)] =>
    assert (E3 : map_res F (map (r_colref_spr sp None) cs) = Ok (cl_of cs)) end.
  { clear -Hcs Hsp. induction cs as [|c r IH]; [reflexivity|]. cbn [forallb] in Hcs. apply andb_true_iff in Hcs. destruct Hcs as [Hc Hr].
    cbn [map map_res]. change (tyis (r_colref_spr sp None c) "column_definition") with false. cbn iota.
    unfold column_of_seg at 1. change (tyis (r_colref_spr sp None c) "select_clause_element") with false. cbn iota.
    cbn [extract_sources]. change (ty_in (r_colref_spr sp None c) ["identifier"; "column_reference"]) with true. cbn [orb].
    rewrite (ecq_colref None c). rewrite (IH Hr). cbn [xc mk_xcol cl_of map].
    assert (Er : raw (r_colref_spr sp None c) = sp R_COL c) by (cbn; apply append_nil_r). rewrite Er, (sp_escape _ c Hc). reflexivity. }
  rewrite E3. reflexivity.
Qed.

Lemma delegate_select_g F stmt g items from cj k :
  forallb item_ok items = true -> from <> [] -> forallb rel_ok from = true ->
  init_holder (dctx g) = g -> sq_cte g = [] ->
  (do r <- ci_step (S (S (S F))) e stmt (Ok (g, false, false)) (r_query_spr sp kwf noise (S k) (QSelect items from cj None));
   Ok (fst (fst r))) =
  (do sub <- (do g2 <- end_of_query_cleanup e g (map (tbl_of e) from) (map xcol_of items) []; expand_wildcard e g2);
   Ok (compose g sub)).
Proof.
  intros Hit Hne Hrel Hi Hc. rewrite (ci_select). unfold ex_delegate. fold (dctx g).
  rewrite (select_tables_extract (S F) _ items from cj k (dctx g)); try assumption.
  - rewrite Hi. destruct (end_of_query_cleanup e _ _ _ []) as [g2|err]; [|reflexivity]. destruct (expand_wildcard e g2); reflexivity.
  - rewrite r_query_select. apply (sel_segments_select items k from cj None).
  - rewrite Hi. exact Hc.
Qed.

Lemma analyze_insert_cols t cs items from cj :
  tref_ok t = true -> forallb id_ok cs = true -> NoDup cs ->
  forallb item_ok items = true -> from <> [] -> forallb rel_ok from = true ->
  analyze e false (r_stmt_spr sp kwf noise (SInsert t (Some cs) (QSelect items from cj None))) = sel_holder_cols e t cs items from.
Proof.
  intros Ht Hcs Hnd Hit Hne Hrel. set (q := QSelect items from cj None). set (k := q_size q). set (Q := r_query_spr sp kwf noise (S k) q).
  set (stmt := node "insert_statement" ["insert_statement"] (sep noise ([kw_sp kwf "insert"; kw_sp kwf "into"; r_tref_spr sp t] ++ cols_part (Some cs) ++ [Q]))).
  assert (Es : r_stmt_spr sp kwf noise (SInsert t (Some cs) q) = stmt) by reflexivity. rewrite Es.
  assert (Ea : analyze e false stmt = extract (S (S (S (S (3 * depth stmt + 6))))) e XCreateInsert stmt empty_ctx).
  { replace (S (S (S (S (3 * depth stmt + 6))))) with (3 * depth stmt + 10) by lia. reflexivity. }
  set (F := 3 * depth stmt + 6) in *.
  rewrite Ea, extract_ci_eq. unfold stmt at 2. rewrite (lcs_node) by reflexivity.
  rewrite !filter_app, (filter_nn_cols). cbn [cols_part filter app]. change (nn (kw_sp kwf "insert")) with true. change (nn (kw_sp kwf "into")) with true.
  change (nn (r_tref_spr sp t)) with true. unfold Q at 1. rewrite (nn_rq). cbn iota. fold Q.
  change (init_holder empty_ctx) with empty_graph. cbn [app fold_left].
  rewrite (ci_kw_target (S (S (S F))) stmt empty_graph false false "insert" eq_refl), (ci_kw_target (S (S (S F))) stmt empty_graph true false "into" eq_refl).
  rewrite (ci_tref), (table_of_seg_exact t None Ht I : table_of_seg e (r_tref_spr sp t) None = _).
  rewrite (ci_cols_exact (S (S F)) stmt _ cs Hcs).
  change (add_write_column (add_write empty_graph (tbl e t None)) (cl_of cs)) with (gb_of (tbl e t None) cs).
  unfold Q, q. unfold sel_holder_cols.
  assert (Hd : dk (tbl e t None) = KTable) by reflexivity.
  destruct (gb_facts (tbl e t None) cs Hd Hnd) as (_ & _ & C & _).
  apply (delegate_select_g F stmt (gb_of (tbl e t None) cs) items from cj k Hit Hne Hrel (init_delegate_cols _ cs Hd Hnd)).
  unfold sq_cte. rewrite C. reflexivity.
Qed.

(** the whole statement holder is the one of the plain rendering *)
Lemma analyze_same_single_select s :
  stmt_ok s = true -> single_select_fragment s = true -> cols_nodup s = true ->
  analyze e false (r_stmt_spr sp kwf noise s) = analyze e false (r_stmt noise s).
Proof.
  intros Hok Hf Hnd. unfold single_select_fragment in Hf. destruct s as [t cols q|t q|t q|q|kind].
  - rewrite orb_false_r in Hf. destruct q as [items from cj [wh|]| |]; try discriminate. cbn [sel_tables_syntactic] in Hf.
    apply andb_true_iff in Hf. destruct Hf as [Hrt _]. cbn [stmt_ok] in Hok. apply andb_true_iff in Hok. destruct Hok as [Hok Hcols].
    destruct (stmt_ok_select t items from cj Hok Hrt) as (Ht & Hit & Hne & Hrel). destruct cols as [cs|].
    + cbn [cols_nodup] in Hnd. apply nodup_s_NoDup in Hnd.
      rewrite (analyze_insert_cols t cs items from cj Ht Hcols Hnd Hit Hne Hrel).
      rewrite (LemmaBProofs.analyze_insert_cols noise Hnoise e Henv t cs items from cj Ht Hcols Hnd Hit Hne Hrel). reflexivity.
    + rewrite (analyze_insert_select t items from cj Ht Hit Hne Hrel).
      rewrite (LemmaBProofs.analyze_insert_select noise Hnoise e Henv t items from cj Ht Hit Hne Hrel). reflexivity.
  - rewrite orb_false_r in Hf. destruct q as [items from cj [wh|]| |]; try discriminate. cbn [sel_tables_syntactic] in Hf.
    apply andb_true_iff in Hf. destruct Hf as [Hrt _]. cbn [stmt_ok] in Hok.
    destruct (stmt_ok_select t items from cj Hok Hrt) as (Ht & Hit & Hne & Hrel).
    rewrite (analyze_create_select false t items from cj Ht Hit Hne Hrel).
    rewrite (LemmaBProofs.analyze_create_select noise Hnoise e Henv false t items from cj Ht Hit Hne Hrel). reflexivity.
  - rewrite orb_false_r in Hf. destruct q as [items from cj [wh|]| |]; try discriminate. cbn [sel_tables_syntactic] in Hf.
    apply andb_true_iff in Hf. destruct Hf as [Hrt _]. cbn [stmt_ok] in Hok.
    destruct (stmt_ok_select t items from cj Hok Hrt) as (Ht & Hit & Hne & Hrel).
    rewrite (analyze_create_select true t items from cj Ht Hit Hne Hrel).
    rewrite (LemmaBProofs.analyze_create_select noise Hnoise e Henv true t items from cj Ht Hit Hne Hrel). reflexivity.
  - cbn [sel_tables_syntactic orb] in Hf. destruct q as [items from cj [wh|]| |]; try discriminate.
    assert (Hok' : tref_ok (None, "x") && frag_query (S (q_size (QSelect items from cj None))) (QSelect items from cj None)
                   && names_ok_q (S (q_size (QSelect items from cj None))) [] (QSelect items from cj None) = true) by exact Hok.
    destruct (stmt_ok_select (None, "x") items from cj Hok' Hf) as (_ & Hit & Hne & Hrel).
    set (q := QSelect items from cj None). set (k := q_size q).
    assert (E1 : forall stmt, stmt = r_stmt_spr sp kwf noise (SQuery q) ->
                 analyze e false stmt = extract (S (S (3 * depth stmt + 8))) e XSelect stmt empty_ctx).
    { intros stmt ->. replace (S (S (3 * depth (r_stmt_spr sp kwf noise (SQuery q)) + 8))) with (3 * depth (r_stmt_spr sp kwf noise (SQuery q)) + 10) by lia.
      unfold r_stmt_spr, q. rewrite r_query_select. reflexivity. }
    assert (E2 : forall stmt, stmt = r_stmt noise (SQuery q) ->
                 analyze e false stmt = extract (S (S (3 * depth stmt + 8))) e XSelect stmt empty_ctx).
    { intros stmt ->. replace (S (S (3 * depth (r_stmt noise (SQuery q)) + 8))) with (3 * depth (r_stmt noise (SQuery q)) + 10) by lia.
      unfold r_stmt, q. rewrite (LemmaAProofs.r_query_select noise). reflexivity. }
    rewrite (E1 _ eq_refl), (E2 _ eq_refl).
    rewrite (select_tables_extract _ (r_stmt_spr sp kwf noise (SQuery q)) items from cj k empty_ctx); try assumption; try reflexivity.
    + rewrite (LemmaBProofs.select_tables_extract noise Hnoise e Henv _ (r_stmt noise (SQuery q)) items from cj k empty_ctx); try assumption; try reflexivity.
      unfold r_stmt, q. rewrite (LemmaAProofs.r_query_select noise). apply (LemmaAProofs.sel_segments_select noise Hnoise items k from cj None).
    + unfold r_stmt_spr, q. rewrite r_query_select. apply (sel_segments_select items k from cj None).
  - reflexivity.
Qed.

(* ================================================================== *)
(** * The statement, for the fixed spellings of this section *)
Lemma query_body_sp q :
  stmt_ok (SQuery q) = true -> qshape (S (q_size q)) q = true ->
  stmt_reads (analyze e false (r_stmt_spr sp kwf noise (SQuery q))) = sort_strings (spec_reads (e_cfg e) (SQuery q)) /\
  stmt_writes (analyze e false (r_stmt_spr sp kwf noise (SQuery q))) = sort_strings (spec_writes (e_cfg e) (SQuery q)).
Proof.
  intros Hok Hs. unfold stmt_ok in Hok. apply andb_true_iff in Hok. destruct Hok as [Hf Hnm].
  pose proof (body_ok_of _ _ _ Hf Hnm Hs) as Hb. cbn [r_stmt_spr].
  rewrite (analyze_query (q_size q) q (body_ok_is_body _ _ Hb)).
  set (stmt := r_query_spr sp kwf noise (S (q_size q)) q).
  assert (Hfuel : qd (S (q_size q)) q < 3 * depth stmt + 10).
  { pose proof (depth_qd (S (q_size q)) q) as H. fold stmt in H. lia. }
  destruct (body_main [] (S (q_size q)) q _ empty_ctx stmt Hb Hfuel Pre_empty (or_introl eq_refl))
    as (g & E & (G1 & G2 & G3 & _ & _)).
  rewrite E. change (init_holder empty_ctx) with empty_graph in *. split.
  - unfold spec_reads. apply (stmt_reads_spec _ g); [reflexivity|exact G1|]. intros x. rewrite G2, tset_empty. tauto.
  - unfold spec_writes. apply (stmt_writes_spec _ g); [reflexivity|exact G1|constructor|]. intros x. cbn [In]. split; [|tauto].
    intros (d & Hd & _). apply G3 in Hd. destruct Hd.
Qed.

Lemma query_sp q :
  stmt_ok (SQuery q) = true -> sshape_q q = true ->
  stmt_reads (analyze e false (r_stmt_spr sp kwf noise (SQuery q))) = sort_strings (spec_reads (e_cfg e) (SQuery q)) /\
  stmt_writes (analyze e false (r_stmt_spr sp kwf noise (SQuery q))) = sort_strings (spec_writes (e_cfg e) (SQuery q)).
Proof.
  intros Hok Hs. destruct q as [items from cj wh|a b|n c b]; try (apply query_body_sp; assumption).
  unfold stmt_ok in Hok. apply andb_true_iff in Hok. destruct Hok as [Hf Hnm].
  unfold sshape_q in Hs. apply andb_true_iff in Hs. destruct Hs as [Hsc Hsb].
  set (k := q_size (QWith n c b)) in *.
  destruct (with_facts k n c b Hf Hnm Hsc Hsb) as (Hc & Hb & Hid & Hguard).
  cbn [r_stmt_spr]. fold k. set (stmt := r_query_spr sp kwf noise (S k) (QWith n c b)).
  assert (Ea : analyze e false stmt = extract (3 * depth stmt + 10) e XCte stmt empty_ctx) by reflexivity.
  assert (Hfuel : qd (S k) (QWith n c b) < 3 * depth stmt + 10).
  { pose proof (depth_qd (S k) (QWith n c b)) as H. fold stmt in H. lia. }
  destruct (xcte_ok _ empty_ctx k n c b Pre_empty no_subq_empty Hc Hb Hid Hguard Hfuel) as (g & E & G1 & G2 & G3).
  rewrite Ea. fold stmt in E. rewrite E. change (init_holder empty_ctx) with empty_graph in *. split.
  - unfold spec_reads. fold k. apply (stmt_reads_spec _ g); [reflexivity|exact G1|]. intros x. rewrite G2, tset_empty. tauto.
  - unfold spec_writes. apply (stmt_writes_spec _ g); [reflexivity|exact G1|constructor|]. intros x. cbn [In]. split; [|tauto].
    intros (d & Hd & _). apply G3 in Hd. destruct Hd.
Qed.

Lemma stmt_sp s :
  stmt_ok s = true -> sshape s = true ->
  stmt_reads (analyze e false (r_stmt_spr sp kwf noise s)) = sort_strings (spec_reads (e_cfg e) s) /\
  stmt_writes (analyze e false (r_stmt_spr sp kwf noise s)) = sort_strings (spec_writes (e_cfg e) s).
Proof.
  intros Hok Hs. destruct s as [t cols q|t q|t q|q|kind].
  - cbn [stmt_ok sshape] in *. apply andb_true_iff in Hok. destruct Hok as [Hok _]. apply andb_true_iff in Hok. destruct Hok as [Hok Hnm].
    apply andb_true_iff in Hok. destruct Hok as [Ht Hf].
    destruct (insert_ok t cols q Ht (src_ok_of q Hf Hnm Hs)) as (g & E & G1 & G2 & G3).
    apply (wrapper_conclusion e _ g t q); auto.
  - cbn [stmt_ok sshape] in *. apply andb_true_iff in Hok. destruct Hok as [Hok Hnm]. apply andb_true_iff in Hok. destruct Hok as [Ht Hf].
    destruct (create_ok false t q Ht (src_ok_of q Hf Hnm Hs)) as (g & E & G1 & G2 & G3).
    apply (wrapper_conclusion e _ g t q); auto.
  - cbn [stmt_ok sshape] in *. apply andb_true_iff in Hok. destruct Hok as [Hok Hnm]. apply andb_true_iff in Hok. destruct Hok as [Ht Hf].
    destruct (create_ok true t q Ht (src_ok_of q Hf Hnm Hs)) as (g & E & G1 & G2 & G3).
    apply (wrapper_conclusion e _ g t q); auto.
  - apply query_sp; assumption.
  - split; reflexivity.
Qed.

End Spell.

(* ================================================================== *)
(** * Lemma A for every admissible spelling *)
(** one admissible spelling PER ROLE (the name of a table, an alias, a column name, a qualifier, a CTE name ... may each be
    written in its own way, e.g. WITH "C" AS (...) SELECT * FROM c) *)
Theorem lemma_A_spelling_roles : forall sp kwf noise e s,
  spr_ok sp -> kw_ok kwf -> noise_ok noise = true -> env_ok e = true -> stmt_ok s = true -> sshape s = true ->
  stmt_reads (analyze e false (r_stmt_spr sp kwf noise s)) = sort_strings (spec_reads (e_cfg e) s) /\
  stmt_writes (analyze e false (r_stmt_spr sp kwf noise s)) = sort_strings (spec_writes (e_cfg e) s).
Proof. intros sp kwf noise e s Hsp Hkw Hn He Hok Hs. exact (stmt_sp sp kwf Hsp Hkw noise Hn e He s Hok Hs). Qed.
Print Assumptions lemma_A_spelling_roles.

Lemma spr_ok_const sp : sp_ok sp -> spr_ok (fun _ => sp).
Proof. intros H r. exact H. Qed.

(** the same spelling everywhere *)
Theorem lemma_A_spelling : forall sp kwf noise e s,
  sp_ok sp -> kw_ok kwf -> noise_ok noise = true -> env_ok e = true -> stmt_ok s = true -> sshape s = true ->
  stmt_reads (analyze e false (r_stmt_sp sp kwf noise s)) = sort_strings (spec_reads (e_cfg e) s) /\
  stmt_writes (analyze e false (r_stmt_sp sp kwf noise s)) = sort_strings (spec_writes (e_cfg e) s).
Proof. intros sp kwf noise e s Hsp Hkw Hn He Hok Hs. apply lemma_A_spelling_roles; auto using spr_ok_const. Qed.
Print Assumptions lemma_A_spelling.

(* ================================================================== *)
(** * Column level on the single-SELECT fragment *)
Theorem analyze_spelling_roles_single_select : forall sp kwf noise e s,
  spr_ok sp -> kw_ok kwf -> noise_ok noise = true -> env_ok e = true ->
  stmt_ok s = true -> single_select_fragment s = true -> cols_nodup s = true ->
  analyze e false (r_stmt_spr sp kwf noise s) = analyze e false (r_stmt noise s).
Proof. intros sp kwf noise e s Hsp Hkw Hn He Hok Hf Hnd. exact (analyze_same_single_select sp kwf Hsp Hkw noise Hn e He s Hok Hf Hnd). Qed.
Print Assumptions analyze_spelling_roles_single_select.

Theorem analyze_spelling_single_select : forall sp kwf noise e s,
  sp_ok sp -> kw_ok kwf -> noise_ok noise = true -> env_ok e = true ->
  stmt_ok s = true -> single_select_fragment s = true -> cols_nodup s = true ->
  analyze e false (r_stmt_sp sp kwf noise s) = analyze e false (r_stmt noise s).
Proof. intros sp kwf noise e s Hsp Hkw Hn He Hok Hf Hnd. apply analyze_spelling_roles_single_select; auto using spr_ok_const. Qed.

Lemma colshape_cols_nodup s : colshape s = true -> cols_nodup s = true.
Proof.
  unfold colshape. intros H. apply andb_true_iff in H. destruct H as [H _]. apply andb_true_iff in H. destruct H as [H _].
  apply andb_true_iff in H. destruct H as [_ H]. destruct s as [t [cs|] q|t q|t q|q|kind]; try reflexivity.
  cbn [cs_cols] in H. apply andb_true_iff in H. exact (proj1 H).
Qed.

Theorem script_spelling_roles_single_select : forall sp kwf noise e s,
  spr_ok sp -> kw_ok kwf -> noise_ok noise = true -> env_ok e = true ->
  stmt_ok s = true -> single_select_fragment s = true -> cols_nodup s = true ->
  script_graph e false [] [r_stmt_spr sp kwf noise s] = script_graph e false [] [r_stmt noise s].
Proof.
  intros sp kwf noise e s Hsp Hkw Hn He Hok Hf Hnd. unfold script_graph. cbn [run_statements].
  rewrite (analyze_spelling_roles_single_select sp kwf noise (with_cols e (view_cols [] [])) s Hsp Hkw Hn He Hok Hf Hnd). reflexivity.
Qed.

Theorem lemma_B_spelling_roles_single_select : forall sp kwf noise e s,
  spr_ok sp -> kw_ok kwf -> noise_ok noise = true -> env_ok e = true ->
  stmt_ok s = true -> sshape s = true -> colshape s = true -> single_select_fragment s = true ->
  script_pairs e false [] [r_stmt_spr sp kwf noise s] = spec_pairs (e_cfg e) s.
Proof.
  intros sp kwf noise e s Hsp Hkw Hn He Hok Hss Hc Hf.
  rewrite <- (lemma_B_single_select noise e s Hn He Hok Hss Hc Hf). unfold script_pairs.
  rewrite (script_spelling_roles_single_select sp kwf noise e s Hsp Hkw Hn He Hok Hf (colshape_cols_nodup s Hc)). reflexivity.
Qed.
Print Assumptions lemma_B_spelling_roles_single_select.

Theorem lemma_B_spelling_single_select : forall sp kwf noise e s,
  sp_ok sp -> kw_ok kwf -> noise_ok noise = true -> env_ok e = true ->
  stmt_ok s = true -> sshape s = true -> colshape s = true -> single_select_fragment s = true ->
  script_pairs e false [] [r_stmt_sp sp kwf noise s] = spec_pairs (e_cfg e) s.
Proof. intros sp kwf noise e s Hsp Hkw Hn He Hok Hss Hc Hf. apply lemma_B_spelling_roles_single_select; auto using spr_ok_const. Qed.
Print Assumptions lemma_B_spelling_single_select.

(* ================================================================== *)
(** * Admissible spellings: instances *)
Lemma id_char_facts c :
  id_char c = true -> is_quote c = false /\ is_upper c = false /\ is_dot c = false /\
                      Ascii.eqb c "["%char = false /\ Ascii.eqb c "]"%char = false.
Proof. destruct c as [[] [] [] [] [] [] [] []]; vm_compute; intros H; try discriminate H; repeat split; reflexivity. Qed.

Lemma is_dot_to_lower c : is_dot (to_lower c) = is_dot c.
Proof. destruct c as [[] [] [] [] [] [] [] []]; reflexivity. Qed.
Lemma to_lower_to_upper c : to_lower (to_upper c) = to_lower c.
Proof. destruct c as [[] [] [] [] [] [] [] []]; reflexivity. Qed.
Lemma to_upper_to_lower c : to_upper (to_lower c) = to_upper c.
Proof. destruct c as [[] [] [] [] [] [] [] []]; reflexivity. Qed.
Lemma to_upper_idem c : to_upper (to_upper c) = to_upper c.
Proof. destruct c as [[] [] [] [] [] [] [] []]; reflexivity. Qed.

Lemma sexists_dot_lower s : sexists is_dot (lower s) = sexists is_dot s.
Proof. induction s as [|c r IH]; [reflexivity|]. cbn [lower smap sexists]. fold (lower r). rewrite IH, is_dot_to_lower. reflexivity. Qed.
Lemma lower_upper s : lower (upper s) = lower s.
Proof. induction s as [|c r IH]; [reflexivity|]. cbn [lower upper smap]. fold (upper r). fold (lower (upper r)). fold (lower r). rewrite IH, to_lower_to_upper. reflexivity. Qed.
Lemma upper_lower s : upper (lower s) = upper s.
Proof. induction s as [|c r IH]; [reflexivity|]. cbn [lower upper smap]. fold (lower r). fold (upper (lower r)). fold (upper r). rewrite IH, to_upper_to_lower. reflexivity. Qed.
Lemma upper_upper s : upper (upper s) = upper s.
Proof. induction s as [|c r IH]; [reflexivity|]. cbn [upper smap]. fold (upper r). fold (upper (upper r)). rewrite IH, to_upper_idem. reflexivity. Qed.

Lemma id_ok_lower x : id_ok x = true -> lower x = x.
Proof. intros H. apply lower_no_upper. apply idc_no_upper. apply id_ok_idc. exact H. Qed.
Lemma id_ok_no_quote x : id_ok x = true -> has_quote x = false.
Proof. intros H. apply idc_no_quote. apply id_ok_idc. exact H. Qed.
Lemma id_ok_not_bracketed x : id_ok x = true -> bracketed x = false.
Proof. intros H. apply idc_not_bracketed. apply id_ok_idc. exact H. Qed.

(** the identity *)
Lemma sp_ok_id : sp_ok (fun x => x).
Proof. intros x H. split; [apply id_ok_escape; exact H|apply id_ok_nodot; exact H]. Qed.

(** any spelling that changes only the letter case *)
Lemma sp_ok_case_only f : case_only f -> sp_ok f.
Proof.
  intros Hf x H. pose proof (Hf x) as E. rewrite (id_ok_lower x H) in E. split.
  - assert (Hq : has_quote (f x) = false) by (rewrite <- (has_quote_lower (f x)), E; apply id_ok_no_quote; exact H).
    assert (Hb : bracketed (f x) = false) by (rewrite <- (bracketed_lower (f x)), E; apply id_ok_not_bracketed; exact H).
    unfold escape. rewrite Hq, Hb. exact E.
  - rewrite <- (sexists_dot_lower (f x)), E. apply id_ok_nodot. exact H.
Qed.

Lemma case_only_id : case_only (fun x => x).
Proof. intros x. reflexivity. Qed.
Lemma case_only_upper : case_only upper.
Proof. intros x. apply lower_upper. Qed.
Lemma case_only_lower : case_only lower.
Proof. intros x. apply lower_lower. Qed.
Lemma case_only_cap : case_only sp_cap.
Proof. intros [|c r]; [reflexivity|]. cbn [sp_cap lower smap]. rewrite to_lower_to_upper. reflexivity. Qed.
Lemma case_only_alt : forall b, case_only (sp_alt b).
Proof.
  intros b x. revert b. induction x as [|c r IH]; intros b; [reflexivity|]. cbn [sp_alt lower smap]. fold (lower (sp_alt (negb b) r)). fold (lower r).
  rewrite IH. destruct b; [rewrite to_lower_to_upper|]; reflexivity.
Qed.
Lemma case_only_compose f g : case_only f -> case_only g -> case_only (fun x => f (g x)).
Proof. intros Hf Hg x. rewrite Hf. apply Hg. Qed.

Lemma sp_ok_upper : sp_ok upper.
Proof. apply sp_ok_case_only. apply case_only_upper. Qed.

(** quoting: "x", `x`, [x] *)
Lemma id_ok_sexists_false (p : ascii -> bool) x :
  (forall c, id_char c = true -> p c = false) -> id_ok x = true -> sexists p x = false.
Proof.
  intros Hp H. apply id_ok_chars in H. induction x as [|c r IH]; [reflexivity|]. cbn [sforall sexists] in *.
  apply andb_true_iff in H. destruct H as [H1 H2]. rewrite (Hp c H1), (IH H2). reflexivity.
Qed.

Lemma sp_ok_dq : sp_ok sp_dq.
Proof.
  intros x H. split.
  - apply escape_double_quoted. apply id_ok_no_quote. exact H.
  - unfold sp_dq. cbn [sexists]. rewrite sexists_app, (id_ok_nodot x H). reflexivity.
Qed.

Lemma sp_ok_bt : sp_ok sp_bt.
Proof.
  intros x H. split.
  - apply escape_backticked. apply id_ok_no_quote. exact H.
  - unfold sp_bt. cbn [sexists]. rewrite sexists_app, (id_ok_nodot x H). reflexivity.
Qed.

Lemma last_is_id c x : id_char c = false -> id_ok x = true -> last_is c x = false.
Proof.
  intros Hc H. apply id_ok_chars in H. induction x as [|a r IH]; [reflexivity|]. cbn [sforall] in H. apply andb_true_iff in H. destruct H as [H1 H2].
  cbn [last_is]. destruct r as [|b r'].
  - destruct (Ascii.eqb a c) eqn:E; [|reflexivity]. apply Ascii.eqb_eq in E. subst a. rewrite Hc in H1. discriminate.
  - apply IH. exact H2.
Qed.
Lemma first_is_id c x : id_char c = false -> id_ok x = true -> first_is c x = false.
Proof.
  intros Hc H. apply id_ok_chars in H. destruct x as [|a r]; [reflexivity|]. cbn [sforall] in H. apply andb_true_iff in H. destruct H as [H1 _].
  cbn [first_is]. destruct (Ascii.eqb a c) eqn:E; [|reflexivity]. apply Ascii.eqb_eq in E. subst a. rewrite Hc in H1. discriminate.
Qed.

Lemma sp_ok_br : sp_ok sp_br.
Proof.
  intros x H. split.
  - apply escape_bracketed; [apply id_ok_no_quote; exact H|apply first_is_id|apply first_is_id|apply last_is_id|apply last_is_id]; (reflexivity || exact H).
  - unfold sp_br. cbn [sexists]. rewrite sexists_app, (id_ok_nodot x H). reflexivity.
Qed.

(** keywords: any casing *)
Lemma kw_ok_case_only f : case_only f -> kw_ok f.
Proof. intros Hf k. rewrite <- (upper_lower (f k)), Hf. apply upper_lower. Qed.
Lemma kw_ok_id : kw_ok (fun w => w).
Proof. intros k. reflexivity. Qed.
Lemma kw_ok_upper : kw_ok upper.
Proof. intros k. apply upper_upper. Qed.
Lemma kw_ok_lower : kw_ok lower.
Proof. intros k. apply upper_lower. Qed.

(** [kw_ok] is exactly "only the letter case changes" *)
Lemma kw_ok_iff f : kw_ok f <-> case_only f.
Proof.
  split; [|apply kw_ok_case_only]. intros Hf x.
  assert (E : forall s, lower (upper s) = lower s) by apply lower_upper.
  rewrite <- (E (f x)), Hf. apply E.
Qed.

(* ================================================================== *)
(** * Spelling invariance (C07 / C16 at table level) *)
Theorem spelling_invariance : forall sp1 kw1 noise1 sp2 kw2 noise2 e s,
  sp_ok sp1 -> kw_ok kw1 -> noise_ok noise1 = true ->
  sp_ok sp2 -> kw_ok kw2 -> noise_ok noise2 = true ->
  env_ok e = true -> stmt_ok s = true -> sshape s = true ->
  stmt_reads (analyze e false (r_stmt_sp sp1 kw1 noise1 s)) = stmt_reads (analyze e false (r_stmt_sp sp2 kw2 noise2 s)) /\
  stmt_writes (analyze e false (r_stmt_sp sp1 kw1 noise1 s)) = stmt_writes (analyze e false (r_stmt_sp sp2 kw2 noise2 s)).
Proof.
  intros sp1 kw1 noise1 sp2 kw2 noise2 e s H1 H2 H3 H4 H5 H6 He Hok Hs.
  destruct (lemma_A_spelling sp1 kw1 noise1 e s H1 H2 H3 He Hok Hs) as [A1 A2].
  destruct (lemma_A_spelling sp2 kw2 noise2 e s H4 H5 H6 He Hok Hs) as [B1 B2].
  rewrite A1, A2, B1, B2. split; reflexivity.
Qed.
Print Assumptions spelling_invariance.

(** the same with one spelling per role: e.g. a CTE defined as "C" and used as c, a table aliased AS T and referred to as t *)
Theorem spelling_invariance_roles : forall sp1 kw1 noise1 sp2 kw2 noise2 e s,
  spr_ok sp1 -> kw_ok kw1 -> noise_ok noise1 = true ->
  spr_ok sp2 -> kw_ok kw2 -> noise_ok noise2 = true ->
  env_ok e = true -> stmt_ok s = true -> sshape s = true ->
  stmt_reads (analyze e false (r_stmt_spr sp1 kw1 noise1 s)) = stmt_reads (analyze e false (r_stmt_spr sp2 kw2 noise2 s)) /\
  stmt_writes (analyze e false (r_stmt_spr sp1 kw1 noise1 s)) = stmt_writes (analyze e false (r_stmt_spr sp2 kw2 noise2 s)).
Proof.
  intros sp1 kw1 noise1 sp2 kw2 noise2 e s H1 H2 H3 H4 H5 H6 He Hok Hs.
  destruct (lemma_A_spelling_roles sp1 kw1 noise1 e s H1 H2 H3 He Hok Hs) as [A1 A2].
  destruct (lemma_A_spelling_roles sp2 kw2 noise2 e s H4 H5 H6 He Hok Hs) as [B1 B2].
  rewrite A1, A2, B1, B2. split; reflexivity.
Qed.
Print Assumptions spelling_invariance_roles.

Lemma spr_ok_by_role l : Forall sp_ok l -> spr_ok (sp_by_role l).
Proof.
  intros H r. unfold sp_by_role. revert r. induction H as [|f l Hf Hl IH]; intros r.
  - destruct r; apply sp_ok_id.
  - destruct r as [|r]; [exact Hf|apply IH].
Qed.

(** ... in particular every admissible spelling reports what the plain rendering of Tree/Render.v reports *)
Corollary spelling_same_as_plain : forall sp kwf noise e s,
  sp_ok sp -> kw_ok kwf -> noise_ok noise = true -> env_ok e = true -> stmt_ok s = true -> sshape s = true ->
  stmt_reads (analyze e false (r_stmt_sp sp kwf noise s)) = stmt_reads (analyze e false (r_stmt noise s)) /\
  stmt_writes (analyze e false (r_stmt_sp sp kwf noise s)) = stmt_writes (analyze e false (r_stmt noise s)).
Proof.
  intros sp kwf noise e s H1 H2 H3 He Hok Hs. rewrite <- (r_stmt_sp_id noise s).
  apply spelling_invariance; auto using sp_ok_id, kw_ok_id.
Qed.
Print Assumptions spelling_same_as_plain.

(** the plain Lemma A is the instance "identity spellings" *)
Corollary lemma_A_tables_restricted_again : forall noise e s,
  noise_ok noise = true -> env_ok e = true -> stmt_ok s = true -> sshape s = true ->
  stmt_reads (analyze e false (r_stmt noise s)) = sort_strings (spec_reads (e_cfg e) s) /\
  stmt_writes (analyze e false (r_stmt noise s)) = sort_strings (spec_writes (e_cfg e) s).
Proof. intros noise e s Hn He Hok Hs. rewrite <- (r_stmt_sp_id noise s). apply lemma_A_spelling; auto using sp_ok_id, kw_ok_id. Qed.

(* ================================================================== *)
(** * Tests (run before the proof) and non-vacuity *)
Module SpTests.
  Definition T (n : string) := RTable (None, n) None.
  Definition TA (n a : string) := RTable (None, n) (Some a).
  Definition col (c : string) := IExpr (EColRef None c) None.
  Definition qcol (q c : string) := IExpr (EColRef (Some q) c) None.
  Definition acol (c a : string) := IExpr (EColRef None c) (Some a).
  Definition star := IStar None.
  Definition sel items from := QSelect items from false None.
  Definition stmts : list stmt := [
    SInsert (None, "tgt") None (sel [star] [T "t"]);
    SInsert (None, "tgt") (Some ["x"; "y"]) (sel [star] [T "t"]);
    SInsert (None, "tgt") (Some ["x"]) (sel [col "a"; col "b"] [T "t"; T "u"]);
    SInsert (None, "tgt") None (sel [col "a"; col "zz"; qcol "u" "b"] [T "t"; T "u"]);
    SInsert (None, "tgt") None (sel [star] [RDerived (sel [star] [T "t"]) "d"]);
    SInsert (None, "tgt") None (sel [IStar (Some "d"); col "a"] [RDerived (sel [star; acol "a" "k"] [T "t"; TA "u" "v"]) "d"; T "u"]);
    SInsert (None, "tgt") None (QUnion (sel [star] [T "t"]) (sel [col "a"] [T "u"]));
    SInsert (Some "s", "tgt") None (QWith "c" (sel [star] [T "t"]) (sel [star] [T "c"; T "u"]));
    SInsert (None, "t") None (sel [star] [T "t"]);
    SInsert (None, "tgt") None (QSelect [star] [T "t"] false (Some ("a", sel [star] [T "u"])));
    SCtas (None, "tgt") (sel [star] [T "t"; T "u"]);
    SView (None, "tgt") (sel [star; col "a"] [RDerived (sel [star] [T "t"]) "d"]);
    SQuery (sel [star] [T "t"; RDerived (sel [star] [T "u"]) "d"]);
    SQuery (QUnion (sel [star] [T "t"]) (sel [star] [T "u"]));
    SQuery (QWith "c" (sel [star] [T "t"]) (sel [star] [T "c"; T "u"]));
    SInsert (None, "tgt") None (QSelect [star] [T "t"; T "u"] true None);
    SInsert (None, "tgt") None (sel [IStar (Some "t"); IStar (Some "x")] [T "t"; TA "u" "x"]);
    SQuery (QWith "c" (sel [star] [RDerived (sel [star] [T "t"]) "d"]) (sel [star] [TA "c" "x"; T "u"]));
    SCtas (Some "db.s", "tgt") (QWith "c" (sel [star] [T "t"]) (QUnion (sel [star] [T "c"]) (sel [col "a"] [RTable (Some "s2", "c") None])));
    SInsert (None, "tgt") (Some ["x"]) (QSelect [qcol "t" "a"] [TA "t" "t"; T "u"] false (Some ("a", QUnion (sel [star] [T "u"]) (sel [star] [T "v"]))));
    SNoData 0
  ].
  Definition sps : list (string -> string) := [(fun x => x); upper; sp_cap; sp_alt false; sp_alt true; sp_dq; sp_bt; sp_br].
  Definition kws : list (string -> string) := [(fun x => x); upper; sp_cap; sp_alt false].
  Definition e0 := mk_env "ansi" "" "" {| p_truthy := false; p_cols := [] |} [].
  Definition e1 := mk_env "ansi" "main" "main" {| p_truthy := false; p_cols := [] |} [].
  Definition W := Seg "whitespace" "whitespace" ["whitespace"] " " true false false [].
  Definition Cm := Seg "comment" "comment" ["comment"; "raw"] "--x" false true false [].
  Definition guards := forallb (fun s => stmt_ok s && sshape s) stmts && env_ok e0 && env_ok e1 && noise_ok [W; Cm].
  Definition all_checks :=
    flat_map (fun sp => flat_map (fun kwf => flat_map (fun ne : list seg * env => map (fun s => lemma_A_sp_check sp kwf (fst ne) (snd ne) s) stmts)
                                                      [([], e0); ([W; Cm], e1)]) kws) sps.
  (** one spelling per role (table, alias, column, qualifier, star qualifier, CTE name, schema part) *)
  Definition fam1 := sp_by_role [upper; sp_dq; sp_alt true; sp_br; sp_bt; sp_cap; (fun x => x)].
  Definition fam2 := sp_by_role [sp_dq; upper; sp_br; sp_alt false; (fun x => x); sp_bt; sp_cap].
  Definition role_checks :=
    flat_map (fun sp => flat_map (fun ne : list seg * env => map (fun s => lemma_A_spr_check sp (sp_alt true) (fst ne) (snd ne) s) stmts)
                                 [([], e0); ([W; Cm], e1)]) [fam1; fam2].
  (** the spellings are really different texts: number of distinct raw texts of the first statement *)
  Definition raws := map (fun sp => raw (r_stmt_sp sp upper [] (nth 7 stmts (SNoData 0)))) sps.
End SpTests.

Lemma lemma_A_spelling_tests :
  SpTests.guards = true /\ List.length SpTests.all_checks = 1344 /\ forallb (String.eqb "holds") SpTests.all_checks = true /\
  List.length SpTests.role_checks = 84 /\ forallb (String.eqb "holds") SpTests.role_checks = true /\
  List.length (dedup_s SpTests.raws []) = 8.
Proof. vm_compute. repeat split. Qed.

(** non-vacuity of [lemma_A_spelling] / [spelling_invariance] / [spelling_same_as_plain]: all hypotheses hold for a
    quoted spelling with upper-case keywords and trivia, the rendered text differs from the plain one, and the
    conclusion is not trivial *)
Example lemma_A_spelling_nonvacuous :
  let s := nth 7 SpTests.stmts (SNoData 0) in
  let n := [SpTests.W; SpTests.Cm] in
  sp_ok sp_dq /\ kw_ok upper /\ sp_ok sp_br /\ kw_ok (sp_alt true) /\ noise_ok n = true /\ env_ok SpTests.e1 = true /\
  stmt_ok s = true /\ sshape s = true /\
  raw (r_stmt_sp sp_dq upper [] s) = "INSERTINTO""s"".""tgt""WITH""c""AS(SELECT*FROM""t"")SELECT*FROM""c""JOIN""u""ON1=1" /\
  raw (r_stmt [] s) = "insertintos.tgtwithcas(select*fromt)select*fromcjoinuon1=1" /\
  stmt_reads (analyze SpTests.e1 false (r_stmt_sp sp_dq upper n s)) = ["main.t"; "main.u"] /\
  stmt_writes (analyze SpTests.e1 false (r_stmt_sp sp_dq upper n s)) = ["s.tgt"].
Proof.
  cbv zeta. split; [exact sp_ok_dq|]. split; [exact kw_ok_upper|]. split; [exact sp_ok_br|].
  split; [exact (kw_ok_case_only _ (case_only_alt true))|]. vm_compute. repeat split.
Qed.

(** non-vacuity of [lemma_A_spelling_roles] / [spelling_invariance_roles]: the CTE is DEFINED as `c` and USED as "C"-less
    upper-case C; the target is written in brackets with a quoted schema *)
Example lemma_A_spelling_roles_nonvacuous :
  let s := nth 7 SpTests.stmts (SNoData 0) in
  let sp := sp_by_role [upper; sp_dq; sp_alt true; sp_br; sp_bt; sp_bt; sp_dq] in
  spr_ok sp /\ kw_ok upper /\ stmt_ok s = true /\ sshape s = true /\
  raw (r_stmt_spr sp upper [] s) = "INSERTINTO""s"".TGTWITH`c`AS(SELECT*FROMT)SELECT*FROMCJOINUON1=1" /\
  stmt_reads (analyze SpTests.e0 false (r_stmt_spr sp upper [] s)) = ["<default>.t"; "<default>.u"] /\
  stmt_writes (analyze SpTests.e0 false (r_stmt_spr sp upper [] s)) = ["s.tgt"].
Proof.
  cbv zeta. split.
  - apply spr_ok_by_role.
    apply Forall_cons; [exact sp_ok_upper|]. apply Forall_cons; [exact sp_ok_dq|].
    apply Forall_cons; [exact (sp_ok_case_only _ (case_only_alt true))|]. apply Forall_cons; [exact sp_ok_br|].
    apply Forall_cons; [exact sp_ok_bt|]. apply Forall_cons; [exact sp_ok_bt|]. apply Forall_cons; [exact sp_ok_dq|]. apply Forall_nil.
  - split; [exact kw_ok_upper|]. vm_compute. repeat split.
Qed.

(** non-vacuity of [sp_ok_case_only] / [kw_ok_case_only]: a mixed casing *)
Example case_only_nonvacuous : case_only (sp_alt true) /\ sp_alt true "select_tbl1" = "SeLeCt_tBl1" /\ sp_ok (sp_alt true) /\ kw_ok (sp_alt true).
Proof. split; [apply case_only_alt|]. split; [reflexivity|]. split; [apply sp_ok_case_only|apply kw_ok_case_only]; apply case_only_alt. Qed.

(** the side condition "no dot in the written text" of [sp_ok] cannot be dropped: a quoted spelling containing a dot
    normalises correctly but the extractors split the raw text at the dot *)
Example sp_dot_counterexample :
  let sp := fun x : string => if String.eqb x "t" then """t""" else x in
  let bad := fun x : string => if String.eqb x "t" then """a.t""" else x in
  escape (bad "t") = "a.t" /\
  lemma_A_sp_check sp (fun w => w) [] SpTests.e0 (nth 0 SpTests.stmts (SNoData 0)) = "holds" /\
  stmt_reads (analyze SpTests.e0 false (r_stmt_sp bad (fun w => w) [] (nth 0 SpTests.stmts (SNoData 0)))) = ["a.t"].
Proof. vm_compute. repeat split. Qed.

(* ================================================================== *)
(** * Column level: tests, non-vacuity, and the statement beyond the single-SELECT fragment *)

(** the spelling invariance of the reported column pairs on the whole fragment of Lemma A (stated, tested, NOT proved:
    beyond the single-SELECT fragment the holders contain sub-query datasets keyed by the raw text of the bracket, so
    they are no longer equal for different spellings; the pairs are) *)
Definition cols_spelling_invariance_statement : Prop :=
  forall sp kwf noise e s,
    spr_ok sp -> kw_ok kwf -> noise_ok noise = true -> env_ok e = true -> stmt_ok s = true -> sshape s = true ->
    script_pairs e false [] [r_stmt_spr sp kwf noise s] = script_pairs e false [] [r_stmt noise s].

Definition cols_sp_check_r (sp : nat -> string -> string) (kwf : string -> string) (noise : list seg) (e : env) (s : stmt) : bool :=
  negb (noise_ok noise && env_ok e && stmt_ok s && sshape s)
  || list_eqb (script_pairs e false [] [r_stmt_spr sp kwf noise s]) (script_pairs e false [] [r_stmt noise s]).
Definition cols_sp_check (sp kwf : string -> string) (noise : list seg) (e : env) (s : stmt) : string :=
  if negb (noise_ok noise && env_ok e && stmt_ok s && sshape s) then "outside"
  else if list_eqb (script_pairs e false [] [r_stmt_sp sp kwf noise s]) (script_pairs e false [] [r_stmt noise s]) then "same" else "DIFF".

Module SpColTests.
  Import SpTests.
  Definition more : list stmt := [
    SInsert tx None (QWith "c" (sel1 [ci None "a"; cia None "b" "k"] [tb "t"]) (sel1 [ci None "a"; ci (Some "c") "k"] [tb "c"]));
    SInsert tx None (QWith "c" (sel1 [IStar None] [tb "t"]) (sel1 [IStar None] [tb "c"]));
    SInsert tx None (sel1 [ci (Some "d") "a"] [RDerived (sel1 [ci None "a"] [tb "t"]) "d"]);
    SInsert tx None (QSelect [ci None "a"] [tb "t"] false (Some ("a", sel1 [ci None "b"] [tb "u"])));
    SCtas tx (QUnion (sel1 [ci None "a"] [tb "t"]) (sel1 [ci None "b"] [tb "u"]));
    SQuery (QWith "c" (sel1 [ci None "a"] [tb "t"]) (sel1 [ci None "a"] [tb "c"]))
  ].
  (** the eighteen counterexample classes of Lemma B (on which the pairs are NOT the specified ones), the table-level
      test statements, and six statements with WITH / derived tables / WHERE-IN / UNION *)
  Definition all_stmts := cxB_all ++ stmts ++ more.
  Definition all_checks :=
    flat_map (fun sp => map (fun s => cols_sp_check sp upper [W] e1 s) all_stmts) [sp_alt true; sp_dq; sp_br]
    ++ map (fun s => cols_sp_check sp_bt (sp_alt false) [] e0 s) all_stmts.
  (** the single-SELECT fragment, with [colshape] *)
  Definition single : list stmt := [
    SInsert tx None (sel1 [ci None "a"; cia None "b" "k"] [tb "t"]);
    SInsert tx (Some ["p"; "q"]) (sel1 [ci None "a"; cia (Some "t") "b" "k"] [tb "t"]);
    SInsert tx None (sel1 [IStar None] [tbs "s" "t" (Some "u")]);
    SCtas tx (sel1 [ci (Some "u") "a"; ci (Some "v") "b"; IStar (Some "u")] [tba "t" "u"; tbs "s" "w" (Some "v")]);
    SView (Some "s", "x") (sel1 [ci None "a"; ci (Some "w") "b"] [tb "t"; tb "w"]);
    SInsert tx (Some ["p"]) (QSelect [ci None "zz"] [tb "t"; tb "w"] true None);
    SQuery (sel1 [ci None "a"] [tb "t"]);
    SNoData 0
  ].
  Definition role_checks :=
    map (fun s => list_eqb (script_pairs e1 false [] [r_stmt_spr fam1 upper [W; Cm] s]) (spec_pairs (e_cfg e1) s)) single
    ++ map (fun s => cols_sp_check_r fam2 (sp_alt true) [W] e0 s) all_stmts.
  Definition single_guards := forallb (fun s => stmt_ok s && sshape s && colshape s && single_select_fragment s) single.
  Definition single_checks :=
    flat_map (fun sp => flat_map (fun kwf => map (fun s => list_eqb (script_pairs e1 false [] [r_stmt_sp sp kwf [W; Cm] s]) (spec_pairs (e_cfg e1) s)) single) kws) sps.
End SpColTests.

Lemma cols_spelling_tests :
  List.length SpColTests.all_stmts > 40 /\ forallb (String.eqb "same") SpColTests.all_checks = true /\
  SpColTests.single_guards = true /\ List.length SpColTests.single_checks = 256 /\ forallb (fun b => b) SpColTests.single_checks = true /\
  forallb (fun b => b) SpColTests.role_checks = true.
Proof. vm_compute. repeat split; lia. Qed.

(** non-vacuity of [lemma_B_spelling_single_select] / [analyze_spelling_single_select] / [script_spelling_single_select] *)
Example lemma_B_spelling_nonvacuous :
  let s := nth 3 SpColTests.single (SNoData 0) in
  let n := [SpTests.W; SpTests.Cm] in
  sp_ok sp_br /\ kw_ok (sp_alt true) /\ noise_ok n = true /\ env_ok SpTests.e1 = true /\
  stmt_ok s = true /\ sshape s = true /\ colshape s = true /\ single_select_fragment s = true /\ cols_nodup s = true /\
  raw (r_stmt_sp sp_br (sp_alt true) [] s) = "CrEaTeTaBlE[x]AsSeLeCt[u].[a],[v].[b],[u].*FrOm[t]As[u]JoIn[s].[w]As[v]On1=1" /\
  script_pairs SpTests.e1 false [] [r_stmt_sp sp_br (sp_alt true) n s] = ["main.t.*>main.x.*"; "main.t.a>main.x.a"; "s.w.b>main.x.b"].
Proof.
  cbv zeta. split; [exact sp_ok_br|]. split; [exact (kw_ok_case_only _ (case_only_alt true))|]. vm_compute. repeat split.
Qed.

(** non-vacuity of [analyze_spelling_single_select] with an INSERT column list (where [cols_nodup] says something),
    and the holder is not trivial *)
Example analyze_spelling_nonvacuous :
  let s := nth 1 SpColTests.single (SNoData 0) in
  stmt_ok s = true /\ single_select_fragment s = true /\ cols_nodup s = true /\ cols_nodup cxB_cols_dup = false /\
  analyze SpTests.e1 false (r_stmt_sp sp_dq upper [SpTests.W] s) = analyze SpTests.e1 false (r_stmt [SpTests.W] s) /\
  script_pairs SpTests.e1 false [] [r_stmt_sp sp_dq upper [SpTests.W] s] = ["main.t.a>main.x.p"; "main.t.b>main.x.q"].
Proof. vm_compute. repeat split. Qed.

Print Assumptions lemma_A_tables_restricted_again.
Print Assumptions analyze_spelling_single_select.
Print Assumptions script_spelling_roles_single_select.
Print Assumptions sp_ok_case_only.
Print Assumptions sp_ok_dq.
Print Assumptions sp_ok_bt.
Print Assumptions sp_ok_br.
Print Assumptions kw_ok_iff.
