(** L4: the extractors of sqllineage/core/parser/sqlfluff/extractors/*.py and the
    dispatch of sqlfluff/analyzer.py, as functions from a statement segment to a
    statement holder graph.  Recursion into sub-queries is by explicit fuel. *)
From SV Require Export Tree.Holder.

Record context := {
  c_cte : option (list dataset);
  c_write : option (list dataset);
  c_write_columns : option (list column)
}.
Definition empty_ctx : context := {| c_cte := None; c_write := None; c_write_columns := None |}.

(** BaseExtractor._init_holder *)
Definition init_holder (c : context) : graph :=
  let g1 := match c_cte c with Some l => fold_left add_cte l empty_graph | None => empty_graph end in
  let g2 := match c_write c with Some l => fold_left add_write l g1 | None => g1 end in
  match c_write_columns c with
  | Some (x :: r) => add_write_column g2 (x :: r)
  | _ => g2
  end.

Definition find_table (e : env) (s : seg) : res (option dataset) :=
  if ty_in s ["table_reference"; "object_reference"] then do t <- table_of_seg e s None; Ok (Some t) else Ok None.

Definition parse_subquery (l : list sqtuple) : list dataset :=
  map (fun p => mk_subquery (fst p) (snd p)) l.

(** BaseExtractor.list_subquery *)
Definition list_subquery (s : seg) : res (list dataset) :=
  match get_children s ["from_expression"] with
  | fe1 :: fe2 :: rest =>
      do ls <- map_res list_subqueries (fe1 :: fe2 :: rest);
      Ok (flat_map parse_subquery ls)
  | _ =>
      if ty_in s ["select_clause"; "from_clause"; "where_clause"]
      then do l <- list_subqueries s; Ok (parse_subquery l)
      else do sq <- is_subquery s; Ok (if sq then [mk_subquery s None] else [])
  end.

Definition is_numeric (s : string) : bool := negb (String.eqb s "") && sforall is_digit s.

(** BaseExtractor._add_dataset_from_expression_element *)
Definition add_dataset_from_fee (e : env) (s : seg) (g : graph) : res (list dataset) :=
  let all_segments := filter (fun x => negb (tyis x "keyword")) (list_child_segments s true) in
  let is_function_source :=
    match get_child s ["table_expression"] with
    | Some te => match get_child te ["function"] with Some _ => true | None => false end
    | None => false
    end in
  if is_function_source then Ok []
  else
    do first_segment <- nth_res all_segments 0;
    let is_values :=
      tyis first_segment "bracketed" &&
      match get_child first_segment ["table_expression"] with
      | Some te => match get_child te ["values_clause"] with Some _ => true | None => false end
      | None => false
      end in
    if is_values then Ok []
    else
      do subqueries <- list_subqueries s;
      match subqueries with
      | _ :: _ => Ok (parse_subquery subqueries)
      | [] =>
          match find_table_identifier s with
          | None => Ok []
          | Some ti =>
              do alias <- (match all_segments with
                           | _ :: a :: _ =>
                               if tyis a "alias_expression" then
                                 let inner := list_child_segments a true in
                                 match inner with
                                 | f :: x :: _ =>
                                     (* after fix F12: the second child is the alias only after AS *)
                                     if tyis f "alias_operator" || (tyis f "keyword" && String.eqb (raw_upper f) "AS")
                                     then Ok (Some (raw x)) else Ok (Some (raw f))
                                 | [x] => Ok (Some (raw x))
                                 | [] => Err EIndex
                                 end
                               else Ok None
                           | _ => Ok None
                           end);
              let cte_hit :=
                if sexists is_dot (raw ti) then None
                else
                  (* cte_dict = {s.alias: s for s in holder.cte}: a later CTE with the same alias wins *)
                  fold_left (fun acc c => if String.eqb (dalias c) (escape (raw ti)) then Some c else acc) (sq_cte g) None in
              match cte_hit with
              | Some c =>
                  match dquery c with
                  | Some q =>
                      let a := match alias with Some a => if String.eqb a "" then raw ti else a | None => raw ti end in
                      Ok [mk_subquery q (Some a)]
                  | None => Err "AttributeError"
                  end
              | None =>
                  if tyis ti "file_reference" then
                    do l <- last_res (children ti); Ok [mk_path (escape (raw l))]
                  else do t <- table_of_seg e ti alias; Ok [t]
              end
          end
      end.

(** BaseExtractor._list_table_from_from_clause_or_join_clause *)
Definition list_tables_one (e : env) (s : seg) (g : graph) : res (list dataset) :=
  match find_from_expression_element s with Some fee => add_dataset_from_fee e fee g | None => Ok [] end.

Definition list_tables (e : env) (s : seg) (g : graph) : res (list dataset) :=
  if ty_in s ["from_clause"; "join_clause"; "update_statement"] then
    match get_children s ["from_expression"] with
    | fe1 :: fe2 :: rest => concat_res (map (fun fe => list_tables_one e fe g) (fe1 :: fe2 :: rest))
    | _ =>
        do first <- list_tables_one e s g;
        do joins <- concat_res (map (fun jc =>
                       (* a join_clause has no nested call to list_join_clause *)
                       if ty_in jc ["from_clause"; "join_clause"; "update_statement"] then
                         match get_children jc ["from_expression"] with
                         | fe1 :: fe2 :: rest => concat_res (map (fun fe => list_tables_one e fe g) (fe1 :: fe2 :: rest))
                         | _ => list_tables_one e jc g
                         end
                       else Ok []) (list_join_clause s));
        Ok (first ++ joins)
    end
  else Ok [].

(** SelectExtractor state *)
Record sel := { s_g : graph; s_tables : list dataset; s_columns : list xcol; s_barriers : list (nat * nat) }.

Definition handle_swap_partition (e : env) (s : seg) (g : graph) : res graph :=
  if e_vertica e && tyis s "select_clause" then
    match get_child s ["select_clause_element"] with
    | Some sce =>
      match get_child sce ["function"] with
      | Some f =>
        match get_child f ["function_name"] with
        | Some fname =>
          if String.eqb (raw_upper fname) "SWAP_PARTITIONS_BETWEEN_TABLES" then
            match get_child f ["function_contents"] with
            | Some fc =>
              match get_child fc ["bracketed"] with
              | Some b =>
                  let es := get_children b ["expression"] in
                  (* after fix F7: fewer than four arguments -> nothing to report *)
                  match nth_error es 0, nth_error es 3 with
                  | Some e0, Some e3 =>
                      do t0 <- mk_table e (escape (raw e0)) None None;
                      let g1 := add_read g t0 in
                      do t3 <- mk_table e (escape (raw e3)) None None;
                      Ok (add_write g1 t3)
                  | _, _ => Ok g
                  end
              | None => Ok g
              end
            | None => Ok g
            end
          else Ok g
        | None => Ok g
        end
      | None => Ok g
      end
    | None => Ok g
    end
  else Ok g.

Definition handle_select_into (e : env) (s : seg) (g : graph) : res graph :=
  if ty_in s ["into_table_clause"; "into_clause"] then
    match find_table_identifier s with
    | Some i => do t <- find_table e i; Ok (match t with Some d => add_write g d | None => g end)
    | None => Ok g
    end
  else Ok g.

Definition handle_child (fuel : nat) (e : env) (st : sel) (s : seg) : res sel :=
  do g1 <- handle_swap_partition e s (s_g st);
  do g2 <- handle_select_into e s g1;
  do ts <- list_tables e s g2;
  do cols <- (if tyis s "select_clause"
              then map_res (column_of_seg fuel e) (get_children s ["select_clause_element"]) else Ok []);
  Ok {| s_g := g2; s_tables := s_tables st ++ ts; s_columns := s_columns st ++ cols; s_barriers := s_barriers st |}.

Inductive xkind := XSelect | XCte | XCreateInsert | XUpdate.

Definition opt_get {A} (o : option A) (d : A) : A := match o with Some x => x | None => d end.

Fixpoint extract (fuel : nat) (e : env) (k : xkind) (stmt : seg) (ctx : context) : res graph :=
  match fuel with
  | O => Err EFuel
  | S f =>
      (* BaseExtractor.extract_subquery *)
      let extract_subquery (subs : list dataset) (g : graph) : res graph :=
        fold_left (fun acc sq =>
          do g' <- acc;
          match dquery sq with
          | None => Err "AttributeError"
          | Some q =>
              let cls := match get_child q ["with_compound_statement"] with Some _ => XCte | None => XSelect end in
              do sh <- extract f e cls q {| c_cte := Some (sq_cte g'); c_write := Some [sq]; c_write_columns := None |};
              Ok (compose g' (set_attr sh [NData sq] "write" false))
          end) subs (Ok g) in
      let delegate (k' : xkind) (s : seg) (g : graph) (with_write : bool) : res graph :=
        do sub <- extract f e k' s
                    (if with_write
                     then {| c_cte := Some (sq_cte g); c_write := Some (sq_write g); c_write_columns := Some (write_columns g) |}
                     else {| c_cte := Some (sq_cte g); c_write := None; c_write_columns := None |});
        Ok (compose g sub) in
      match k with
      | XSelect =>
          let g0 := init_holder ctx in
          let segments := if tyis stmt "set_expression" then [stmt] else list_child_segments stmt true in
          do subqueries <- concat_res (map (fun s =>
              do a <- list_subquery s;
              do b <- (if is_set_expression s
                       then concat_res (map (fun sub => concat_res (map list_subquery (list_child_segments sub true)))
                                            (get_children s ["select_statement"; "bracketed"]))
                       else Ok []);
              Ok (a ++ b)) segments);
          do g1 <- extract_subquery subqueries g0;
          do st <- fold_left (fun acc s =>
                     do st0 <- acc;
                     do st1 <- handle_child f e st0 s;
                     if is_set_expression s then
                       fst (fold_left (fun acc2 sub =>
                              let '(rst, idx) := acc2 in
                              (do st2 <- rst;
                               let st3 := match idx with
                                          | O => st2
                                          | S _ => {| s_g := s_g st2; s_tables := s_tables st2; s_columns := s_columns st2;
                                                      s_barriers := s_barriers st2 ++ [(List.length (s_columns st2), List.length (s_tables st2))] |}
                                          end in
                               fold_left (fun acc3 sg => do st4 <- acc3; handle_child f e st4 sg)
                                         (list_child_segments sub true) (Ok st3), S idx))
                            (get_children s ["select_statement"; "bracketed"]) (Ok st1, 0))
                     else Ok st1)
                   segments (Ok {| s_g := g1; s_tables := []; s_columns := []; s_barriers := [] |});
          do g2 <- end_of_query_cleanup e (s_g st) (s_tables st) (s_columns st) (s_barriers st);
          expand_wildcard e g2
      | XCte =>
          let g0 := init_holder ctx in
          do r <- fold_left (fun acc s =>
                    do a <- acc;
                    let '(g, subs) := a in
                    if ty_in s ["select_statement"; "set_expression"] then do g' <- delegate XSelect s g true; Ok (g', subs)
                    else if tyis s "insert_statement" then do g' <- delegate XCreateInsert s g false; Ok (g', subs)
                    else if tyis s "update_statement" then do g' <- delegate XUpdate s g false; Ok (g', subs)
                    else if tyis s "common_table_expression" then
                      fst (fold_left (fun acc2 sub =>
                             let '(ra, alias) := acc2 in
                             if tyis sub "identifier" then (ra, Some (raw sub))
                             else if tyis sub "bracketed" then
                               ((do a2 <- ra;
                                 let '(g2, subs2) := a2 in
                                 do sqs <- list_subquery sub;
                                 (* sq.alias = alias: the raw, un-normalised CTE name *)
                                 let sqs' := map (fun sq => match alias with
                                                            | Some al => {| dk := dk sq; deq := deq sq; dstr := al; dschema := dschema sq;
                                                                            draw := draw sq; dalias := al; dquery := dquery sq |}
                                                            | None => sq end) sqs in
                                 Ok (add_cte g2 (mk_subquery sub alias), subs2 ++ sqs')), alias)
                             else (ra, alias))
                           (list_child_segments s true) (Ok (g, subs), None))
                    else Ok (g, subs))
                  (list_child_segments stmt true) (Ok (g0, []));
          extract_subquery (snd r) (fst r)
      | XCreateInsert =>
          let g0 := init_holder ctx in
          do r <- fold_left (fun acc s =>
            do a <- acc;
            let '(g, tgt_flag, src_flag) := a in
            (* first the if / elif chain *)
            do step1 <-
              (if tyis s "with_compound_statement" then do g' <- delegate XCte s g true; Ok (g', tgt_flag, src_flag, false)
               else if tyis s "bracketed" && existsb (fun c => tyis c "with_compound_statement") (children s) then
                 do g' <- fold_left (fun accg c => do gg <- accg;
                                                   if tyis c "with_compound_statement" then delegate XCte s gg true else Ok gg)
                                    (children s) (Ok g);
                 Ok (g', tgt_flag, src_flag, false)
               else if ty_in s ["select_statement"; "set_expression"] then
                 do g' <- delegate XSelect s g true; Ok (g', tgt_flag, src_flag, false)
               else if tyis s "values_clause" then
                 do g' <- fold_left (fun accg b =>
                            fold_left (fun accg2 ex =>
                              do gg <- accg2;
                              match get_child ex ["bracketed"] with
                              | Some sb =>
                                match get_child sb ["expression"] with
                                | Some se =>
                                  match get_child se ["select_statement"] with
                                  | Some ss => delegate XSelect ss gg true
                                  | None => Ok gg
                                  end
                                | None => Ok gg
                                end
                              | None => Ok gg
                              end) (get_children b ["expression"]) accg)
                          (get_children s ["bracketed"]) (Ok g);
                 Ok (g', tgt_flag, src_flag, false)
               else if tyis s "bracketed" then
                 match flat_map (crawl ["select_statement"; "set_expression"] false) [s] with
                 | (_ :: _) as sqs =>
                     do g' <- fold_left (fun accg q => do gg <- accg; delegate XSelect q gg true) sqs (Ok g);
                     Ok (g', tgt_flag, src_flag, false)
                 | [] =>
                     let subs := list_child_segments s true in
                     if forallb (fun x => ty_in x ["column_reference"; "column_definition"]) subs then
                       do cols <- map_res (fun x =>
                                   let x' := if tyis x "column_definition"
                                             then match get_child x ["identifier"] with Some i => i | None => x end else x in
                                   do c <- column_of_seg f e x'; Ok (xc c)) subs;
                       Ok (add_write_column g cols, tgt_flag, src_flag, false)
                     else Ok (g, tgt_flag, src_flag, false)
                 end
               else if tyis s "keyword" then
                 let u := raw_upper s in
                 if mem_string u ["INSERT"; "INTO"; "OVERWRITE"; "TABLE"; "VIEW"; "DIRECTORY"]
                    || (tgt_flag && mem_string u ["IF"; "NOT"; "EXISTS"])
                 then Ok (g, true, src_flag, true)
                 else if mem_string u ["LIKE"; "CLONE"] then Ok (g, tgt_flag, true, true)
                 else Ok (g, tgt_flag, src_flag, true)
               else Ok (g, tgt_flag, src_flag, false));
            let '(g1, tf, sf, continued) := step1 in
            if continued then Ok (g1, tf, sf)
            else
              do g2 <- (if tf then
                          if ty_in s ["table_reference"; "object_reference"] then
                            do t <- table_of_seg e s None;
                            let g' := add_write g1 t in
                            if p_truthy (e_provider e) && tyis stmt "insert_statement"
                            then Ok (add_write_column g' (provider_columns e t))
                            else Ok g'
                          else if tyis s "literal" then
                            if is_numeric (raw s) then Ok g1 else Ok (add_write g1 (mk_path (escape (raw s))))
                          else Ok g1
                        else Ok g1);
              do g3 <- (if sf then
                          if ty_in s ["table_reference"; "object_reference"]
                          then do t <- table_of_seg e s None; Ok (add_read g2 t)
                          else Ok g2
                        else Ok g2);
              Ok (g3, false, false))
            (list_child_segments stmt true) (Ok (g0, false, false));
          Ok (fst (fst r))
      | XUpdate =>
          let g0 := init_holder ctx in
          do r <- fold_left (fun acc s =>
            do a <- acc;
            let '(g, tgt_flag, cols, subs) := a in
            do g1 <- (if tyis s "from_expression" then
                        do ts <- list_tables e stmt g;
                        match ts with
                        | [] => Ok g
                        | w :: rs => Ok (fold_left add_read rs (add_write g w))
                        end
                      else Ok g);
            if tyis s "keyword" && String.eqb (raw_upper s) "UPDATE" then Ok (g1, true, cols, subs)
            else
              do g2 <- (if tgt_flag then do t <- find_table e s; Ok (match t with Some d => add_write g1 d | None => g1 end)
                        else Ok g1);
              do cols' <- (if tyis s "set_clause_list" then
                             do cs <- concat_res (map (fun sc =>
                                         match get_children sc ["column_reference"] with
                                         | [c0; c1] =>
                                             do t <- extract_column_qualifier c0;
                                             do sr <- extract_column_qualifier c1;
                                             Ok (match t, sr with
                                                 | Some tq, Some sq => [mk_xcol (fst tq) [sq] false]
                                                 | _, _ => []
                                                 end)
                                         | _ => Ok []
                                         end) (get_children s ["set_clause"]));
                             Ok (cols ++ cs)
                           else Ok cols);
              do r3 <- (if tyis s "from_clause" then
                          do sqs <- list_subquery s;
                          do ts <- list_tables e s g2;
                          Ok (fold_left add_read ts g2, subs ++ sqs)
                        else Ok (g2, subs));
              Ok (fst r3, false, cols', snd r3))
            (list_child_segments stmt true) (Ok (g0, false, [], []));
          let '(g, _, cols, subs) := r in
          do g1 <- fold_left (fun acc x =>
                     do g' <- acc;
                     (* after the fix: no identified target table, no column lineage *)
                     match sq_write g' with
                     | [] => Ok g'
                     | w :: _ =>
                         let tgt := add_parent (xc x) w in
                         do srcs <- to_source_columns e x (get_alias_mapping g' (sq_read g'));
                         fold_left (fun acc2 sc => do g'' <- acc2; add_column_lineage g'' sc tgt) srcs (Ok g')
                     end)
                   cols (Ok g);
          extract_subquery subs g1
      end
  end.

(** StatementLineageHolder.write: only Table / Path *)
Definition st_write (g : graph) : list dataset :=
  filter (fun d => match dk d with KSubq => false | _ => true end) (sq_write g).

Definition plain_col (name : string) (parent : option dataset) : column :=
  {| craw := escape name; cparents := match parent with Some p => [p] | None => [] end |}.

(** MergeExtractor *)
Definition extract_merge (fuel : nat) (e : env) (stmt : seg) : res graph :=
  let segments := list_child_segments stmt true in
  do r <- fst (fold_left (fun accp s =>
    let '(acc, i) := accp in
    (do a <- acc;
     let '(g, tgt_flag, src_flag, direct) := a in
     do step1 <-
       (if tyis s "merge_match" then
          do g1 <- fold_left (fun accg wm =>
                     do gg <- accg;
                     match get_child wm ["merge_update_clause"] with
                     | Some muc =>
                       match get_child muc ["set_clause_list"] with
                       | Some scl =>
                           fold_left (fun accg2 sc =>
                             do g2 <- accg2;
                             match get_children sc ["column_reference"] with
                             | [c0; c1] =>
                                 do sq <- extract_column_qualifier c1;
                                 (* after fix F11: without an identified target the target column is not looked at *)
                                 do tcol <- (match st_write g2 with
                                             | w :: _ =>
                                                 do tq <- extract_column_qualifier c0;
                                                 Ok (match tq with Some t => Some (plain_col (fst t) (Some w)) | None => None end)
                                             | [] => Ok None
                                             end);
                                 match sq, tcol with
                                 | Some sc0, Some tc => add_column_lineage g2 (plain_col (fst sc0) direct) tc
                                 | _, _ => Ok g2
                                 end
                             | _ => Ok g2
                             end) (get_children scl ["set_clause"]) (Ok gg)
                       | None => Ok gg
                       end
                     | None => Ok gg
                     end) (get_children s ["merge_when_matched_clause"]) (Ok g);
          do g2 <- fold_left (fun accg wn =>
                     do gg <- accg;
                     match get_child wn ["merge_insert_clause"] with
                     | Some mi =>
                       match get_child mi ["bracketed"] with
                       | Some b =>
                           do ins <- concat_res (map (fun cr =>
                                       match st_write gg with
                                       | w :: _ =>
                                           do q <- extract_column_qualifier cr;
                                           match q with
                                           | Some c => Ok [plain_col (fst c) (Some w)]
                                           | None => Ok []
                                           end
                                       | [] => Ok []
                                       end) (get_children b ["column_reference"]));
                           match get_child mi ["values_clause"] with
                           | Some vc =>
                             match get_child vc ["bracketed"] with
                             | Some vb =>
                                 fst (fold_left (fun acc3 ex =>
                                        let '(rg, j) := acc3 in
                                        (do g3 <- rg;
                                         match get_child ex ["column_reference"] with
                                         | Some cro =>
                                             do q <- extract_column_qualifier cro;
                                             match q with
                                             | Some c =>
                                                 (* after fix F6: a value beyond the insert column list is skipped *)
                                                 match nth_error ins j with
                                                 | Some tc => add_column_lineage g3 (plain_col (fst c) direct) tc
                                                 | None => Ok g3
                                                 end
                                             | None => Ok g3
                                             end
                                         | None => Ok g3
                                         end, S j)) (get_children vb ["literal"; "expression"]) (Ok gg, 0))
                             | None => Ok gg
                             end
                           | None => Ok gg
                           end
                       | None => Ok gg
                       end
                     | None => Ok gg
                     end) (get_children s ["merge_when_not_matched_clause"]) (Ok g1);
          Ok (g2, tgt_flag, src_flag, direct, false)
        else if tyis s "keyword" then
          let u := raw_upper s in
          if mem_string u ["MERGE"; "INTO"] then Ok (g, true, src_flag, direct, true)
          else if String.eqb u "USING" then Ok (g, tgt_flag, true, direct, true)
          else Ok (g, tgt_flag, src_flag, direct, true)
        else Ok (g, tgt_flag, src_flag, direct, false));
     let '(g1, tf, sf, dr, continued) := step1 in
     if continued then Ok (g1, tf, sf, dr)
     else
       do g2 <- (if tf then do t <- find_table e s; Ok (match t with Some d => add_write g1 d | None => g1 end) else Ok g1);
       if sf then
         do t <- find_table e s;
         match t with
         | Some d => Ok (add_read g2 d, false, false, Some d)
         | None =>
             if tyis s "bracketed" then
               do nx <- nth_res segments (S i);
               do alias <- (if tyis nx "alias_expression" then do a <- extract_identifier nx; Ok (Some a) else Ok None);
               let q := extract_innermost_bracketed s in
               let ds := mk_subquery q alias in
               let g3 := add_read g2 ds in
               let cls := match get_child q ["with_compound_statement"] with Some _ => XCte | None => XSelect end in
               do sub <- extract fuel e cls q {| c_cte := Some (sq_cte g3); c_write := Some [ds]; c_write_columns := None |};
               Ok (compose g3 sub, false, false, Some ds)
             else Ok (g2, false, false, dr)
         end
       else Ok (g2, false, sf, dr), S i))
    segments (Ok (empty_graph, false, false, None), 0));
  Ok (fst (fst (fst r))).

Definition extract_copy (e : env) (stmt : seg) : res graph :=
  do r <- fold_left (fun (acc : res (graph * bool * bool)) s =>
    do a <- acc;
    let '(g, tf, sf) := a in
    if tyis s "from_clause" then
      let g1 := match find_from_expression_element s with
                | Some fee =>
                    fold_left (fun gg te => match get_child te ["storage_location"] with
                                            | Some sl => add_read gg (mk_path (raw sl))
                                            | None => gg end) (get_children fee ["table_expression"]) g
                | None => g
                end in
      (* no continue in this branch: flags are consulted below *)
      do g2 <- (if tf then do t <- find_table e s; Ok (match t with Some d => add_write g1 d | None => g1 end) else Ok g1);
      Ok (g2, false, false)
    else if tyis s "keyword" then
      let u := raw_upper s in
      if mem_string u ["COPY"; "INTO"] then Ok (g, true, sf)
      else if String.eqb u "FROM" then Ok (g, tf, true)
      else Ok (g, tf, sf)
    else
      do g1 <- (if tf then do t <- find_table e s; Ok (match t with Some d => add_write g d | None => g end) else Ok g);
      let g2 := if sf && ty_in s ["literal"; "storage_location"] then add_read g1 (mk_path (escape (raw s))) else g1 in
      Ok (g2, false, false))
    (list_child_segments stmt true) (Ok (empty_graph, false, false));
  Ok (fst (fst r)).

Definition extract_drop (e : env) (stmt : seg) : res graph :=
  do r <- fold_left (fun (acc : res (graph * bool)) s =>
    do a <- acc;
    let '(g, flag) := a in
    if (tyis s "keyword" && mem_string (raw_upper s) ["TABLE"; "VIEW"]) || (flag && mem_string (raw_upper s) ["IF"; "EXISTS"])
    then Ok (g, true)
    else if flag then
      do t <- find_table e s;
      Ok (match t with Some d => add_node g (NData d) [("drop", true)] | None => g end, false)
    else Ok (g, flag))
    (list_child_segments stmt true) (Ok (empty_graph, false));
  Ok (fst r).

Definition rename_edge : eattrs := {| etype := "rename"; eindex := None |}.

Fixpoint pair_up (l : list dataset) : list (dataset * dataset) :=
  match l with a :: b :: r => (a, b) :: pair_up r | _ => [] end.

Definition extract_rename (e : env) (stmt : seg) : res graph :=
  do tables <- concat_res (map (fun t => do x <- find_table e t; Ok (match x with Some d => [d] | None => [] end)) (children stmt));
  let keywords := filter (fun t => tyis t "keyword") (children stmt) in
  if existsb (fun k => String.eqb (raw_upper k) "RENAME") keywords && Nat.even (List.length tables) then
    Ok (fold_left (fun g p => add_edge g (NData (fst p)) (NData (snd p)) rename_edge) (pair_up tables) empty_graph)
  else if existsb (fun k => mem_string (raw_upper k) ["EXCHANGE"; "SWAP"]) keywords && Nat.eqb (List.length tables) 2 then
    match tables with
    | [a; b] => Ok (add_read (add_write empty_graph a) b)
    | _ => Ok empty_graph
    end
  else Ok empty_graph.

Definition NOOP_TYPES := ["delete_statement"; "truncate_table"; "refresh_statement"; "cache_table"; "uncache_table";
  "show_statement"; "describe_statement"; "use_statement"; "declare_segment"; "analyze_statement"; "add_jar_statement";
  "create_function_statement"; "drop_function_statement"; "set_statement"].

Definition EUnsupported := "UnsupportedStatementException".

(** SqlFluffLineageAnalyzer.analyze on the statement segment *)
Definition analyze (e : env) (silent : bool) (stmt : seg) : res graph :=
  let fuel := 3 * depth stmt + 10 in
  let t := ty stmt in
  if mem_string t ["select_statement"; "set_expression"; "bracketed"] then extract fuel e XSelect stmt empty_ctx
  else if mem_string t ["create_table_statement"; "create_table_as_statement"; "create_view_statement";
                        "insert_statement"; "insert_overwrite_directory_hive_fmt_statement"]
       then extract fuel e XCreateInsert stmt empty_ctx
  else if String.eqb t "with_compound_statement" then extract fuel e XCte stmt empty_ctx
  else if String.eqb t "update_statement" then extract fuel e XUpdate stmt empty_ctx
  else if String.eqb t "merge_statement" then extract_merge fuel e stmt
  else if mem_string t ["copy_statement"; "copy_into_table_statement"] then extract_copy e stmt
  else if mem_string t ["drop_table_statement"; "drop_view_statement"] then extract_drop e stmt
  else if mem_string t ["alter_table_statement"; "rename_statement"; "rename_table_statement"] then extract_rename e stmt
  else if mem_string t NOOP_TYPES then Ok empty_graph
  else if silent then Ok empty_graph
  else Err EUnsupported.

Definition show_analysis (e : env) (silent : bool) (stmt : seg) : string :=
  match analyze e silent stmt with
  | Ok g => show_graph g
  | Err x => "ERR:" ++ x
  end.
